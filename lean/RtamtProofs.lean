import RtamtProofs.Lemmas.Lawful
import RtamtProofs.Lemmas.Tab
import RtamtProofs.Lemmas.Instance
import RtamtProofs.Lemmas.OffScan
import RtamtProofs.Lemmas.OffTimed1
import RtamtProofs.Lemmas.OffTimed2
import RtamtProofs.C01
import RtamtProofs.C01Table
