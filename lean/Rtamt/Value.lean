/-
  Values of the robustness computation.

  `Val` is an operations-only class: everything the Python code does with a
  sample (`<`, unary minus, `abs`, `+ - * /`, `math.sqrt/exp/log/pow`,
  `float("inf")`).  The model functions are polymorphic in `[Val α]`; the driver
  runs them on `Float` (bit-for-bit CPython doubles), the theorems assume
  `LawfulVal` (RtamtProofs/Lemmas/Lawful.lean).

  `pmin`/`pmax` reproduce CPython's `min(a, b)` / `max(a, b)`:
    min(a, b) = b if b < a else a        max(a, b) = b if b > a else a
  (so ties and NaN resolve to the first argument, as in CPython).
-/
namespace Rtamt

class Val (α : Type) where
  lt   : α → α → Bool
  neg  : α → α
  abs  : α → α
  add  : α → α → α
  sub  : α → α → α
  mul  : α → α → α
  div  : α → α → α
  pinf : α
  ninf : α
  zero : α
  sqrt : α → α
  exp  : α → α
  ln   : α → α
  pow  : α → α → α
  log  : α → α → α   -- log(x, base)

namespace Val
variable {α : Type} [Val α]

/-- CPython `min(a, b)`. -/
@[inline] def pmin (a b : α) : α := if Val.lt b a then b else a
/-- CPython `max(a, b)`. -/
@[inline] def pmax (a b : α) : α := if Val.lt a b then b else a

/-- CPython `min(l)` for a non-empty list is a left fold of `min`; we use the
    neutral element as start, which is what every call site in the code pads
    with.  `max([])`/`min([])` (a `ValueError`) are modelled separately where the
    code can reach them. -/
def lmaxFrom (init : α) (l : List α) : α := l.foldl pmax init
def lminFrom (init : α) (l : List α) : α := l.foldl pmin init
def lmax (l : List α) : α := lmaxFrom ninf l
def lmin (l : List α) : α := lminFrom pinf l

end Val

/-- The `Float` instance: the operations CPython performs on doubles. -/
instance : Val Float where
  lt a b := a < b
  neg a := -a
  abs a := Float.abs a
  add a b := a + b
  sub a b := a - b
  mul a b := a * b
  div a b := a / b
  pinf := 1.0 / 0.0
  ninf := -1.0 / 0.0
  zero := 0.0
  sqrt := Float.sqrt
  exp := Float.exp
  ln := Float.log
  pow := Float.pow
  log a b := Float.log a / Float.log b

end Rtamt
