/-
  Core abstract syntax: one constructor (or one operator tag) per node class of
  `rtamt/syntax/node/**`.  Temporal bounds are in samples (the result of
  `time_unit_transformer`, see `Rtamt/Units.lean` for the surface form).

  Python class            Lean
  ---------------------   -----------------------------
  Variable                var x
  Constant                const c
  Abs Sqrt Exp Ln Negate Neg(not)                      un  op φ
  Addition Subtraction Multiplication Division Pow Log
  Predicate(6 operators) Conjunction Disjunction
  Implies Iff Xor                                      bin op φ ψ
  Rise Fall Previous StrongPrevious Next StrongNext    tmp1 op φ
  Once Historically Eventually Always                  tmp1 op φ
  Since Until                                          tmp2 op φ ψ
  TimedOnce TimedHistorically TimedEventually
  TimedAlways                                          tb1 op a b φ
  TimedSince TimedUntil TimedPrecedes                  tb2 op a b φ ψ
-/
import Rtamt.Value

namespace Rtamt

inductive Cmp | lt | le | gt | ge | eq | ne
  deriving DecidableEq, Repr, Inhabited

/-- Point-wise unary operators. -/
inductive Un | abs | sqrt | exp | ln | negate | not
  deriving DecidableEq, Repr, Inhabited

/-- Point-wise binary operators. -/
inductive Bin | add | sub | mul | div | pow | log | pred (c : Cmp) | and | or | implies | iff | xor
  -- the predicate node as evaluated by the interface-aware (IA) semantics when it is insensitive:
  -- `predSat c`: +inf where the comparison holds, -inf where it does not; `predZero`: 0
  | predSat (c : Cmp) | predZero
  deriving DecidableEq, Repr, Inhabited

/-- Unary temporal / event operators without bounds. -/
inductive T1 | rise | fall | prev | sprev | next | snext | once | hist | ev | alw
  deriving DecidableEq, Repr, Inhabited

inductive T2 | since | until
  deriving DecidableEq, Repr, Inhabited

inductive TB1 | once | hist | ev | alw
  deriving DecidableEq, Repr, Inhabited

inductive TB2 | since | until | precedes
  deriving DecidableEq, Repr, Inhabited

inductive F (α : Type) where
  | var   (x : String)
  | const (c : α)
  | un    (op : Un) (φ : F α)
  | bin   (op : Bin) (φ ψ : F α)
  | tmp1  (op : T1) (φ : F α)
  | tmp2  (op : T2) (φ ψ : F α)
  | tb1   (op : TB1) (a b : Nat) (φ : F α)
  | tb2   (op : TB2) (a b : Nat) (φ ψ : F α)
  deriving DecidableEq, Repr, Inhabited

/-- The node classes of the Python AST (for the source-derived table). -/
inductive Kind
  | Variable | Constant | Predicate
  | Abs | Sqrt | Exp | Ln | Negate | Neg
  | Addition | Subtraction | Multiplication | Division | Pow | Log
  | Conjunction | Disjunction | Implies | Iff | Xor
  | Rise | Fall | Previous | StrongPrevious | Next | StrongNext
  | Once | Historically | Eventually | Always | Since | Until
  | TimedOnce | TimedHistorically | TimedEventually | TimedAlways
  | TimedSince | TimedUntil | TimedPrecedes
  deriving DecidableEq, Repr, Inhabited

def Kind.all : List Kind :=
  [.Variable, .Constant, .Predicate, .Abs, .Sqrt, .Exp, .Ln, .Negate, .Neg,
   .Addition, .Subtraction, .Multiplication, .Division, .Pow, .Log,
   .Conjunction, .Disjunction, .Implies, .Iff, .Xor,
   .Rise, .Fall, .Previous, .StrongPrevious, .Next, .StrongNext,
   .Once, .Historically, .Eventually, .Always, .Since, .Until,
   .TimedOnce, .TimedHistorically, .TimedEventually, .TimedAlways,
   .TimedSince, .TimedUntil, .TimedPrecedes]

def Un.kind : Un → Kind
  | .abs => .Abs | .sqrt => .Sqrt | .exp => .Exp | .ln => .Ln | .negate => .Negate | .not => .Neg

def Bin.kind : Bin → Kind
  | .add => .Addition | .sub => .Subtraction | .mul => .Multiplication | .div => .Division
  | .pow => .Pow | .log => .Log | .pred _ => .Predicate | .and => .Conjunction | .or => .Disjunction
  | .implies => .Implies | .iff => .Iff | .xor => .Xor | .predSat _ => .Predicate | .predZero => .Predicate

def T1.kind : T1 → Kind
  | .rise => .Rise | .fall => .Fall | .prev => .Previous | .sprev => .StrongPrevious
  | .next => .Next | .snext => .StrongNext | .once => .Once | .hist => .Historically
  | .ev => .Eventually | .alw => .Always

def T2.kind : T2 → Kind
  | .since => .Since | .until => .Until

def TB1.kind : TB1 → Kind
  | .once => .TimedOnce | .hist => .TimedHistorically | .ev => .TimedEventually | .alw => .TimedAlways

def TB2.kind : TB2 → Kind
  | .since => .TimedSince | .until => .TimedUntil | .precedes => .TimedPrecedes

namespace F
variable {α : Type}

/-- Node classes occurring in a formula. -/
def kinds : F α → List Kind
  | var _ => [.Variable]
  | const _ => [.Constant]
  | un op φ => op.kind :: kinds φ
  | bin op φ ψ => op.kind :: (kinds φ ++ kinds ψ)
  | tmp1 op φ => op.kind :: kinds φ
  | tmp2 op φ ψ => op.kind :: (kinds φ ++ kinds ψ)
  | tb1 op _ _ φ => op.kind :: kinds φ
  | tb2 op _ _ φ ψ => op.kind :: (kinds φ ++ kinds ψ)

def vars : F α → List String
  | var x => [x]
  | const _ => []
  | un _ φ => vars φ
  | bin _ φ ψ => vars φ ++ vars ψ
  | tmp1 _ φ => vars φ
  | tmp2 _ φ ψ => vars φ ++ vars ψ
  | tb1 _ _ _ φ => vars φ
  | tb2 _ _ _ φ ψ => vars φ ++ vars ψ

/-- Every interval has `a ≤ b` (the parser's side condition, C14). -/
def wf : F α → Bool
  | var _ => true
  | const _ => true
  | un _ φ => wf φ
  | bin _ φ ψ => wf φ && wf ψ
  | tmp1 _ φ => wf φ
  | tmp2 _ φ ψ => wf φ && wf ψ
  | tb1 _ a b φ => decide (a ≤ b) && wf φ
  | tb2 _ a b φ ψ => decide (a ≤ b) && wf φ && wf ψ

def size : F α → Nat
  | var _ => 1
  | const _ => 1
  | un _ φ => size φ + 1
  | bin _ φ ψ => size φ + size ψ + 1
  | tmp1 _ φ => size φ + 1
  | tmp2 _ φ ψ => size φ + size ψ + 1
  | tb1 _ _ _ φ => size φ + 1
  | tb2 _ _ _ φ ψ => size φ + size ψ + 1

end F

/-- Point-wise meaning of the unary operators (what each `visitX`/`XOperation.update`
    applies to one sample). -/
def Un.app {α} [Val α] : Un → α → α
  | .abs, a => Val.abs a
  | .sqrt, a => Val.sqrt a
  | .exp, a => Val.exp a
  | .ln, a => Val.ln a
  | .negate, a => Val.neg a
  | .not, a => Val.neg a

def Cmp.app {α} [Val α] : Cmp → α → α → α
  | .eq, l, r => Val.neg (Val.abs (Val.sub l r))
  | .ne, l, r => Val.abs (Val.sub l r)
  | .le, l, r => Val.sub r l
  | .lt, l, r => Val.sub r l
  | .ge, l, r => Val.sub l r
  | .gt, l, r => Val.sub l r

/-- Truth of a comparison between two values (`PredicateOperation.sat`). -/
def Cmp.holds {α} [Val α] : Cmp → α → α → Bool
  | .lt, l, r => Val.lt l r
  | .le, l, r => !Val.lt r l
  | .gt, l, r => Val.lt r l
  | .ge, l, r => !Val.lt l r
  | .eq, l, r => !Val.lt l r && !Val.lt r l
  | .ne, l, r => Val.lt l r || Val.lt r l

def Bin.app {α} [Val α] : Bin → α → α → α
  | .add, l, r => Val.add l r
  | .sub, l, r => Val.sub l r
  | .mul, l, r => Val.mul l r
  | .div, l, r => Val.div l r
  | .pow, l, r => Val.pow l r
  | .log, l, r => Val.log l r
  | .pred c, l, r => c.app l r
  | .and, l, r => Val.pmin l r
  | .or, l, r => Val.pmax l r
  | .implies, l, r => Val.pmax (Val.neg l) r
  | .iff, l, r => Val.neg (Val.abs (Val.sub l r))
  | .xor, l, r => Val.abs (Val.sub l r)
  | .predSat c, l, r => if c.holds l r then Val.pinf else Val.ninf
  | .predZero, _, _ => Val.zero

end Rtamt
