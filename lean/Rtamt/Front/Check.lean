/-
  M-alg: the side conditions the parser visitor checks while building the AST
  (`visitInterval`: 0 <= begin <= end on the durations; `visitConstantTimeLiteral`: bound
  constants must be declared), literal conversion (`literal_to_number`), and a serialisation of
  the parse tree for the correspondence check.
-/
import Rtamt.Front.Parser

namespace Rtamt.Front
open Rtamt

/-- Value of a digit character in base ≤ 16. -/
def digitVal (c : Char) : Option Nat :=
  if c.isDigit then some (c.toNat - '0'.toNat)
  else if 'a' ≤ c && c ≤ 'f' then some (c.toNat - 'a'.toNat + 10)
  else if 'A' ≤ c && c ≤ 'F' then some (c.toNat - 'A'.toNat + 10)
  else none

def natOfDigits (base : Nat) (cs : List Char) : Option Nat :=
  cs.foldlM (fun acc c => (digitVal c).bind (fun d => if d < base then some (acc * base + d) else none)) 0

/-- Exact value of an `IntegerLiteral` / `RealLiteral` (underscores removed; `0x`/`0b` integers;
    decimal fraction and exponent), as `literal_to_number` + `Decimal` compute it. -/
def litToRat (s : String) : Option Rat :=
  let cs := s.toList.filter (· != '_')
  match cs with
  | '0' :: x :: rest =>
      if x == 'x' || x == 'X' then (natOfDigits 16 rest).map (fun n => (n : Rat))
      else if x == 'b' || x == 'B' then (natOfDigits 2 rest).map (fun n => (n : Rat))
      else decimal cs
  | _ => decimal cs
where
  decimal (cs : List Char) : Option Rat :=
    let mant := cs.takeWhile (fun c => c != 'e' && c != 'E')
    let ex := (cs.dropWhile (fun c => c != 'e' && c != 'E')).drop 1
    let ip := mant.takeWhile (· != '.')
    let fp := (mant.dropWhile (· != '.')).drop 1
    match natOfDigits 10 ip, natOfDigits 10 fp with
    | some i, some f =>
        let m : Rat := (i : Rat) + (f : Rat) / ((10 : Rat) ^ fp.length)
        if ex.isEmpty then some m else
        let (neg, digs) := match ex with
          | '-' :: r => (true, r)
          | '+' :: r => (false, r)
          | r => (false, r)
        (natOfDigits 10 digs).map (fun e => if neg then m / ((10 : Rat) ^ e) else m * ((10 : Rat) ^ e))
    | _, _ => none

/-- Number and unit of one interval bound; declared constants are looked up (value text). -/
def ivTimeVal (consts : List (String × String)) : IvTime → Except ParseErr (Rat × Option TUnit)
  | .lit s u => match litToRat s with
                | some q => .ok (q, u)
                | none => .error (.semantic "bad literal")
  | .const n u => match consts.lookup n with
                  | some v => match litToRat v with
                              | some q => .ok (q, u)
                              | none => .error (.semantic "bad constant value")
                  | none => .error (.semantic "Bound not declared")

/-- `visitInterval`: `0 <= begin <= end` as durations (a missing unit defaulted as in
    `time_unit_transformer`). -/
def checkIv (consts : List (String × String)) (unit : TUnit) (iv : PIv) : Except ParseErr SIv := do
  let (b, bu) ← ivTimeVal consts iv.b
  let (e, eu) ← ivTimeVal consts iv.e
  let i : SIv := { b := b, e := e, bu := bu, eu := eu }
  let (db, de) := i.durNs unit
  if b < 0 ∨ db > de then throw (.semantic "0 <= begin <= end") else pure i

/-- Attributes of a number that are numbers again (`operator.attrgetter(tail)(var)` must be an int or a float): a float has
    `real` and `imag` (floats), an int also `numerator` and `denominator` (ints); a complex number has `real` and `imag`
    (floats) but is not a number itself. -/
def attrType (ty attr : String) : Option String :=
  if ty = "float" then (if attr = "real" ∨ attr = "imag" then some "float" else none)
  else if ty = "int" then (if attr = "real" ∨ attr = "imag" ∨ attr = "numerator" ∨ attr = "denominator" then some "int" else none)
  else if ty = "complex" then (if attr = "real" ∨ attr = "imag" then some "float" else none)
  else none

def attrChain (ty : String) : List String → Option String
  | [] => some ty
  | a :: rest => match attrType ty a with
                 | some t => attrChain t rest
                 | none => none

/-- An identifier `head.f1.f2…` in an expression (`expr = true`) or as the name of an assertion: `x.` (empty tail) is `x`;
    the head has to be a declared variable, and the chain of attributes has to lead from a value of its type to an int or a
    float (RTAMTException otherwise: undeclared head of unknown type, AttributeError, field not of type int or float).  In an
    expression a declared variable without tail has to be an int or a float itself. -/
def checkDotted (vars : List (String × String)) (expr : Bool) (s : String) : Except ParseErr Unit :=
  match s.splitOn "." with
  | [] => .ok ()
  | [_] => match vars.lookup s with
           | some ty => if ty = "float" ∨ ty = "int" then .ok () else .error (.semantic "variable is not of type int or float")
           | none => .ok ()                                   -- implicitly declared as float
  | head :: tail =>
      let tail := if tail = [""] then [] else tail
      match vars.lookup head with
      | none => if tail = [] then .ok () else .error (.semantic "refers to undeclared variable of unknown type")
      | some ty =>
          match attrChain ty tail with
          | some t => if t = "float" ∨ t = "int" then .ok ()
                      else if expr ∨ tail ≠ [] then .error (.semantic "not of type int or float") else .error (.semantic "not of type int or float")
          | none => .error (.semantic "field access on a value that has no such numeric attribute")

/-- All intervals of an expression, in the order the visitor meets them (children first). -/
def PE.check (vars : List (String × String)) (consts : List (String × String)) (unit : TUnit) : PE → Except ParseErr Unit
  -- `x.f` reads the field `f` of an object-typed variable `x`; only float / int variables are modelled, for which
  -- the visitor raises RTAMTException (undeclared head of unknown type, or attribute error on a number)
  | .id s => checkDotted vars true s
  | .lit s => match litToRat s with | some _ => .ok () | none => .error (.semantic "bad literal")
  | .pre _ iv e => do
      PE.check vars consts unit e
      match iv with
      | some i => discard (checkIv consts unit i)
      | none => pure ()
  | .fn1 _ e => PE.check vars consts unit e
  | .fn2 _ e1 e2 => do PE.check vars consts unit e1; PE.check vars consts unit e2
  | .bin _ iv l r => do
      PE.check vars consts unit l
      PE.check vars consts unit r
      match iv with
      | some i => discard (checkIv consts unit i)
      | none => pure ()

/-- `parse()`: lexing, parsing, then the visitor's checks. `apiConsts`: constants declared through
    `declare_const`; constants declared in the text are added in order. -/
def parseAndCheck (apiConsts : List (String × String)) (unit : TUnit) (text : String) :
    Except ParseErr PSpec := do
  let spec ← parseText text
  -- entries `@x = type` of the list given by the caller are the variables declared through the API (`declare_var`)
  let apiVars := apiConsts.filterMap (fun p => if p.1.startsWith "@" then some ((p.1.drop 1).toString, p.2) else none)
  let apiConsts := apiConsts.filter (fun p => !p.1.startsWith "@")
  let consts := spec.decls.foldl (fun acc d => match d with
      | .const _ n v => (n, v) :: acc
      | _ => acc) apiConsts
  let declVars := spec.decls.foldl (fun acc d => match d with
      | .var _ ty n => (n, ty) :: acc
      | _ => acc) apiVars
  -- `declare_var` → `create_var_from_name`: only float / int / complex are built in; any other type
  -- must have been imported (imports are not modelled) — RTAMTException otherwise
  for d in spec.decls do
    match d with
    | .var _ ty _ => if ty = "float" ∨ ty = "int" ∨ ty = "complex" then pure () else throw (.semantic "type not imported")
    | _ => pure ()
  -- the name of an assertion is a (float) variable for the assertions that follow
  let mut vars := declVars
  for (nm, e) in spec.asserts do
    PE.check vars consts unit e
    match nm with
    | some n =>
        checkDotted vars false n
        if !(n.contains '.') && (vars.lookup n).isNone then vars := (n, "float") :: vars
    | none => pure ()
  pure spec

/-! ### serialisation (prefix notation, one token per item) -/

def BinOp.str : BinOp → String
  | .mul => "*" | .div => "/" | .add => "+" | .sub => "-"
  | .cmp .lt => "<" | .cmp .le => "<=" | .cmp .gt => ">" | .cmp .ge => ">=" | .cmp .eq => "==" | .cmp .ne => "!="
  | .until_ => "until" | .unless => "unless" | .since => "since" | .and => "and" | .or => "or"
  | .implies => "->" | .iff => "<->" | .xor => "xor"

def PreOp.str : PreOp → String
  | .negate => "-" | .not => "not" | .always => "always" | .eventually => "eventually"
  | .historically => "historically" | .once => "once" | .prev => "previous" | .next => "next"
  | .sprev => "s_previous" | .snext => "s_next"

def Fn1.str : Fn1 → String
  | .abs => "abs" | .sqrt => "sqrt" | .exp => "exp" | .ln => "ln" | .rise => "rise" | .fall => "fall"

def unitStr : Option TUnit → String
  | some .s => "s" | some .ms => "ms" | some .us => "us" | some .ns => "ns" | none => "-"

def IvTime.str : IvTime → String
  | .lit s u => s!"L {s} {unitStr u}"
  | .const n u => s!"C {n} {unitStr u}"

def ivStr : Option PIv → String
  | some i => s!"[ {i.b.str} {i.e.str} ]"
  | none => "_"

def PE.str : PE → String
  | .id s => s!"id {s}"
  | .lit s => s!"lit {s}"
  | .pre op iv e => s!"pre {op.str} {ivStr iv} {e.str}"
  | .fn1 f e => s!"fn1 {f.str} {e.str}"
  | .fn2 .pow a b => s!"fn2 pow {a.str} {b.str}"
  | .fn2 .log a b => s!"fn2 log {a.str} {b.str}"
  | .bin op iv l r => s!"bin {op.str} {ivStr iv} {l.str} {r.str}"

def PSpec.str (p : PSpec) : String :=
  " ;; ".intercalate (p.asserts.map (fun (n, e) => s!"{n.getD "_"} = {e.str}"))

end Rtamt.Front
