/-
  M-alg: the lexer of `rtamt/antlr/grammar/tl/LtlLexer.g4` (ANTLR semantics: at every
  position the longest match wins, ties go to the rule listed first; white space and
  comments are skipped; a character that starts no token is an error — the lexer error
  listener raises RTAMTException).

  Structure of the model: a word (maximal run of identifier characters starting with an
  identifier start) is a keyword if it *is* one of the keyword strings (all keyword rules
  precede `Identifier`, so they win the tie) and an identifier otherwise (the identifier
  match is longer than any keyword prefix); numbers follow the `IntegerLiteral` /
  `RealLiteral` fragments; symbols are matched longest first.
-/
namespace Rtamt.Front

inductive Tok
  | minus | plus | times | divide | lparen | rparen | lbrace | rbrace | lbrack | rbrack
  | semicolon | colon | comma | dot | at
  | abs | sqrt | exp | pow | log | ln
  | sec | msec | usec | nsec | psec
  | rosTopic | import_ | input | output | internal | constant
  | tReal | tFloat | tLong | tComplex | tInt | tBool
  | assertion | specification | from_
  | not | or | and | iff | implies | xor | rise | fall
  | always | eventually | until_ | unless | historically | once | since | next | previous
  | strongNext | strongPrevious
  | eqeq | neq | ge | le | gt | lt | equal
  | boolLit (s : String)
  | intLit (s : String)
  | realLit (s : String)
  | ident (s : String)
  deriving DecidableEq, Repr, Inhabited

/-- The keyword table (every fixed-string rule made of identifier characters), in the
    order of the grammar file. Aliases map to the same token. -/
def keyword : String → Option Tok
  | "abs" => some .abs | "sqrt" => some .sqrt | "exp" => some .exp | "pow" => some .pow
  | "log" => some .log | "ln" => some .ln
  | "s" => some .sec | "ms" => some .msec | "us" => some .usec | "ns" => some .nsec | "ps" => some .psec
  | "topic" => some .rosTopic | "import" => some .import_ | "input" => some .input | "output" => some .output
  | "internal" => some .internal | "const" => some .constant
  | "real" => some .tReal | "float" => some .tFloat | "long" => some .tLong | "complex" => some .tComplex
  | "int" => some .tInt | "bool" => some .tBool
  | "assertion" => some .assertion | "specification" => some .specification | "from" => some .from_
  | "not" => some .not | "or" => some .or | "and" => some .and | "iff" => some .iff
  | "implies" => some .implies | "xor" => some .xor | "rise" => some .rise | "fall" => some .fall
  | "always" => some .always | "G" => some .always
  | "eventually" => some .eventually | "F" => some .eventually
  | "until" => some .until_ | "U" => some .until_
  | "unless" => some .unless | "W" => some .unless
  | "historically" => some .historically | "H" => some .historically
  | "once" => some .once | "O" => some .once
  | "since" => some .since | "S" => some .since
  | "next" => some .next | "X" => some .next
  | "prev" => some .previous | "Y" => some .previous
  | "s_next" => some .strongNext | "sX" => some .strongNext
  | "s_prev" => some .strongPrevious | "sY" => some .strongPrevious
  | "true" => some (.boolLit "true") | "TRUE" => some (.boolLit "TRUE")
  | "false" => some (.boolLit "false") | "FALSE" => some (.boolLit "FALSE")
  | _ => none

def isLetter (c : Char) : Bool := c.isAlpha
def isIdStart (c : Char) : Bool := isLetter c || c == '_' || c == '$'
def isDigit (c : Char) : Bool := c.isDigit
def isIdPart (c : Char) : Bool := isIdStart c || isDigit c || c == '.' || c == '/'
def isHex (c : Char) : Bool := isDigit c || ('a' ≤ c && c ≤ 'f') || ('A' ≤ c && c ≤ 'F')
def isBin (c : Char) : Bool := c == '0' || c == '1'
def isWs (c : Char) : Bool := c == ' ' || c == '\t' || c == '\r' || c == '\n' || c == '\x0c'

/-- Longest prefix of `cs` matching  `D ((D|_)* D)?`  for the digit class `d`
    (fragments `Digits`, `HexDigits`, `BinaryDigits`); 0 if the first character is not in `d`. -/
def digitsLen (d : Char → Bool) (cs : List Char) : Nat :=
  match cs with
  | [] => 0
  | c :: rest =>
      if !d c then 0 else
      -- scan the run of (d | '_'), remember the position after the last character in `d`
      let rec go (l : List Char) (pos : Nat) (lastOk : Nat) : Nat :=
        match l with
        | [] => lastOk
        | x :: xs => if d x then go xs (pos + 1) (pos + 1) else if x == '_' then go xs (pos + 1) lastOk else lastOk
      go rest 1 1

/-- Length of the longest `IntegerLiteral` at the head of `cs` (0 = no match). -/
def intLitLen (cs : List Char) : Nat :=
  match cs with
  | '0' :: x :: rest =>
      if x == 'x' || x == 'X' then (let k := digitsLen isHex rest; if k > 0 then max 1 (2 + k) else 1)
      else if x == 'b' || x == 'B' then (let k := digitsLen isBin rest; if k > 0 then max 1 (2 + k) else 1)
      else 1
  | '0' :: [] => 1
  | c :: rest =>
      if isDigit c && c != '0' then
        -- NonZeroDigit (Digits? | Underscores Digits)
        let plain := digitsLen isDigit rest            -- Digits?
        let us := (rest.takeWhile (· == '_')).length
        let afterUs := if us > 0 then digitsLen isDigit (rest.drop us) else 0
        let withUs := if afterUs > 0 then us + afterUs else 0
        1 + max plain withUs
      else 0
  | [] => 0

/-- `ExponentPart`: `[eE] [+-]? Digit+`; 0 if absent. -/
def expLen (cs : List Char) : Nat :=
  match cs with
  | e :: rest =>
      if e == 'e' || e == 'E' then
        let (sgn, r2) := match rest with
          | s :: r => if s == '+' || s == '-' then (1, r) else (0, rest)
          | [] => (0, rest)
        let k := (r2.takeWhile isDigit).length
        if k > 0 then 1 + sgn + k else 0
      else 0
  | [] => 0

/-- Length of the longest `RealLiteral` at the head of `cs` (0 = no match). -/
def realLitLen (cs : List Char) : Nat :=
  let d := digitsLen isDigit cs
  let alt1 :=   -- Digits '.' Digits? ExponentPart?
    if d > 0 then
      match cs.drop d with
      | '.' :: r =>
          let f := digitsLen isDigit r
          d + 1 + f + expLen (r.drop f)
      | _ => 0
    else 0
  let alt2 :=   -- '.' Digits ExponentPart?
    match cs with
    | '.' :: r => let f := digitsLen isDigit r; if f > 0 then 1 + f + expLen (r.drop f) else 0
    | _ => 0
  let alt3 :=   -- Digits ExponentPart
    if d > 0 then (let e := expLen (cs.drop d); if e > 0 then d + e else 0) else 0
  max alt1 (max alt2 alt3)

/-- Fixed symbol tokens, longest first. -/
def symbols : List (List Char × Tok) :=
  [("!==".toList, .neq), ("<->".toList, .iff),
   ("->".toList, .implies), ("==".toList, .eqeq), (">=".toList, .ge), ("<=".toList, .le),
   ("!".toList, .not), ("|".toList, .or), ("&".toList, .and), ("<".toList, .lt), (">".toList, .gt),
   ("=".toList, .equal), ("-".toList, .minus), ("+".toList, .plus), ("*".toList, .times), ("/".toList, .divide),
   ("(".toList, .lparen), (")".toList, .rparen), ("{".toList, .lbrace), ("}".toList, .rbrace),
   ("[".toList, .lbrack), ("]".toList, .rbrack), (";".toList, .semicolon), (":".toList, .colon),
   (",".toList, .comma), (".".toList, .dot), ("@".toList, .at)]

def matchSymbol (cs : List Char) : Option (Nat × Tok) :=
  symbols.findSome? (fun (p, t) => if p.isPrefixOf cs then some (p.length, t) else none)

/-- `'/*' .*? '*/'`: number of characters up to and including the first `*/` after the opening;
    none if unterminated (then `/` and `*` are lexed as operators). -/
def blockCommentLen : List Char → Option Nat
  | '/' :: '*' :: rest =>
      let rec go (l : List Char) (n : Nat) : Option Nat :=
        match l with
        | '*' :: '/' :: _ => some (n + 2)
        | _ :: xs => go xs (n + 1)
        | [] => none
      go rest 2
  | _ => none

inductive LexErr | illegal (c : Char)
  deriving Repr, DecidableEq

/-- One step: skip or produce one token; returns the number of characters consumed (≥ 1). -/
def lexStep (cs : List Char) : Except LexErr (Nat × Option Tok) :=
  match cs with
  | [] => .ok (0, none)
  | c :: _ =>
      if isWs c then .ok ((cs.takeWhile isWs).length, none) else
      match blockCommentLen cs with
      | some k => .ok (k, none)
      | none =>
      match cs with
      | '/' :: '/' :: rest => .ok (2 + (rest.takeWhile (fun x => x != '\n' && x != '\r')).length, none)
      | _ =>
      if isIdStart c then
        let w := cs.takeWhile isIdPart
        let s := String.ofList w
        .ok (w.length, some ((keyword s).getD (.ident s)))
      else
        let i := intLitLen cs
        let r := realLitLen cs
        if r > 0 && r ≥ i && r > 0 then
          -- the longest match wins; IntegerLiteral precedes RealLiteral in the file, so it wins ties
          if i ≥ r then .ok (i, some (.intLit (String.ofList (cs.take i))))
          else .ok (r, some (.realLit (String.ofList (cs.take r))))
        else if i > 0 then .ok (i, some (.intLit (String.ofList (cs.take i))))
        else match matchSymbol cs with
          | some (k, t) => .ok (k, some t)
          | none => .error (.illegal c)

/-- The token stream of a text (fuel = number of characters; every step consumes at least one). -/
def lexAux : Nat → List Char → List Tok → Except LexErr (List Tok)
  | 0, _, acc => .ok acc.reverse
  | fuel + 1, cs, acc =>
      match cs with
      | [] => .ok acc.reverse
      | _ =>
        match lexStep cs with
        | .error e => .error e
        | .ok (k, t) =>
            let k := max k 1
            lexAux fuel (cs.drop k) (match t with | some t => t :: acc | none => acc)

def lex (s : String) : Except LexErr (List Tok) := lexAux s.length s.toList []

end Rtamt.Front
