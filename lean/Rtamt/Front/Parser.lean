/-
  M-alg: the parser of `StlParser.g4` (+ `LtlParser.g4`) as a precedence-climbing
  recursive-descent parser, and the parse-tree → AST step of
  `rtamt/syntax/ast/parser/{ltl,stl}/parser_visitor.py` (`unless` desugaring, `ExprParen`
  returning its child).

  ANTLR4 resolves the left-recursive rule `expression` by the order of its alternatives:
  earlier alternatives bind tighter, binary alternatives are left-associative
  (`e op e[prec+1]`), and a prefix alternative `OP expression` parses its operand at the
  precedence of that alternative, so that only binary operators listed *before* it may occur
  in the operand without parentheses.  Levels (higher binds tighter):

      20  * /        19  + -        18  comparison
      -- prefix operators not, always, eventually, historically, once, prev, next, s_prev, s_next:
      --   operand parsed at level 18; unary minus: operand parsed at level 21 (nothing binary)
       8  until       7  unless      6  since
       5  and         4  or          3  implies     2  iff     1  xor
-/
import Rtamt.Front.Lexer
import Rtamt.Units

namespace Rtamt.Front
open Rtamt

inductive IvTime
  | lit (s : String) (u : Option TUnit)
  | const (name : String) (u : Option TUnit)
  deriving DecidableEq, Repr, Inhabited

structure PIv where
  b : IvTime
  e : IvTime
  deriving DecidableEq, Repr, Inhabited

inductive BinOp
  | mul | div | add | sub | cmp (c : Cmp) | until_ | unless | since | and | or | implies | iff | xor
  deriving DecidableEq, Repr, Inhabited

inductive PreOp
  | negate | not | always | eventually | historically | once | prev | next | sprev | snext
  deriving DecidableEq, Repr, Inhabited

inductive Fn1 | abs | sqrt | exp | ln | rise | fall
  deriving DecidableEq, Repr, Inhabited
inductive Fn2 | pow | log
  deriving DecidableEq, Repr, Inhabited

/-- Parse tree of `expression` (parentheses are not represented: `ExprParen` returns its child). -/
inductive PE
  | id (s : String)
  | lit (s : String)
  | pre (op : PreOp) (iv : Option PIv) (e : PE)
  | fn1 (f : Fn1) (e : PE)
  | fn2 (f : Fn2) (e1 e2 : PE)
  | bin (op : BinOp) (iv : Option PIv) (l r : PE)
  deriving DecidableEq, Repr, Inhabited

inductive Decl
  | var (io : Option Bool) (ty : String) (name : String)      -- io: some true = input, some false = output
  | const (ty : String) (name : String) (val : String)
  deriving DecidableEq, Repr, Inhabited

structure PSpec where
  name : Option String
  decls : List Decl
  asserts : List (Option String × PE)
  deriving Repr, Inhabited

inductive ParseErr | lex (c : Char) | syntax (pos : Nat) | semantic (msg : String)
  deriving Repr

def binLevel : BinOp → Nat
  | .mul | .div => 20 | .add | .sub => 19 | .cmp _ => 18
  | .until_ => 8 | .unless => 7 | .since => 6 | .and => 5 | .or => 4 | .implies => 3 | .iff => 2 | .xor => 1

/-- The binary operator a token starts, if any. -/
def binOfTok : Tok → Option BinOp
  | .times => some .mul | .divide => some .div | .plus => some .add | .minus => some .sub
  | .le => some (.cmp .le) | .ge => some (.cmp .ge) | .lt => some (.cmp .lt) | .gt => some (.cmp .gt)
  | .eqeq => some (.cmp .eq) | .neq => some (.cmp .ne)
  | .until_ => some .until_ | .unless => some .unless | .since => some .since
  | .and => some .and | .or => some .or | .implies => some .implies | .iff => some .iff | .xor => some .xor
  | _ => none

def preOfTok : Tok → Option PreOp
  | .minus => some .negate | .not => some .not | .always => some .always | .eventually => some .eventually
  | .historically => some .historically | .once => some .once | .previous => some .prev | .next => some .next
  | .strongPrevious => some .sprev | .strongNext => some .snext
  | _ => none

def fn1OfTok : Tok → Option Fn1
  | .abs => some .abs | .sqrt => some .sqrt | .exp => some .exp | .ln => some .ln
  | .rise => some .rise | .fall => some .fall | _ => none

def unitOfTok : Tok → Option TUnit
  | .sec => some .s | .msec => some .ms | .usec => some .us | .nsec => some .ns | _ => none

def takesInterval : PreOp → Bool
  | .always | .eventually | .historically | .once => true
  | _ => false

def binTakesInterval : BinOp → Bool
  | .until_ | .unless | .since => true
  | _ => false

abbrev P (α : Type) := List Tok → Except ParseErr (α × List Tok)

def errAt (toks : List Tok) : ParseErr := .syntax toks.length

/-- `intervalTime : literal unit? | Identifier unit?` -/
def parseIvTime : P IvTime
  | .intLit s :: rest =>
      match rest with
      | t :: r => match unitOfTok t with
                  | some u => .ok (.lit s (some u), r)
                  | none => .ok (.lit s none, rest)
      | [] => .ok (.lit s none, rest)
  | .realLit s :: rest =>
      match rest with
      | t :: r => match unitOfTok t with
                  | some u => .ok (.lit s (some u), r)
                  | none => .ok (.lit s none, rest)
      | [] => .ok (.lit s none, rest)
  | .ident s :: rest =>
      match rest with
      | t :: r => match unitOfTok t with
                  | some u => .ok (.const s (some u), r)
                  | none => .ok (.const s none, rest)
      | [] => .ok (.const s none, rest)
  | toks => .error (errAt toks)

/-- `interval : '[' intervalTime (':' | ',') intervalTime ']'` -/
def parseInterval : P PIv
  | .lbrack :: rest => do
      let (b, r1) ← parseIvTime rest
      match r1 with
      | .colon :: r2 | .comma :: r2 => do
          let (e, r3) ← parseIvTime r2
          match r3 with
          | .rbrack :: r4 => pure ({ b := b, e := e }, r4)
          | _ => throw (errAt r3)
      | _ => throw (errAt r1)
  | toks => .error (errAt toks)

def optInterval (allowed : Bool) : P (Option PIv)
  | .lbrack :: rest => if allowed then (parseInterval (.lbrack :: rest)).map (fun (i, r) => (some i, r))
                       else .error (errAt (.lbrack :: rest))
  | toks => .ok (none, toks)

mutual
/-- `expression` at minimum binary level `p` (fuel bounds the recursion depth). -/
def parseExpr : Nat → Nat → P PE
  | 0, _, toks => .error (errAt toks)
  | fuel + 1, p, toks => do
      let (lhs, rest) ← parsePrimary fuel toks
      parseLoop fuel p lhs rest

/-- Binary-operator loop: while the next token is a binary operator of level ≥ p, consume it. -/
def parseLoop : Nat → Nat → PE → P PE
  | 0, _, lhs, toks => .ok (lhs, toks)
  | fuel + 1, p, lhs, toks =>
      match toks with
      | t :: rest =>
          match binOfTok t with
          | some op =>
              if binLevel op ≥ p then do
                let (iv, r1) ← optInterval (binTakesInterval op) rest
                let (rhs, r2) ← parseExpr fuel (binLevel op + 1) r1
                parseLoop fuel p (.bin op iv lhs rhs) r2
              else .ok (lhs, toks)
          | none => .ok (lhs, toks)
      | [] => .ok (lhs, toks)

/-- Primaries: parenthesised expression, prefix operators, function forms, identifiers, literals. -/
def parsePrimary : Nat → P PE
  | 0, toks => .error (errAt toks)
  | fuel + 1, toks =>
      match toks with
      | .lparen :: rest => do
          let (e, r1) ← parseExpr fuel 0 rest
          match r1 with
          | .rparen :: r2 => pure (e, r2)
          | _ => throw (errAt r1)
      | .ident s :: rest => .ok (.id s, rest)
      | .intLit s :: rest => .ok (.lit s, rest)
      | .realLit s :: rest => .ok (.lit s, rest)
      | .pow :: .lparen :: rest => do
          let (e1, r1) ← parseExpr fuel 0 rest
          match r1 with
          | .comma :: r2 => do
              let (e2, r3) ← parseExpr fuel 0 r2
              match r3 with
              | .rparen :: r4 => pure (.fn2 .pow e1 e2, r4)
              | _ => throw (errAt r3)
          | _ => throw (errAt r1)
      | .log :: .lparen :: rest => do
          let (e1, r1) ← parseExpr fuel 0 rest
          match r1 with
          | .comma :: r2 => do
              let (e2, r3) ← parseExpr fuel 0 r2
              match r3 with
              | .rparen :: r4 => pure (.fn2 .log e1 e2, r4)
              | _ => throw (errAt r3)
          | _ => throw (errAt r1)
      | t :: rest =>
          match fn1OfTok t with
          | some f =>
              match rest with
              | .lparen :: r0 => do
                  let (e, r1) ← parseExpr fuel 0 r0
                  match r1 with
                  | .rparen :: r2 => pure (.fn1 f e, r2)
                  | _ => throw (errAt r1)
              | _ => throw (errAt rest)
          | none =>
          match preOfTok t with
          | some op => do
              let (iv, r1) ← optInterval (takesInterval op) rest
              let (e, r2) ← parseExpr fuel (if op = .negate then 21 else 18) r1
              pure (.pre op iv e, r2)
          | none => throw (errAt toks)
      | [] => .error (errAt toks)
end

def isDomainType : Tok → Option String
  | .tFloat => some "float" | .tInt => some "int" | .tLong => some "long" | .tComplex => some "complex"
  | .ident s => some s
  | _ => none

/-- `variableDeclaration : ioType? domainType Identifier assignment?` (assignment: `= literal | = expression`)
    and `constantDeclaration : 'const' domainType Identifier '=' literal`.  Returns none if the
    tokens do not start a declaration. -/
def parseDecl (fuel : Nat) : List Tok → Option (Except ParseErr (Decl × List Tok))
  | .constant :: t :: .ident n :: .equal :: v :: rest =>
      match isDomainType t, v with
      | some ty, .intLit s => some (.ok (.const ty n s, rest))
      | some ty, .realLit s => some (.ok (.const ty n s, rest))
      | _, _ => some (.error (errAt (t :: .ident n :: .equal :: v :: rest)))
  | .constant :: rest => some (.error (errAt rest))
  | .input :: t :: .ident n :: rest =>
      match isDomainType t with
      | some ty => some (declTail fuel (.var (some true) ty n) rest)
      | none => some (.error (errAt (t :: .ident n :: rest)))
  | .input :: rest => some (.error (errAt rest))
  | .output :: t :: .ident n :: rest =>
      match isDomainType t with
      | some ty => some (declTail fuel (.var (some false) ty n) rest)
      | none => some (.error (errAt (t :: .ident n :: rest)))
  | .output :: rest => some (.error (errAt rest))
  | t :: .ident n :: rest =>
      match t with
      | .tFloat | .tInt | .tLong | .tComplex => some (declTail fuel (.var none ((isDomainType t).getD "") n) rest)
      | .ident ty => some (declTail fuel (.var none ty n) rest)
      | _ => none
  | _ => none
where
  declTail (fuel : Nat) (d : Decl) : List Tok → Except ParseErr (Decl × List Tok)
    | .equal :: rest =>
        match parseExpr fuel 0 rest with
        | .ok (_, r) => .ok (d, r)
        | .error e => .error e
    | rest => .ok (d, rest)

/-- `assertion : (Identifier '=')? expression ';'` -/
def parseAssertion (fuel : Nat) : P (Option String × PE)
  | .ident n :: .equal :: rest => do
      let (e, r) ← parseExpr fuel 0 rest
      match r with
      | .semicolon :: r2 => pure ((some n, e), r2)
      | _ => throw (errAt r)
  | toks => do
      let (e, r) ← parseExpr fuel 0 toks
      match r with
      | .semicolon :: r2 => pure ((none, e), r2)
      | _ => throw (errAt r)

def parseDecls (fuel : Nat) : Nat → List Tok → List Decl → Except ParseErr (List Decl × List Tok)
  | 0, toks, acc => .ok (acc.reverse, toks)
  | k + 1, toks, acc =>
      match parseDecl fuel toks with
      | some (.ok (d, rest)) => parseDecls fuel k rest (d :: acc)
      | some (.error e) => .error e
      | none => .ok (acc.reverse, toks)

def parseAsserts (fuel : Nat) : Nat → List Tok → List (Option String × PE) →
    Except ParseErr (List (Option String × PE))
  | 0, toks, acc => if toks.isEmpty then .ok acc.reverse else .error (errAt toks)
  | k + 1, toks, acc =>
      match toks with
      | [] => if acc.isEmpty then .error (errAt toks) else .ok acc.reverse
      | _ => do
          let (a, rest) ← parseAssertion fuel toks
          parseAsserts fuel k rest (a :: acc)

/-- `specification_file : specification EOF`,
    `specification : spec? modimport* (declaration | annotation)* assertion+`
    (module imports and ROS annotations are not modelled: they are rejected here and never
    generated by the harness). -/
def parseSpecToks (toks : List Tok) : Except ParseErr PSpec := do
  let fuel := 2 * toks.length + 4
  let (name, r0) : Option String × List Tok :=
    match toks with
    | .specification :: .ident n :: rest => (some n, rest)
    | _ => (none, toks)
  let (decls, r1) ← parseDecls fuel toks.length r0 []
  let asserts ← parseAsserts fuel (toks.length + 1) r1 []
  pure { name := name, decls := decls, asserts := asserts }

/-- `AbstractAst.parse`: a final `;` is appended when missing; lexer errors and syntax errors
    are RTAMTExceptions. -/
def parseText (s : String) : Except ParseErr PSpec :=
  let s' := if s.endsWith ";" then s else s ++ ";"
  match lex s' with
  | .error (.illegal c) => .error (.lex c)
  | .ok toks => parseSpecToks toks

end Rtamt.Front
