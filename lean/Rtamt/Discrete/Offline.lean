/-
  M-alg: mirror of `rtamt/semantics/stl/discrete_time/offline/ast_visitor.py`
  (class `StlDiscreteTimeOfflineAstVisitor`), one clause per `visitX`.

  Python's partial primitives are `Except PyErr`:
    * `l[i]`          → `idx`      (IndexError)
    * `max([])`       → `pymax`    (ValueError)
    * `d[key]`        → `lookup`   (KeyError)
  A node class whose `visitX` the visitor does not override falls through to
  `visitChildren`, which returns the result of the *last* child; which classes
  are overridden is read from the source on every run (`Rtamt/Generated.lean`)
  and passed in as `h : Kind → Bool`.
-/
import Rtamt.Syntax

namespace Rtamt
open Val

inductive PyErr
  | index | value | key | type | rtamt | other
  deriving DecidableEq, Repr, Inhabited

abbrev Env (α : Type) := List (String × List α)

variable {α : Type} [Val α]

def Env.get (w : Env α) (x : String) : Except PyErr (List α) :=
  match w.lookup x with
  | some l => .ok l
  | none => .error .key

def idx (l : List α) (i : Nat) : Except PyErr α :=
  match l[i]? with
  | some x => .ok x
  | none => .error .index

/-- Python slice `l[i:j]` for `0 ≤ i`, `0 ≤ j`. -/
def slice (l : List α) (i j : Nat) : List α := (l.drop i).take (j - i)

/-- CPython `max(l)`: `ValueError` on the empty list, otherwise a left fold. -/
def pymax : List α → Except PyErr α
  | [] => .error .value
  | x :: xs => .ok (xs.foldl pmax x)

def pymin : List α → Except PyErr α
  | [] => .error .value
  | x :: xs => .ok (xs.foldl pmin x)

/-- `for i in range(len(l)): f(l[i], r[i])` — raises IndexError when `r` is shorter. -/
def loop2 (f : α → α → α) (l r : List α) : Except PyErr (List α) :=
  if l.length ≤ r.length then .ok (List.zipWith f l r) else .error .index

/-- `prev = init; for x in l: out = f x prev; prev = out; append out`. -/
def scanFwd (f : α → α → α) (init : α) : List α → List α
  | [] => []
  | x :: xs => let o := f x init; o :: scanFwd f o xs

/-- `prev = init; for x in l: append prev; prev = x` (previous / strong previous). -/
def shiftFwd (init : α) : List α → List α
  | [] => []
  | x :: xs => init :: shiftFwd x xs

/-- The body shared by `visitSince` (forward) and `visitUntil` (on reversed lists):
    `out = max(min(l, prev), r)`. -/
def sinceStep (prev : α) (lr : α × α) : α := pmax (pmin lr.1 prev) lr.2

def scan2 (init : α) : List (α × α) → List α
  | [] => []
  | x :: xs => let o := sinceStep init x; o :: scan2 o xs

/-- A full `collections.deque(maxlen = m)` receiving one more element. -/
def dqPush (buf : List α) (x : α) : List α := (buf ++ [x]).drop 1

/-- Inner double loop of `visitTimedSince` / `visitTimedUntil` /
    `SinceTimedOperation.update` on the two buffers. -/
def sinceWin (a b : Nat) (bl br : List α) : Except PyErr α :=
  (List.range (b - a + 1)).foldlM (fun out j => do
      let cr ← idx br j
      let cl ← (List.range' (j + 1) (b - j)).foldlM
                  (fun c k => do let x ← idx bl k; pure (pmin c x)) pinf
      pure (pmax out (pmin cl cr))) ninf

/-- Outer loop of `visitTimedSince`: push one sample into each buffer, evaluate the window. -/
def sinceLoop (a b : Nat) : List α → List α → List (α × α) → Except PyErr (List α)
  | _, _, [] => .ok []
  | bl, br, (l, r) :: rest => do
      let bl' := dqPush bl l
      let br' := dqPush br r
      let o ← sinceWin a b bl' br'
      let os ← sinceLoop a b bl' br' rest
      pure (o :: os)

/-- `visitTimedAlways` / `visitTimedEventually` (`pad` is the neutral element,
    `agg` is `pymin` / `pymax`). -/
def timedFuture (agg : List α → Except PyErr α) (pad : α) (a b : Nat) (s0 : List α) :
    Except PyErr (List α) := do
  let len0 := s0.length
  let s := if len0 ≤ b then s0 ++ List.replicate (b - len0 + 1) pad else s0
  let diff := b - a
  let r1 ← (List.range' a (b + 1 - a)).mapM (fun j => agg (slice s j (j + diff + 1)))
  let r2 ← (List.range' (b + 1) (s.length - (b + 1))).mapM (fun j => agg (slice s j (j + diff + 1)))
  let r := r1 ++ r2
  let r3 := List.replicate (s.length - r.length) pad
  pure ((r ++ r3).take len0)

/-- `visitTimedOnce` / `visitTimedHistorically`. -/
def timedPast (agg : List α → Except PyErr α) (pad : α) (a b : Nat) (s0 : List α) :
    Except PyErr (List α) :=
  let s := List.replicate b pad ++ s0
  (List.range' b (s.length - b)).mapM (fun j => agg (slice s (j - b) (j - a + 1)))

/-- The offline visitor.  `n` is `len(dataset['time'])` (the `length` argument). -/
def evalOff (h : Kind → Bool) (w : Env α) (n : Nat) : F α → Except PyErr (List α)
  | .var x => if h .Variable then w.get x else .error .type
  | .const c => if h .Constant then .ok (List.replicate n c) else .error .type
  | .un op φ => do
      let s ← evalOff h w n φ
      if h op.kind then pure (s.map op.app) else pure s
  | .bin op φ ψ => do
      let l ← evalOff h w n φ
      let r ← evalOff h w n ψ
      if h op.kind then
        match op with
        | .and | .or | .implies | .iff | .xor => pure (List.zipWith op.app l r)
        | _ => loop2 op.app l r
      else pure r
  | .tmp1 op φ => do
      let s ← evalOff h w n φ
      if h op.kind then
        match op with
        | .rise => pure (List.zipWith (fun p x => pmin (neg p) x) (ninf :: s.dropLast) s)
        | .fall => pure (List.zipWith (fun p x => pmin p (neg x)) (pinf :: s.dropLast) s)
        | .prev => pure (shiftFwd pinf s)
        | .sprev => pure (shiftFwd ninf s)
        | .next => pure (s.drop 1 ++ [pinf])
        | .snext => pure (s.drop 1 ++ [ninf])
        | .once => pure (scanFwd pmax ninf s)
        | .hist => pure (scanFwd pmin pinf s)
        | .ev => pure (scanFwd pmax ninf s.reverse).reverse
        | .alw => pure (scanFwd pmin pinf s.reverse).reverse
      else pure s
  | .tmp2 op φ ψ => do
      let l ← evalOff h w n φ
      let r ← evalOff h w n ψ
      if h op.kind then
        if l.length ≤ r.length then
          match op with
          | .since => pure (scan2 ninf (l.zip r))
          | .until => pure (scan2 ninf (l.zip r).reverse).reverse
        else .error .index
      else pure r
  | .tb1 op a b φ => do
      let s ← evalOff h w n φ
      if h op.kind then
        if a ≤ b then
          match op with
          | .once => timedPast pymax ninf a b s
          | .hist => timedPast pymin pinf a b s
          | .ev => timedFuture pymax ninf a b s
          | .alw => timedFuture pymin pinf a b s
        else .error .value
      else pure s
  | .tb2 op a b φ ψ => do
      let l ← evalOff h w n φ
      let r ← evalOff h w n ψ
      if h op.kind then
        if a ≤ b ∧ l.length ≤ r.length then
          let bl := List.replicate (b + 1) pinf
          let br := List.replicate (b + 1) ninf
          match op with
          | .since => sinceLoop a b bl br (l.zip r)
          | .until => do
              let o ← sinceLoop a b bl br (l.zip r).reverse
              pure o.reverse
          | .precedes => .error .rtamt   -- 'Offline does not need visitTimedPrecedes'
        else .error .index
      else pure r

/-- `AbstractDiscreteTimeOfflineInterpreter.evaluate`: the time column is zipped with
    the robustness list and is not an argument of the visitor. -/
def evaluateOff {τ : Type} (h : Kind → Bool) (φ : F α) (time : List τ) (w : Env α) :
    Except PyErr (List (τ × α)) := do
  let rob ← evalOff h w time.length φ
  pure (time.zip rob)

end Rtamt
