/-
  M-alg: the online interpreter as the code organises it — `online_operator_dict`
  (one operator object per *node name*), several assertions per specification
  (`ast.specs`, later assertions may reference earlier ones: the parser substitutes the
  referenced node itself), and the per-update memo of `AbstractOnlineUpdateVisitor`
  (`self.updated`, every name is stepped once per update; `self.results`).

  Keys: the code keys by the printed name of a node; the model keys by the formula
  (`DecidableEq (F α)`).  That printing is injective on ASTs is validated by the harness.

  `updateSpecs` returns the value of *every* assertion and the memo (= `ast.results`
  restricted to operator nodes), so that `get_value(name)` can be read off.
-/
import Rtamt.Discrete.Online

namespace Rtamt
open Val

variable {α : Type} [Val α] [DecidableEq α]

abbrev Store (α : Type) := List (F α × St α)
abbrev Memo (α : Type) := List (F α × α)

def Store.get (st : Store α) (k : F α) : Except PyErr (St α) :=
  match st.lookup k with
  | some s => .ok s
  | none => .error .key

def Store.set (st : Store α) (k : F α) (s : St α) : Store α :=
  (k, s) :: st.filter (fun p => p.1 ≠ k)

/-- Initial state of the operator object the construction visitor registers for a node. -/
def initNode : F α → St α
  | .tmp1 op _ => initT1 op
  | .tmp2 op _ _ => initT2 op
  | .tb1 op _ b _ => initTB1 op b
  | .tb2 op _ b _ _ => initTB2 op b
  | _ => .unit

/-- `set_ast`: one (fresh) operator per distinct node of every assertion; RTAMTException for an
    unsupported class, no entry (→ KeyError at update) for a class the visitor does not override. -/
def initStoreF (h r : Kind → Bool) : F α → Store α → Except PyErr (Store α)
  | .var _, st => if r .Variable then .error .rtamt else .ok st
  | .const _, st => .ok st
  | .un op φ, st => do
      if r op.kind then throw .rtamt
      let st1 ← initStoreF h r φ st
      if h op.kind then pure (st1.set (.un op φ) .unit) else pure st1
  | .bin op φ ψ, st => do
      if r op.kind then throw .rtamt
      let st1 ← initStoreF h r φ st
      let st2 ← initStoreF h r ψ st1
      if h op.kind then pure (st2.set (.bin op φ ψ) .unit) else pure st2
  | .tmp1 op φ, st => do
      if r op.kind then throw .rtamt
      let st1 ← initStoreF h r φ st
      if h op.kind then pure (st1.set (.tmp1 op φ) (initT1 op)) else pure st1
  | .tmp2 op φ ψ, st => do
      if r op.kind then throw .rtamt
      let st1 ← initStoreF h r φ st
      let st2 ← initStoreF h r ψ st1
      if h op.kind then pure (st2.set (.tmp2 op φ ψ) (initT2 op)) else pure st2
  | .tb1 op a b φ, st => do
      if r op.kind then throw .rtamt
      let st1 ← initStoreF h r φ st
      if h op.kind then pure (st1.set (.tb1 op a b φ) (initTB1 op b)) else pure st1
  | .tb2 op a b φ ψ, st => do
      if r op.kind then throw .rtamt
      let st1 ← initStoreF h r φ st
      let st2 ← initStoreF h r ψ st1
      if h op.kind then pure (st2.set (.tb2 op a b φ ψ) (initTB2 op b)) else pure st2

def initStore (h r : Kind → Bool) : List (F α) → Store α → Except PyErr (Store α)
  | [], st => .ok st
  | φ :: rest, st => do
      let st1 ← initStoreF h r φ st
      initStore h r rest st1

/-- One visit of the update visitor (`visitBinary` / `visitUnary` / `visitLeaf`), threading the
    operator dictionary and the per-update memo. -/
def visitM (env : String → α) : F α → Store α × Memo α → Except PyErr (α × (Store α × Memo α))
  | .var x, sm => .ok (env x, sm)
  | .const c, sm => .ok (c, sm)
  | .un op φ, sm =>
      match sm.2.lookup (.un op φ) with
      | some v => .ok (v, sm)
      | none => do
          let (v, (st1, mm1)) ← visitM env φ sm
          let _ ← st1.get (.un op φ)
          let o := op.app v
          pure (o, (st1, (.un op φ, o) :: mm1))
  | .bin op φ ψ, sm =>
      match sm.2.lookup (.bin op φ ψ) with
      | some v => .ok (v, sm)
      | none => do
          let (v1, sm1) ← visitM env φ sm
          let (v2, (st2, mm2)) ← visitM env ψ sm1
          let _ ← st2.get (.bin op φ ψ)
          let o := op.app v1 v2
          pure (o, (st2, (.bin op φ ψ, o) :: mm2))
  | .tmp1 op φ, sm =>
      match sm.2.lookup (.tmp1 op φ) with
      | some v => .ok (v, sm)
      | none => do
          let (v, (st1, mm1)) ← visitM env φ sm
          let s ← st1.get (.tmp1 op φ)
          let (s', o) ← stepT1 op s v
          pure (o, (st1.set (.tmp1 op φ) s', (.tmp1 op φ, o) :: mm1))
  | .tmp2 op φ ψ, sm =>
      match sm.2.lookup (.tmp2 op φ ψ) with
      | some v => .ok (v, sm)
      | none => do
          let (v1, sm1) ← visitM env φ sm
          let (v2, (st2, mm2)) ← visitM env ψ sm1
          let s ← st2.get (.tmp2 op φ ψ)
          let (s', o) ← stepT2 op s v1 v2
          pure (o, (st2.set (.tmp2 op φ ψ) s', (.tmp2 op φ ψ, o) :: mm2))
  | .tb1 op a b φ, sm =>
      match sm.2.lookup (.tb1 op a b φ) with
      | some v => .ok (v, sm)
      | none => do
          let (v, (st1, mm1)) ← visitM env φ sm
          let s ← st1.get (.tb1 op a b φ)
          let (s', o) ← stepTB1 op a b s v
          pure (o, (st1.set (.tb1 op a b φ) s', (.tb1 op a b φ, o) :: mm1))
  | .tb2 op a b φ ψ, sm =>
      match sm.2.lookup (.tb2 op a b φ ψ) with
      | some v => .ok (v, sm)
      | none => do
          let (v1, sm1) ← visitM env φ sm
          let (v2, (st2, mm2)) ← visitM env ψ sm1
          let s ← st2.get (.tb2 op a b φ ψ)
          let (s', o) ← stepTB2 op a b s v1 v2
          pure (o, (st2.set (.tb2 op a b φ ψ) s', (.tb2 op a b φ ψ, o) :: mm2))

/-- `visitAst`: all assertions in order, one memo per update. Returns the values of all
    assertions (`rob`), the new dictionary and the memo of the round. -/
def visitSpecs (env : String → α) : List (F α) → Store α × Memo α →
    Except PyErr (List α × (Store α × Memo α))
  | [], sm => .ok ([], sm)
  | φ :: rest, sm => do
      let (v, sm1) ← visitM env φ sm
      let (vs, sm2) ← visitSpecs env rest sm1
      pure (v :: vs, sm2)

/-- One `update()`: fresh memo, all assertions; returns (values of all assertions, results memo). -/
def updateSpecs (env : String → α) (specs : List (F α)) (st : Store α) :
    Except PyErr (List α × Memo α × Store α) := do
  let (vs, (st', mm)) ← visitSpecs env specs (st, [])
  pure (vs, mm, st')

/-- Feed a list of valuations; per update the values of all assertions and the memo of the round
    (`ast.results` for operator nodes). -/
def runSpecs (specs : List (F α)) : Store α → List (String → α) → Except PyErr (List (List α × Memo α))
  | _, [] => .ok []
  | st, e :: es => do
      let (vs, mm, st') ← updateSpecs e specs st
      let rest ← runSpecs specs st' es
      pure ((vs, mm) :: rest)

/-- A fresh multi-assertion monitor fed `envs`.  The `update()` return value is the value of the
    last assertion; `get_value(n)` of an assertion name or sub-formula reads the memo. -/
def runProgram (h r : Kind → Bool) (specs : List (F α)) (envs : List (String → α)) :
    Except PyErr (List (List α × Memo α)) := do
  let st ← initStore h r specs []
  runSpecs specs st envs

/-- Proper (non-leaf) sub-formulas, i.e. the nodes that own an operator object. -/
def F.opSubs : F α → List (F α)
  | .var _ => []
  | .const _ => []
  | .un op φ => .un op φ :: φ.opSubs
  | .bin op φ ψ => .bin op φ ψ :: (φ.opSubs ++ ψ.opSubs)
  | .tmp1 op φ => .tmp1 op φ :: φ.opSubs
  | .tmp2 op φ ψ => .tmp2 op φ ψ :: (φ.opSubs ++ ψ.opSubs)
  | .tb1 op a b φ => .tb1 op a b φ :: φ.opSubs
  | .tb2 op a b φ ψ => .tb2 op a b φ ψ :: (φ.opSubs ++ ψ.opSubs)

end Rtamt
