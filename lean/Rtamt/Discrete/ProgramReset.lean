/-
  M-alg: `reset()` of the online interpreter at the level of the operator dictionary
  (`AbstractOnlineResetVisitor`): the operands first, then the operator registered for the node is
  reset (KeyError if there is none); a name that occurs several times is reset several times.
-/
import Rtamt.Discrete.Program

namespace Rtamt
open Val

variable {α : Type} [Val α] [DecidableEq α]

def resetAt (k : F α) (st : Store α) : Except PyErr (Store α) := do
  let _ ← st.get k
  pure (st.set k (initNode k))

def resetM : F α → Store α → Except PyErr (Store α)
  | .var _, st => .ok st
  | .const _, st => .ok st
  | .un op φ, st => do resetAt (.un op φ) (← resetM φ st)
  | .bin op φ ψ, st => do resetAt (.bin op φ ψ) (← resetM ψ (← resetM φ st))
  | .tmp1 op φ, st => do resetAt (.tmp1 op φ) (← resetM φ st)
  | .tmp2 op φ ψ, st => do resetAt (.tmp2 op φ ψ) (← resetM ψ (← resetM φ st))
  | .tb1 op a b φ, st => do resetAt (.tb1 op a b φ) (← resetM φ st)
  | .tb2 op a b φ ψ, st => do resetAt (.tb2 op a b φ ψ) (← resetM ψ (← resetM φ st))

/-- `resetVisitor.visitAst(ast, online_operator_dict)`: every assertion in turn. -/
def resetSpecs : List (F α) → Store α → Except PyErr (Store α)
  | [], st => .ok st
  | φ :: rest, st => do resetSpecs rest (← resetM φ st)

end Rtamt
