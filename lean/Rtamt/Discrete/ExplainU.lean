/-
  M-alg, exact variant of the explainer (`Rtamt/Discrete/Explain.lean`): the interval lists are the
  very lists the Python code computes.  The only difference with `explain` is `interval_union`
  (sorting and merging of overlapping or adjacent intervals), which the functions of the bounded
  operators (`rtamt/explanation/stl/discrete_time/explanations.py`) apply to their result and which
  `explain` leaves out: `explainU u` applies `u` there, `explainU id = explain`, and the code is
  `explainU unionIvs` (`RtamtProofs/GenExpl.lean`).  `RtamtProofs/C20Union.lean` shows that both
  report the same positions.
-/
import Rtamt.Discrete.Explain

namespace Rtamt
open Val

/-- `sorted(intervals)`: lexicographic order on `[b, e]`. -/
def sortIvsN (I : Ivs) : Ivs :=
  I.mergeSort (fun p q => decide (p.1 < q.1) || (decide (p.1 = q.1) && decide (p.2 ≤ q.2)))

/-- One iteration of the loop of `interval_union`: `out[-1][1] >= begin - 1` merges into the last interval. -/
def unionStep (out : Ivs) (p : Nat × Nat) : Ivs :=
  match out.getLast? with
  | some q => if p.1 ≤ q.2 + 1 then out.dropLast ++ [(q.1, max q.2 p.2)] else out ++ [p]
  | none => [p]

/-- `interval_union`. -/
def unionIvs (I : Ivs) : Ivs := (sortIvsN I).foldl unionStep []

variable {α : Type} [Val α]

/-- `explain` with `u` applied to the lists computed for the operand of a bounded operator. -/
def explainU (u : Ivs → Ivs) (σ : String → Nat → α) (n : Nat) : F α → Ivs → Bool → Except Unit (List (String × Ivs))
  | .var x, I, _ => .ok [(x, I)]
  | .const _, _, _ => .ok []
  | .un op φ, I, flag =>
      match op with
      | .not => explainU u σ n φ I (!flag)
      | _ => explainU u σ n φ I flag
  | .bin op φ ψ, I, flag =>
      let s1 := fun i => rho σ n φ i
      let s2 := fun i => rho σ n ψ i
      let both (f1 : Bool) (I1 I2 : Ivs) : Except Unit (List (String × Ivs)) := do
        let a ← explainU u σ n φ I1 f1
        let b ← explainU u σ n ψ I2 flag
        pure (a ++ b)
      match op, flag with
      | .and, false => both flag (runsAll (fun i => isUnsat (s1 i)) I) (runsAll (fun i => isUnsat (s2 i)) I)
      | .or, true => both flag (runsAll (fun i => isSat (s1 i)) I) (runsAll (fun i => isSat (s2 i)) I)
      | .implies, true => both (!flag) (runsAll (fun i => isUnsat (s1 i)) I) (runsAll (fun i => isSat (s2 i)) I)
      | .implies, false => both (!flag) I I
      | _, _ => both flag I I
  | .tmp1 op φ, I, flag =>
      let s := fun i => rho σ n φ i
      match op, flag with
      | .rise, _ | .fall, _ => explainU u σ n φ I flag
      | .prev, _ | .sprev, _ => explainU u σ n φ (explPrev I) flag
      | .next, _ | .snext, _ => explainU u σ n φ (explNext n I) flag
      | .alw, true => explainU u σ n φ (match firstBegin I with | some b => [(b, n - 1)] | none => []) flag
      | .alw, false => explainU u σ n φ (match firstBegin I with | some b => runs (fun i => isUnsat (s i)) b (n - 1) | none => []) flag
      | .ev, true => explainU u σ n φ (match firstBegin I with | some b => runs (fun i => isSat (s i)) b (n - 1) | none => []) flag
      | .ev, false => explainU u σ n φ (match firstBegin I with | some b => [(b, n - 1)] | none => []) flag
      | .hist, true => explainU u σ n φ (match lastEnd I with | some e => [(0, e)] | none => []) flag
      | .hist, false => explainU u σ n φ (match lastEnd I with | some e => runs (fun i => isUnsat (s i)) 0 e | none => []) flag
      | .once, true => explainU u σ n φ (match lastEnd I with | some e => runs (fun i => isSat (s i)) 0 e | none => []) flag
      | .once, false => explainU u σ n φ (match lastEnd I with | some e => [(0, e)] | none => []) flag
  | .tmp2 _ _ _, _, _ => .error ()
  | .tb1 op a b φ, I, flag =>
      let s := fun i => rho σ n φ i
      let fwd : Ivs := I.map (fun (x, y) => (min (x + a) (n - 1), min (y + b) (n - 1)))
      let bwd : Ivs := I.map (fun (x, y) => (x - b, y - a))
      match op, flag with
      | .alw, true => explainU u σ n φ (u fwd) flag
      | .alw, false => explainU u σ n φ (u (runsAll (fun i => isUnsat (s i)) fwd)) flag
      | .ev, true => explainU u σ n φ (u (runsAll (fun i => isSat (s i)) fwd)) flag
      | .ev, false => explainU u σ n φ (u fwd) flag
      | .hist, true => explainU u σ n φ (u bwd) flag
      | .hist, false => explainU u σ n φ (u (runsAll (fun i => isUnsat (s i)) bwd)) flag
      | .once, true => explainU u σ n φ (u (runsAll (fun i => isSat (s i)) bwd)) flag
      | .once, false => explainU u σ n φ (u bwd) flag
  | .tb2 _ _ _ _ _, _, _ => .error ()

/-- `explain()` of the specification with the exact lists. -/
def explainSpecU (σ : String → Nat → α) (n : Nat) (φ : F α) : Except Unit (List (String × Ivs)) :=
  if isUnsat (rho σ n φ 0) then explainU unionIvs σ n φ [(0, 0)] false else .ok []

end Rtamt
