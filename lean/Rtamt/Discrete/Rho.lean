/-
  M-spec: the discrete-time robustness `rho(phi, w, t)` of README.md, with the two
  corrections the property text makes (prev/next weak = +inf at the boundary,
  s_prev/s_next strong = -inf; windows clipped to the trace `[0, n)`).

  `σ x t` is the value of variable `x` at sample `t`, `n = |w|`.
-/
import Rtamt.Syntax

namespace Rtamt
open Val

variable {α : Type} [Val α]

/-- `max_{t' ∈ [lo, hi)} f t'`  (−inf on the empty window). -/
def maxOver (lo hi : Nat) (f : Nat → α) : α := lmax ((List.range' lo (hi - lo)).map f)
/-- `min_{t' ∈ [lo, hi)} f t'`  (+inf on the empty window). -/
def minOver (lo hi : Nat) (f : Nat → α) : α := lmin ((List.range' lo (hi - lo)).map f)

def rho (σ : String → Nat → α) (n : Nat) : F α → Nat → α
  | .var x => fun t => σ x t
  | .const c => fun _ => c
  | .un op φ => fun t => op.app (rho σ n φ t)
  | .bin op φ ψ => fun t => op.app (rho σ n φ t) (rho σ n ψ t)
  | .tmp1 .rise φ => fun t =>
      if t = 0 then rho σ n φ 0 else pmin (neg (rho σ n φ (t - 1))) (rho σ n φ t)
  | .tmp1 .fall φ => fun t =>
      if t = 0 then neg (rho σ n φ 0) else pmin (rho σ n φ (t - 1)) (neg (rho σ n φ t))
  | .tmp1 .prev φ => fun t => if t = 0 then pinf else rho σ n φ (t - 1)
  | .tmp1 .sprev φ => fun t => if t = 0 then ninf else rho σ n φ (t - 1)
  | .tmp1 .next φ => fun t => if t + 1 < n then rho σ n φ (t + 1) else pinf
  | .tmp1 .snext φ => fun t => if t + 1 < n then rho σ n φ (t + 1) else ninf
  | .tmp1 .once φ => fun t => maxOver 0 (t + 1) (rho σ n φ)
  | .tmp1 .hist φ => fun t => minOver 0 (t + 1) (rho σ n φ)
  | .tmp1 .ev φ => fun t => maxOver t n (rho σ n φ)
  | .tmp1 .alw φ => fun t => minOver t n (rho σ n φ)
  | .tmp2 .since φ ψ => fun t =>
      maxOver 0 (t + 1) (fun t' => pmin (rho σ n ψ t') (minOver (t' + 1) (t + 1) (rho σ n φ)))
  | .tmp2 .until φ ψ => fun t =>
      maxOver t n (fun t' => pmin (rho σ n ψ t') (minOver t t' (rho σ n φ)))
  -- t' ∈ [0,t] ∩ [t-b, t-a]
  | .tb1 .once a b φ => fun t => maxOver (t - b) (t + 1 - a) (rho σ n φ)
  | .tb1 .hist a b φ => fun t => minOver (t - b) (t + 1 - a) (rho σ n φ)
  -- t' ∈ [0,n) ∩ [t+a, t+b]
  | .tb1 .ev a b φ => fun t => maxOver (t + a) (min (t + b + 1) n) (rho σ n φ)
  | .tb1 .alw a b φ => fun t => minOver (t + a) (min (t + b + 1) n) (rho σ n φ)
  | .tb2 .since a b φ ψ => fun t =>
      maxOver (t - b) (t + 1 - a)
        (fun t' => pmin (rho σ n ψ t') (minOver (t' + 1) (t + 1) (rho σ n φ)))
  | .tb2 .until a b φ ψ => fun t =>
      maxOver (t + a) (min (t + b + 1) n)
        (fun t' => pmin (rho σ n ψ t') (minOver t t' (rho σ n φ)))
  -- `precedes[a,b]` is the pastifier's image of `until[a,b]`: its value at `t` is
  -- the value of `until[a,b]` at `t - b` on the prefix seen so far.
  | .tb2 .precedes a b φ ψ => fun t =>
      maxOver (t + a - b) (t + 1)
        (fun t' => pmin (rho σ n ψ t') (minOver (t - b) t' (rho σ n φ)))

end Rtamt
