/-
  M-alg, the driver of the explainer: `explain()` over all assertions and the result container `Explanations`.

  `explanations[name] = intervals` (`Explanations.__setitem__`): the first record of a name is stored as it is (at the end of the
  dictionary - a Python `dict` keeps insertion order), a later one is merged with what is there by `interval_union` and replaces
  it in place.  `explain()` starts from an empty container and visits, in order, every assertion that is violated at time 0
  (`explainSpecU`); the records of all of them go to the one container.

  `RtamtProofs/GenExplDrv.lean` proves that the methods translated from the source compute exactly this.
-/
import Rtamt.Discrete.ExplainU

namespace Rtamt
open Val

/-- A Python `dict` as an association list in insertion order: `d[k] = v`. -/
def dictSet {β : Type} (k : String) (v : β) : List (String × β) → List (String × β)
  | [] => [(k, v)]
  | (k', v') :: r => if k' == k then (k, v) :: r else (k', v') :: dictSet k v r

/-- `Explanations.__setitem__`. -/
def recordU (d : List (String × Ivs)) (x : String) (I : Ivs) : List (String × Ivs) :=
  match d.lookup x with
  | some A => dictSet x (unionIvs (A ++ I)) d
  | none => dictSet x I d

variable {α : Type} [Val α]

/-- The records of all assertions, in the order of the visits. -/
def explainRecordsU (σ : String → Nat → α) (n : Nat) : List (F α) → Except Unit (List (String × Ivs))
  | [] => .ok []
  | φ :: rest => do
      let a ← explainSpecU σ n φ
      let b ← explainRecordsU σ n rest
      pure (a ++ b)

/-- `explain()` of a specification with the assertions `specs`: the container afterwards. -/
def explainDriverU (σ : String → Nat → α) (n : Nat) (specs : List (F α)) : Except Unit (List (String × Ivs)) := do
  let recs ← explainRecordsU σ n specs
  pure (recs.foldl (fun d p => recordU d p.1 p.2) [])

/-- `specs[-1:]`: the last assertion only - the one whose value `evaluate()` returns (nothing for an empty list). -/
def lastSpec {β : Type} (specs : List β) : List β := specs.drop (specs.length - 1)

/-- `explain()` when its loop runs over `specs[-1:]`: the main assertion only. -/
def explainDriverLastU (σ : String → Nat → α) (n : Nat) (specs : List (F α)) : Except Unit (List (String × Ivs)) :=
  explainDriverU σ n (lastSpec specs)

end Rtamt
