/-
  M-spec: Boolean satisfaction of STL on a discrete trace (the qualitative semantics the
  robustness degree is sound for), and the sorting of the single-sorted grammar into
  terms and formulas.  Same window conventions as `rho` (clipped to `[0, n)`;
  prev/next weak, s_prev/s_next strong).
-/
import Rtamt.Discrete.Rho

namespace Rtamt
open Val

variable {α : Type} [Val α]

/-- Arithmetic terms. -/
def F.isTerm : F α → Bool
  | .var _ => true
  | .const _ => true
  | .un op φ => (match op with | .not => false | _ => true) && φ.isTerm
  | .bin op φ ψ => (match op with | .add | .sub | .mul | .div | .pow | .log => true | _ => false)
                      && φ.isTerm && ψ.isTerm
  | _ => false

/-- Formulas: predicates over terms, closed under the Boolean and temporal operators. -/
def F.isFormula : F α → Bool
  | .var _ => false
  | .const _ => false
  | .un op φ => (match op with | .not => true | _ => false) && φ.isFormula
  | .bin op φ ψ =>
      match op with
      | .pred _ => φ.isTerm && ψ.isTerm
      | .and | .or | .implies | .iff | .xor => φ.isFormula && ψ.isFormula
      | _ => false
  | .tmp1 _ φ => φ.isFormula
  | .tmp2 _ φ ψ => φ.isFormula && ψ.isFormula
  | .tb1 _ _ _ φ => φ.isFormula
  | .tb2 _ _ _ φ ψ => φ.isFormula && ψ.isFormula

def F.noIffXor : F α → Bool
  | .var _ => true
  | .const _ => true
  | .un _ φ => φ.noIffXor
  | .bin op φ ψ => (match op with | .iff | .xor => false | _ => true) && φ.noIffXor && ψ.noIffXor
  | .tmp1 _ φ => φ.noIffXor
  | .tmp2 _ φ ψ => φ.noIffXor && ψ.noIffXor
  | .tb1 _ _ _ φ => φ.noIffXor
  | .tb2 _ _ _ φ ψ => φ.noIffXor && ψ.noIffXor

/-- Every predicate compares one variable with a constant (either order). -/
def F.simplePreds : F α → Bool
  | .var _ => true
  | .const _ => true
  | .un _ φ => φ.simplePreds
  | .bin op φ ψ =>
      match op, φ, ψ with
      | .pred _, .var _, .const _ => true
      | .pred _, .const _, .var _ => true
      | .pred _, _, _ => false
      | _, _, _ => φ.simplePreds && ψ.simplePreds
  | .tmp1 _ φ => φ.simplePreds
  | .tmp2 _ φ ψ => φ.simplePreds && ψ.simplePreds
  | .tb1 _ _ _ φ => φ.simplePreds
  | .tb2 _ _ _ φ ψ => φ.simplePreds && ψ.simplePreds

def anyOver (lo hi : Nat) (p : Nat → Bool) : Bool := (List.range' lo (hi - lo)).any p
def allOver (lo hi : Nat) (p : Nat → Bool) : Bool := (List.range' lo (hi - lo)).all p

/-- Boolean satisfaction `(w, t) ⊨ φ` (junk `false` on terms). -/
def sat (σ : String → Nat → α) (n : Nat) : F α → Nat → Bool
  | .var _ => fun _ => false
  | .const _ => fun _ => false
  | .un op φ => fun t => match op with | .not => !sat σ n φ t | _ => false
  | .bin op φ ψ => fun t =>
      match op with
      | .pred c => c.holds (rho σ n φ t) (rho σ n ψ t)
      | .and => sat σ n φ t && sat σ n ψ t
      | .or => sat σ n φ t || sat σ n ψ t
      | .implies => !sat σ n φ t || sat σ n ψ t
      | .iff => sat σ n φ t == sat σ n ψ t
      | .xor => sat σ n φ t != sat σ n ψ t
      | _ => false
  | .tmp1 .rise φ => fun t => sat σ n φ t && (t == 0 || !sat σ n φ (t - 1))
  | .tmp1 .fall φ => fun t => !sat σ n φ t && (t == 0 || sat σ n φ (t - 1))
  | .tmp1 .prev φ => fun t => t == 0 || sat σ n φ (t - 1)
  | .tmp1 .sprev φ => fun t => t != 0 && sat σ n φ (t - 1)
  | .tmp1 .next φ => fun t => !(decide (t + 1 < n)) || sat σ n φ (t + 1)
  | .tmp1 .snext φ => fun t => decide (t + 1 < n) && sat σ n φ (t + 1)
  | .tmp1 .once φ => fun t => anyOver 0 (t + 1) (sat σ n φ)
  | .tmp1 .hist φ => fun t => allOver 0 (t + 1) (sat σ n φ)
  | .tmp1 .ev φ => fun t => anyOver t n (sat σ n φ)
  | .tmp1 .alw φ => fun t => allOver t n (sat σ n φ)
  | .tmp2 .since φ ψ => fun t =>
      anyOver 0 (t + 1) (fun t' => sat σ n ψ t' && allOver (t' + 1) (t + 1) (sat σ n φ))
  | .tmp2 .until φ ψ => fun t =>
      anyOver t n (fun t' => sat σ n ψ t' && allOver t t' (sat σ n φ))
  | .tb1 .once a b φ => fun t => anyOver (t - b) (t + 1 - a) (sat σ n φ)
  | .tb1 .hist a b φ => fun t => allOver (t - b) (t + 1 - a) (sat σ n φ)
  | .tb1 .ev a b φ => fun t => anyOver (t + a) (min (t + b + 1) n) (sat σ n φ)
  | .tb1 .alw a b φ => fun t => allOver (t + a) (min (t + b + 1) n) (sat σ n φ)
  | .tb2 .since a b φ ψ => fun t =>
      anyOver (t - b) (t + 1 - a) (fun t' => sat σ n ψ t' && allOver (t' + 1) (t + 1) (sat σ n φ))
  | .tb2 .until a b φ ψ => fun t =>
      anyOver (t + a) (min (t + b + 1) n) (fun t' => sat σ n ψ t' && allOver t t' (sat σ n φ))
  | .tb2 .precedes a b φ ψ => fun t =>
      anyOver (t + a - b) (t + 1) (fun t' => sat σ n ψ t' && allOver (t - b) t' (sat σ n φ))

end Rtamt

namespace Rtamt

variable {α : Type}

/-- Arithmetic restricted to `+ - * unary-minus abs` (the operations with an exact meaning
    in every ordered field; division and the libm functions are excluded). -/
def F.simpleArith : F α → Bool
  | .var _ => true
  | .const _ => true
  | .un op φ => (match op with | .sqrt | .exp | .ln => false | _ => true) && φ.simpleArith
  | .bin op φ ψ => (match op with | .div | .pow | .log => false | _ => true) && φ.simpleArith && ψ.simpleArith
  | .tmp1 _ φ => φ.simpleArith
  | .tmp2 _ φ ψ => φ.simpleArith && ψ.simpleArith
  | .tb1 _ _ _ φ => φ.simpleArith
  | .tb2 _ _ _ φ ψ => φ.simpleArith && ψ.simpleArith

def F.consts : F α → List α
  | .var _ => []
  | .const c => [c]
  | .un _ φ => φ.consts
  | .bin _ φ ψ => φ.consts ++ ψ.consts
  | .tmp1 _ φ => φ.consts
  | .tmp2 _ φ ψ => φ.consts ++ ψ.consts
  | .tb1 _ _ _ φ => φ.consts
  | .tb2 _ _ _ φ ψ => φ.consts ++ ψ.consts

end Rtamt
