/-
  M-alg: `rtamt/pastifier/stl/horizon.py` (+ `ltl/horizon.py`) and
  `rtamt/pastifier/stl/pastifier.py` on the core syntax (bounds in samples).

  `hor φ`        = `StlHorizon.visit(φ)`: `max` over operands, `+ end` at bounded
                   future operators, `+ 1` at next / s_next; raises on unbounded future.
  `past R φ`     = `StlPastifier.visit(φ, R)`, `R` the *remaining* horizon:
                   a future operator consumes its bound and passes the rest down;
                   every other operator aligns its operands to its own horizon
                   `H = hor node` and, if `R > H`, is delayed by `once[R-H, R-H]`.

  The pastifier works on the surface bounds (numbers in the default unit); the model
  works on samples.  The two coincide when every bound is written in the default unit
  (explicit units are a known finding, F17).
-/
import Rtamt.Discrete.Online

namespace Rtamt

variable {α : Type}

/-- Horizon in samples; `none` = the horizon visitor raises (unbounded future). -/
def hor? : F α → Option Nat
  | .var _ => some 0
  | .const _ => some 0
  | .un _ φ => hor? φ
  | .bin _ φ ψ => do let a ← hor? φ; let b ← hor? ψ; pure (max a b)
  | .tmp1 op φ =>
      match op with
      | .ev | .alw => none
      | .next | .snext => (hor? φ).map (· + 1)
      | _ => hor? φ
  | .tmp2 op φ ψ =>
      match op with
      | .until => none
      | .since => do let a ← hor? φ; let b ← hor? ψ; pure (max a b)
  | .tb1 op _ b φ =>
      match op with
      | .ev | .alw => (hor? φ).map (· + b)
      | _ => hor? φ
  | .tb2 op _ b φ ψ => do
      let x ← hor? φ
      let y ← hor? ψ
      match op with
      | .until => pure (max x y + b)
      | _ => pure (max x y)

/-- Total version (0 for formulas with an unbounded future operator; guarded by `bounded`). -/
def hor : F α → Nat
  | .var _ => 0
  | .const _ => 0
  | .un _ φ => hor φ
  | .bin _ φ ψ => max (hor φ) (hor ψ)
  | .tmp1 op φ =>
      match op with
      | .next | .snext => hor φ + 1
      | _ => hor φ
  | .tmp2 _ φ ψ => max (hor φ) (hor ψ)
  | .tb1 op _ b φ =>
      match op with
      | .ev | .alw => hor φ + b
      | _ => hor φ
  | .tb2 op _ b φ ψ =>
      match op with
      | .until => max (hor φ) (hor ψ) + b
      | _ => max (hor φ) (hor ψ)

/-- No unbounded future operator (`eventually`, `always`, `until` without interval). -/
def F.bounded : F α → Bool
  | .var _ => true
  | .const _ => true
  | .un _ φ => φ.bounded
  | .bin _ φ ψ => φ.bounded && ψ.bounded
  | .tmp1 op φ => (match op with | .ev | .alw => false | _ => true) && φ.bounded
  | .tmp2 op φ ψ => (match op with | .until => false | _ => true) && φ.bounded && ψ.bounded
  | .tb1 _ _ _ φ => φ.bounded
  | .tb2 _ _ _ φ ψ => φ.bounded && ψ.bounded

/-- `if horizon > 0: node = TimedOnce(node, Interval(horizon, horizon))`. -/
def delay (h : Nat) (φ : F α) : F α := if h > 0 then .tb1 .once h h φ else φ

/-- `StlPastifier.visit(φ, R)`. -/
def past : Nat → F α → F α
  | R, .var x => delay R (.var x)
  | _, .const c => .const c
  | R, .un op φ => let H := hor φ; delay (R - H) (.un op (past H φ))
  | R, .bin op φ ψ => let H := max (hor φ) (hor ψ); delay (R - H) (.bin op (past H φ) (past H ψ))
  | R, .tmp1 op φ =>
      match op with
      | .next | .snext => past (R - 1) φ
      | _ => let H := hor φ; delay (R - H) (.tmp1 op (past H φ))
  | R, .tmp2 op φ ψ =>
      let H := max (hor φ) (hor ψ); delay (R - H) (.tmp2 op (past H φ) (past H ψ))
  | R, .tb1 op a b φ =>
      match op with
      | .ev => let c := past (R - b) φ; if b - a > 0 then .tb1 .once 0 (b - a) c else c
      | .alw => let c := past (R - b) φ; if b - a > 0 then .tb1 .hist 0 (b - a) c else c
      | .once =>
          let H := hor φ
          let c := past H φ
          if R - H > 0 then .tb1 .once (a + (R - H)) (b + (R - H)) c else .tb1 .once a b c
      | .hist => let H := hor φ; delay (R - H) (.tb1 .hist a b (past H φ))
  | R, .tb2 op a b φ ψ =>
      match op with
      | .until => .tb2 .precedes a b (past (R - b) φ) (past (R - b) ψ)
      | .since => let H := max (hor φ) (hor ψ); delay (R - H) (.tb2 .since a b (past H φ) (past H ψ))
      | .precedes => let H := max (hor φ) (hor ψ); delay (R - H) (.tb2 .precedes a b (past H φ) (past H ψ))

/-- `pastify()`: the specification is pastified with its own horizon. -/
def pastify (φ : F α) : F α := past (hor φ) φ

/-- Future-free: no future operator at all (then `pastify` is the identity up to copying). -/
def F.futureFree : F α → Bool
  | .var _ => true
  | .const _ => true
  | .un _ φ => φ.futureFree
  | .bin _ φ ψ => φ.futureFree && ψ.futureFree
  | .tmp1 op φ => (match op with | .next | .snext | .ev | .alw => false | _ => true) && φ.futureFree
  | .tmp2 op φ ψ => (match op with | .until => false | _ => true) && φ.futureFree && ψ.futureFree
  | .tb1 op _ _ φ => (match op with | .ev | .alw => false | _ => true) && φ.futureFree
  | .tb2 op _ _ φ ψ => (match op with | .until => false | _ => true) && φ.futureFree && ψ.futureFree

/-- The fragment on which the pastified monitor is proved to be the delayed original:
    bounded future only, and every past / event operator has future-free operands
    (a past operator over a future sub-formula is wrong near the start of the trace, F15). -/
def F.frag : F α → Bool
  | .var _ => true
  | .const _ => true
  | .un _ φ => φ.frag
  | .bin _ φ ψ => φ.frag && ψ.frag
  | .tmp1 op φ =>
      match op with
      | .next | .snext => φ.frag
      | .ev | .alw => false
      | _ => φ.futureFree
  | .tmp2 op φ ψ =>
      match op with
      | .until => false
      | .since => φ.futureFree && ψ.futureFree
  | .tb1 op _ _ φ =>
      match op with
      | .ev | .alw => φ.frag
      | _ => φ.futureFree
  | .tb2 op _ _ φ ψ =>
      match op with
      | .until => φ.frag && ψ.frag
      | _ => φ.futureFree && ψ.futureFree

end Rtamt
