/-
  M-alg: `AbstractDiscreteTimeOfflineInterpreter.evaluate(dataset)` as a whole method
  (`rtamt/semantics/abstract_discrete_time_offline_interpreter.py`) for a specification with several
  assertions (`ast.specs`; `AbstractAstVisitor.visitAst` visits every one of them in order and the
  list of the LAST one is what `evaluate` returns).

    * a data set is a Python dictionary: the columns of the variables (an association list in the
      order of the dictionary; the value of `dataset[key]` is the first entry of that key) and the
      'time' column (absent: `KeyError`);
    * `set_variable_to_ast_from_dataset`: every key except 'time' is written into
      `ast.var_object_dict` (`Dataset.bind`; an assignment shadows the earlier entry), what the
      dictionary held before stays for the keys the data set does not have;
    * `length = len(dataset['time'])`; every assertion is evaluated with that length by the visitor
      (`evalOff`), the first exception ends the call;
    * `rob = rob[len(rob) - 1]`: `IndexError` for a specification without assertions;
    * the violation counter is advanced by the gap loop (`offlineCounter`);
    * one `[t, v]` pair per element of `zip(time, rob)`.
-/
import Rtamt.Discrete.Sampling

namespace Rtamt
open Val

/-- The argument of `evaluate`: the columns of the variables and the 'time' column. -/
structure Dataset (α : Type) where
  cols : List (String × List α)
  time : Option (List Rat)
  deriving Inhabited

variable {α : Type} [Val α]

/-- `for key in dataset`. -/
def Dataset.keys (d : Dataset α) : List String :=
  d.cols.map (·.1) ++ (if d.time.isSome then ["time"] else [])

/-- One pass of the loop of `set_variable_to_ast_from_dataset` over the keys `ks`. -/
def Dataset.bindKeys (d : Dataset α) (ks : List String) (w : Env α) : Env α :=
  ks.foldl (fun w k => if k ≠ "time" then
      match d.cols.lookup k with
      | some l => (k, l) :: w
      | none => w
    else w) w

/-- `set_variable_to_ast_from_dataset(dataset)` on `var_object_dict = w`. -/
def Dataset.bind (d : Dataset α) (w : Env α) : Env α := d.bindKeys d.keys w

/-- `visitAst`: `out = []; for spec in ast.specs: out.append(self.visit(spec, length))`. -/
def evalSpecs (h : Kind → Bool) (w : Env α) (n : Nat) : List (F α) → Except PyErr (List (List α))
  | [] => .ok []
  | φ :: rest => do
      let r ← evalOff h w n φ
      let rs ← evalSpecs h w n rest
      pure (r :: rs)

/-- `evaluate` on a specification with the assertions `specs`: every assertion is evaluated, the list
    of the last one is zipped with the time column. -/
def evaluateOffSpecs {τ : Type} (h : Kind → Bool) (specs : List (F α)) (time : List τ) (w : Env α) :
    Except PyErr (List (τ × α)) := do
  let robs ← evalSpecs h w time.length specs
  match robs.getLast? with
  | none => .error .index
  | some rob => pure (time.zip rob)

/-- The whole method: the pairs returned, `var_object_dict` and the violation counter afterwards. -/
def evaluateOffData (h : Kind → Bool) (c : SamplingCfg) (specs : List (F α)) (d : Dataset α)
    (w : Env α) (viol : Nat) : Except PyErr (List (Rat × α) × Env α × Nat) :=
  match d.time with
  | none => .error .key
  | some time => do
      let out ← evaluateOffSpecs h specs time (d.bind w)
      pure (out, d.bind w, offlineCounter c viol time)

end Rtamt
