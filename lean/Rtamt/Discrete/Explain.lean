/-
  M-alg: the explainer (`rtamt/explanation/{ltl,stl}/discrete_time/*.py`, after the `fix:`
  commits): top-down propagation of interval lists with a polarity flag
  (`flag = true`: "explain why satisfied", `false`: "why violated"), starting from
  `[[0,0]]` / `false` when the specification is violated at time 0.

  `op_signal[i]` of the code is the offline result of the operand, i.e. `rho σ n ψ i` (C01);
  "satisfied at i" is `op_signal[i] >= 0`, "violated" is `op_signal[i] < 0`.
  `interval_union` (sorting and merging of adjacent intervals) changes the representation of an
  interval list, not the set of positions it covers; the model keeps the lists un-merged and the
  correspondence check compares position sets.  `explanations[name]` accumulates the intervals
  of every occurrence of the name; the model collects the (variable, intervals) pairs.
-/
import Rtamt.Discrete.Rho

namespace Rtamt
open Val

abbrev Ivs := List (Nat × Nat)

variable {α : Type} [Val α]

/-- `v >= 0` -/
def isSat (v : α) : Bool := !Val.lt v Val.zero
/-- `v < 0` -/
def isUnsat (v : α) : Bool := Val.lt v Val.zero

/-- The run-extraction loop shared by the explanation functions: maximal runs of `p` inside
    `[b, e]`.  `cur` is the start of the open run, `i` the next index, `k` the number of indices left. -/
def runsLoop (p : Nat → Bool) (e : Nat) : Nat → Nat → Option Nat → Ivs
  | 0, _, cur => match cur with | some s => [(s, e)] | none => []
  | k + 1, i, cur =>
      match cur, p i with
      | none, true => runsLoop p e k (i + 1) (some i)
      | some s, false => (s, i - 1) :: runsLoop p e k (i + 1) none
      | c, _ => runsLoop p e k (i + 1) c

def runs (p : Nat → Bool) (b e : Nat) : Ivs := runsLoop p e (e + 1 - b) b none

def runsAll (p : Nat → Bool) (I : Ivs) : Ivs := I.flatMap (fun (b, e) => runs p b e)

/-- `explain_next` / `explain_prev`. -/
def explNext (n : Nat) (I : Ivs) : Ivs :=
  I.filterMap (fun (b, e) =>
    if b < n - 1 ∧ e < n - 1 then some (b + 1, e + 1)
    else if b < n - 1 ∧ n - 1 ≤ e then some (b + 1, e)
    else none)

def explPrev (I : Ivs) : Ivs :=
  I.filterMap (fun (b, e) =>
    if b > 0 ∧ e > 0 then some (b - 1, e - 1)
    else if b ≤ 0 ∧ e > 0 then some (b, e - 1)
    else none)

def firstBegin (I : Ivs) : Option Nat := I.head?.map (·.1)
def lastEnd (I : Ivs) : Option Nat := I.getLast?.map (·.2)

/-- The explainer: returns the (variable, intervals) pairs written to `explanations`, or an error
    for the operators it does not implement (since / until / precedes). -/
def explain (σ : String → Nat → α) (n : Nat) : F α → Ivs → Bool → Except Unit (List (String × Ivs))
  | .var x, I, _ => .ok [(x, I)]
  | .const _, _, _ => .ok []
  | .un op φ, I, flag =>
      match op with
      | .not => explain σ n φ I (!flag)
      | _ => explain σ n φ I flag                      -- abs sqrt exp (ln, negate: same shape)
  | .bin op φ ψ, I, flag =>
      let s1 := fun i => rho σ n φ i
      let s2 := fun i => rho σ n ψ i
      let both (f1 : Bool) (I1 I2 : Ivs) : Except Unit (List (String × Ivs)) := do
        let a ← explain σ n φ I1 f1
        let b ← explain σ n ψ I2 flag
        pure (a ++ b)
      match op, flag with
      | .and, false => both flag (runsAll (fun i => isUnsat (s1 i)) I) (runsAll (fun i => isUnsat (s2 i)) I)
      | .or, true => both flag (runsAll (fun i => isSat (s1 i)) I) (runsAll (fun i => isSat (s2 i)) I)
      -- the antecedent is visited with the opposite polarity
      | .implies, true => both (!flag) (runsAll (fun i => isUnsat (s1 i)) I) (runsAll (fun i => isSat (s2 i)) I)
      | .implies, false => both (!flag) I I
      | _, _ => both flag I I                           -- explain_binary
  | .tmp1 op φ, I, flag =>
      let s := fun i => rho σ n φ i
      match op, flag with
      | .rise, _ | .fall, _ => explain σ n φ I flag
      | .prev, _ | .sprev, _ => explain σ n φ (explPrev I) flag
      | .next, _ | .snext, _ => explain σ n φ (explNext n I) flag
      | .alw, true => explain σ n φ (match firstBegin I with | some b => [(b, n - 1)] | none => []) flag
      | .alw, false => explain σ n φ (match firstBegin I with | some b => runs (fun i => isUnsat (s i)) b (n - 1) | none => []) flag
      | .ev, true => explain σ n φ (match firstBegin I with | some b => runs (fun i => isSat (s i)) b (n - 1) | none => []) flag
      | .ev, false => explain σ n φ (match firstBegin I with | some b => [(b, n - 1)] | none => []) flag
      | .hist, true => explain σ n φ (match lastEnd I with | some e => [(0, e)] | none => []) flag
      | .hist, false => explain σ n φ (match lastEnd I with | some e => runs (fun i => isUnsat (s i)) 0 e | none => []) flag
      | .once, true => explain σ n φ (match lastEnd I with | some e => runs (fun i => isSat (s i)) 0 e | none => []) flag
      | .once, false => explain σ n φ (match lastEnd I with | some e => [(0, e)] | none => []) flag
  | .tmp2 _ _ _, _, _ => .error ()
  | .tb1 op a b φ, I, flag =>
      let s := fun i => rho σ n φ i
      let fwd : Ivs := I.map (fun (x, y) => (min (x + a) (n - 1), min (y + b) (n - 1)))
      let bwd : Ivs := I.map (fun (x, y) => (x - b, y - a))
      match op, flag with
      | .alw, true => explain σ n φ fwd flag
      | .alw, false => explain σ n φ (runsAll (fun i => isUnsat (s i)) fwd) flag
      | .ev, true => explain σ n φ (runsAll (fun i => isSat (s i)) fwd) flag
      | .ev, false => explain σ n φ fwd flag
      | .hist, true => explain σ n φ bwd flag
      | .hist, false => explain σ n φ (runsAll (fun i => isUnsat (s i)) bwd) flag
      | .once, true => explain σ n φ (runsAll (fun i => isSat (s i)) bwd) flag
      | .once, false => explain σ n φ bwd flag
  | .tb2 _ _ _ _ _, _, _ => .error ()

/-- `explain()` of the specification: only when it is violated at time 0. -/
def explainSpec (σ : String → Nat → α) (n : Nat) (φ : F α) : Except Unit (List (String × Ivs)) :=
  if isUnsat (rho σ n φ 0) then explain σ n φ [(0, 0)] false else .ok []

/-- Position `(x, t)` is reported. -/
def reported (ex : List (String × Ivs)) (x : String) (t : Nat) : Bool :=
  ex.any (fun (y, I) => y == x && I.any (fun (b, e) => decide (b ≤ t) && decide (t ≤ e)))

/-- The fragment on which sufficiency is proved: sorted formulas (predicates over arithmetic
    terms) closed under not / and / or / implies, prev / next (weak and strong) and bounded or
    unbounded once / historically / eventually / always. -/
def F.explTerm : F α → Bool
  | .var _ => true
  | .const _ => true
  | .un op φ => (match op with | .not => false | _ => true) && φ.explTerm
  | .bin op φ ψ => (match op with | .add | .sub | .mul | .div | .pow | .log => true | _ => false) && φ.explTerm && ψ.explTerm
  | _ => false

def F.explFrag : F α → Bool
  | .var _ => false
  | .const _ => false
  | .un op φ => (match op with | .not => true | _ => false) && φ.explFrag
  | .bin op φ ψ =>
      match op with
      | .pred _ => φ.explTerm && ψ.explTerm
      | .and | .or | .implies => φ.explFrag && ψ.explFrag
      | _ => false
  | .tmp1 op φ => (match op with | .rise | .fall => false | _ => true) && φ.explFrag
  | .tmp2 _ _ _ => false
  | .tb1 _ a b φ => decide (a ≤ b) && φ.explFrag
  | .tb2 _ _ _ _ _ => false

end Rtamt
