/-
  M-alg: `update(timestamp, dataset)` / `reset()` of the discrete-time online interpreter as WHOLE methods, on top of
  `updateSpecs` (`Program.lean`), `resetSpecs` (`ProgramReset.lean`) and the sampling bookkeeping `Clock` (`Sampling.lean`):

    update   the rows of the data set that name a free variable are written to `var_object_dict` (a later row for the same
             variable wins; a variable the data set leaves out keeps its PREVIOUS value — discrete time does not clear the
             dictionary), all assertions are evaluated on that valuation, the value of the LAST assertion is returned
             (`rob[len(rob) - 1]`: IndexError without assertions), then the clock ticks;
    reset    the operators are reset, the clock is reset, every free variable goes back to its initial value (`float()`).
-/
import Rtamt.Discrete.ProgramReset
import Rtamt.Discrete.Sampling

namespace Rtamt
open Val

variable {α : Type} [Val α] [DecidableEq α]

/-- `set_variable_to_ast_from_dataset(dataset)` on `var_object_dict`: the rows that name a free variable are written, in
    order; all other rows are ignored. -/
def applyRows (free : List String) (vod : String → α) : List (String × α) → (String → α)
  | [] => vod
  | (x, v) :: rest => applyRows free (if free.contains x then (fun y => if y = x then v else vod y) else vod) rest

/-- The valuations the assertions are evaluated on in successive `update` calls: every data set is written over the
    valuation of the previous call. -/
def valuations (free : List String) (vod : String → α) : List (List (String × α)) → List (String → α)
  | [] => []
  | d :: ds => applyRows free vod d :: valuations free (applyRows free vod d) ds

/-- `reset()` on `var_object_dict`: `create_var_from_name` for every free variable. -/
def resetVars (free : List String) (vod : String → α) : String → α :=
  fun y => if free.contains y then Val.zero else vod y

/-- `rob[len(rob) - 1]` of a non-empty list. -/
def lastVal (l : List α) : α := (l[l.length - 1]?).getD Val.zero

/-- The online monitor: operator dictionary, `var_object_dict`, sampling bookkeeping. -/
structure Prog (α : Type) where
  ops : Store α
  vod : String → α
  clock : Clock

/-- `update(timestamp, dataset)`: the value returned, the memo of the round, the monitor afterwards. -/
def Prog.update (c : SamplingCfg) (free : List String) (specs : List (F α)) (p : Prog α) (ts : Rat) (d : List (String × α)) :
    Except PyErr (α × Memo α × Prog α) :=
  match updateSpecs (applyRows free p.vod d) specs p.ops with
  | .error e => .error e
  | .ok (vs, memo, ops') =>
    match vs[vs.length - 1]? with
    | none => .error .index
    | some rob => .ok (rob, memo, { ops := ops', vod := applyRows free p.vod d, clock := p.clock.tick c ts })

/-- A sequence of `update(timestamp, dataset)` calls. -/
def Prog.run (c : SamplingCfg) (free : List String) (specs : List (F α)) :
    Prog α → List (Rat × List (String × α)) → Except PyErr (List (α × Memo α) × Prog α)
  | p, [] => .ok ([], p)
  | p, (ts, d) :: rest => do
      let (rob, memo, p') ← p.update c free specs ts d
      let (out, p'') ← Prog.run c free specs p' rest
      pure ((rob, memo) :: out, p'')

/-- `reset()`. -/
def Prog.reset (free : List String) (specs : List (F α)) (p : Prog α) : Except PyErr (Prog α) := do
  let ops' ← resetSpecs specs p.ops
  pure { ops := ops', vod := resetVars free p.vod, clock := p.clock.reset }

end Rtamt
