/-
  M-alg: the bookkeeping of `DiscreteTimeInterpreter` /
  `AbstractDiscreteTimeOnlineInterpreter` / `AbstractDiscreteTimeOfflineInterpreter`
  around the operator tree: `update_counter`, `previous_time`,
  `sampling_violation_counter`, `normalize`, `reset()`.

  Time stamps, period and tolerance are rationals in the model (the code uses
  Python numbers; the correspondence check feeds dyadic values so that the float
  comparisons are exact).
-/
import Rtamt.Discrete.Online

namespace Rtamt

/-- Nanoseconds per unit (`self.U`). -/
inductive TUnit | s | ms | us | ns
  deriving DecidableEq, Repr, Inhabited

def TUnit.nanos : TUnit → Nat
  | .s => 1000000000 | .ms => 1000000 | .us => 1000 | .ns => 1

structure SamplingCfg where
  period : Rat          -- `sampling_period`, a number in `periodUnit`
  periodUnit : TUnit
  tol : Rat             -- `sampling_tolerance` ∈ [0,1]
  unit : TUnit          -- `spec.unit`: the unit of the time stamps
  deriving Repr

/-- `normalize`: converts a gap in the default unit into the unit of the sampling period. -/
def SamplingCfg.normalize (c : SamplingCfg) : Rat := (c.unit.nanos : Rat) / (c.periodUnit.nanos : Rat)

/-- The test of `update_sampling_violation_counter(duration)`. -/
def SamplingCfg.violates (c : SamplingCfg) (duration : Rat) : Bool :=
  let tolerance := c.period * c.tol
  decide (duration < c.period - tolerance) || decide (duration > c.period + tolerance)

/-- Online bookkeeping: `(update_counter, previous_time, sampling_violation_counter)`. -/
structure Clock where
  count : Nat := 0
  prev : Rat := 0
  viol : Nat := 0
  deriving Repr, DecidableEq

/-- The part of `update(timestamp, …)` after the robustness has been computed. -/
def Clock.tick (c : SamplingCfg) (k : Clock) (ts : Rat) : Clock :=
  let viol := if k.count > 0 ∧ c.violates ((ts - k.prev) * c.normalize) then k.viol + 1 else k.viol
  { count := k.count + 1, prev := ts, viol := viol }

def Clock.reset (_ : Clock) : Clock := {}

/-- Counter after the time stamps `ts` have been fed to a fresh online monitor. -/
def onlineCounter (c : SamplingCfg) (ts : List Rat) : Nat := (ts.foldl (Clock.tick c) {}).viol

/-- The loop of offline `evaluate` (after the fix: every gap is checked), starting from the
    current value of the counter. -/
def offlineCounter (c : SamplingCfg) (start : Nat) (ts : List Rat) : Nat :=
  (List.range (ts.length - 1)).foldl
    (fun acc i => if c.violates ((ts.getD (i + 1) 0 - ts.getD i 0) * c.normalize) then acc + 1 else acc) start

/-- Consecutive gaps `t(i+1) - t(i)`. -/
def gaps : List Rat → List Rat
  | a :: b :: rest => (b - a) :: gaps (b :: rest)
  | _ => []

/-- Specification: the gap lies outside `[P(1-tol), P(1+tol)]`, `P` the period expressed in the
    unit of the time stamps. -/
def SamplingCfg.outside (c : SamplingCfg) (gap : Rat) : Bool :=
  let P : Rat := c.period * (c.periodUnit.nanos : Rat) / (c.unit.nanos : Rat)
  decide (gap < P * (1 - c.tol)) || decide (gap > P * (1 + c.tol))

/-! ### the online monitor with its clock -/

variable {α : Type} [Val α]

structure Mon (α : Type) where
  tree : STree α
  clock : Clock

def Mon.update (c : SamplingCfg) (φ : F α) (m : Mon α) (ts : Rat) (env : String → α) :
    Except PyErr (Mon α × α) := do
  let (t', o) ← stepTree env φ m.tree
  pure ({ tree := t', clock := m.clock.tick c ts }, o)

def Mon.reset (φ : F α) (m : Mon α) : Mon α := { tree := resetTree φ m.tree, clock := m.clock.reset }

def Mon.run (c : SamplingCfg) (φ : F α) : Mon α → List (Rat × (String → α)) → Except PyErr (Mon α × List α)
  | m, [] => .ok (m, [])
  | m, (ts, e) :: rest => do
      let (m', o) ← m.update c φ ts e
      let (m'', os) ← Mon.run c φ m' rest
      pure (m'', o :: os)

end Rtamt
