/-
  M-alg: the discrete-time online monitor.

  * per-operator state machines: mirrors of
      rtamt/semantics/stl/discrete_time/online/*_operation.py
      rtamt/semantics/arithmetic/discrete_time/online/*_operation.py
    (`initOp` = `__init__`, `stepOp` = `update`, `resetOp` = `reset`);
  * the interpreter (`abstract_online_interpreter.py`,
    `abstract_discrete_time_online_interpreter.py`): `initTree` = `set_ast`
    (the construction visitor of `online/ast_visitor.py`, which raises
    RTAMTException on unsupported node classes), `stepTree` = one `update`,
    `resetTree` = `reset`.

  Modelling decision (DESIGN §4 C02): operator state is kept per *position* of
  the syntax tree.  The code keeps it in a dictionary keyed by the printed name
  of the node and evaluates every distinct name once per update; that the two
  coincide is validated by the correspondence check on specifications with
  duplicated text and shared sub-specifications, not proved.
-/
import Rtamt.Discrete.Offline

namespace Rtamt
open Val

variable {α : Type} [Val α]

/-- State of one operator object. -/
inductive St (α : Type)
  | unit                         -- stateless operations
  | val (v : α)                  -- prev_out / prev
  | buf (l : List α)             -- deque of Once/HistoricallyTimedOperation
  | buf2 (l r : List α)          -- the two deques of Since/PrecedesTimedOperation
  deriving Repr, Inhabited, DecidableEq

inductive STree (α : Type)
  | leaf
  | n1 (s : St α) (c : STree α)
  | n2 (s : St α) (l r : STree α)
  deriving Repr, Inhabited

/-! ### operator objects -/

def initT1 : T1 → St α
  | .rise => .val ninf
  | .fall => .val pinf
  | .prev => .val pinf
  | .sprev => .val ninf
  | .once => .val ninf
  | .hist => .val pinf
  | .next | .snext | .ev | .alw => .unit      -- not constructible online (see `initTree`)

def stepT1 : T1 → St α → α → Except PyErr (St α × α)
  | .rise, .val p, x => .ok (.val x, pmin (neg p) x)
  | .fall, .val p, x => .ok (.val x, pmin p (neg x))
  | .prev, .val p, x => .ok (.val x, p)
  | .sprev, .val p, x => .ok (.val x, p)
  | .once, .val p, x => let o := pmax x p; .ok (.val o, o)
  | .hist, .val p, x => let o := pmin x p; .ok (.val o, o)
  | _, _, _ => .error .type

def initT2 : T2 → St α
  | .since => .val ninf
  | .until => .unit

def stepT2 : T2 → St α → α → α → Except PyErr (St α × α)
  | .since, .val p, l, r => let o := sinceStep p (l, r); .ok (.val o, o)
  | _, _, _, _ => .error .type

/-- `reset()` of the bounded operations appends `end+1` neutral elements to the deque(s). -/
def pushN (buf : List α) (x : α) : Nat → List α
  | 0 => buf
  | k + 1 => pushN (dqPush buf x) x k

def initTB1 (op : TB1) (b : Nat) : St α :=
  match op with
  | .once => .buf (List.replicate (b + 1) ninf)
  | .hist => .buf (List.replicate (b + 1) pinf)
  | _ => .unit

/-- `for i in range(end-begin+1): ret = max(ret, buffer[i])`. -/
def winFold (f : α → α → α) (init : α) (a b : Nat) (buf : List α) : Except PyErr α :=
  (List.range (b - a + 1)).foldlM (fun acc i => do let x ← idx buf i; pure (f acc x)) init

def stepTB1 : TB1 → Nat → Nat → St α → α → Except PyErr (St α × α)
  | .once, a, b, .buf l, x => do
      let l' := dqPush l x
      let o ← winFold pmax ninf a b l'
      pure (.buf l', o)
  | .hist, a, b, .buf l, x => do
      let l' := dqPush l x
      let o ← winFold pmin pinf a b l'
      pure (.buf l', o)
  | _, _, _, _, _ => .error .type

def initTB2 (op : TB2) (b : Nat) : St α :=
  match op with
  | .until => .unit
  | _ => .buf2 (List.replicate (b + 1) pinf) (List.replicate (b + 1) ninf)

/-- Double loop of `PrecedesTimedOperation.update`. -/
def precWin (a b : Nat) (bl br : List α) : Except PyErr α :=
  (List.range' a (b + 1 - a)).foldlM (fun out i => do
      let cr ← idx br i
      let cl ← (List.range i).foldlM (fun c j => do let x ← idx bl j; pure (pmin c x)) pinf
      pure (pmax out (pmin cl cr))) ninf

def stepTB2 : TB2 → Nat → Nat → St α → α → α → Except PyErr (St α × α)
  | .since, a, b, .buf2 bl br, l, r => do
      let bl' := dqPush bl l
      let br' := dqPush br r
      let o ← sinceWin a b bl' br'
      pure (.buf2 bl' br', o)
  | .precedes, a, b, .buf2 bl br, l, r => do
      let bl' := dqPush bl l
      let br' := dqPush br r
      let o ← precWin a b bl' br'
      pure (.buf2 bl' br', o)
  | _, _, _, _, _, _ => .error .type

/-! ### `reset()` of each operation class -/

def resetT1 (op : T1) (_ : St α) : St α := initT1 op          -- `self.__init__()`
def resetT2 (op : T2) (_ : St α) : St α := initT2 op

def resetTB1 : TB1 → Nat → St α → St α
  | .once, b, .buf l => .buf (pushN l ninf (b + 1))
  | .hist, b, .buf l => .buf (pushN l pinf (b + 1))
  | _, _, s => s

def resetTB2 : TB2 → Nat → St α → St α
  | .until, _, s => s
  | _, b, .buf2 l r => .buf2 (pushN l pinf (b + 1)) (pushN r ninf (b + 1))
  | _, _, s => s

/-! ### the interpreter -/

/-- `set_ast`: the construction visitor.  `h`/`r` = the table regenerated from the source:
    `r k` — `visitK` only raises RTAMTException; `¬ h k` — no override, no operator object
    is registered and the first `update` fails with KeyError. -/
def initTree (h r : Kind → Bool) : F α → Except PyErr (STree α)
  | .var _ => if r .Variable then .error .rtamt else if h .Variable then .ok .leaf else .error .key
  | .const _ => .ok .leaf
  | .un op φ => do
      if r op.kind then throw .rtamt
      let c ← initTree h r φ
      if h op.kind then pure (.n1 .unit c) else throw .key
  | .bin op φ ψ => do
      if r op.kind then throw .rtamt
      let c1 ← initTree h r φ
      let c2 ← initTree h r ψ
      if h op.kind then pure (.n2 .unit c1 c2) else throw .key
  | .tmp1 op φ => do
      if r op.kind then throw .rtamt
      let c ← initTree h r φ
      if h op.kind then pure (.n1 (initT1 op) c) else throw .key
  | .tmp2 op φ ψ => do
      if r op.kind then throw .rtamt
      let c1 ← initTree h r φ
      let c2 ← initTree h r ψ
      if h op.kind then pure (.n2 (initT2 op) c1 c2) else throw .key
  | .tb1 op _ b φ => do
      if r op.kind then throw .rtamt
      let c ← initTree h r φ
      if h op.kind then pure (.n1 (initTB1 op b) c) else throw .key
  | .tb2 op _ b φ ψ => do
      if r op.kind then throw .rtamt
      let c1 ← initTree h r φ
      let c2 ← initTree h r ψ
      if h op.kind then pure (.n2 (initTB2 op b) c1 c2) else throw .key

/-- One `update`: `AbstractOnlineUpdateVisitor` (children first, then the node's operation). -/
def stepTree (env : String → α) : F α → STree α → Except PyErr (STree α × α)
  | .var x, .leaf => .ok (.leaf, env x)
  | .const c, .leaf => .ok (.leaf, c)
  | .un op φ, .n1 s c => do
      let (c', v) ← stepTree env φ c
      pure (.n1 s c', op.app v)
  | .bin op φ ψ, .n2 s c1 c2 => do
      let (c1', v1) ← stepTree env φ c1
      let (c2', v2) ← stepTree env ψ c2
      pure (.n2 s c1' c2', op.app v1 v2)
  | .tmp1 op φ, .n1 s c => do
      let (c', v) ← stepTree env φ c
      let (s', o) ← stepT1 op s v
      pure (.n1 s' c', o)
  | .tmp2 op φ ψ, .n2 s c1 c2 => do
      let (c1', v1) ← stepTree env φ c1
      let (c2', v2) ← stepTree env ψ c2
      let (s', o) ← stepT2 op s v1 v2
      pure (.n2 s' c1' c2', o)
  | .tb1 op a b φ, .n1 s c => do
      let (c', v) ← stepTree env φ c
      let (s', o) ← stepTB1 op a b s v
      pure (.n1 s' c', o)
  | .tb2 op a b φ ψ, .n2 s c1 c2 => do
      let (c1', v1) ← stepTree env φ c1
      let (c2', v2) ← stepTree env ψ c2
      let (s', o) ← stepTB2 op a b s v1 v2
      pure (.n2 s' c1' c2', o)
  | _, _ => .error .type

/-- `reset`: `AbstractOnlineResetVisitor` (children first, then `operator.reset()`). -/
def resetTree : F α → STree α → STree α
  | .un _ φ, .n1 s c => .n1 s (resetTree φ c)
  | .bin _ φ ψ, .n2 s c1 c2 => .n2 s (resetTree φ c1) (resetTree ψ c2)
  | .tmp1 op φ, .n1 s c => .n1 (resetT1 op s) (resetTree φ c)
  | .tmp2 op φ ψ, .n2 s c1 c2 => .n2 (resetT2 op s) (resetTree φ c1) (resetTree ψ c2)
  | .tb1 op _ b φ, .n1 s c => .n1 (resetTB1 op b s) (resetTree φ c)
  | .tb2 op _ b φ ψ, .n2 s c1 c2 => .n2 (resetTB2 op b s) (resetTree φ c1) (resetTree ψ c2)
  | _, st => st

/-- Feed a list of valuations (one per `update`), collecting the returned values. -/
def runTree (φ : F α) : STree α → List (String → α) → Except PyErr (STree α × List α)
  | st, [] => .ok (st, [])
  | st, e :: es => do
      let (st', o) ← stepTree e φ st
      let (st'', os) ← runTree φ st' es
      pure (st'', o :: os)

/-- A fresh monitor fed `envs`. -/
def runOnline (h r : Kind → Bool) (φ : F α) (envs : List (String → α)) : Except PyErr (List α) := do
  let st ← initTree h r φ
  let (_, os) ← runTree φ st envs
  pure os

end Rtamt

namespace Rtamt

/-- Node classes the discrete-time online monitor supports (everything but the future operators). -/
def onlineKinds : List Kind :=
  [.Variable, .Constant, .Predicate, .Abs, .Sqrt, .Exp, .Ln, .Negate, .Neg,
   .Addition, .Subtraction, .Multiplication, .Division, .Pow, .Log,
   .Conjunction, .Disjunction, .Implies, .Iff, .Xor,
   .Rise, .Fall, .Previous, .StrongPrevious, .Once, .Historically, .Since,
   .TimedOnce, .TimedHistorically, .TimedSince, .TimedPrecedes]

/-- The formula has no future operator (`precedes`, the pastifier's past image of bounded
    `until`, is allowed). -/
def F.online {α : Type} (φ : F α) : Bool := φ.kinds.all (fun k => onlineKinds.contains k)

end Rtamt
