/-
  M-alg: the interface-aware (IA) semantics of `rtamt/semantics/iastl/**`.

  The IA visitors / operations are the standard ones with `visitPredicate` /
  `PredicateOperation.update` overridden: a predicate whose `out_vars` (resp. `in_vars`) list is
  empty is *insensitive* under output- (resp. input-) robustness / vacuity and evaluates to
  `+inf`/`-inf` by satisfaction (robustness) or to `0` (vacuity).  `in_vars` / `out_vars` are
  computed bottom-up by the node constructors (`rtamt/syntax/node/**`): a `Variable` declared
  `input` contributes to `in_vars`, any other variable to `out_vars`; every other node
  concatenates the lists of its children.

  Because the choice is static per predicate node, IA evaluation = standard evaluation of the
  formula in which every insensitive predicate node is replaced by `predSat` / `predZero`
  (`iaT`).  All monitors (offline, online, pastified) are then the standard mirrors.
-/
import Rtamt.Syntax

namespace Rtamt

inductive Sem | standard | outRob | inRob | inVac | outVac
  deriving DecidableEq, Repr, Inhabited

variable {α : Type}

/-- `in_vars` as the node constructors compute it (`inputs`: the variables declared `input`). -/
def F.inVars (inputs : List String) : F α → List String
  | .var x => if inputs.contains x then [x] else []
  | .const _ => []
  | .un _ φ => φ.inVars inputs
  | .bin _ φ ψ => φ.inVars inputs ++ ψ.inVars inputs
  | .tmp1 _ φ => φ.inVars inputs
  | .tmp2 _ φ ψ => φ.inVars inputs ++ ψ.inVars inputs
  | .tb1 _ _ _ φ => φ.inVars inputs
  | .tb2 _ _ _ φ ψ => φ.inVars inputs ++ ψ.inVars inputs

/-- `out_vars` as the node constructors compute it. -/
def F.outVars (inputs : List String) : F α → List String
  | .var x => if inputs.contains x then [] else [x]
  | .const _ => []
  | .un _ φ => φ.outVars inputs
  | .bin _ φ ψ => φ.outVars inputs ++ ψ.outVars inputs
  | .tmp1 _ φ => φ.outVars inputs
  | .tmp2 _ φ ψ => φ.outVars inputs ++ ψ.outVars inputs
  | .tb1 _ _ _ φ => φ.outVars inputs
  | .tb2 _ _ _ φ ψ => φ.outVars inputs ++ ψ.outVars inputs

/-- Is the predicate `l cmp r` insensitive under `sem`? -/
def insensitive (sem : Sem) (inputs : List String) (l r : F α) : Bool :=
  match sem with
  | .standard => false
  | .outRob | .outVac => (l.outVars inputs ++ r.outVars inputs).isEmpty
  | .inRob | .inVac => (l.inVars inputs ++ r.inVars inputs).isEmpty

/-- The IA predicate override as a formula transformation. -/
def iaT (sem : Sem) (inputs : List String) : F α → F α
  | .var x => .var x
  | .const c => .const c
  | .un op φ => .un op (iaT sem inputs φ)
  | .bin op φ ψ =>
      let φ' := iaT sem inputs φ
      let ψ' := iaT sem inputs ψ
      match op with
      | .pred c =>
          if insensitive sem inputs φ ψ then
            match sem with
            | .outRob | .inRob => .bin (.predSat c) φ' ψ'
            | _ => .bin .predZero φ' ψ'
          else .bin (.pred c) φ' ψ'
      | _ => .bin op φ' ψ'
  | .tmp1 op φ => .tmp1 op (iaT sem inputs φ)
  | .tmp2 op φ ψ => .tmp2 op (iaT sem inputs φ) (iaT sem inputs ψ)
  | .tb1 op a b φ => .tb1 op a b (iaT sem inputs φ)
  | .tb2 op a b φ ψ => .tb2 op a b (iaT sem inputs φ) (iaT sem inputs ψ)

/-- All sub-formulas. -/
def F.subs : F α → List (F α)
  | .var x => [.var x]
  | .const c => [.const c]
  | .un op φ => .un op φ :: F.subs φ
  | .bin op φ ψ => .bin op φ ψ :: (F.subs φ ++ F.subs ψ)
  | .tmp1 op φ => .tmp1 op φ :: F.subs φ
  | .tmp2 op φ ψ => .tmp2 op φ ψ :: (F.subs φ ++ F.subs ψ)
  | .tb1 op a b φ => .tb1 op a b φ :: F.subs φ
  | .tb2 op a b φ ψ => .tb2 op a b φ ψ :: (F.subs φ ++ F.subs ψ)

end Rtamt
