/-
  M-alg: the driver `StlPastifier.pastify(ast)` (`rtamt/pastifier/stl/pastifier.py`) on a list of assertions.

    for spec in ast.specs: normalize_units(spec)        -- every bound into the default unit, unit strings cleared
    for spec in ast.specs: horizons[spec] = h.visit(spec)
    for spec in ast.specs: pastified.append(self.visit(spec, horizons[spec]))

  `SIv.norm` / `SF.normalise`: the unit normalisation (same defaulting of a missing unit as `time_unit_transformer`,
  `SIv.units`); `SF.toF?`: the tree the visitors work on (`F α` has natural-number bounds: a bound that is fractional in
  the default unit is outside the model); `pastifySpecs`: every assertion is pastified with ITS OWN horizon, and the
  whole call raises RTAMTException iff some assertion has an unbounded future operator.
-/
import Rtamt.Units
import Rtamt.Discrete.Pastify

namespace Rtamt

/-- `normalize_units` on one `Interval`: both bounds in the default unit, no unit strings left. -/
def SIv.norm (dflt : TUnit) (i : SIv) : SIv :=
  { b := (i.toDefault dflt).1, e := (i.toDefault dflt).2, bu := none, eu := none }

variable {α : Type}

/-- `normalize_units(node)`: recursion over the children. -/
def SF.normalise (dflt : TUnit) : SF α → SF α
  | .var x => .var x
  | .const c => .const c
  | .un op φ => .un op (φ.normalise dflt)
  | .bin op φ ψ => .bin op (φ.normalise dflt) (ψ.normalise dflt)
  | .tmp1 op φ => .tmp1 op (φ.normalise dflt)
  | .tmp2 op φ ψ => .tmp2 op (φ.normalise dflt) (ψ.normalise dflt)
  | .tb1 op i φ => .tb1 op (i.norm dflt) (φ.normalise dflt)
  | .tb2 op i φ ψ => .tb2 op (i.norm dflt) (φ.normalise dflt) (ψ.normalise dflt)

/-- The bounds as written, read as natural numbers (what the horizon visitor and the pastifier compute with). -/
def SF.toF? : SF α → Option (F α)
  | .var x => some (.var x)
  | .const c => some (.const c)
  | .un op φ => φ.toF?.map (.un op)
  | .bin op φ ψ => do let a ← φ.toF?; let b ← ψ.toF?; pure (.bin op a b)
  | .tmp1 op φ => φ.toF?.map (.tmp1 op)
  | .tmp2 op φ ψ => do let a ← φ.toF?; let b ← ψ.toF?; pure (.tmp2 op a b)
  | .tb1 op i φ => do
      let a ← φ.toF?
      let lo ← ratToNat? i.b
      let hi ← ratToNat? i.e
      pure (.tb1 op lo hi a)
  | .tb2 op i φ ψ => do
      let a ← φ.toF?
      let b ← ψ.toF?
      let lo ← ratToNat? i.b
      let hi ← ratToNat? i.e
      pure (.tb2 op lo hi a b)

/-- The second and third loop of `pastify()` on the normalised assertions: each with its own horizon;
    RTAMTException iff some assertion has an unbounded future operator (raised by the horizon visitor, before any
    assertion is rebuilt). -/
def pastifyAll (fs : List (F α)) : Except PyErr (List (F α)) :=
  if fs.all F.bounded then .ok (fs.map (fun φ => past (hor φ) φ)) else .error .rtamt

/-- `pastify()` on the surface assertions. -/
def pastifySpecs (dflt : TUnit) (specs : List (SF α)) : Except PyErr (List (F α)) :=
  match specs.mapM (fun φ => (φ.normalise dflt).toF?) with
  | some fs => pastifyAll fs
  | none => .error .other            -- a bound that is fractional in the default unit: outside the model

end Rtamt
