/-
  Line protocol of the driver: formulas in prefix notation, doubles as the decimal
  value of their IEEE-754 bit pattern (text of floats is never compared).

    formula ::= v NAME | c BITS | u OP f | b OP f f | t1 OP f | t2 OP f f
              | tb1 OP A B f | tb2 OP A B f f
-/
import Rtamt.Syntax

namespace Rtamt.Proto
open Rtamt

def parseUn : String → Option Un
  | "abs" => some .abs | "sqrt" => some .sqrt | "exp" => some .exp | "ln" => some .ln
  | "negate" => some .negate | "not" => some .not | _ => none

def parseBin : String → Option Bin
  | "add" => some .add | "sub" => some .sub | "mul" => some .mul | "div" => some .div
  | "pow" => some .pow | "log" => some .log
  | "lt" => some (.pred .lt) | "le" => some (.pred .le) | "gt" => some (.pred .gt)
  | "ge" => some (.pred .ge) | "eq" => some (.pred .eq) | "ne" => some (.pred .ne)
  | "and" => some .and | "or" => some .or | "implies" => some .implies
  | "iff" => some .iff | "xor" => some .xor
  | "psat_lt" => some (.predSat .lt) | "psat_le" => some (.predSat .le) | "psat_gt" => some (.predSat .gt)
  | "psat_ge" => some (.predSat .ge) | "psat_eq" => some (.predSat .eq) | "psat_ne" => some (.predSat .ne)
  | "pzero" => some .predZero
  | _ => none

def parseT1 : String → Option T1
  | "rise" => some .rise | "fall" => some .fall | "prev" => some .prev | "sprev" => some .sprev
  | "next" => some .next | "snext" => some .snext | "once" => some .once | "hist" => some .hist
  | "ev" => some .ev | "alw" => some .alw | _ => none

def parseT2 : String → Option T2
  | "since" => some .since | "until" => some .until | _ => none

def parseTB1 : String → Option TB1
  | "once" => some .once | "hist" => some .hist | "ev" => some .ev | "alw" => some .alw | _ => none

def parseTB2 : String → Option TB2
  | "since" => some .since | "until" => some .until | "precedes" => some .precedes | _ => none

def Un.str : Un → String
  | .abs => "abs" | .sqrt => "sqrt" | .exp => "exp" | .ln => "ln" | .negate => "negate" | .not => "not"

def Bin.str : Bin → String
  | .add => "add" | .sub => "sub" | .mul => "mul" | .div => "div" | .pow => "pow" | .log => "log"
  | .pred .lt => "lt" | .pred .le => "le" | .pred .gt => "gt" | .pred .ge => "ge"
  | .pred .eq => "eq" | .pred .ne => "ne"
  | .and => "and" | .or => "or" | .implies => "implies" | .iff => "iff" | .xor => "xor"
  | .predSat .lt => "psat_lt" | .predSat .le => "psat_le" | .predSat .gt => "psat_gt" | .predSat .ge => "psat_ge"
  | .predSat .eq => "psat_eq" | .predSat .ne => "psat_ne" | .predZero => "pzero"

def T1.str : T1 → String
  | .rise => "rise" | .fall => "fall" | .prev => "prev" | .sprev => "sprev" | .next => "next"
  | .snext => "snext" | .once => "once" | .hist => "hist" | .ev => "ev" | .alw => "alw"

def T2.str : T2 → String
  | .since => "since" | .until => "until"

def TB1.str : TB1 → String
  | .once => "once" | .hist => "hist" | .ev => "ev" | .alw => "alw"

def TB2.str : TB2 → String
  | .since => "since" | .until => "until" | .precedes => "precedes"

def floatOfBits (s : String) : Option Float :=
  s.toNat?.map (fun n => Float.ofBits (UInt64.ofNat n))

def bitsOfFloat (x : Float) : String := toString x.toBits.toNat

/-- Parse one formula from a token list; returns the rest. `fuel` bounds the depth. -/
def parseF : Nat → List String → Option (F Float × List String)
  | 0, _ => none
  | fuel + 1, toks =>
    match toks with
    | "v" :: x :: rest => some (.var x, rest)
    | "c" :: b :: rest => (floatOfBits b).map (fun c => (.const c, rest))
    | "u" :: op :: rest => do
        let o ← parseUn op
        let (φ, r) ← parseF fuel rest
        pure (.un o φ, r)
    | "b" :: op :: rest => do
        let o ← parseBin op
        let (φ, r) ← parseF fuel rest
        let (ψ, r) ← parseF fuel r
        pure (.bin o φ ψ, r)
    | "t1" :: op :: rest => do
        let o ← parseT1 op
        let (φ, r) ← parseF fuel rest
        pure (.tmp1 o φ, r)
    | "t2" :: op :: rest => do
        let o ← parseT2 op
        let (φ, r) ← parseF fuel rest
        let (ψ, r) ← parseF fuel r
        pure (.tmp2 o φ ψ, r)
    | "tb1" :: op :: a :: b :: rest => do
        let o ← parseTB1 op
        let a ← a.toNat?
        let b ← b.toNat?
        let (φ, r) ← parseF fuel rest
        pure (.tb1 o a b φ, r)
    | "tb2" :: op :: a :: b :: rest => do
        let o ← parseTB2 op
        let a ← a.toNat?
        let b ← b.toNat?
        let (φ, r) ← parseF fuel rest
        let (ψ, r) ← parseF fuel r
        pure (.tb2 o a b φ ψ, r)
    | _ => none

def words (s : String) : List String := (s.splitOn " ").filter (· ≠ "")

def parseFormula (s : String) : Option (F Float) :=
  let toks := words s
  match parseF (toks.length + 1) toks with
  | some (φ, []) => some φ
  | _ => none

/-- Render a formula back to prefix notation. -/
def showF : F Float → String
  | .var x => s!"v {x}"
  | .const c => s!"c {bitsOfFloat c}"
  | .un op φ => s!"u {Un.str op} {showF φ}"
  | .bin op φ ψ => s!"b {Bin.str op} {showF φ} {showF ψ}"
  | .tmp1 op φ => s!"t1 {T1.str op} {showF φ}"
  | .tmp2 op φ ψ => s!"t2 {T2.str op} {showF φ} {showF ψ}"
  | .tb1 op a b φ => s!"tb1 {TB1.str op} {a} {b} {showF φ}"
  | .tb2 op a b φ ψ => s!"tb2 {TB2.str op} {a} {b} {showF φ} {showF ψ}"

/-- `x:b0,b1,b2` → (x, [..]) -/
def parseSignal (s : String) : Option (String × List Float) :=
  match s.trimAscii.toString.splitOn ":" with
  | [x, vs] =>
      let items := (vs.splitOn ",").filter (· ≠ "")
      (items.mapM floatOfBits).map (fun l => (x, l))
  | _ => none

def showVals (l : List Float) : String := " ".intercalate (l.map bitsOfFloat)

end Rtamt.Proto
