/-
  Surface intervals (numbers with optional unit suffixes) and their elaboration to
  samples (discrete time: `DiscreteTimeInterpreter.time_unit_transformer`) or to the
  default unit (dense time: `DenseTimeInterpreter.time_unit_transformer`).

  Mirrors (after the `fix:` commits on units):
    * missing unit on `begin` → the unit of `end`, else the default unit for both;
      missing unit on `end` only → the unit of `begin`;
    * discrete: `b * U[unit] / (sampling_period * U[period_unit])` must be an integer,
      otherwise RTAMTException('The operator bound must be a multiple of the sampling period');
    * dense: `b * U[unit] / U[default unit]` (exact).
-/
import Rtamt.Discrete.Sampling

namespace Rtamt

structure SIv where
  b : Rat
  e : Rat
  bu : Option TUnit
  eu : Option TUnit
  deriving Repr, DecidableEq, Inhabited

structure UnitCfg where
  unit : TUnit            -- `spec.unit`
  period : Rat            -- `sampling_period`
  periodUnit : TUnit      -- `sampling_period_unit`
  deriving Repr

/-- The defaulting rule of `time_unit_transformer`. -/
def SIv.units (dflt : TUnit) (i : SIv) : TUnit × TUnit :=
  match i.bu, i.eu with
  | none, some u => (u, u)
  | none, none => (dflt, dflt)
  | some u, none => (u, u)
  | some u, some v => (u, v)

/-- Durations in nanoseconds. -/
def SIv.durNs (dflt : TUnit) (i : SIv) : Rat × Rat :=
  let (bu, eu) := i.units dflt
  (i.b * (bu.nanos : Rat), i.e * (eu.nanos : Rat))

def UnitCfg.periodNs (c : UnitCfg) : Rat := c.period * (c.periodUnit.nanos : Rat)

/-- `x` as a natural number, if it is one. -/
def ratToNat? (x : Rat) : Option Nat := if x.den = 1 ∧ 0 ≤ x.num then some x.num.toNat else none

/-- Discrete time: an interval in samples, or RTAMTException. -/
def SIv.toSamples (c : UnitCfg) (i : SIv) : Except PyErr (Nat × Nat) :=
  let (db, de) := i.durNs c.unit
  match ratToNat? (db / c.periodNs), ratToNat? (de / c.periodNs) with
  | some b, some e => .ok (b, e)
  | _, _ => .error .rtamt

/-- Dense time: an interval in the default unit. -/
def SIv.toDefault (dflt : TUnit) (i : SIv) : Rat × Rat :=
  let (db, de) := i.durNs dflt
  (db / (dflt.nanos : Rat), de / (dflt.nanos : Rat))

/-- Surface formulas: as `F`, with surface intervals. -/
inductive SF (α : Type) where
  | var   (x : String)
  | const (c : α)
  | un    (op : Un) (φ : SF α)
  | bin   (op : Bin) (φ ψ : SF α)
  | tmp1  (op : T1) (φ : SF α)
  | tmp2  (op : T2) (φ ψ : SF α)
  | tb1   (op : TB1) (i : SIv) (φ : SF α)
  | tb2   (op : TB2) (i : SIv) (φ ψ : SF α)
  deriving Repr, Inhabited

/-- Elaboration of a surface formula for a discrete-time monitor. -/
def SF.elab {α : Type} (c : UnitCfg) : SF α → Except PyErr (F α)
  | .var x => .ok (.var x)
  | .const k => .ok (.const k)
  | .un op φ => do let a ← φ.elab c; pure (.un op a)
  | .bin op φ ψ => do let a ← φ.elab c; let b ← ψ.elab c; pure (.bin op a b)
  | .tmp1 op φ => do let a ← φ.elab c; pure (.tmp1 op a)
  | .tmp2 op φ ψ => do let a ← φ.elab c; let b ← ψ.elab c; pure (.tmp2 op a b)
  | .tb1 op i φ => do let a ← φ.elab c; let (lo, hi) ← i.toSamples c; pure (.tb1 op lo hi a)
  | .tb2 op i φ ψ => do
      let a ← φ.elab c
      let b ← ψ.elab c
      let (lo, hi) ← i.toSamples c
      pure (.tb2 op lo hi a b)

/-- Two surface formulas of the same shape whose intervals denote the same durations
    *relative to the sampling period* of their respective configurations. -/
inductive SameDur {α : Type} (c c' : UnitCfg) : SF α → SF α → Prop
  | var (x) : SameDur c c' (.var x) (.var x)
  | const (k) : SameDur c c' (.const k) (.const k)
  | un (op) {φ φ'} : SameDur c c' φ φ' → SameDur c c' (.un op φ) (.un op φ')
  | bin (op) {φ φ' ψ ψ'} : SameDur c c' φ φ' → SameDur c c' ψ ψ' → SameDur c c' (.bin op φ ψ) (.bin op φ' ψ')
  | tmp1 (op) {φ φ'} : SameDur c c' φ φ' → SameDur c c' (.tmp1 op φ) (.tmp1 op φ')
  | tmp2 (op) {φ φ' ψ ψ'} : SameDur c c' φ φ' → SameDur c c' ψ ψ' → SameDur c c' (.tmp2 op φ ψ) (.tmp2 op φ' ψ')
  | tb1 (op) {i i' φ φ'} :
      (i.durNs c.unit).1 / c.periodNs = (i'.durNs c'.unit).1 / c'.periodNs →
      (i.durNs c.unit).2 / c.periodNs = (i'.durNs c'.unit).2 / c'.periodNs →
      SameDur c c' φ φ' → SameDur c c' (.tb1 op i φ) (.tb1 op i' φ')
  | tb2 (op) {i i' φ φ' ψ ψ'} :
      (i.durNs c.unit).1 / c.periodNs = (i'.durNs c'.unit).1 / c'.periodNs →
      (i.durNs c.unit).2 / c.periodNs = (i'.durNs c'.unit).2 / c'.periodNs →
      SameDur c c' φ φ' → SameDur c c' ψ ψ' → SameDur c c' (.tb2 op i φ ψ) (.tb2 op i' φ' ψ')

end Rtamt
