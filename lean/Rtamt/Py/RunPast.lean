/-
  The pastifier run through the visit methods translated from the source (`GeneratedPast.lean`): `pastG φ R`
  is `StlPastifier.visit(φ, R)`.  The node's `visitX` if the class defines it, `visitDefault`
  (RTAMTException) otherwise; `self.subformula_horizons[node]` is the horizon of the node (`hor`, which
  `RtamtProofs/GenHor.lean` proves to be what the translated horizon visitor computes).
-/
import Rtamt.Py.GeneratedPast

namespace Rtamt.Py
open Rtamt Val

def lookupP (k : Kind) : Option PMethod := Gen.Past.methods.lookup (visitName k)

variable {α : Type}

def noChild : Nat → Int → Except PyErr (F α) := fun _ _ => .error .index

def pastG : F α → Int → Except PyErr (F α)
  | .var x, R =>
      match lookupP .Variable with
      | some m => callPast noChild m [("$horizon", .int R), ("$node_horizon", .int 0), ("$self", .fml (.var x))]
      | none => .error .rtamt
  | .const c, R =>
      match lookupP .Constant with
      | some m => callPast noChild m [("$horizon", .int R), ("$node_horizon", .int 0), ("$self", .fml (.const c))]
      | none => .error .rtamt
  | .un op φ, R =>
      match lookupP op.kind with
      | some m => callPast (fun k h => if k = 0 then pastG φ h else .error .index) m
          [("$horizon", .int R), ("$node_horizon", .int (hor (F.un op φ)))]
      | none => .error .rtamt
  | .bin op φ ψ, R =>
      match lookupP op.kind with
      | some m => callPast (fun k h => if k = 0 then pastG φ h else if k = 1 then pastG ψ h else .error .index) m
          ([("$horizon", .int R), ("$node_horizon", .int (hor (F.bin op φ ψ)))] ++
           (match op with | .pred c => [("$operator", PV.cmp c)] | _ => []))
      | none => .error .rtamt
  | .tmp1 op φ, R =>
      match lookupP op.kind with
      | some m => callPast (fun k h => if k = 0 then pastG φ h else .error .index) m
          [("$horizon", .int R), ("$node_horizon", .int (hor (F.tmp1 op φ)))]
      | none => .error .rtamt
  | .tmp2 op φ ψ, R =>
      match lookupP op.kind with
      | some m => callPast (fun k h => if k = 0 then pastG φ h else if k = 1 then pastG ψ h else .error .index) m
          [("$horizon", .int R), ("$node_horizon", .int (hor (F.tmp2 op φ ψ)))]
      | none => .error .rtamt
  | .tb1 op a b φ, R =>
      match lookupP op.kind with
      | some m => callPast (fun k h => if k = 0 then pastG φ h else .error .index) m
          [("$horizon", .int R), ("$node_horizon", .int (hor (F.tb1 op a b φ))), ("$begin", .int a), ("$end", .int b)]
      | none => .error .rtamt
  | .tb2 op a b φ ψ, R =>
      match lookupP op.kind with
      | some m => callPast (fun k h => if k = 0 then pastG φ h else if k = 1 then pastG ψ h else .error .index) m
          [("$horizon", .int R), ("$node_horizon", .int (hor (F.tb2 op a b φ ψ))), ("$begin", .int a), ("$end", .int b)]
      | none => .error .rtamt

/-- `pastify()` of one assertion: the horizon visitor first (RTAMTException for unbounded future), then the visitor
    started with the horizon of the specification. -/
def pastifyG (φ : F α) : Except PyErr (F α) :=
  match hor? φ with
  | some h => pastG φ h
  | none => .error .rtamt

end Rtamt.Py
