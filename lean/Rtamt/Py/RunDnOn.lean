/-
  The dense-time online monitor run through the operation classes *translated from the source*
  (`GeneratedDenseOn.lean`) under the semantics of `DnOn.lean` - the counterpart of `Rtamt/Dense/AlgOn.lean`
  (`initOn`, `stepOn`, `runOn`), which is written by hand.  Which class is built for which node, and with which constructor
  arguments, is read from the table extracted from the construction visitor (`Gen.DenseOn.table`).  The driver command
  `denseongen` runs it next to the real `update()`.

  Hand-written here, as in the mirror: the update visitor (children first, then the node's operation object; one object per
  node of the tree), the leaves (a variable hands over the batch of this update, a constant node its signal once), the bounds
  `time_unit_transformer` returns (`bound * scale`).
-/
import Rtamt.Py.GeneratedDenseOn
import Rtamt.Py.RunOff

namespace Rtamt.Py.DnOn
open Rtamt Val Rtamt.Dense Rtamt.Dense.Alg

variable {α : Type} [Val α]

def depth : Nat := 7

/-- The state of the monitor of one assertion: an operation object per operator node. -/
inductive GSt (α : Type)
  | leaf
  | cst (sent : Bool)
  | un (o : DV α) (c : GSt α)
  | bin (o : DV α) (l r : GSt α)

def ctorOf (k : Kind) : Option CtorAction := Gen.DenseOn.table.lookup (Rtamt.Py.visitName k)

/-- `Cls(args)`. -/
def construct (fuel : Nat) (cls : String) (args : List (DV α)) : Except PyErr (DV α) := do
  match (← callAt Gen.DenseOn.fns fuel depth (cls ++ ".__init__") (.obj cls [] :: args)) with
  | .list [o, _] => pure o
  | _ => throw .type

/-- the object a node gets: `visitX` of the construction visitor -/
def build (fuel : Nat) (k : Kind) (op : Option Cmp) (iv : Option (Rat × Rat)) : Except PyErr (DV α) :=
  match ctorOf k with
  | some (.builds cls args) => do
      let vs ← args.mapM (fun a => match a, op, iv with
        | .operator, some c, _ => Except.ok (DV.cmp c)
        | .begin_, _, some (a, _) => .ok (.tm (.fin a))
        | .end_, _, some (_, b) => .ok (.tm (.fin b))
        | _, _, _ => .error .type)
      construct fuel cls vs
  | some .raises => .error .rtamt
  | some (.unsupported _) => .error .other
  | none => .error .type

def initOnG (fuel : Nat) (cfg : DCfg) : F α → Except PyErr (GSt α)
  | .var _ => .ok .leaf
  | .const _ => .ok (.cst false)
  | .un op φ => do
      let c ← initOnG fuel cfg φ
      pure (.un (← build fuel op.kind none none) c)
  | .bin op φ ψ => do
      let l ← initOnG fuel cfg φ
      let r ← initOnG fuel cfg ψ
      match op with
      | .predSat c =>
          -- an insensitive predicate under a robustness semantics: the interface-aware subclass of `PredicateOperation`
          -- (`PredicateOperation(node.operator, Semantics.OUTPUT_ROBUSTNESS, node.in_vars, node.out_vars)` with `out_vars` empty;
          -- the members of `Semantics` are their positions in the enumeration, OUTPUT_ROBUSTNESS = 1)
          pure (.bin (← construct fuel "IAPredicateOperation" [.cmp c, .int 1, .list [.int 0], .list []]) l r)
      | .predZero => .error .other        -- the vacuity override: not translated
      | .pred c => pure (.bin (← build fuel op.kind (some c) none) l r)
      | _ => pure (.bin (← build fuel op.kind none none) l r)
  | .tmp1 op φ => do
      let c ← initOnG fuel cfg φ
      pure (.un (← build fuel op.kind none none) c)
  | .tmp2 op φ ψ => do
      let l ← initOnG fuel cfg φ
      let r ← initOnG fuel cfg ψ
      pure (.bin (← build fuel op.kind none none) l r)
  | .tb1 op a b φ => do
      let c ← initOnG fuel cfg φ
      pure (.un (← build fuel op.kind none (some (a * cfg.scale, b * cfg.scale))) c)
  | .tb2 op a b φ ψ => do
      let l ← initOnG fuel cfg φ
      let r ← initOnG fuel cfg ψ
      pure (.bin (← build fuel op.kind none (some (a * cfg.scale, b * cfg.scale))) l r)

/-- `obj.update(args)`: the changed object and the returned sample list. -/
def updateObj (fuel : Nat) (o : DV α) (args : List (ASig α)) : Except PyErr (DV α × ASig α) :=
  match o with
  | .obj cls store => do
      match (← callAt Gen.DenseOn.fns fuel depth (cls ++ ".update") (.obj cls store :: args.map encSig)) with
      | .list [o', out] =>
          match decSig out with
          | some s => pure (o', s)
          | none => throw .type
      | _ => throw .type
  | _ => .error .type

/-- One `update()`: the batch of every variable (a variable without new samples has `[]`). -/
def stepOnG (fuel : Nat) (inp : String → ASig α) : F α → GSt α → Except PyErr (GSt α × ASig α)
  | .var x, .leaf => .ok (.leaf, inp x)
  | .const c, .cst sent => .ok (.cst true, if sent then [] else [(Tm.zero, c), (.inf, c)])
  | .un _ φ, .un o c => do
      let (c', s) ← stepOnG fuel inp φ c
      let (o', out) ← updateObj fuel o [s]
      pure (.un o' c', out)
  | .tmp1 _ φ, .un o c => do
      let (c', s) ← stepOnG fuel inp φ c
      let (o', out) ← updateObj fuel o [s]
      pure (.un o' c', out)
  | .tb1 _ _ _ φ, .un o c => do
      let (c', s) ← stepOnG fuel inp φ c
      let (o', out) ← updateObj fuel o [s]
      pure (.un o' c', out)
  | .bin _ φ ψ, .bin o l r => do
      let (l', sl) ← stepOnG fuel inp φ l
      let (r', sr) ← stepOnG fuel inp ψ r
      let (o', out) ← updateObj fuel o [sl, sr]
      pure (.bin o' l' r', out)
  | .tmp2 _ φ ψ, .bin o l r => do
      let (l', sl) ← stepOnG fuel inp φ l
      let (r', sr) ← stepOnG fuel inp ψ r
      let (o', out) ← updateObj fuel o [sl, sr]
      pure (.bin o' l' r', out)
  | .tb2 _ _ _ φ ψ, .bin o l r => do
      let (l', sl) ← stepOnG fuel inp φ l
      let (r', sr) ← stepOnG fuel inp ψ r
      let (o', out) ← updateObj fuel o [sl, sr]
      pure (.bin o' l' r', out)
  | _, _ => .error .other

/-- A sequence of `update()` calls on a fresh monitor: the list each call returns. -/
def runOnG (fuel : Nat) (cfg : DCfg) (φ : F α) (batches : List (String → ASig α)) : Except PyErr (List (ASig α)) := do
  let st0 ← initOnG fuel cfg φ
  let rec go (st : GSt α) : List (String → ASig α) → Except PyErr (List (ASig α))
    | [] => pure []
    | b :: rest => do
        let (st', out) ← stepOnG fuel b φ st
        let outs ← go st' rest
        pure (out :: outs)
  go st0 batches

end Rtamt.Py.DnOn
