/-
  The discrete-time offline visitor run through the visit methods *translated from the source*
  (`GeneratedOff.lean`) under the semantics of the Python subset (`Sem.lean`), with the dispatch of
  `StlAstVisitor.visit`: the node's `visitX` if the class defines it, `visitChildren` (the result of
  the last child) otherwise.  `RtamtProofs/GenOff.lean` proves `evalOffG = evalOff` (the hand-written
  mirror all offline theorems are stated on); the driver command `offdgen` runs it next to the real
  monitor.

  One simplification shared with the mirror: the children are evaluated before the method is looked
  up (a method that fetches fewer children than the node has - only `visitTimedPrecedes`, which just
  raises - is given the first ones).
-/
import Rtamt.Py.GeneratedOff
import Rtamt.Discrete.Offline

namespace Rtamt.Py
open Rtamt Val

def visitName : Kind → String
  | .Variable => "visitVariable" | .Constant => "visitConstant" | .Predicate => "visitPredicate"
  | .Abs => "visitAbs" | .Sqrt => "visitSqrt" | .Exp => "visitExp" | .Ln => "visitLn"
  | .Negate => "visitNegate" | .Neg => "visitNot"
  | .Addition => "visitAddition" | .Subtraction => "visitSubtraction"
  | .Multiplication => "visitMultiplication" | .Division => "visitDivision"
  | .Pow => "visitPow" | .Log => "visitLog"
  | .Conjunction => "visitAnd" | .Disjunction => "visitOr" | .Implies => "visitImplies"
  | .Iff => "visitIff" | .Xor => "visitXor"
  | .Rise => "visitRise" | .Fall => "visitFall" | .Previous => "visitPrevious"
  | .StrongPrevious => "visitStrongPrevious" | .Next => "visitNext" | .StrongNext => "visitStrongNext"
  | .Once => "visitOnce" | .Historically => "visitHistorically" | .Eventually => "visitEventually"
  | .Always => "visitAlways" | .Since => "visitSince" | .Until => "visitUntil"
  | .TimedOnce => "visitTimedOnce" | .TimedHistorically => "visitTimedHistorically"
  | .TimedEventually => "visitTimedEventually" | .TimedAlways => "visitTimedAlways"
  | .TimedSince => "visitTimedSince" | .TimedUntil => "visitTimedUntil"
  | .TimedPrecedes => "visitTimedPrecedes"

def lookupM (k : Kind) : Option OffMethod := Gen.Off.methods.lookup (visitName k)

variable {α : Type} [Val α]

/-- Call the method on the children it fetches. -/
def callOn (m : OffMethod) (kids : List (List α)) (iv : Option (Nat × Nat)) (extra : Store α) :
    Except PyErr (List α) :=
  callOff m (kids.take m.kids.length) (if m.interval then iv else none) extra

def evalOffG (w : Rtamt.Env α) (n : Nat) : F α → Except PyErr (List α)
  | .var x =>
      match lookupM .Variable with
      | some m => do
          let l ← w.get x
          callOn m [] none [("$var", .list l), ("$field", .none)]
      | none => .error .type
  | .const c =>
      match lookupM .Constant with
      | some m => callOn m [] none [("$val", .num c), ("$length", .int n)]
      | none => .error .type
  | .un op φ => do
      let s ← evalOffG w n φ
      match lookupM op.kind with
      | some m => callOn m [s] none []
      | none => pure s
  | .bin op φ ψ => do
      let l ← evalOffG w n φ
      let r ← evalOffG w n ψ
      match op with
      | .predSat _ | .predZero => .error .other      -- interface-aware forms: not part of this visitor
      | _ =>
        match lookupM op.kind with
        | some m => callOn m [l, r] none (match op with | .pred c => [("$operator", .cmp c)] | _ => [])
        | none => pure r
  | .tmp1 op φ => do
      let s ← evalOffG w n φ
      match lookupM op.kind with
      | some m => callOn m [s] none []
      | none => pure s
  | .tmp2 op φ ψ => do
      let l ← evalOffG w n φ
      let r ← evalOffG w n ψ
      match lookupM op.kind with
      | some m => callOn m [l, r] none []
      | none => pure r
  | .tb1 op a b φ => do
      let s ← evalOffG w n φ
      match lookupM op.kind with
      | some m => callOn m [s] (some (a, b)) []
      | none => pure s
  | .tb2 op a b φ ψ => do
      let l ← evalOffG w n φ
      let r ← evalOffG w n ψ
      match lookupM op.kind with
      | some m => callOn m [l, r] (some (a, b)) []
      | none => pure r

end Rtamt.Py
