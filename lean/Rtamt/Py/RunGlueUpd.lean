/-
  `AbstractDiscreteTimeOnlineInterpreter.update(timestamp, dataset)` / `.reset()` run through the methods *translated from
  the source* (`GeneratedGlueUpd.lean`) under the semantics of `GlueUpd.lean`; the two visitor calls that leave that language
  are bound to the *translated* visitors (`updateSpecsG` / `resetSpecsG` of `RunGlue.lean`, i.e. `GeneratedGlue.lean`).
  `RtamtProofs/GenGlueUpd.lean` proves them equal to the mirrors `Prog.update` / `Prog.run` / `Prog.reset`
  (`Rtamt/Discrete/ProgramUpd.lean`: `updateSpecs` / `runSpecs` / `resetSpecs`, `Clock.tick` / `Clock.reset`).
-/
import Rtamt.Py.GeneratedGlueUpd
import Rtamt.Py.RunGlue

namespace Rtamt.Py.GUpd
open Rtamt Val

variable {α : Type} [Val α] [DecidableEq α]

/-- The environment of a call: the assertions (`ast.specs`), `ast.free_vars`, `ast.unit`. -/
def envOf (unit : String) (free : List String) (specs : List (F α)) : UEnv α :=
  { vast := some (fun vars g => updateSpecsG vars specs g), rast := some (resetSpecsG specs), free := free, unit := unit }

/-- The value `update` returns, as a number. -/
def valOfU : UV α × USt α → Except PyErr (α × USt α)
  | (.num v, st) => .ok (v, st)
  | _ => .error .type

/-- `update(timestamp, dataset)`: what it returns (`rob`), the state afterwards. -/
def updateGU (unit : String) (free : List String) (specs : List (F α)) (ts : Rat) (d : List (String × α)) (st : USt α) :
    Except PyErr (α × USt α) := do
  valOfU (← callU Gen.GlueUpd.interp_update (envOf unit free specs) [.ts ts, .rows d] st)

/-- `reset()`. -/
def resetGU (unit : String) (free : List String) (specs : List (F α)) (st : USt α) : Except PyErr (USt α) := do
  let r ← callU Gen.GlueUpd.interp_reset (envOf unit free specs) [] st
  pure r.2

/-- `set_variable_to_ast_from_dataset(dataset)` on its own. -/
def setVarsGU (unit : String) (free : List String) (specs : List (F α)) (d : List (String × α)) (st : USt α) :
    Except PyErr (USt α) := do
  let r ← callU Gen.GlueUpd.interp_set_variable_to_ast_from_dataset (envOf unit free specs) [.rows d] st
  pure r.2

/-- A sequence of `update(timestamp, dataset)` calls: per call the value returned and the memo of the round; the state
    at the end. -/
def runGU (unit : String) (free : List String) (specs : List (F α)) :
    USt α → List (Rat × List (String × α)) → Except PyErr (List (α × Memo α) × USt α)
  | st, [] => .ok ([], st)
  | st, (ts, d) :: rest => do
      let (rob, st') ← updateGU unit free specs ts d st
      let (out, st'') ← runGU unit free specs st' rest
      pure ((rob, st'.g.updated) :: out, st'')

end Rtamt.Py.GUpd
