/-
  The discrete-time offline `evaluate(dataset)` run through the methods *translated from the source*
  (`GeneratedOffEval.lean`: `evaluate` with `exist_ast` and `set_variable_to_ast_from_dataset` inlined, `visitAst`) under
  the semantics of `OffEval.lean`: `self.visitAst(self.ast, length)` is the translated `visitAst` called with
  `ast`, `*args = (length,)`, `**kwargs = {}`; `self.visit(spec, *args, **kwargs)` inside it is the translated visitor
  with its dispatch (`evalOffG`).  `RtamtProofs/GenOffEval.lean` proves `evaluateG = evaluateOffData` (the mirror the
  theorems about `evaluate` are stated on).
-/
import Rtamt.Py.GeneratedOffEval

namespace Rtamt.Py.OffEval
open Rtamt Val Rtamt.Py

variable {α : Type} [Val α]

/-- Inside `visitAst` nothing calls `visitAst`. -/
def noVisitAst : VisitAst α := fun _ _ _ => .error .other

/-- `self.visitAst(a, x)`. -/
def visitAstG : VisitAst α := fun a x st => do
  let r ← callO noVisitAst Gen.OffEval.visitAst st [a, x, .none]
  pure r.1

/-- `interpreter.evaluate(dataset)`: the list of `[t, v]` pairs returned and the state afterwards. -/
def evaluateG (st : OState α) (d : Dataset α) : Except PyErr (List (Rat × α) × OState α) := do
  let r ← callO visitAstG Gen.OffEval.evaluate st [.data d]
  match r.1 with
  | .tvs l => pure (l, r.2)
  | _ => throw .type

end Rtamt.Py.OffEval
