/-
  A deep embedding of the Python subset in which the operation classes of rtamt are written
  (`rtamt/semantics/stl/discrete_time/online/*_operation.py`,
   `rtamt/semantics/arithmetic/discrete_time/online/*_operation.py`), and its semantics.

  `harness/py2lean.py` translates the *source text* of those classes — purely syntactically, from the
  Python `ast` — into terms of the types below (`Rtamt/Py/GeneratedOps.lean`, regenerated on every
  run).  The theorems of `RtamtProofs/GenOps.lean` show that the generated classes denote exactly the
  hand-written mirrors of `Rtamt/Discrete/Online.lean` (`stepT1`, `stepTB1`, `resetTB2`, …) that all
  the theorems about the online monitor are stated on: a change of the Python source changes the
  generated terms and these equalities have to be re-proved by the build.

  What is modelled: dynamically typed values (floats `num`, integers, Booleans, `collections.deque`
  with `maxlen`, a list of deques, the comparison enumeration, `None`); expressions; statements
  (assignment to locals and to `self.x`, `append`, `for i in range(lo, hi)`, `if`/`elif`/`else`,
  `raise`, `pass`); methods with a single `return` at the end.  Calls of `self.reset()` /
  `self.__init__()` are inlined by the translator.  `print(..)` is dropped.  Python `int`/`float`
  mixing is limited to the literal `0` (compared with a float in `SqrtOperation`).

  For the offline visitor (`stl/discrete_time/offline/ast_visitor.py`) the subset also has lists of
  floats: `len`, slices, `[x] * n`, list comprehensions over `range`, a list or `zip` of two lists,
  `min`/`max` of a list, `reversed`, `+` on lists, `for x in list`, `for i in range(a, b, -1)`,
  `append` / `reverse` / `insert(0, ·)` on a local list.  Lists are values: aliasing between a
  caller's list and a result list cannot be expressed (C11 is decided on the real code).
-/
import Rtamt.Discrete.Offline

namespace Rtamt.Py
open Rtamt Val

inductive V (α : Type)
  | none
  | num (x : α)
  | int (n : Int)
  | bool (b : Bool)
  | deque (cap : Nat) (l : List α)
  | dlist (l : List (Nat × List α))
  | cmp (c : Cmp)
  | list (l : List α)                -- a Python list of floats (results of the offline visitor)
  | rat (q : Rat)                    -- fractions.Fraction / exact numbers of the unit arithmetic
  | str (s : String)                 -- unit strings ('' / 's' / 'ms' / 'us' / 'ns')
  | pair (a b : V α)                 -- a 2-tuple
  | blist (l : List Bool)            -- a Python list of Booleans (verdicts of the interface-aware predicate)
  | rlist (l : List Rat)             -- a list of exact numbers (the time column of a data set)
  | ivs (l : List (Int × Int))       -- a list of intervals `[[b, e], ...]` (explanations)
  deriving Repr, Inhabited

inductive UnOp | neg | abs | sqrt | exp | ln | not | truthy | frac | numer | denom | toInt | unitNs
  deriving DecidableEq, Repr, Inhabited

inductive BinOp | add | sub | mul | div | min | max | pow | log | lt | le | gt | ge | eq | ne | or | and | mod
  deriving DecidableEq, Repr, Inhabited

inductive E
  | loc (x : String)                 -- local variable / parameter
  | attr (x : String)                -- self.x
  | pinf | ninf                      -- float("inf"), -float("inf")
  | int (n : Int)
  | cmpc (c : Cmp)                   -- StlComparisonOperator.X(.value)
  | un (op : UnOp) (e : E)
  | bin (op : BinOp) (a b : E)
  | idx (e i : E)                    -- e[i]
  | newDeque (cap : E)               -- collections.deque(maxlen=cap)
  | emptyList                        -- []
  | noneLit                          -- None
  | len (e : E)                      -- len(e)
  | slice (e lo hi : E)              -- e[lo:hi]   (a missing bound is `int 0` / `noneLit`)
  | rep (e n : E)                    -- [e] * n
  | compRange (body : E) (x : String) (lo hi : E)      -- [body for x in range(lo, hi)]
  | compList (body : E) (x : String) (it : E)          -- [body for x in it]
  | compZip (body : E) (x y : String) (a b : E)        -- [body for x, y in zip(a, b)]
  | agg (isMax : Bool) (e : E)       -- min(e) / max(e) of one list
  | reversed (e : E)                 -- reversed(e)
  | tuple (a b : E)                  -- (a, b)
  | ifExp (c a b : E)                -- a if c else b
  | strLit (s : String)              -- a string constant (values of the `Semantics` enumeration)
  | sorted (e : E)                   -- sorted(e)   (e: a list of intervals)
  | lastSnd (e : E)                  -- e[-1][1]    (e: a list of intervals)
  | unsupported (what : String)
  deriving Repr, Inhabited

inductive S
  | skip
  | seq (a b : S)
  | setLoc (x : String) (e : E)
  | setAttr (x : String) (e : E)
  | append (attr : String) (sub : Option Nat) (e : E)    -- self.attr.append(e) / self.attr[k].append(e)
  | for_ (i : String) (lo hi : E) (body : S)             -- for i in range(lo, hi)
  | ite (c : E) (t e : S)
  | raise (k : PyErr)
  | forIn (x : String) (it : E) (body : S)               -- for x in it   (it: a list of floats)
  | forDown (i : String) (hi lo : E) (body : S)          -- for i in range(hi, lo, -1)
  | appendLoc (x : String) (e : E)                       -- x.append(e)   (x local: list or deque)
  | reverseLoc (x : String)                              -- x.reverse()
  | insertLoc (x : String) (pos e : E)                   -- x.insert(pos, e)
  | forEnum (i x : String) (it : E) (body : S)           -- for i, x in enumerate(it)   (it: a list of floats or of Booleans)
  | unpack (a b : String) (e : E)                        -- a, b = e     (e: a pair)
  | forPair (a b : String) (it : E) (body : S)           -- for a, b in it   (it: a list of intervals)
  | setLastSnd (x : String) (e : E)                      -- x[-1][1] = e     (x local: a list of intervals)
  | unsupported (what : String)
  deriving Repr, Inhabited

structure Method where
  params : List String
  body : S
  ret : Option E
  deriving Repr, Inhabited

structure Class where
  name : String
  init : Method
  reset : Method
  update : Method
  sat : Option Method := none
  deriving Repr, Inhabited

abbrev Store (α : Type) := List (String × V α)

structure Env (α : Type) where
  self : Store α
  loc : Store α
  deriving Repr, Inhabited

def setKey {β : Type} (k : String) (v : β) : List (String × β) → List (String × β)
  | [] => [(k, v)]
  | (k', v') :: r => if k' == k then (k, v) :: r else (k', v') :: setKey k v r

def getKey {β : Type} (k : String) (l : List (String × β)) : Except PyErr β :=
  match l.lookup k with
  | some v => .ok v
  | none => .error .key               -- NameError / AttributeError

variable {α : Type} [Val α]

/-- `collections.deque(maxlen=cap).append(x)`. -/
def dqAppend (cap : Nat) (l : List α) (x : α) : List α :=
  if l.length < cap then l ++ [x] else ((l ++ [x]).drop (l.length + 1 - cap))

def numEq (a b : α) : Bool := !Val.lt a b && !Val.lt b a

/-- A Python list of floats; `[]` is represented by `dlist []` as well (the literal `[]`). -/
def asList : V α → Option (List α)
  | .list l => some l
  | .dlist [] => some []
  | _ => none

/-- Exact numbers: a Fraction, or an integer next to a Fraction (`ratOf` is only consulted when the two operands are
    not both integers and not both floats). -/
def ratOf : V α → Option Rat
  | .rat q => some q
  | .int n => some n
  | _ => none

def numOf : V α → Except PyErr α
  | .num x => .ok x
  | _ => .error .type

/-- Python slice bounds on a sequence of length `n`: negative indices count from the end, everything is clamped. -/
def sliceIdx (n : Nat) (i : Int) : Nat :=
  if i < 0 then (n + i).toNat else min i.toNat n

def pySlice (l : List α) (lo : Int) (hi : Option Int) : List α :=
  let i := sliceIdx l.length lo
  let j := match hi with | some h => sliceIdx l.length h | none => l.length
  (l.drop i).take (j - i)

def evalUn : UnOp → V α → Except PyErr (V α)
  | .neg, .num x => .ok (.num (Val.neg x))
  | .neg, .int n => .ok (.int (-n))
  | .abs, .num x => .ok (.num (Val.abs x))
  | .sqrt, .num x => .ok (.num (Val.sqrt x))
  | .exp, .num x => .ok (.num (Val.exp x))
  | .ln, .num x => .ok (.num (Val.ln x))
  | .not, .bool b => .ok (.bool (!b))
  | .truthy, .none => .ok (.bool false)
  | .truthy, .bool b => .ok (.bool b)
  | .truthy, .ivs l => .ok (.bool (!l.isEmpty))
  | .truthy, .dlist l => .ok (.bool (!l.isEmpty))
  | .neg, .rat q => .ok (.rat (-q))
  | .frac, .rat q => .ok (.rat q)                       -- Fraction(x)
  | .frac, .int n => .ok (.rat n)
  | .numer, .rat q => .ok (.int q.num)                  -- x.numerator
  | .denom, .rat q => .ok (.int q.den)                  -- x.denominator
  | .numer, .int n => .ok (.int n)
  | .denom, .int _ => .ok (.int 1)
  | .toInt, .rat q => .ok (.int (if 0 ≤ q.num then q.num / q.den else -((-q.num) / q.den)))   -- int(x): towards zero
  | .toInt, .int n => .ok (.int n)
  | .unitNs, .str u =>                                  -- self.ast.U[u]
      if u = "s" then .ok (.int 1000000000) else if u = "ms" then .ok (.int 1000000)
      else if u = "us" then .ok (.int 1000) else if u = "ns" then .ok (.int 1) else .error .key
  | _, _ => .error .type

/-- Only the integer literal `0` is ever mixed with floats. -/
def coerce : V α → V α → (V α × V α)
  | .num x, .int 0 => (.num x, .num Val.zero)
  | .int 0, .num y => (.num Val.zero, .num y)
  | a, b => (a, b)

def evalBin (op : BinOp) (a b : V α) : Except PyErr (V α) :=
  match op, coerce a b with
  | .add, (.num x, .num y) => .ok (.num (Val.add x y))
  | .sub, (.num x, .num y) => .ok (.num (Val.sub x y))
  | .mul, (.num x, .num y) => .ok (.num (Val.mul x y))
  | .div, (.num x, .num y) => .ok (.num (Val.div x y))
  | .pow, (.num x, .num y) => .ok (.num (Val.pow x y))
  | .log, (.num x, .num y) => .ok (.num (Val.log x y))
  | .min, (.num x, .num y) => .ok (.num (pmin x y))
  | .max, (.num x, .num y) => .ok (.num (pmax x y))
  | .add, (.int x, .int y) => .ok (.int (x + y))
  | .sub, (.int x, .int y) => .ok (.int (x - y))
  | .mul, (.int x, .int y) => .ok (.int (x * y))
  | .lt, (.num x, .num y) => .ok (.bool (Val.lt x y))
  | .gt, (.num x, .num y) => .ok (.bool (Val.lt y x))
  | .le, (.num x, .num y) => .ok (.bool (!Val.lt y x))
  | .ge, (.num x, .num y) => .ok (.bool (!Val.lt x y))
  | .eq, (.num x, .num y) => .ok (.bool (numEq x y))
  | .ne, (.num x, .num y) => .ok (.bool (!numEq x y))
  | .eq, (.str x, .str y) => .ok (.bool (decide (x = y)))
  | .eq, (.bool x, .bool y) => .ok (.bool (x == y))
  | .ne, (.bool x, .bool y) => .ok (.bool (x != y))
  | .eq, (.cmp x, .cmp y) => .ok (.bool (decide (x = y)))
  | .ne, (.cmp x, .cmp y) => .ok (.bool (!decide (x = y)))
  | .lt, (.int x, .int y) => .ok (.bool (decide (x < y)))
  | .le, (.int x, .int y) => .ok (.bool (decide (x ≤ y)))
  | .gt, (.int x, .int y) => .ok (.bool (decide (y < x)))
  | .ge, (.int x, .int y) => .ok (.bool (decide (y ≤ x)))
  | .eq, (.int x, .int y) => .ok (.bool (decide (x = y)))
  | .or, (.bool x, .bool y) => .ok (.bool (x || y))
  | .and, (.bool x, .bool y) => .ok (.bool (x && y))
  | .max, (.int x, .int y) => .ok (.int (if x < y then y else x))      -- max / min of two Python ints (horizons)
  | .min, (.int x, .int y) => .ok (.int (if y < x then y else x))
  | .mod, (.int x, .int y) => if y = 0 then .error .value else .ok (.int (x % y))
  | .div, (.int x, .int y) => if y = 0 then .error .value else .ok (.rat ((x : Rat) / (y : Rat)))   -- only on exact numbers
  | op, (x, y) =>
      match ratOf x, ratOf y with
      | some a, some b =>
          -- exact arithmetic (Fraction with Fraction / int)
          match op with
          | .add => .ok (.rat (a + b))
          | .sub => .ok (.rat (a - b))
          | .mul => .ok (.rat (a * b))
          | .div => if b = 0 then .error .value else .ok (.rat (a / b))
          | .lt => .ok (.bool (decide (a < b)))
          | .le => .ok (.bool (decide (a ≤ b)))
          | .gt => .ok (.bool (decide (b < a)))
          | .ge => .ok (.bool (decide (b ≤ a)))
          | .eq => .ok (.bool (decide (a = b)))
          | .ne => .ok (.bool (!decide (a = b)))
          | _ => .error .type
      | _, _ =>
          match op, asList x, asList y with
          | .add, some a, some b => .ok (.list (a ++ b))           -- list concatenation
          | _, _, _ => .error .type

/-- `sorted` on a list of `[b, e]` lists: lexicographic order. -/
def sortIvs (l : List (Int × Int)) : List (Int × Int) :=
  l.mergeSort (fun p q => decide (p.1 < q.1) || (decide (p.1 = q.1) && decide (p.2 ≤ q.2)))

/-- `l[-1][1] = v` -/
def setLastSnd : List (Int × Int) → Int → List (Int × Int)
  | [], _ => []
  | [p], v => [(p.1, v)]
  | p :: q :: rest, v => p :: setLastSnd (q :: rest) v

def evalIdx : V α → V α → Except PyErr (V α)
  | .deque _ l, .int i => if i < 0 then .error .index else (idx l i.toNat).map .num
  | .dlist l, .int i =>
      if i < 0 then .error .index else
      match l[i.toNat]? with
      | some (c, d) => .ok (.deque c d)
      | none => .error .index
  | .list l, .int i => if i < 0 then .error .index else (idx l i.toNat).map .num
  | .rlist l, .int i =>
      if i < 0 then .error .index else
      match l[i.toNat]? with
      | some q => .ok (.rat q)
      | none => .error .index
  | .ivs l, .int i =>
      if i < 0 then .error .index else
      match l[i.toNat]? with
      | some p => .ok (.pair (.int p.1) (.int p.2))
      | none => .error .index
  | _, _ => .error .type

def evalE (env : Env α) : E → Except PyErr (V α)
  | .loc x => getKey x env.loc
  | .attr x => getKey x env.self
  | .pinf => .ok (.num Val.pinf)
  | .ninf => .ok (.num Val.ninf)
  | .int n => .ok (.int n)
  | .cmpc c => .ok (.cmp c)
  | .un op e => do evalUn op (← evalE env e)
  | .bin op a b => do
      let x ← evalE env a
      let y ← evalE env b
      evalBin op x y
  | .idx e i => do
      let x ← evalE env e
      let k ← evalE env i
      evalIdx x k
  | .newDeque cap => do
      match (← evalE env cap) with
      | .int n => if n < 0 then .error .value else .ok (.deque n.toNat [])
      | _ => .error .type
  | .emptyList => .ok (.dlist [])
  | .noneLit => .ok .none
  | .len e => do
      match (← evalE env e) with
      | .deque _ l => .ok (.int l.length)
      | .str u => .ok (.int u.length)
      | .rlist l => .ok (.int l.length)
      | .ivs l => .ok (.int l.length)
      | v => match asList v with
             | some l => .ok (.int l.length)
             | none => .error .type
  | .slice e lo hi => do
      match asList (← evalE env e), (← evalE env lo), (← evalE env hi) with
      | some l, .int i, .int j => .ok (.list (pySlice l i (some j)))
      | some l, .int i, .none => .ok (.list (pySlice l i none))
      | _, _, _ => .error .type
  | .rep e n => do
      match (← evalE env e), (← evalE env n) with
      | .num x, .int k => .ok (.list (List.replicate k.toNat x))
      | _, _ => .error .type
  | .compRange body x lo hi => do
      match (← evalE env lo), (← evalE env hi) with
      | .int a, .int b =>
          if a < 0 then .error .type else do
          let vs ← (List.range' a.toNat (b - a).toNat).mapM
            (fun k => do numOf (← evalE { env with loc := setKey x (.int (k : Nat)) env.loc } body))
          pure (.list vs)
      | _, _ => .error .type
  | .compList body x it => do
      match asList (← evalE env it) with
      | some l => do
          let vs ← l.mapM (fun v => do numOf (← evalE { env with loc := setKey x (.num v) env.loc } body))
          pure (.list vs)
      | none => .error .type
  | .compZip body x y a b => do
      match asList (← evalE env a), asList (← evalE env b) with
      | some l, some r => do
          let vs ← (l.zip r).mapM (fun p => do
            numOf (← evalE { env with loc := setKey y (.num p.2) (setKey x (.num p.1) env.loc) } body))
          pure (.list vs)
      | _, _ => .error .type
  | .agg isMax e => do
      match asList (← evalE env e) with
      | some l => (if isMax then pymax l else pymin l).map .num
      | none => .error .type
  | .reversed e => do
      match asList (← evalE env e) with
      | some l => .ok (.list l.reverse)
      | none => .error .type
  | .tuple a b => do
      let x ← evalE env a
      let y ← evalE env b
      pure (.pair x y)
  | .strLit t => .ok (.str t)
  | .sorted e => do
      match (← evalE env e) with
      | .ivs l => .ok (.ivs (sortIvs l))
      | .dlist [] => .ok (.dlist [])
      | _ => .error .type
  | .lastSnd e => do
      match (← evalE env e) with
      | .ivs l => match l.getLast? with
                  | some p => .ok (.int p.2)
                  | none => .error .index
      | .dlist [] => .error .index
      | _ => .error .type
  | .ifExp c a b => do
      match (← evalE env c) with
      | .bool true => evalE env a
      | .bool false => evalE env b
      | _ => .error .type
  | .unsupported _ => .error .other

/-- `target.append(v)`. -/
def appendV : V α → V α → Except PyErr (V α)
  | .deque c l, .num x => .ok (.deque c (dqAppend c l x))
  | .dlist [], .num x => .ok (.list [x])
  | .dlist [], .bool b => .ok (.blist [b])
  | .blist l, .bool b => .ok (.blist (l ++ [b]))
  | .dlist l, .deque c d => .ok (.dlist (l ++ [(c, d)]))
  | .list l, .num x => .ok (.list (l ++ [x]))
  | .dlist [], .pair (.int a) (.int b) => .ok (.ivs [(a, b)])
  | .ivs l, .pair (.int a) (.int b) => .ok (.ivs (l ++ [(a, b)]))
  | _, _ => .error .type

def exec : S → Env α → Except PyErr (Env α)
  | .skip, env => .ok env
  | .seq a b, env => do exec b (← exec a env)
  | .setLoc x e, env => do
      let v ← evalE env e
      pure { env with loc := setKey x v env.loc }
  | .setAttr x e, env => do
      let v ← evalE env e
      pure { env with self := setKey x v env.self }
  | .append a none e, env => do
      let v ← evalE env e
      let t ← getKey a env.self
      let t' ← appendV t v
      pure { env with self := setKey a t' env.self }
  | .append a (some k) e, env => do
      let v ← evalE env e
      match (← getKey a env.self), v with
      | .dlist l, .num x =>
          match l[k]? with
          | some (c, d) => pure { env with self := setKey a (.dlist (l.set k (c, dqAppend c d x))) env.self }
          | none => throw .index
      | _, _ => throw .type
  | .for_ i lo hi body, env => do
      match (← evalE env lo), (← evalE env hi) with
      | .int a, .int b =>
          if a < 0 then throw .type else
          (List.range' a.toNat (b - a).toNat).foldlM
            (fun env k => exec body { env with loc := setKey i (.int (k : Nat)) env.loc }) env
      | _, _ => throw .type
  | .ite c t e, env => do
      match (← evalE env c) with
      | .bool true => exec t env
      | .bool false => exec e env
      | _ => throw .type
  | .raise k, _ => .error k
  | .forIn x it body, env => do
      match asList (← evalE env it) with
      | some l => l.foldlM (fun env v => exec body { env with loc := setKey x (.num v) env.loc }) env
      | none => throw .type
  | .forDown i hi lo body, env => do
      match (← evalE env hi), (← evalE env lo) with
      | .int a, .int b =>
          ((List.range (a - b).toNat).map (fun (j : Nat) => a - (j : Int))).foldlM
            (fun env k => exec body { env with loc := setKey i (.int k) env.loc }) env
      | _, _ => throw .type
  | .appendLoc x e, env => do
      let v ← evalE env e
      let t ← getKey x env.loc
      let t' ← appendV t v
      pure { env with loc := setKey x t' env.loc }
  | .reverseLoc x, env => do
      match asList (← getKey x env.loc) with
      | some l => pure { env with loc := setKey x (.list l.reverse) env.loc }
      | none => throw .type
  | .insertLoc x pos e, env => do
      match asList (← getKey x env.loc), (← evalE env pos), (← evalE env e) with
      | some l, .int 0, .num v => pure { env with loc := setKey x (.list (v :: l)) env.loc }
      | _, _, _ => throw .type
  | .forEnum i x it body, env => do
      match (← evalE env it) with
      | .blist l =>
          l.zipIdx.foldlM (fun env p =>
            exec body { env with loc := setKey x (.bool p.1) (setKey i (.int (p.2 : Nat)) env.loc) }) env
      | v =>
          match asList v with
          | some l => l.zipIdx.foldlM (fun env p =>
              exec body { env with loc := setKey x (.num p.1) (setKey i (.int (p.2 : Nat)) env.loc) }) env
          | none => throw .type
  | .unpack a b e, env => do
      match (← evalE env e) with
      | .pair x y => pure { env with loc := setKey b y (setKey a x env.loc) }
      | _ => throw .type
  | .forPair a b it body, env => do
      match (← evalE env it) with
      | .ivs l => l.foldlM (fun env p =>
          exec body { env with loc := setKey b (.int p.2) (setKey a (.int p.1) env.loc) }) env
      | .dlist [] => pure env
      | _ => throw .type
  | .setLastSnd x e, env => do
      match (← getKey x env.loc), (← evalE env e) with
      | .ivs (p :: l), .int v => pure { env with loc := setKey x (.ivs (setLastSnd (p :: l) v)) env.loc }
      | .ivs [], .int _ => throw .index
      | .dlist [], .int _ => throw .index
      | _, _ => throw .type
  | .unsupported _, _ => .error .other

/-- Call of a method on an object with attribute store `self`. -/
def call (m : Method) (self : Store α) (args : List (V α)) : Except PyErr (Store α × V α) := do
  if args.length ≠ m.params.length then throw .type
  let env ← exec m.body { self := self, loc := m.params.zip args }
  match m.ret with
  | some e => do
      let v ← evalE env e
      pure (env.self, v)
  | none => pure (env.self, .none)

/-- `C(args)`: a new object. -/
def construct (c : Class) (args : List (V α)) : Except PyErr (Store α) :=
  (call c.init [] args).map (·.1)

def update (c : Class) (self : Store α) (args : List (V α)) : Except PyErr (Store α × V α) :=
  call c.update self args

def reset (c : Class) (self : Store α) : Except PyErr (Store α) :=
  (call c.reset self []).map (·.1)

end Rtamt.Py
