/-
  The glue of the online interpreter: the update visitor (`AbstractOnlineUpdateVisitor` with the leaf methods of
  `DiscreteTimeOnlineUpdateVisitor`) and the reset visitor (`AbstractOnlineResetVisitor`) of
  `rtamt/semantics/abstract_online_interpreter.py` / `abstract_discrete_time_online_interpreter.py`.

  Their methods work on three dictionaries and on operator *objects* rather than on numbers, so they get a small
  language of their own (as the pastifier did): `harness/py2lean.py` translates the method bodies into terms of `GE` / `GS`
  (`GeneratedGlue.lean`, regenerated on every run), this file gives the terms their meaning.

    self.updated                 name  -> value       the per-update memo (cleared by `visitAst`)
    self.results                 node  -> value       what `get_value` reads
    online_operator_dict         name  -> operator    the operator objects (`Program.Store`: keyed by the formula, the
                                                      printed name being injective on formulas — validated by the harness)
    var_object_dict              name  -> value       the current sample of every variable (read only here)

  `operator.update(args)` / `operator.reset()` on an operator object are the mirror's `stepNode` / `initNode`
  (proved equal to the translated operation classes in `RtamtProofs/GenOps.lean`).
-/
import Rtamt.Discrete.Program

namespace Rtamt.Py
open Rtamt Val

/-- A dictionary key computed from the node. -/
inductive GKey | nodeName | node | nodeVar
  deriving DecidableEq, Repr, Inhabited

inductive GE
  | loc (x : String)
  | visit (k : Nat)                        -- self.visit(node.children[k], …)
  | visitSpec                              -- self.visit(spec, …) inside the loop of `visitAst`
  | inDict (d : String) (k : GKey)         -- k in self.d
  | getDict (d : String) (k : GKey)        -- self.d[k] / d[k]
  | opUpdate (op : String) (args : List GE) -- op.update(args…), `op` a local bound to an operator object
  | nodeVal                                -- node.val
  | nodeField                              -- node.field
  | isConst | isVar                        -- isinstance(node, Constant) / isinstance(node, Variable)
  | emptyList                              -- []
  | unsupported (what : String)
  deriving Repr, Inhabited

inductive GS
  | skip
  | seq (a b : GS)
  | setLoc (x : String) (e : GE)
  | setDict (d : String) (k : GKey) (e : GE)   -- self.d[k] = e
  | clearDict (d : String)                     -- self.d = dict()
  | ite (c : GE) (t e : GS)
  | visitChildren                              -- self.visitChildren(node, …)
  | opReset (op : String)                      -- op.reset()
  | forSpecs (body : GS)                       -- for spec in ast.specs: body
  | appendLoc (x : String) (e : GE)            -- x.append(e)
  | unsupported (what : String)
  deriving Repr, Inhabited

structure GMethod where
  body : GS
  ret : Option GE
  deriving Repr, Inhabited

variable {α : Type} [Val α] [DecidableEq α]

/-- Values of the glue language. -/
inductive GV (α : Type)
  | none
  | num (x : α)
  | bool (b : Bool)
  | opRef (k : F α)          -- an operator object: a reference into `online_operator_dict`
  | list (l : List (Option α))      -- the list `visitAst` collects (a visit of the reset visitor returns `None`)
  deriving Inhabited

/-- The state the visitors work on. -/
structure GSt (α : Type) where
  ops : Store α
  updated : Memo α
  results : Memo α

/-- `operator.update(args…)` of the operator registered for a node. -/
def stepNode : F α → St α → List α → Except PyErr (St α × α)
  | .un op _, s, [v] => .ok (s, op.app v)
  | .bin op _ _, s, [v1, v2] => .ok (s, op.app v1 v2)
  | .tmp1 op _, s, [v] => stepT1 op s v
  | .tmp2 op _ _, s, [v1, v2] => stepT2 op s v1 v2
  | .tb1 op a b _, s, [v] => stepTB1 op a b s v
  | .tb2 op a b _ _, s, [v1, v2] => stepTB2 op a b s v1 v2
  | _, _, _ => .error .type

def memoSet (m : Memo α) (k : F α) (v : α) : Memo α := (k, v) :: m

/-- A visit of a child / of an assertion: threads the state and yields the value. -/
abbrev Visit (α : Type) := GSt α → Except PyErr (Option α × GSt α)

structure GEnv (α : Type) where
  node : F α
  vars : String → α
  kids : List (Visit α)
  spec : Option (Visit α) := Option.none
  loc : List (String × GV α) := []

def gvOfOpt : Option α → GV α
  | some v => .num v
  | Option.none => .none

def gGet (x : String) (l : List (String × GV α)) : Except PyErr (GV α) :=
  match l.lookup x with
  | some v => .ok v
  | none => .error .other

def gSet (x : String) (v : GV α) (l : List (String × GV α)) : List (String × GV α) :=
  (x, v) :: l.filter (fun p => p.1 != x)

mutual
def evalGE (env : GEnv α) (st : GSt α) : GE → Except PyErr (GV α × GSt α)
  | .loc x => do pure (← gGet x env.loc, st)
  | .visit k =>
      match env.kids[k]? with
      | some f => do
          let (v, st') ← f st
          pure (gvOfOpt v, st')
      | none => .error .index
  | .visitSpec =>
      match env.spec with
      | some f => do
          let (v, st') ← f st
          pure (gvOfOpt v, st')
      | none => .error .other
  | .inDict d k =>
      match d, k with
      | "updated", .nodeName => .ok (.bool (st.updated.lookup env.node).isSome, st)
      | _, _ => .error .other
  | .getDict d k =>
      match d, k with
      | "updated", .nodeName =>
          match st.updated.lookup env.node with
          | some v => .ok (.num v, st)
          | none => .error .key
      | "online_operator_dict", .nodeName =>
          match st.ops.lookup env.node with
          | some _ => .ok (.opRef env.node, st)
          | none => .error .key
      | "var_object_dict", .nodeVar =>
          match env.node with
          | .var x => .ok (.num (env.vars x), st)
          | _ => .error .other
      | _, _ => .error .other
  | .opUpdate op args => do
      match (← gGet op env.loc) with
      | .opRef k => do
          let (vs, st1) ← evalArgs env st args
          let s ← st1.ops.get k
          let (s', o) ← stepNode k s vs
          pure (.num o, { st1 with ops := st1.ops.set k s' })
      | _ => .error .type
  | .nodeVal =>
      match env.node with
      | .const c => .ok (.num c, st)
      | _ => .error .other
  | .nodeField => .ok (.bool false, st)            -- float-typed variables: `node.field` is empty
  | .isConst => .ok (.bool (match env.node with | .const _ => true | _ => false), st)
  | .isVar => .ok (.bool (match env.node with | .var _ => true | _ => false), st)
  | .emptyList => .ok (.list [], st)
  | .unsupported _ => .error .other

def evalArgs (env : GEnv α) (st : GSt α) : List GE → Except PyErr (List α × GSt α)
  | [] => .ok ([], st)
  | e :: es => do
      match (← evalGE env st e) with
      | (.num v, st1) => do
          let (vs, st2) ← evalArgs env st1 es
          pure (v :: vs, st2)
      | _ => .error .type
end

/-- The operator nodes of a formula are visited in the order of the children; a leaf has none. -/
def runKids : List (Visit α) → GSt α → Except PyErr (GSt α)
  | [], st => .ok st
  | f :: fs, st => do
      let (_, st') ← f st
      runKids fs st'

def execGS : GS → GEnv α → GSt α → List (Visit α) → Except PyErr (GEnv α × GSt α)
  | .skip, env, st, _ => .ok (env, st)
  | .seq a b, env, st, specs => do
      let (env1, st1) ← execGS a env st specs
      execGS b env1 st1 specs
  | .setLoc x e, env, st, _ => do
      let (v, st1) ← evalGE env st e
      pure ({ env with loc := gSet x v env.loc }, st1)
  | .setDict d k e, env, st, _ => do
      match (← evalGE env st e) with
      | (.num v, st1) =>
          match d, k with
          | "updated", .nodeName => pure (env, { st1 with updated := memoSet st1.updated env.node v })
          | "results", .node => pure (env, { st1 with results := memoSet st1.results env.node v })
          | _, _ => throw .other
      | _ => throw .type
  | .clearDict d, env, st, _ =>
      match d with
      | "updated" => .ok (env, { st with updated := [] })
      | _ => .error .other
  | .ite c t e, env, st, specs => do
      match (← evalGE env st c) with
      | (.bool true, st1) => execGS t env st1 specs
      | (.bool false, st1) => execGS e env st1 specs
      | _ => throw .type
  | .visitChildren, env, st, _ => do
      let st1 ← runKids env.kids st
      pure (env, st1)
  | .opReset op, env, st, _ => do
      match (← gGet op env.loc) with
      | .opRef k => do
          let _ ← st.ops.get k
          pure (env, { st with ops := st.ops.set k (initNode k) })
      | _ => throw .type
  | .forSpecs body, env, st, specs =>
      specs.foldlM (fun (p : GEnv α × GSt α) f => execGS body { p.1 with spec := some f } p.2 []) (env, st)
  | .appendLoc x e, env, st, _ => do
      match (← gGet x env.loc), (← evalGE env st e) with
      | .list l, (.num v, st1) => pure ({ env with loc := gSet x (.list (l ++ [some v])) env.loc }, st1)
      | .list l, (.none, st1) => pure ({ env with loc := gSet x (.list (l ++ [Option.none])) env.loc }, st1)
      | _, _ => throw .type
  | .unsupported _, _, _, _ => .error .other

/-- Call of a visit method on a node whose children are visited by `kids`. -/
def callG (m : GMethod) (node : F α) (vars : String → α) (kids : List (Visit α)) (specs : List (Visit α)) (st : GSt α) :
    Except PyErr (GV α × GSt α) := do
  let (env, st1) ← execGS m.body { node := node, vars := vars, kids := kids } st specs
  match m.ret with
  | some e => evalGE env st1 e
  | none => pure (.none, st1)

end Rtamt.Py
