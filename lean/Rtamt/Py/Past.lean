/-
  The pastifier (`rtamt/pastifier/stl/pastifier.py`, class `StlPastifier`): a visitor that rebuilds the
  syntax tree, `visitX(self, node, horizon)`.  Its methods use a tiny sub-language of their own — integer
  arithmetic on horizons and bounds, comparisons, `if`, assignments, constructor calls of node classes,
  `Interval(a, b)` and the recursive `self.visit(node.children[k], h)` — which is embedded here
  (`PE`, `PS`, `PMethod`) together with its meaning (`evalPE`, `execPS`, `callPast`) and the dispatch of the
  visitor (`pastG`).  `harness/py2lean.py` translates the source into `GeneratedPast.lean` on every run;
  `RtamtProofs/GenPast.lean` proves `pastG = past` (the mirror of `Rtamt/Discrete/Pastify.lean` that the
  C03 theorems are stated on).

  Node attributes read by the methods are passed as locals: `$horizon` (`args[0]`), `$node_horizon`
  (`self.subformula_horizons[node]`, computed by the horizon visitor: `hor` of the node), `$begin`, `$end`
  (bounds in samples), `$operator`, and `$self` (the node itself, for the leaves that are copied).
  Not modelled: the re-pointing of `phi_name_to_node_dict` in `visit` (names of sub-specifications) and
  `normalize_units` (bounds are counted in samples here).
-/
import Rtamt.Py.RunOff
import Rtamt.Discrete.Pastify

namespace Rtamt.Py
open Rtamt Val

inductive PE
  | loc (x : String)
  | int (n : Int)
  | add (a b : PE)
  | sub (a b : PE)
  | gt (a b : PE)                          -- a > b
  | visit (k : Nat) (h : PE)               -- self.visit(node.children[k], h)
  | interval (a b : PE)                    -- Interval(a, b)
  | mk1 (cls : String) (a : PE)            -- Cls(child)
  | mk2 (cls : String) (a b : PE)          -- Cls(child1, child2)  |  Cls(child, interval)
  | mk3 (cls : String) (a b c : PE)        -- Cls(child1, child2, interval)  |  Predicate(child1, child2, operator)
  | selfLeaf                               -- Variable(node.var, node.field, node.io_type)  |  Constant(node.val)
  | unsupported (what : String)
  deriving Repr, Inhabited

inductive PS
  | skip
  | seq (a b : PS)
  | setLoc (x : String) (e : PE)
  | ite (c : PE) (t e : PS)
  | forRange (i : String) (n : PE) (body : PS)         -- for i in range(n)
  | raise (k : PyErr)
  | unsupported (what : String)
  deriving Repr, Inhabited

structure PMethod where
  name : String
  body : PS
  ret : Option PE
  deriving Repr, Inhabited

inductive PV (α : Type)
  | int (n : Int)
  | bool (b : Bool)
  | fml (φ : F α)
  | iv (a b : Int)
  | cmp (c : Cmp)
  | none
  deriving Inhabited

variable {α : Type}

/-- Node classes with one child. -/
def mkNode1 (cls : String) (φ : F α) : Option (F α) :=
  if cls = "Abs" then some (.un .abs φ) else if cls = "Sqrt" then some (.un .sqrt φ)
  else if cls = "Exp" then some (.un .exp φ) else if cls = "Ln" then some (.un .ln φ)
  else if cls = "Negate" then some (.un .negate φ) else if cls = "Neg" then some (.un .not φ)
  else if cls = "Rise" then some (.tmp1 .rise φ) else if cls = "Fall" then some (.tmp1 .fall φ)
  else if cls = "Previous" then some (.tmp1 .prev φ) else if cls = "StrongPrevious" then some (.tmp1 .sprev φ)
  else if cls = "Next" then some (.tmp1 .next φ) else if cls = "StrongNext" then some (.tmp1 .snext φ)
  else if cls = "Once" then some (.tmp1 .once φ) else if cls = "Historically" then some (.tmp1 .hist φ)
  else if cls = "Eventually" then some (.tmp1 .ev φ) else if cls = "Always" then some (.tmp1 .alw φ)
  else none

/-- Node classes with two children. -/
def mkNode2 (cls : String) (φ ψ : F α) : Option (F α) :=
  if cls = "Addition" then some (.bin .add φ ψ) else if cls = "Subtraction" then some (.bin .sub φ ψ)
  else if cls = "Multiplication" then some (.bin .mul φ ψ) else if cls = "Division" then some (.bin .div φ ψ)
  else if cls = "Pow" then some (.bin .pow φ ψ) else if cls = "Log" then some (.bin .log φ ψ)
  else if cls = "Conjunction" then some (.bin .and φ ψ) else if cls = "Disjunction" then some (.bin .or φ ψ)
  else if cls = "Implies" then some (.bin .implies φ ψ) else if cls = "Iff" then some (.bin .iff φ ψ)
  else if cls = "Xor" then some (.bin .xor φ ψ)
  else if cls = "Since" then some (.tmp2 .since φ ψ) else if cls = "Until" then some (.tmp2 .until φ ψ)
  else none

/-- Bounded node classes with one child. -/
def mkNodeT1 (cls : String) (a b : Nat) (φ : F α) : Option (F α) :=
  if cls = "TimedOnce" then some (.tb1 .once a b φ) else if cls = "TimedHistorically" then some (.tb1 .hist a b φ)
  else if cls = "TimedEventually" then some (.tb1 .ev a b φ) else if cls = "TimedAlways" then some (.tb1 .alw a b φ)
  else none

/-- Bounded node classes with two children. -/
def mkNodeT2 (cls : String) (a b : Nat) (φ ψ : F α) : Option (F α) :=
  if cls = "TimedSince" then some (.tb2 .since a b φ ψ) else if cls = "TimedUntil" then some (.tb2 .until a b φ ψ)
  else if cls = "TimedPrecedes" then some (.tb2 .precedes a b φ ψ)
  else none

abbrev PStore (α : Type) := List (String × PV α)

def ofOpt {β : Type} : Option β → Except PyErr β
  | some x => .ok x
  | none => .error .other

/-- Expressions; `rec k h` is `self.visit(node.children[k], h)`. -/
def evalPE (rec : Nat → Int → Except PyErr (F α)) (loc : PStore α) : PE → Except PyErr (PV α)
  | .loc x => getKey x loc
  | .int n => .ok (.int n)
  | .add a b => do
      match (← evalPE rec loc a), (← evalPE rec loc b) with
      | .int x, .int y => pure (.int (x + y))
      | _, _ => throw .type
  | .sub a b => do
      match (← evalPE rec loc a), (← evalPE rec loc b) with
      | .int x, .int y => pure (.int (x - y))
      | _, _ => throw .type
  | .gt a b => do
      match (← evalPE rec loc a), (← evalPE rec loc b) with
      | .int x, .int y => pure (.bool (decide (y < x)))
      | _, _ => throw .type
  | .visit k h => do
      match (← evalPE rec loc h) with
      | .int n => do pure (.fml (← rec k n))
      | _ => throw .type
  | .interval a b => do
      match (← evalPE rec loc a), (← evalPE rec loc b) with
      | .int x, .int y => pure (.iv x y)
      | _, _ => throw .type
  | .mk1 cls a => do
      match (← evalPE rec loc a) with
      | .fml φ => do pure (.fml (← ofOpt (mkNode1 cls φ)))
      | _ => throw .type
  | .mk2 cls a b => do
      match (← evalPE rec loc a), (← evalPE rec loc b) with
      | .fml φ, .fml ψ => do pure (.fml (← ofOpt (mkNode2 cls φ ψ)))
      | .fml φ, .iv x y =>
          if x < 0 ∨ y < 0 then throw .value else do pure (.fml (← ofOpt (mkNodeT1 cls x.toNat y.toNat φ)))
      | _, _ => throw .type
  | .mk3 cls a b c => do
      match (← evalPE rec loc a), (← evalPE rec loc b), (← evalPE rec loc c) with
      | .fml φ, .fml ψ, .iv x y =>
          if x < 0 ∨ y < 0 then throw .value else do pure (.fml (← ofOpt (mkNodeT2 cls x.toNat y.toNat φ ψ)))
      | .fml φ, .fml ψ, .cmp op => if cls = "Predicate" then pure (.fml (.bin (.pred op) φ ψ)) else throw .other
      | _, _, _ => throw .type
  | .selfLeaf => getKey "$self" loc
  | .unsupported _ => .error .other

def execPS (rec : Nat → Int → Except PyErr (F α)) : PS → PStore α → Except PyErr (PStore α)
  | .skip, loc => .ok loc
  | .seq a b, loc => do execPS rec b (← execPS rec a loc)
  | .setLoc x e, loc => do
      let v ← evalPE rec loc e
      pure (setKey x v loc)
  | .ite c t e, loc => do
      match (← evalPE rec loc c) with
      | .bool true => execPS rec t loc
      | .bool false => execPS rec e loc
      | _ => throw .type
  | .forRange i n body, loc => do
      match (← evalPE rec loc n) with
      | .int m => (List.range m.toNat).foldlM (fun loc k => execPS rec body (setKey i (.int (k : Nat)) loc)) loc
      | _ => throw .type
  | .raise k, _ => .error k
  | .unsupported _, _ => .error .other

def callPast (rec : Nat → Int → Except PyErr (F α)) (m : PMethod) (loc : PStore α) : Except PyErr (F α) := do
  let loc' ← execPS rec m.body loc
  match m.ret with
  | some e =>
      match (← evalPE rec loc' e) with
      | .fml φ => pure φ
      | _ => throw .type
  | none => throw .type

end Rtamt.Py
