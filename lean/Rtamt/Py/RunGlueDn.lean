/-
  The update visitor of the dense-time online interpreter and `AbstractDenseTimeOnlineInterpreter.update` run through the
  methods *translated from the source* (`GeneratedGlueDn.lean`) under the semantics of `GlueDn.lean`, with the dispatch of
  `AbstractAstVisitor.visit` (`BinaryNode` -> `visitBinary`, `UnaryNode` -> `visitUnary`, `LeafNode` -> `visitLeaf`).
  `RtamtProofs/GenGlueDn.lean` proves them equal to the mirrors `visitOnM` / `updateSpecsOn` / `runSpecsOn`
  (`Rtamt/Dense/ProgramOn.lean`).
-/
import Rtamt.Py.GeneratedGlueDn

namespace Rtamt.Py.GDn
open Rtamt Val Rtamt.Dense Rtamt.Dense.Alg Rtamt.Dense.AlgOn Rtamt.Dense.ProgramOn

variable {α : Type} [Val α] [DecidableEq α]

/-- The value a visit method returns, as a signal. -/
def valOf (r : GV α × GSt α) : Except PyErr (ASig α × GSt α) := do
  pure (← asSig r.1, r.2)

/-- One visit of the update visitor. -/
def visitGlueDn (cfg : DCfg) : F α → Visit α
  | .var x, st => do valOf (← callG cfg Gen.GlueDn.update_visitLeaf { node := .var x } [] st)
  | .const c, st => do valOf (← callG cfg Gen.GlueDn.update_visitLeaf { node := .const c } [] st)
  | .un op φ, st => do
      valOf (← callG cfg Gen.GlueDn.update_visitUnary { node := .un op φ, kids := [visitGlueDn cfg φ] } [] st)
  | .bin op φ ψ, st => do
      valOf (← callG cfg Gen.GlueDn.update_visitBinary
        { node := .bin op φ ψ, kids := [visitGlueDn cfg φ, visitGlueDn cfg ψ] } [] st)
  | .tmp1 op φ, st => do
      valOf (← callG cfg Gen.GlueDn.update_visitUnary { node := .tmp1 op φ, kids := [visitGlueDn cfg φ] } [] st)
  | .tmp2 op φ ψ, st => do
      valOf (← callG cfg Gen.GlueDn.update_visitBinary
        { node := .tmp2 op φ ψ, kids := [visitGlueDn cfg φ, visitGlueDn cfg ψ] } [] st)
  | .tb1 op a b φ, st => do
      valOf (← callG cfg Gen.GlueDn.update_visitUnary { node := .tb1 op a b φ, kids := [visitGlueDn cfg φ] } [] st)
  | .tb2 op a b φ ψ, st => do
      valOf (← callG cfg Gen.GlueDn.update_visitBinary
        { node := .tb2 op a b φ ψ, kids := [visitGlueDn cfg φ, visitGlueDn cfg ψ] } [] st)

/-- `updateVisitor.visitAst(ast, online_operator_dict, var_object_dict)`: the signals of all assertions. -/
def updateSpecsGDn (cfg : DCfg) (specs : List (F α)) (st : GSt α) : Except PyErr (List (ASig α) × GSt α) := do
  let r ← callG cfg Gen.GlueDn.update_visitAst { node := .const Val.zero } (specs.map (visitGlueDn cfg)) st
  pure (← asList r.1, r.2)

/-- `AbstractDenseTimeOnlineInterpreter.update(dataset)`: what it returns (`rob`), the state afterwards.
    `free`: `ast.free_vars`. -/
def updateGDn (cfg : DCfg) (free : List String) (specs : List (F α)) (dataset : List (String × ASig α)) (st : GSt α) :
    Except PyErr (ASig α × GSt α) := do
  valOf (← callG cfg Gen.GlueDn.interp_update
    { node := .const Val.zero, vast := some (updateSpecsGDn cfg specs), free := free, dataset := dataset } [] st)

/-- A sequence of `update(dataset)` calls: per call the value returned and the memo of the round. -/
def runSpecsGDn (cfg : DCfg) (free : List String) (specs : List (F α)) :
    GSt α → List (List (String × ASig α)) → Except PyErr (List (ASig α × MemoOn α))
  | _, [] => .ok []
  | st, d :: ds => do
      let (rob, st') ← updateGDn cfg free specs d st
      let rest ← runSpecsGDn cfg free specs st' ds
      pure ((rob, st'.updated) :: rest)

/-- `AbstractDenseTimeOnlineInterpreter.set_ast(ast)`; the step of the parent class (`AbstractOnlineInterpreter.set_ast`,
    not translated here) is `ProgramOn.initStoreOn specs []`. -/
def setAstGDn (cfg : DCfg) (specs : List (F α)) (st : GSt α) : Except PyErr (GSt α) := do
  let r ← callG cfg Gen.GlueDn.interp_set_ast { node := .const Val.zero, setAst := some (initStoreOn specs []) } [] st
  pure r.2

/-- `AbstractDenseTimeOnlineInterpreter.reset()`. -/
def resetGDn (cfg : DCfg) (specs : List (F α)) (st : GSt α) : Except PyErr (GSt α) := do
  let r ← callG cfg Gen.GlueDn.interp_reset { node := .const Val.zero, setAst := some (initStoreOn specs []) } [] st
  pure r.2

end Rtamt.Py.GDn
