/-
  The update visitor and the reset visitor run through the methods *translated from the source*
  (`GeneratedGlue.lean`) under the semantics of `Glue.lean`, with the dispatch of `AbstractAstVisitor.visit`
  (`BinaryNode` -> `visitBinary`, `UnaryNode` -> `visitUnary`, `LeafNode` -> `visitLeaf`).
  `RtamtProofs/GenGlue.lean` proves them equal to the mirrors `visitM` / `updateSpecs` (`Rtamt/Discrete/Program.lean`,
  the functions C09 / C12 are stated on) and `resetM` / `resetSpecs`.
-/
import Rtamt.Py.GeneratedGlue
import Rtamt.Discrete.ProgramReset

namespace Rtamt.Py
open Rtamt Val

variable {α : Type} [Val α] [DecidableEq α]

def valOf : GV α × GSt α → Except PyErr (Option α × GSt α)
  | (.num v, st) => .ok (some v, st)
  | (.none, st) => .ok (Option.none, st)
  | _ => .error .type

/-- One visit of the update visitor. -/
def visitGlue (vars : String → α) : F α → Visit α
  | .var x, st => do valOf (← callG Gen.Glue.update_visitLeaf (.var x) vars [] [] st)
  | .const c, st => do valOf (← callG Gen.Glue.update_visitLeaf (.const c) vars [] [] st)
  | .un op φ, st => do valOf (← callG Gen.Glue.update_visitUnary (.un op φ) vars [visitGlue vars φ] [] st)
  | .bin op φ ψ, st => do valOf (← callG Gen.Glue.update_visitBinary (.bin op φ ψ) vars [visitGlue vars φ, visitGlue vars ψ] [] st)
  | .tmp1 op φ, st => do valOf (← callG Gen.Glue.update_visitUnary (.tmp1 op φ) vars [visitGlue vars φ] [] st)
  | .tmp2 op φ ψ, st => do valOf (← callG Gen.Glue.update_visitBinary (.tmp2 op φ ψ) vars [visitGlue vars φ, visitGlue vars ψ] [] st)
  | .tb1 op a b φ, st => do valOf (← callG Gen.Glue.update_visitUnary (.tb1 op a b φ) vars [visitGlue vars φ] [] st)
  | .tb2 op a b φ ψ, st => do valOf (← callG Gen.Glue.update_visitBinary (.tb2 op a b φ ψ) vars [visitGlue vars φ, visitGlue vars ψ] [] st)

/-- `updateVisitor.visitAst(ast, online_operator_dict, var_object_dict)`: the values of all assertions. -/
def updateSpecsG (vars : String → α) (specs : List (F α)) (st : GSt α) : Except PyErr (List (Option α) × GSt α) := do
  match (← callG Gen.Glue.update_visitAst (.const Val.zero) vars [] (specs.map (visitGlue vars)) st) with
  | (.list l, st') => pure (l, st')
  | _ => throw .type

/-- One visit of the reset visitor. -/
def resetGlue : F α → Visit α
  | .var x, st => do valOf (← callG Gen.Glue.reset_visitLeaf (.var x) (fun _ => Val.zero) [] [] st)
  | .const c, st => do valOf (← callG Gen.Glue.reset_visitLeaf (.const c) (fun _ => Val.zero) [] [] st)
  | .un op φ, st => do valOf (← callG Gen.Glue.reset_visitUnary (.un op φ) (fun _ => Val.zero) [resetGlue φ] [] st)
  | .bin op φ ψ, st => do valOf (← callG Gen.Glue.reset_visitBinary (.bin op φ ψ) (fun _ => Val.zero) [resetGlue φ, resetGlue ψ] [] st)
  | .tmp1 op φ, st => do valOf (← callG Gen.Glue.reset_visitUnary (.tmp1 op φ) (fun _ => Val.zero) [resetGlue φ] [] st)
  | .tmp2 op φ ψ, st => do valOf (← callG Gen.Glue.reset_visitBinary (.tmp2 op φ ψ) (fun _ => Val.zero) [resetGlue φ, resetGlue ψ] [] st)
  | .tb1 op a b φ, st => do valOf (← callG Gen.Glue.reset_visitUnary (.tb1 op a b φ) (fun _ => Val.zero) [resetGlue φ] [] st)
  | .tb2 op a b φ ψ, st => do valOf (← callG Gen.Glue.reset_visitBinary (.tb2 op a b φ ψ) (fun _ => Val.zero) [resetGlue φ, resetGlue ψ] [] st)

/-- `resetVisitor.visitAst(ast, online_operator_dict)`. -/
def resetSpecsG (specs : List (F α)) (st : GSt α) : Except PyErr (GSt α) := do
  let (_, st') ← callG Gen.Glue.base_visitAst (.const Val.zero) (fun _ => Val.zero) [] (specs.map resetGlue) st
  pure st'

end Rtamt.Py
