/-
  `AbstractDiscreteTimeOnlineInterpreter.update(timestamp, dataset)` / `.reset()` / `.set_variable_to_ast_from_dataset`
  (`rtamt/semantics/abstract_discrete_time_online_interpreter.py`) as WHOLE methods.

  `harness/py2lean.py` (`generate_glue_update`) translates the method bodies into terms of `UE` / `US` below
  (`GeneratedGlueUpd.lean`, regenerated on every run); this file gives the terms their meaning.  The state is

    the `GSt` of `Glue.lean`     online_operator_dict, updateVisitor.updated, updateVisitor.results
    vod : String → α             ast.var_object_dict — the current sample of every variable (written by
                                 `set_variable_to_ast_from_dataset` and by `reset`, read by the update visitor)
    clk : Store α                the attributes of the interpreter the sampling bookkeeping reads and writes
                                 (`update_counter`, `previous_time`, `sampling_violation_counter`, `sampling_period`, …)

  Two calls leave the language: `self.updateVisitor.visitAst(self.ast, self.online_operator_dict, self.ast.var_object_dict)`
  and `self.resetVisitor.visitAst(self.ast, self.online_operator_dict)`; the runner (`RunGlueUpd.lean`) binds them to the
  *translated* visitors of `GeneratedGlue.lean` (`updateSpecsG` / `resetSpecsG` of `RunGlue.lean`).  The statements of the
  sampling bookkeeping are terms of the language of `Sem.lean` (the translator of `generate_clock` produces them) and are
  run by `Rtamt.Py.exec` on `clk`, with the locals `timestamp` (the parameter) and `$unit` (`self.ast.unit`).
-/
import Rtamt.Py.Glue
import Rtamt.Py.Sem

namespace Rtamt.Py.GUpd
open Rtamt Val

inductive UE
  | loc (x : String)
  | visitAst                               -- self.updateVisitor.visitAst(self.ast, self.online_operator_dict, self.ast.var_object_dict)
  | lastOf (x : String)                    -- x[len(x) - 1]
  | dataIdx (i : Nat)                      -- data[i] inside `for data in dataset`
  | inFreeVars (e : UE)                    -- e in self.ast.free_vars
  | inOps (e : UE)                         -- e in self.online_operator_dict
  | outVarField                            -- self.ast.out_var_field
  | createVar (e : UE)                     -- self.ast.create_var_from_name(e)
  | unsupported (what : String)
  deriving Repr, Inhabited

inductive US
  | skip
  | seq (a b : US)
  | setLoc (x : String) (e : UE)
  | ite (c : UE) (t e : US)
  | setVar (k e : UE)                          -- self.ast.var_object_dict[k] = e
  | forData (it : String) (body : US)          -- for data in it: body            (`it` a parameter of the method)
  | forFree (x : String) (body : US)           -- for x in self.ast.free_vars: body
  | resetAst                                   -- self.resetVisitor.visitAst(self.ast, self.online_operator_dict)
  | clock (s : Rtamt.Py.S)                     -- statements of the sampling bookkeeping (language of `Sem.lean`)
  | opaque (what : String)                     -- a statement outside the model's state (no effect on it); named, see `GenGlueUpd`
  | unsupported (what : String)
  deriving Repr, Inhabited

structure UMethod where
  params : List String
  body : US
  ret : Option UE
  deriving Repr, Inhabited

/-! ### what is outside the translated subset -/

def UE.unsup : UE → List String
  | .inFreeVars e => e.unsup
  | .inOps e => e.unsup
  | .createVar e => e.unsup
  | .unsupported w => [w]
  | _ => []

/-- The source texts of everything below a statement that is outside the translated subset (the fragments of the
    bookkeeping are terms of another language: see `US.clocks`). -/
def US.unsup : US → List String
  | .seq a b => a.unsup ++ b.unsup
  | .setLoc _ e => e.unsup
  | .ite c t e => c.unsup ++ t.unsup ++ e.unsup
  | .setVar k e => k.unsup ++ e.unsup
  | .forData _ b => b.unsup
  | .forFree _ b => b.unsup
  | .unsupported w => [w]
  | _ => []

/-- The statements kept as named steps without effect on the model's state. -/
def US.opaques : US → List String
  | .seq a b => a.opaques ++ b.opaques
  | .ite _ t e => t.opaques ++ e.opaques
  | .forData _ b => b.opaques
  | .forFree _ b => b.opaques
  | .opaque w => [w]
  | _ => []

/-- The fragments of the sampling bookkeeping. -/
def US.clocks : US → List Rtamt.Py.S
  | .seq a b => a.clocks ++ b.clocks
  | .ite _ t e => t.clocks ++ e.clocks
  | .forData _ b => b.clocks
  | .forFree _ b => b.clocks
  | .clock s => [s]
  | _ => []

def UMethod.unsup (m : UMethod) : List String :=
  m.body.unsup ++ (match m.ret with | some e => e.unsup | none => [])

variable {α : Type} [Val α] [DecidableEq α]

/-- Values of the language. -/
inductive UV (α : Type)
  | none
  | num (x : α)
  | bool (b : Bool)
  | str (s : String)
  | list (l : List (Option α))     -- the list `visitAst` returns
  deriving Inhabited

/-- The state of the interpreter. -/
structure USt (α : Type) where
  g : GSt α                        -- online_operator_dict, updateVisitor.updated, updateVisitor.results
  vod : String → α                 -- ast.var_object_dict
  clk : Rtamt.Py.Store α           -- the attributes of the bookkeeping

/-- `var_object_dict[x] = v`. -/
def vodSet (vod : String → α) (x : String) (v : α) : String → α :=
  fun y => if y = x then v else vod y

/-- An argument of a call: a time stamp or a data set (rows `[name, value]`). -/
inductive UArg (α : Type)
  | ts (q : Rat)
  | rows (d : List (String × α))

structure UEnv (α : Type) where
  /-- what `self.updateVisitor.visitAst(self.ast, self.online_operator_dict, self.ast.var_object_dict)` runs -/
  vast : Option ((String → α) → GSt α → Except PyErr (List (Option α) × GSt α)) := Option.none
  /-- what `self.resetVisitor.visitAst(self.ast, self.online_operator_dict)` runs -/
  rast : Option (GSt α → Except PyErr (GSt α)) := Option.none
  /-- `self.ast.free_vars` (a set in the code; no statement of the translated methods depends on its order) -/
  free : List String := []
  /-- the parameters bound to data sets -/
  datasets : List (String × List (String × α)) := []
  /-- the row `data` of the enclosing `for data in dataset` -/
  data : Option (String × α) := Option.none
  loc : List (String × UV α) := []
  /-- `self.ast.unit` (read by the inlined `self.normalize`) -/
  unit : String := ""
  /-- the locals of the bookkeeping fragments: the parameters bound to time stamps, then `$unit` -/
  cloc : Rtamt.Py.Store α := []

def uGet (x : String) (l : List (String × UV α)) : Except PyErr (UV α) :=
  match l.lookup x with
  | some v => .ok v
  | none => .error .other

def uSet (x : String) (v : UV α) (l : List (String × UV α)) : List (String × UV α) :=
  (x, v) :: l.filter (fun p => p.1 != x)

def uvOfOpt : Option α → UV α
  | some v => .num v
  | Option.none => .none

def evalUE (env : UEnv α) (st : USt α) : UE → Except PyErr (UV α × USt α)
  | .loc x => do pure (← uGet x env.loc, st)
  | .visitAst =>
      match env.vast with
      | some f => do
          let (l, g') ← f st.vod st.g
          pure (.list l, { st with g := g' })
      | none => .error .other
  | .lastOf x => do
      match (← uGet x env.loc) with
      | .list l =>
          match l[l.length - 1]? with
          | some v => pure (uvOfOpt v, st)
          | none => .error .index                   -- `[][-1]`
      | _ => .error .type
  | .dataIdx i =>
      match env.data with
      | some (x, v) =>
          match i with
          | 0 => .ok (.str x, st)
          | 1 => .ok (.num v, st)
          | _ => .error .index
      | none => .error .other
  | .inFreeVars e => do
      match (← evalUE env st e) with
      | (.str x, st1) => pure (.bool (env.free.contains x), st1)
      | _ => .error .type
  | .inOps e => do
      match (← evalUE env st e) with
      | (.str x, st1) => pure (.bool (st1.g.ops.lookup (.var x)).isSome, st1)   -- the name of a variable node is the variable
      | _ => .error .type
  | .outVarField => .ok (.bool false, st)          -- float-typed output: `ast.out_var_field` is empty
  | .createVar e => do
      match (← evalUE env st e) with
      | (.str _, st1) => pure (.num Val.zero, st1)  -- float-typed variables: `float()`
      | _ => .error .type
  | .unsupported _ => .error .other

def execUS : US → UEnv α → USt α → Except PyErr (UEnv α × USt α)
  | .skip, env, st => .ok (env, st)
  | .seq a b, env, st => do
      let (env1, st1) ← execUS a env st
      execUS b env1 st1
  | .setLoc x e, env, st => do
      let (v, st1) ← evalUE env st e
      pure ({ env with loc := uSet x v env.loc }, st1)
  | .ite c t e, env, st => do
      match (← evalUE env st c) with
      | (.bool true, st1) => execUS t env st1
      | (.bool false, st1) => execUS e env st1
      | _ => throw .type
  | .setVar k e, env, st => do
      match (← evalUE env st k) with
      | (.str x, st1) => do
          match (← evalUE env st1 e) with
          | (.num v, st2) => pure (env, { st2 with vod := vodSet st2.vod x v })
          | _ => throw .type
      | _ => throw .type
  | .forData it body, env, st =>
      match env.datasets.lookup it with
      | some d => d.foldlM (fun (p : UEnv α × USt α) r => execUS body { p.1 with data := some r } p.2) (env, st)
      | none => .error .other
  | .forFree x body, env, st =>
      env.free.foldlM (fun (p : UEnv α × USt α) y => execUS body { p.1 with loc := uSet x (.str y) p.1.loc } p.2) (env, st)
  | .resetAst, env, st =>
      match env.rast with
      | some f => do
          let g' ← f st.g
          pure (env, { st with g := g' })
      | none => .error .other
  | .clock s, env, st => do
      let e' ← Rtamt.Py.exec s { self := st.clk, loc := env.cloc }
      pure ({ env with cloc := e'.loc }, { st with clk := e'.self })
  | .opaque _, env, st => .ok (env, st)
  | .unsupported _, _, _ => .error .other

/-- The parameters bound to the arguments, one by one. -/
def bindArgs : List String → List (UArg α) → UEnv α → Except PyErr (UEnv α)
  | [], [], env => .ok env
  | p :: ps, .ts q :: as, env => bindArgs ps as { env with cloc := env.cloc ++ [(p, .rat q)] }
  | p :: ps, .rows d :: as, env => bindArgs ps as { env with datasets := env.datasets ++ [(p, d)] }
  | _, _, _ => .error .type                            -- TypeError: wrong number of arguments

/-- Call of a method of the interpreter. -/
def callU (m : UMethod) (env : UEnv α) (args : List (UArg α)) (st : USt α) : Except PyErr (UV α × USt α) := do
  let env0 ← bindArgs m.params args env
  let (env1, st1) ← execUS m.body { env0 with cloc := env0.cloc ++ [("$unit", .str env.unit)] } st
  match m.ret with
  | some e => evalUE env1 st1 e
  | none => pure (.none, st1)

end Rtamt.Py.GUpd
