/-
  Node names.  Every node class of `rtamt/syntax/node/**` builds in its constructor the string `self.name` from
  literal pieces, the names of its children and its own attributes; the online interpreters store one operator object
  per *name* (`online_operator_dict[node.name]`) and memoise one value per name and update, while the model keys both by
  the formula.  `harness/py2lean.py` extracts the pieces of every class (`GeneratedNames.lean`, regenerated on every
  run); here: parsed formulas with the raw text of their interval (`NF`), and their names as lists of tokens.

  Tokens rather than characters: a literal piece, the text of `str(self.begin)` / a unit, a comparison operator, an
  identifier and a number are different kinds of token.  That the concatenation of their texts can be cut back into the
  tokens (identifiers contain no parentheses, brackets or commas; numbers and units are told apart by their first
  letter) is not modelled.
-/
import Rtamt.Syntax

namespace Rtamt.Py
open Rtamt

/-- A piece of `self.name = p1 + p2 + …`. -/
inductive NP
  | lit (s : String)            -- a string literal
  | child (k : Nat)             -- child_k.name
  | begin_ | beginUnit | end_ | endUnit    -- str(self.begin) …
  | operator                    -- str(self.operator)
  | val                         -- str(val)
  | var                         -- self.var
  | unsupported (what : String)
  deriving DecidableEq, Repr, Inhabited

inductive Tok (α : Type)
  | lit (s : String)
  | txt (s : String)            -- the text of a bound or of a unit
  | cmp (c : Cmp)
  | ident (x : String)
  | num (c : α)
  deriving Repr, Inhabited

/-- The interval as the parser hands it to the node: the texts of the two bounds and of their units. -/
structure RawIv where
  b : String
  bu : String
  e : String
  eu : String
  deriving DecidableEq, Repr, Inhabited

/-- Parsed formulas: like `F`, with the node class kept and the interval as written. -/
inductive NF (α : Type)
  | var (x : String)
  | const (c : α)
  | pred (c : Cmp) (φ ψ : NF α)
  | node1 (k : Kind) (φ : NF α)
  | node2 (k : Kind) (φ ψ : NF α)
  | tnode1 (k : Kind) (iv : RawIv) (φ : NF α)
  | tnode2 (k : Kind) (iv : RawIv) (φ ψ : NF α)
  deriving Repr, Inhabited

def unaryKinds : List Kind :=
  [.Abs, .Sqrt, .Exp, .Ln, .Negate, .Neg, .Rise, .Fall, .Previous, .StrongPrevious, .Next, .StrongNext, .Once, .Historically,
   .Eventually, .Always]
def binaryKinds : List Kind :=
  [.Addition, .Subtraction, .Multiplication, .Division, .Pow, .Log, .Conjunction, .Disjunction, .Implies, .Iff, .Xor, .Since, .Until]
def timedUnaryKinds : List Kind := [.TimedOnce, .TimedHistorically, .TimedEventually, .TimedAlways]
def timedBinaryKinds : List Kind := [.TimedSince, .TimedUntil, .TimedPrecedes]

/-- The class fits the shape of the node. -/
def NF.ok {α : Type} : NF α → Bool
  | .var _ => true
  | .const _ => true
  | .pred _ φ ψ => φ.ok && ψ.ok
  | .node1 k φ => unaryKinds.contains k && φ.ok
  | .node2 k φ ψ => binaryKinds.contains k && φ.ok && ψ.ok
  | .tnode1 k _ φ => timedUnaryKinds.contains k && φ.ok
  | .tnode2 k _ φ ψ => timedBinaryKinds.contains k && φ.ok && ψ.ok

variable {α : Type}

/-- The tokens of one piece. -/
def pieceTok (kids : List (List (Tok α))) (iv : Option RawIv) (op : Option Cmp) (c : Option α) (x : Option String) :
    NP → Option (List (Tok α))
  | .lit s => some [.lit s]
  | .child k => kids[k]?
  | .begin_ => iv.map (fun i => [.txt i.b])
  | .beginUnit => iv.map (fun i => [.txt i.bu])
  | .end_ => iv.map (fun i => [.txt i.e])
  | .endUnit => iv.map (fun i => [.txt i.eu])
  | .operator => op.map (fun o => [.cmp o])
  | .val => c.map (fun v => [.num v])
  | .var => x.map (fun v => [.ident v])
  | .unsupported _ => none

def renderPieces (kids : List (List (Tok α))) (iv : Option RawIv) (op : Option Cmp) (c : Option α) (x : Option String) :
    List NP → Option (List (Tok α))
  | [] => some []
  | p :: ps => do
      let a ← pieceTok kids iv op c x p
      let b ← renderPieces kids iv op c x ps
      pure (a ++ b)

/-- `node.name` as the constructors listed in `tbl` build it. -/
def nameTok (tbl : List (Kind × List NP)) : NF α → Option (List (Tok α))
  | .var x => do renderPieces [] none none none (some x) (← tbl.lookup .Variable)
  | .const c => do renderPieces [] none none (some c) none (← tbl.lookup .Constant)
  | .pred o φ ψ => do
      renderPieces [← nameTok tbl φ, ← nameTok tbl ψ] none (some o) none none (← tbl.lookup .Predicate)
  | .node1 k φ => do renderPieces [← nameTok tbl φ] none none none none (← tbl.lookup k)
  | .node2 k φ ψ => do renderPieces [← nameTok tbl φ, ← nameTok tbl ψ] none none none none (← tbl.lookup k)
  | .tnode1 k iv φ => do renderPieces [← nameTok tbl φ] (some iv) none none none (← tbl.lookup k)
  | .tnode2 k iv φ ψ => do renderPieces [← nameTok tbl φ, ← nameTok tbl ψ] (some iv) none none none (← tbl.lookup k)

end Rtamt.Py
