/-
  The horizon visitor (`rtamt/pastifier/{stl,ltl}/horizon.py`) run through the visit methods translated
  from the source (`GeneratedHorizon.lean`) with the dispatch of `StlAstVisitor.visit`: the node's
  `visitX` if one of the two classes defines it, `visitDefault` (raises RTAMTException) otherwise.
  `RtamtProofs/GenHor.lean` proves that it is `hor?` (`Rtamt/Discrete/Pastify.lean`), the function the
  C03 / C16 theorems are stated on.  Bounds are counted in samples (the mirror works on elaborated
  formulas; the surface pastifier works in the default unit: same numbers when the period is one unit).
-/
import Rtamt.Py.GeneratedHorizon
import Rtamt.Py.RunOff
import Rtamt.Discrete.Pastify

namespace Rtamt.Py
open Rtamt Val

def lookupH (k : Kind) : Option OffMethod := Gen.Hor.methods.lookup (visitName k)

variable {α : Type} [Val α]

/-- Run a translated horizon method on the horizons of the children. -/
def callHor (m : OffMethod) (kids : List Int) (extra : Store α) : Except PyErr Int := do
  if (kids.take m.kids.length).length ≠ m.kids.length then throw .type
  let loc : Store α := m.kids.zip ((kids.take m.kids.length).map V.int) ++ extra
  let env ← exec m.body { self := [], loc := loc }
  match m.ret with
  | some e =>
      match (← evalE env e) with
      | .int n => pure n
      | _ => throw .type
  | none => throw .type

/-- `kids` are computed only if the method fetches them (a method that just raises does not visit its children). -/
def horG : F α → Except PyErr Int
  | .var _ => match lookupH .Variable with
      | some m => callHor (α := α) m [] []
      | none => .error .rtamt
  | .const _ => match lookupH .Constant with
      | some m => callHor (α := α) m [] []
      | none => .error .rtamt
  | .un op φ => match lookupH op.kind with
      | some m => if m.kids.isEmpty then callHor (α := α) m [] [] else do
          let a ← horG φ
          callHor (α := α) m [a] []
      | none => .error .rtamt
  | .bin op φ ψ => match lookupH op.kind with
      | some m => if m.kids.isEmpty then callHor (α := α) m [] [] else do
          let a ← horG φ
          let b ← horG ψ
          callHor (α := α) m [a, b] []
      | none => .error .rtamt
  | .tmp1 op φ => match lookupH op.kind with
      | some m => if m.kids.isEmpty then callHor (α := α) m [] [] else do
          let a ← horG φ
          callHor (α := α) m [a] []
      | none => .error .rtamt
  | .tmp2 op φ ψ => match lookupH op.kind with
      | some m => if m.kids.isEmpty then callHor (α := α) m [] [] else do
          let a ← horG φ
          let b ← horG ψ
          callHor (α := α) m [a, b] []
      | none => .error .rtamt
  | .tb1 op a b φ => match lookupH op.kind with
      | some m => if m.kids.isEmpty then callHor (α := α) m [] [("$begin", .int a), ("$end", .int b)] else do
          let x ← horG φ
          callHor (α := α) m [x] [("$begin", .int a), ("$end", .int b)]
      | none => .error .rtamt
  | .tb2 op a b φ ψ => match lookupH op.kind with
      | some m => if m.kids.isEmpty then callHor (α := α) m [] [("$begin", .int a), ("$end", .int b)] else do
          let x ← horG φ
          let y ← horG ψ
          callHor (α := α) m [x, y] [("$begin", .int a), ("$end", .int b)]
      | none => .error .rtamt

end Rtamt.Py
