/-
  `explain()` run through the methods *translated from the source* (`GeneratedExplDrv.lean`: `Explanations.__setitem__`,
  `LTLExplainer.explain` / `STLExplainer.explain`, `AbstractOfflineSpecification.explain`) under the semantics of
  `ExplDrv.lean`, on top of the translated visit methods and explanation functions (`RunExpl.lean`, `explainG`).

  The knot between the layers:
    * `self.explanations[name] = intervals` of a visit method is a subscript assignment on the object the attribute
      `explanations` of the explainer holds, an `Explanations`: it runs the translated `__setitem__` (`recordG`);
    * `self.visit(node, [intervals, flag])` in `explain()` is the run of the translated visit methods (`explainG`), every record
      it makes going through `recordG`, in the order of the visit (`visitG`).  (The records of one visit do not depend on the
      container, so they are computed first and applied afterwards; an exception of the visit is the exception of the call.
      As in `explainG`, only the records of variables are kept - operator nodes are recorded under their own names.)
    * `self.explainer.explain(self.ast)` in `AbstractOfflineSpecification.explain` is the translated `explain` (`ctx2`).

  `ast.results[ψ]` is the offline result of `ψ` (`rho σ n ψ 0 … n-1`, C01), as in `RunExpl.lean`.
-/
import Rtamt.Py.GeneratedExplDrv
import Rtamt.Discrete.ExplainDrv

namespace Rtamt.Py.Drv
open Rtamt Rtamt.Py Val

variable {α : Type} [Val α]

/-- The world of a specification with assertions `specs` evaluated on `σ` (length `n`): `st` are the attributes the explainer
    object has (whatever earlier calls left there), `ds` the `Explanations` objects that exist. -/
def mkWorld (σ : String → Nat → α) (n : Nat) (specs : List (F α)) (st : List (String × DV α)) (ds : List Dict) : World α :=
  { specs := specs, results := fun ψ => (List.range n).map (rho σ n ψ), explainer := st, dicts := ds }

/-- Inside `Explanations.__setitem__` no method of a named object is called. -/
def ctx0 : Ctx α := { funcs := Gen.Expl.ltlFuncs, meth := fun _ _ _ _ => .error .other }

/-- `self.explanations[x] = I` in a visit method. -/
def recordG (w : World α) (x : String) (I : IvsZ) : Except PyErr (World α) := do
  let d ← getAttr w (.ref .explainer) "explanations"
  callD ctx0 Gen.ExplDrv.setitem w [d, .str x, .ivs I]

/-- `self.visit(φ, [I, flag])`. -/
def visitG (σ : String → Nat → α) (n : Nat) (w : World α) (φ : F α) (I : IvsZ) (flag : Bool) : Except PyErr (World α) := do
  let recs ← explainG σ n φ I flag
  recs.foldlM (fun w p => recordG w p.1 p.2) w

/-- Inside `explain()` of the explainer: `self.visit`. -/
def ctx1 (σ : String → Nat → α) (n : Nat) : Ctx α :=
  { funcs := Gen.Expl.ltlFuncs,
    meth := fun o m args w =>
      match o, m, args with
      | .explainer, "visit", [.node φ, .pair (.ivs I) (.bool f)] => (visitG σ n w φ I f).map (fun w' => (.none, w'))
      | _, _, _ => .error .other }

/-- Inside `explain()` of the specification: `self.explainer.explain`. -/
def ctx2 (σ : String → Nat → α) (n : Nat) (explain : DMethod) : Ctx α :=
  { funcs := [],
    meth := fun o m args w =>
      match o, m, args with
      | .explainer, "explain", [a] => (callD (ctx1 σ n) explain w [.ref .explainer, a]).map (fun w' => (.none, w'))
      | _, _, _ => .error .other }

/-- `explainer.explanations` as a dictionary. -/
def explanationsOf (w : World α) : Except PyErr Dict := do
  match (← getAttr w (.ref .explainer) "explanations") with
  | .dictRef i =>
      match w.dicts[i]? with
      | some d => .ok d
      | none => .error .other
  | _ => .error .type

/-- `explainer.explain(ast)` (`explain` : the translated method of the explainer class) and the container afterwards. -/
def explainDrvG (σ : String → Nat → α) (n : Nat) (explain : DMethod) (w : World α) : Except PyErr Dict := do
  let w' ← callD (ctx1 σ n) explain w [.ref .explainer, .ref .ast]
  explanationsOf w'

/-- `spec.explain()` (`AbstractOfflineSpecification.explain`) and the container afterwards. -/
def explainSpecnG (σ : String → Nat → α) (n : Nat) (explain : DMethod) (w : World α) : Except PyErr Dict := do
  let w' ← callD (ctx2 σ n explain) Gen.ExplDrv.spec_explain w [.ref .specification]
  explanationsOf w'

end Rtamt.Py.Drv
