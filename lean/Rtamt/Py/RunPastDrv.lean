/-
  The driver of the pastifier run through the methods translated from the source (`GeneratedPastDrv.lean`).
  `normalizeG` is `StlPastifier.normalize_units(node)`, `pastifyG` is `StlPastifier.pastify(ast)`; both are
  `callM` on the generated method table with a recursion budget that suffices for the trees at hand
  (`RtamtProofs/GenPastDrv.lean` proves the results for every larger budget as well).
-/
import Rtamt.Py.GeneratedPastDrv

namespace Rtamt.Py.PDrv
open Rtamt Rtamt.Py Val

variable {α : Type} [Val α]

/-- A method of `StlPastifier` (driver part) with recursion budget `fuel`. -/
def callDrv (fuel : Nat) (name : String) (args : List (DV α)) (st : DState α) : Except PyErr (DV α × DState α) :=
  callM Gen.PastDrv.methods fuel name args st

def unitStr : TUnit → String
  | .s => "s" | .ms => "ms" | .us => "us" | .ns => "ns"

def optUnitStr : Option TUnit → String
  | some u => unitStr u
  | none => ""

/-- The attributes of an `Interval` as the parser leaves them. -/
def rawOf (i : SIv) : IvRaw := { b := i.b, e := i.e, bu := optUnitStr i.bu, eu := optUnitStr i.eu }

/-- The assertions of a specification: identity and tree. -/
abbrev Asrt (α : Type) := Nat × NT α

def specVals (specs : List (Asrt α)) : List (DV α) := specs.map (fun p => .node (some p.1) p.2)

/-- The state before `pastify()`: a freshly constructed pastifier and the parsed specification. -/
def initState (σ : Nat → SIv) (u : TUnit) (specs : List (Asrt α)) (names : List (String × DV α)) : DState α :=
  { store := fun l => rawOf (σ l), unit := unitStr u, specs := specVals specs, names := names }

def maxDepth : List (Asrt α) → Nat
  | [] => 0
  | p :: r => max p.2.depth (maxDepth r)

/-- `StlPastifier.normalize_units(node)`. -/
def normalizeG (t : NT α) (st : DState α) : Except PyErr (DState α) :=
  (callDrv (t.depth + 1) "normalize_units" [.node none t] st).map (·.2)

/-- `StlPastifier().pastify(ast)`. -/
def pastifyG (σ : Nat → SIv) (u : TUnit) (specs : List (Asrt α)) (names : List (String × DV α)) :
    Except PyErr (DState α) :=
  (callDrv (maxDepth specs + 2) "pastify" [.astObj] (initState σ u specs names)).map (·.2)

/-- The surface tree of a node: the attributes read off the store. -/
def NT.toSF (σ : Nat → SIv) : NT α → SF α
  | .var x => .var x
  | .const c => .const c
  | .un op φ => .un op (φ.toSF σ)
  | .bin op φ ψ => .bin op (φ.toSF σ) (ψ.toSF σ)
  | .tmp1 op φ => .tmp1 op (φ.toSF σ)
  | .tmp2 op φ ψ => .tmp2 op (φ.toSF σ) (ψ.toSF σ)
  | .tb1 op l φ => .tb1 op (σ l) (φ.toSF σ)
  | .tb2 op l φ ψ => .tb2 op (σ l) (φ.toSF σ) (ψ.toSF σ)

/-- The locations of the timed nodes, in the order `normalize_units` reaches them (with repetitions: a shared node
    is reached once per path). -/
def NT.locs : NT α → List Nat
  | .var _ | .const _ => []
  | .un _ φ | .tmp1 _ φ => φ.locs
  | .bin _ φ ψ | .tmp2 _ φ ψ => φ.locs ++ ψ.locs
  | .tb1 _ l φ => l :: φ.locs
  | .tb2 _ l φ ψ => l :: (φ.locs ++ ψ.locs)

end Rtamt.Py.PDrv
