/-
  What a `visitX` of the construction visitor of the discrete-time online monitor
  (`rtamt/semantics/stl/discrete_time/online/ast_visitor.py`) does after visiting the children:
  it stores `Cls(args…)` in `online_operator_dict[node.name]`, or it only raises RTAMTException.
  `harness/py2lean.py` extracts this table from the source (`GeneratedOnCtor.lean`).
-/
namespace Rtamt.Py

inductive CtorArg | operator | begin_ | end_ | val
  deriving DecidableEq, Repr, Inhabited

inductive CtorAction
  | builds (cls : String) (args : List CtorArg)
  | raises
  | unsupported (what : String)
  deriving DecidableEq, Repr, Inhabited

end Rtamt.Py
