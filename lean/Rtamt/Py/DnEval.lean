/-
  The dense-time offline `evaluate(dataset)` as a whole method
  (`AbstractDenseTimeOfflineInterpreter.evaluate` of `rtamt/semantics/abstract_dense_time_offline_interpreter.py`,
  `DenseTimeInterpreter.set_variable_to_ast_from_dataset`, `AbstractInterpreter.exist_ast`,
  `AbstractAstVisitor.visitAst`): `harness/py2lean.py` (`generate_dense_offline_evaluate`) translates the method bodies
  into terms of `EE` / `ES` below (`GeneratedDnEval.lean`, regenerated on every run), this file gives the terms their
  meaning.

    self.ast                       unset (no attribute) / None / the specification
    self.ast.specs                 the assertions (the parser substitutes a referenced assertion by its node)
    self.ast.free_vars             the names of the declared variables
    self.ast.var_object_dict       name -> sample list     (`DEnv`, an assignment shadows the earlier entry)
    dataset                        rows `[name, samples]`  (`DData`)

  `self.visit(spec, *args, **kwargs)` is the translated visitor with its dispatch (`evalAlgG` of `RunDn.lean`, with its
  fuel and the scale of the bounds as parameters of the semantics).  `self.visitAst(a)` is a parameter (`va`) of the
  semantics: the runner instantiates it with the translated `visitAst` (`RunDnEval.lean`).  `*args` holds the empty
  tuple, `**kwargs` the empty dictionary.

  Exceptions: `AttributeError` is `.other`.  An exception carries the state of the interpreter object at the moment it
  is raised (`Except (PyErr × DState α)`): nothing is rolled back, a later call runs on that state.
-/
import Rtamt.Py.RunDn
import Rtamt.Dense.OfflineSpecs

namespace Rtamt.Py.DnEval
open Rtamt Val Rtamt.Py Rtamt.Dense Rtamt.Dense.Alg

inductive EE
  | loc (x : String)
  | strLit (s : String)
  | intLit (n : Int)
  | len (e : EE)                               -- len(e)
  | idx (e i : EE)                             -- e[i], `e` a row or a list of results
  | sub (a b : EE)                             -- a - b on integers
  | isIn (a b : EE)                            -- a in b, `b` the set of free variables
  | astIsNone                                  -- self.ast is None
  | selfAst                                    -- self.ast
  | freeVars                                   -- self.ast.free_vars
  | varDict                                    -- self.ast.var_object_dict
  | specsOf (x : String)                       -- x.specs, `x` a local bound to the specification
  | visit (node : EE) (args kwargs : String)   -- self.visit(node, *args, **kwargs)
  | callVisitAst (a : EE)                      -- self.visitAst(a)
  | emptyList                                  -- []
  | fromkeys (d keys v : EE)                   -- d.fromkeys(keys, v)
  | unsupported (what : String)
  deriving Repr, Inhabited

inductive ES
  | skip
  | seq (a b : ES)
  | setLoc (x : String) (e : EE)
  | ite (c : EE) (t e : ES)
  | raise (k : PyErr)
  | forIn (x : String) (it : EE) (body : ES)   -- for x in it (a data set: its rows; `ast.specs`)
  | setVar (k e : EE)                          -- self.ast.var_object_dict[k] = e
  | setVarDict (e : EE)                        -- self.ast.var_object_dict = e
  | appendLoc (x : String) (e : EE)            -- x.append(e)
  | unsupported (what : String)
  deriving Repr, Inhabited

structure EMethod where
  params : List String
  body : ES
  ret : Option EE
  deriving Repr, Inhabited

/-! ### what is outside the translated subset -/

def EE.unsup : EE → List String
  | .len e => e.unsup
  | .idx e i => e.unsup ++ i.unsup
  | .sub a b => a.unsup ++ b.unsup
  | .isIn a b => a.unsup ++ b.unsup
  | .visit n _ _ => n.unsup
  | .callVisitAst a => a.unsup
  | .fromkeys d k v => d.unsup ++ k.unsup ++ v.unsup
  | .unsupported w => [w]
  | _ => []

def ES.unsup : ES → List String
  | .seq a b => a.unsup ++ b.unsup
  | .setLoc _ e => e.unsup
  | .ite c t e => c.unsup ++ t.unsup ++ e.unsup
  | .forIn _ it b => it.unsup ++ b.unsup
  | .setVar k e => k.unsup ++ e.unsup
  | .setVarDict e => e.unsup
  | .appendLoc _ e => e.unsup
  | .unsupported w => [w]
  | _ => []

def EMethod.unsup (m : EMethod) : List String :=
  m.body.unsup ++ (match m.ret with | some e => e.unsup | none => [])

/-! ### values and state -/

inductive EV (α : Type)
  | none
  | bool (b : Bool)
  | int (n : Int)
  | str (s : String)
  | data (d : DData α)                  -- the data set
  | row (x : String) (s : DSig α)       -- a row `[name, samples]`
  | sig (s : DSig α)                    -- the samples of a row
  | samples (s : ASig α)                -- the result of a visit
  | nil                                 -- []
  | sigs (l : List (ASig α))            -- a non-empty list of results (`out` of `visitAst`)
  | names (l : List String)             -- ast.free_vars
  | dict (w : DEnv α)                   -- a dictionary name -> sample list
  | astRef                              -- the specification object
  | node (φ : F α)                      -- an assertion
  | nodes (l : List (F α))              -- ast.specs
  | tuple0                              -- ()
  | kw0                                 -- {}  (the `**kwargs` of a call without keyword arguments)
  deriving Inhabited

structure DAst (α : Type) where
  specs : List (F α)
  vars : DEnv α
  free : List String
  deriving Inhabited

inductive AstSlot (α : Type)
  | unset                               -- the object has no attribute `ast` (before `set_ast`)
  | none                                -- `set_ast(None)`
  | some (a : DAst α)
  deriving Inhabited

structure DState (α : Type) where
  ast : AstSlot α
  deriving Inhabited

structure EEnv (α : Type) where
  st : DState α
  loc : List (String × EV α)
  deriving Inhabited

/-- The parameters of the visitor: the fuel of its `while` loops and the scale of the bounds. -/
structure VCtx where
  fuel : Nat
  cfg : DCfg

variable {α : Type} [Val α]

/-- An attribute of `self.ast`. -/
def DState.getAst (st : DState α) : Except PyErr (DAst α) :=
  match st.ast with
  | .some a => .ok a
  | _ => .error .other

/-- Python `l[i]` (a negative index counts from the end). -/
def pyIdx {β : Type} (l : List β) (i : Int) : Except PyErr β :=
  let j : Int := if i < 0 then i + l.length else i
  if j < 0 then .error .index else
    match l[j.toNat]? with
    | some x => .ok x
    | none => .error .index

/-- `self.visitAst(a)` as seen by the caller. -/
abbrev VisitAst (α : Type) := EV α → DState α → Except PyErr (EV α)

def evalEE (c : VCtx) (va : VisitAst α) (env : EEnv α) : EE → Except PyErr (EV α)
  | .loc x => getKey x env.loc
  | .strLit s => .ok (.str s)
  | .intLit n => .ok (.int n)
  | .len e => do
      match ← evalEE c va env e with
      | .sig l => pure (.int l.length)
      | .samples l => pure (.int l.length)
      | .nil => pure (.int 0)
      | .sigs l => pure (.int l.length)
      | .data l => pure (.int l.length)
      | .row _ _ => pure (.int 2)
      | _ => throw .type
  | .idx e i => do
      let ev ← evalEE c va env e
      let iv ← evalEE c va env i
      match ev, iv with
      | .row x s, .int i => do let r ← pyIdx [EV.str x, EV.sig s] i; pure r
      | .nil, .int _ => throw .index
      | .sigs l, .int i => do let r ← pyIdx l i; pure (.samples r)
      | _, _ => throw .type
  | .sub a b => do
      let av ← evalEE c va env a
      let bv ← evalEE c va env b
      match av, bv with
      | .int x, .int y => pure (.int (x - y))
      | _, _ => throw .type
  | .isIn a b => do
      let av ← evalEE c va env a
      let bv ← evalEE c va env b
      match av, bv with
      | .str x, .names l => pure (.bool (l.contains x))
      | _, _ => throw .type
  | .astIsNone =>
      match env.st.ast with
      | .unset => throw .other
      | .none => pure (.bool true)
      | .some _ => pure (.bool false)
  | .selfAst =>
      match env.st.ast with
      | .unset => throw .other
      | .none => pure .none
      | .some _ => pure .astRef
  | .freeVars => do let a ← env.st.getAst; pure (.names a.free)
  | .varDict => do let a ← env.st.getAst; pure (.dict a.vars)
  | .specsOf x => do
      match ← getKey x env.loc with
      | .astRef => do let a ← env.st.getAst; pure (.nodes a.specs)
      | .none => throw .other
      | _ => throw .type
  | .visit node args kwargs => do
      let nv ← evalEE c va env node
      let av ← getKey args env.loc
      let kv ← getKey kwargs env.loc
      match nv, av, kv with
      | .node φ, .tuple0, .kw0 => do
          let a ← env.st.getAst
          let r ← Dn.evalAlgG c.fuel c.cfg a.vars φ
          pure (.samples r)
      | _, _, _ => throw .type
  | .callVisitAst a => do
      let av ← evalEE c va env a
      va av env.st
  | .emptyList => .ok .nil
  | .fromkeys d keys v => do
      let dv ← evalEE c va env d
      let kv ← evalEE c va env keys
      let vv ← evalEE c va env v
      match dv, kv, vv with
      | .dict _, .dict w, .nil => pure (.dict (w.map fun p => (p.1, [])))
      | .dict _, .dict w, .sig s => pure (.dict (w.map fun p => (p.1, s)))
      | _, _, _ => throw .type
  | .unsupported _ => throw .other

/-- An exception raised while the interpreter object is in the state `st`. -/
def liftE {β : Type} (st : DState α) : Except PyErr β → Except (PyErr × DState α) β
  | .ok v => .ok v
  | .error e => .error (e, st)

def execES (c : VCtx) (va : VisitAst α) : ES → EEnv α → Except (PyErr × DState α) (EEnv α)
  | .skip, env => pure env
  | .seq a b, env => do
      let e1 ← execES c va a env
      execES c va b e1
  | .setLoc x e, env => do
      let v ← liftE env.st (evalEE c va env e)
      pure { env with loc := setKey x v env.loc }
  | .ite cnd t e, env => do
      match ← liftE env.st (evalEE c va env cnd) with
      | .bool true => execES c va t env
      | .bool false => execES c va e env
      | _ => throw (.type, env.st)
  | .raise k, env => throw (k, env.st)
  | .forIn x it body, env => do
      let items : List (EV α) ← liftE env.st (do
        match ← evalEE c va env it with
        | .data d => pure (d.map fun r => EV.row r.1 r.2)
        | .nodes l => pure (l.map EV.node)
        | .nil => pure []
        | _ => throw .type)
      items.foldlM (fun env v => execES c va body { env with loc := setKey x v env.loc }) env
  | .setVar k e, env => do
      let kv ← liftE env.st (evalEE c va env k)
      let ev ← liftE env.st (evalEE c va env e)
      match kv, ev with
      | .str k, .sig l => do
          let a ← liftE env.st env.st.getAst
          pure { env with st := { env.st with ast := .some { a with vars := (k, l) :: a.vars } } }
      | _, _ => throw (.type, env.st)
  | .setVarDict e, env => do
      match ← liftE env.st (evalEE c va env e) with
      | .dict w => do
          let a ← liftE env.st env.st.getAst
          pure { env with st := { env.st with ast := .some { a with vars := w } } }
      | _ => throw (.type, env.st)
  | .appendLoc x e, env => do
      let cur ← liftE env.st (getKey x env.loc)
      let v ← liftE env.st (evalEE c va env e)
      match cur, v with
      | .nil, .samples r => pure { env with loc := setKey x (.sigs [r]) env.loc }
      | .sigs l, .samples r => pure { env with loc := setKey x (.sigs (l ++ [r])) env.loc }
      | _, _ => throw (.type, env.st)
  | .unsupported _, env => throw (.other, env.st)

/-- Run a translated method on the state `st`: the value returned and the state afterwards, or the exception and the
    state at the moment it is raised. -/
def callE (c : VCtx) (va : VisitAst α) (m : EMethod) (st : DState α) (args : List (EV α)) :
    Except (PyErr × DState α) (EV α × DState α) := do
  if args.length ≠ m.params.length then throw (.type, st)
  let env ← execES c va m.body { st := st, loc := m.params.zip args }
  match m.ret with
  | some e => do
      let v ← liftE env.st (evalEE c va env e)
      pure (v, env.st)
  | none => pure (.none, env.st)

end Rtamt.Py.DnEval
