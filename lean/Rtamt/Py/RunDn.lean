/-
  The dense-time offline visitor run through the functions and visit methods *translated from the source*
  (`GeneratedDense.lean`) under the semantics of `Dn.lean`, with the dispatch of `StlAstVisitor.visit` (the node's
  `visitX`; the class defines one for every node kind) - the counterpart of `Rtamt/Dense/Alg.lean` `evalAlg`, which is
  written by hand.  The driver command `densealggen` runs it next to the real `evaluate()`; `RtamtProofs/GenDense*.lean`
  relate it to `evalAlg`.

  Hand-written here (as in `RunOff.lean`): the children are evaluated first and handed to the method as parameters, the
  bounds are those `time_unit_transformer` returns (`bound * scale`), `node.operator.value` / `node.val` /
  `var_object_dict[node.var]` are passed as the locals `$operator` / `$val` / `$var`.
-/
import Rtamt.Py.GeneratedDense
import Rtamt.Py.RunOff

namespace Rtamt.Py.Dn
open Rtamt Val Rtamt.Dense Rtamt.Dense.Alg

variable {α : Type} [Val α]

/-- depth of the call graph below a visit method: visit -> since_timed_operation -> historically_timed_operation /
    and_operation -> intersection -> conjunction -> min -/
def depth : Nat := 6

def lookupD (k : Kind) : Option DMethod := Gen.Dense.methods.lookup (Rtamt.Py.visitName k)

/-- Run a translated visit method on the results of the children. -/
def callD (fuel : Nat) (m : DMethod) (kids : List (ASig α)) (iv : Option (Rat × Rat)) (extra : Env α) :
    Except PyErr (ASig α) := do
  if kids.length < m.kids.length then throw .type
  let loc : Env α := m.kids.zip ((kids.take m.kids.length).map encSig) ++
    (match iv, m.interval with
     | some (a, b), true => [("begin", .tm (.fin a)), ("end", .tm (.fin b))]
     | _, _ => []) ++ extra
  let (_, r) ← exec (callAt Gen.Dense.fns fuel depth) fuel m.body loc
  match r with
  | some v =>
      match decSig v with
      | some s => pure s
      | none => throw .type
  | none => throw .type

def evalAlgG (fuel : Nat) (cfg : DCfg) (w : DEnv α) : F α → Except PyErr (ASig α)
  | .var x =>
      match lookupD .Variable, w.lookup x with
      | some m, some s => callD fuel m [] none [("$var", encSig (ofDSig s)), ("$field", .none)]
      | some _, none => .error .key
      | none, _ => .error .type
  | .const c =>
      match lookupD .Constant with
      | some m => callD fuel m [] none [("$val", .val c)]
      | none => .error .type
  | .un op φ => do
      let s ← evalAlgG fuel cfg w φ
      match lookupD op.kind with
      | some m => callD fuel m [s] none []
      | none => pure s
  | .bin op φ ψ => do
      let l ← evalAlgG fuel cfg w φ
      let r ← evalAlgG fuel cfg w ψ
      match op with
      | .predSat c =>
          -- an insensitive predicate under a robustness semantics: `visitPredicate` of the interface-aware visitors
          -- (output robustness: `node.out_vars` empty; the input-robustness class is the same code on `node.in_vars`)
          match Gen.Dense.iaMethods.lookup "visitPredicate_outRob" with
          | some m => callD fuel m [l, r] none [("$operator", .cmp c), ("$out_vars", .list [])]
          | none => .error .type
      | .predZero => .error .other      -- the vacuity override: not translated (needs the float literal 0.0)
      | _ =>
        match lookupD op.kind with
        | some m => callD fuel m [l, r] none (match op with | .pred c => [("$operator", .cmp c)] | _ => [])
        | none => pure r
  | .tmp1 op φ => do
      let s ← evalAlgG fuel cfg w φ
      match lookupD op.kind with
      | some m => callD fuel m [s] none []
      | none => pure s
  | .tmp2 op φ ψ => do
      let l ← evalAlgG fuel cfg w φ
      let r ← evalAlgG fuel cfg w ψ
      match lookupD op.kind with
      | some m => callD fuel m [l, r] none []
      | none => pure r
  | .tb1 op a b φ => do
      let s ← evalAlgG fuel cfg w φ
      match lookupD op.kind with
      | some m => callD fuel m [s] (some (a * cfg.scale, b * cfg.scale)) []
      | none => pure s
  | .tb2 op a b φ ψ => do
      let l ← evalAlgG fuel cfg w φ
      let r ← evalAlgG fuel cfg w ψ
      match lookupD op.kind with
      | some m => callD fuel m [l, r] (some (a * cfg.scale, b * cfg.scale)) []
      | none => pure r

end Rtamt.Py.Dn
