/-
  The driver of the pastifier (`rtamt/pastifier/stl/pastifier.py`): `StlPastifier.pastify(ast)`,
  `StlPastifier.normalize_units(node)` and the overriding `StlPastifier.visit(node, *args, **kwargs)`.
  `harness/py2lean.py` (`generate_pastify_driver`) translates the three bodies, purely syntactically, into terms of
  `DE` / `DS` (`GeneratedPastDrv.lean`, regenerated on every run); this file gives the terms their meaning.

  What is modelled, and how.

  * SHARING IS EXPLICIT for the attributes `normalize_units` mutates.  A node of the parsed specification is a tree
    `NT α` whose timed nodes carry a *location* (`loc : Nat`) into a store `Nat → IvRaw` that holds the four mutable
    attributes `begin`, `end`, `begin_unit`, `end_unit` exactly as written (numbers and unit *strings*).  Two timed
    nodes with the same location are the same Python object: a later assertion that refers to an earlier one, or the two
    copies of `child1` that `unless` creates, simply mention the same locations.  `node.begin = …` writes the store, so a
    node reached twice is rescaled twice by the semantics — the model CAN exhibit the seeded bug "unit strings not
    cleared" (`RtamtProofs/GenPastDrv.lean`, `drv_not_cleared_twice`).  The tree structure (children, operator) is
    immutable, as in the code.
  * Object identity of the *assertions* (the elements of `ast.specs`, the keys of the dictionary `horizons` and the
    values of `phi_name_to_node_dict`) is a number `id` carried by the value `DV.node (some id) t`.  Inner nodes obtained
    from `node.children` have no tracked identity (`DV.node none t`): using one as a dictionary key or in `==` is an
    error of the model (it does not happen in the three methods).
  * `h = StlHorizon()`; `h.visit(spec, None)` is a call into the horizon visitor translated in `GeneratedHorizon.lean`
    (`horG`, `RtamtProofs/GenHor.lean`), on the tree read off the store (`NT.toF?`: the bounds as they stand in the
    store, unit strings ignored — exactly what `horizon.py` reads).  `h.horizons` is the table of the nodes `h` has
    visited: the model keeps the identities of the visited assertions, and a write to a node attribute empties it (a
    stale table is not modelled: it becomes a `KeyError`).
  * `StlAstVisitor.visit(self, node, *args, **kwargs)` is a call into the 39 translated `visitX` methods
    (`pastG`, `RtamtProofs/GenPast.lean`) with `args[0]` as the remaining horizon; it needs `self.subformula_horizons`
    to be `h.horizons` and the node to have been visited by `h`.
  * `phi_name_to_node_dict` is a map from names to values; `visit` re-points the names that pointed at the visited
    *assertion*.  The re-pointing done by the recursive calls `self.visit(node.children[k], …)` inside the `visitX`
    methods (the names of sub-formulas that are not assertions) is NOT modelled: `pastG` is a pure function.
  * Bounds: `pastG` / `horG` work on `F α`, whose bounds are natural numbers; a bound that is not a natural number
    when the visitors are called (e.g. `500ms` with default unit `s`, which the Python code handles as `Fraction(1,2)`)
    is outside the model (`PyErr.other`).
  * Self-calls (`self.normalize_units(child)`, `self.visit(spec, horizon)`) run the translated body of the method
    called, with a recursion budget (`callM`), the analogue of Python's recursion limit.
-/
import Rtamt.Py.RunPast
import Rtamt.Py.RunHor
import Rtamt.Units

namespace Rtamt.Py.PDrv
open Rtamt Rtamt.Py Val

/-- The mutable attributes of an `Interval` object, as written. -/
structure IvRaw where
  b : Rat
  e : Rat
  bu : String
  eu : String
  deriving Repr, DecidableEq, Inhabited

/-- `ast.U`: nanoseconds per unit; `none` = `KeyError`. -/
def unitNanos? (s : String) : Option Int :=
  if s = "s" then some 1000000000 else if s = "ms" then some 1000000 else if s = "us" then some 1000
  else if s = "ns" then some 1 else none

/-- Nodes of the parsed specification: as `F`, the timed nodes carry the location of their `Interval` attributes. -/
inductive NT (α : Type) where
  | var   (x : String)
  | const (c : α)
  | un    (op : Un) (φ : NT α)
  | bin   (op : Bin) (φ ψ : NT α)
  | tmp1  (op : T1) (φ : NT α)
  | tmp2  (op : T2) (φ ψ : NT α)
  | tb1   (op : TB1) (loc : Nat) (φ : NT α)
  | tb2   (op : TB2) (loc : Nat) (φ ψ : NT α)
  deriving Repr, Inhabited

variable {α : Type}

def NT.children : NT α → List (NT α)
  | .var _ | .const _ => []
  | .un _ φ | .tmp1 _ φ | .tb1 _ _ φ => [φ]
  | .bin _ φ ψ | .tmp2 _ φ ψ | .tb2 _ _ φ ψ => [φ, ψ]

/-- `isinstance(node, Interval)`: the location of the attributes. -/
def NT.loc? : NT α → Option Nat
  | .tb1 _ l _ | .tb2 _ l _ _ => some l
  | _ => none

def NT.depth : NT α → Nat
  | .var _ | .const _ => 0
  | .un _ φ | .tmp1 _ φ | .tb1 _ _ φ => φ.depth + 1
  | .bin _ φ ψ | .tmp2 _ φ ψ | .tb2 _ _ φ ψ => max φ.depth ψ.depth + 1

/-- The tree the visitors see: the bounds as they stand in the store (natural numbers only). -/
def NT.toF? (σ : Nat → IvRaw) : NT α → Option (F α)
  | .var x => some (.var x)
  | .const c => some (.const c)
  | .un op φ => (φ.toF? σ).map (.un op)
  | .bin op φ ψ => do let a ← φ.toF? σ; let b ← ψ.toF? σ; pure (.bin op a b)
  | .tmp1 op φ => (φ.toF? σ).map (.tmp1 op)
  | .tmp2 op φ ψ => do let a ← φ.toF? σ; let b ← ψ.toF? σ; pure (.tmp2 op a b)
  | .tb1 op l φ => do
      let a ← φ.toF? σ
      let lo ← ratToNat? (σ l).b
      let hi ← ratToNat? (σ l).e
      pure (.tb1 op lo hi a)
  | .tb2 op l φ ψ => do
      let a ← φ.toF? σ
      let b ← ψ.toF? σ
      let lo ← ratToNat? (σ l).b
      let hi ← ratToNat? (σ l).e
      pure (.tb2 op lo hi a b)

inductive DE
  | loc (x : String)
  | self_
  | none_
  | int (n : Int)
  | str (s : String)
  | emptyList
  | emptyDict                            -- dict()
  | attr (e : DE) (f : String)           -- e.f
  | index (e k : DE)                     -- e[k]
  | len (e : DE)
  | frac (e : DE)                        -- Fraction(e)
  | isInst (e : DE) (cls : String)       -- isinstance(e, cls)
  | mul (a b : DE)
  | div (a b : DE)
  | eq (a b : DE)
  | gt (a b : DE)
  | keysWhereEq (d v : DE)               -- [k for k, w in d.items() if w == v]
  | constDict (keys v : DE)              -- {key: v for key in keys}
  | star (e : DE)                        -- *e   (argument position only)
  | dstar (e : DE)                       -- **e  (argument position only)
  | glob (x : String)                    -- a class named as the receiver of a call
  | unsupported (what : String)
  deriving Repr, Inhabited

inductive DS
  | skip
  | seq (a b : DS)
  | ite (c : DE) (t e : DS)
  | setLoc (x : String) (e : DE)
  | setAttr (o : DE) (f : String) (v : DE)         -- o.f = v
  | setItem (x : String) (k v : DE)                -- x[k] = v   (x a local)
  | forIn (x : String) (e : DE) (body : DS)        -- for x in e: body
  | call (tgt : Option String) (recv : DE) (m : String) (args : List DE)   -- [tgt =] recv.m(args) ; recv "()" = a constructor call
  | unsupported (what : String)
  deriving Repr, Inhabited

structure DMethod where
  params : List String
  vararg : Option String
  kwarg : Option String
  body : DS
  ret : Option DE
  deriving Repr, Inhabited

/-- Values. -/
inductive DV (α : Type)
  | none
  | bool (b : Bool)
  | int (n : Int)
  | rat (q : Rat)
  | str (s : String)
  | node (id : Option Nat) (t : NT α)        -- a node of the parsed specification (`id`: identity, tracked for assertions)
  | fml (φ : F α)                            -- a node built by the pastifier (always a fresh object)
  | list (l : List (DV α))
  | dict (d : List (Nat × Int))              -- a dictionary keyed by assertion, with horizons as values
  | sdict (keys : List String) (v : DV α)    -- `{key: v for key in keys}`
  | astObj | selfObj | hObj | hTable | utable | namesObj | kwargs
  deriving Inhabited

structure DState (α : Type) where
  store : Nat → IvRaw                        -- the attributes of the timed nodes
  unit : String                              -- `ast.unit`
  specs : List (DV α)                        -- `ast.specs`
  names : List (String × DV α)               -- `ast.phi_name_to_node_dict`
  selfAst : Bool := false                    -- `self.ast` has been assigned (to `ast`)
  hVisited : Option (List Nat) := Option.none   -- the `StlHorizon` object: the assertions it has visited
  subHor : Bool := false                     -- `self.subformula_horizons` is `h.horizons`

abbrev Locals (α : Type) := List (String × DV α)

def strsOf : List (DV α) → Option (List String)
  | [] => some []
  | .str s :: r => (strsOf r).map (s :: ·)
  | _ :: _ => Option.none

/-- `w == v` for `v` an assertion of identity `i` (object identity: the node classes define no `__eq__`). -/
def isNode (i : Nat) : DV α → Bool
  | .node (some j) _ => j == i
  | _ => false

def setIdx (i : Nat) (n : Int) : List (Nat × Int) → List (Nat × Int)
  | [] => [(i, n)]
  | (j, m) :: r => if j == i then (i, n) :: r else (j, m) :: setIdx i n r

def numOf : DV α → Except PyErr Rat
  | .rat q => .ok q
  | .int n => .ok (n : Rat)
  | _ => .error .type

def setIv (σ : Nat → IvRaw) (l : Nat) (i : IvRaw) : Nat → IvRaw := fun k => if k = l then i else σ k

/-- `o.f` -/
def attrD (st : DState α) (o : DV α) (f : String) : Except PyErr (DV α) :=
  match o, f with
  | .selfObj, "ast" => if st.selfAst then pure .astObj else throw .key
  | .astObj, "specs" => pure (.list st.specs)
  | .astObj, "unit" => pure (.str st.unit)
  | .astObj, "U" => pure .utable
  | .astObj, "phi_name_to_node_dict" => pure .namesObj
  | .hObj, "horizons" => pure .hTable
  | .node _ t, "children" => pure (.list (t.children.map (.node Option.none)))
  | .node _ t, "begin" => match t.loc? with | some l => pure (.rat (st.store l).b) | Option.none => throw .key
  | .node _ t, "end" => match t.loc? with | some l => pure (.rat (st.store l).e) | Option.none => throw .key
  | .node _ t, "begin_unit" => match t.loc? with | some l => pure (.str (st.store l).bu) | Option.none => throw .key
  | .node _ t, "end_unit" => match t.loc? with | some l => pure (.str (st.store l).eu) | Option.none => throw .key
  | _, _ => throw .other

/-- `o[k]` -/
def indexD (o k : DV α) : Except PyErr (DV α) :=
  match o, k with
  | .utable, .str s => match unitNanos? s with | some n => pure (.int n) | Option.none => throw .key
  | .dict d, .node (some i) _ => match d.lookup i with | some n => pure (.int n) | Option.none => throw .key
  | _, _ => throw .other

/-- Expressions (no effect on the state). -/
def evalDE (st : DState α) (loc : Locals α) : DE → Except PyErr (DV α)
  | .loc x => getKey x loc
  | .self_ => .ok .selfObj
  | .none_ => .ok .none
  | .int n => .ok (.int n)
  | .str s => .ok (.str s)
  | .emptyList => .ok (.list [])
  | .emptyDict => .ok (.dict [])
  | .attr e f => do attrD st (← evalDE st loc e) f
  | .index e k => do indexD (← evalDE st loc e) (← evalDE st loc k)
  | .len e => do
      match (← evalDE st loc e) with
      | .str s => pure (.int s.length)
      | .list l => pure (.int l.length)
      | _ => throw .type
  | .frac e => do pure (.rat (← numOf (← evalDE st loc e)))
  | .isInst e cls => do
      match (← evalDE st loc e) with
      | .node _ t => if cls = "Interval" then pure (.bool t.loc?.isSome) else throw .other
      | _ => throw .other
  | .mul a b => do
      let x ← numOf (← evalDE st loc a)
      let y ← numOf (← evalDE st loc b)
      pure (.rat (x * y))
  | .div a b => do
      let x ← numOf (← evalDE st loc a)
      let y ← numOf (← evalDE st loc b)
      if y = 0 then throw .value else pure (.rat (x / y))
  | .eq a b => do
      match (← evalDE st loc a), (← evalDE st loc b) with
      | .int x, .int y => pure (.bool (x == y))
      | _, _ => throw .other
  | .gt a b => do
      match (← evalDE st loc a), (← evalDE st loc b) with
      | .int x, .int y => pure (.bool (decide (y < x)))
      | _, _ => throw .type
  | .keysWhereEq d v => do
      match (← evalDE st loc d), (← evalDE st loc v) with
      | .namesObj, .node (some i) _ => pure (.list ((st.names.filter (fun p => isNode i p.2)).map (fun p => .str p.1)))
      | _, _ => throw .other
  | .constDict keys v => do
      match (← evalDE st loc keys) with
      | .list l =>
          match strsOf l with
          | some ks => do pure (.sdict ks (← evalDE st loc v))
          | Option.none => throw .other
      | _ => throw .type
  | .star _ => .error .other
  | .dstar _ => .error .other
  | .glob _ => .error .other
  | .unsupported _ => .error .other

/-- Arguments of a call, `*e` spliced, `**e` only for the (empty) `kwargs`. -/
def evalArgs (st : DState α) (loc : Locals α) : List DE → Except PyErr (List (DV α))
  | [] => .ok []
  | .star e :: r => do
      match (← evalDE st loc e) with
      | .list l => do pure (l ++ (← evalArgs st loc r))
      | _ => throw .type
  | .dstar e :: r => do
      match (← evalDE st loc e) with
      | .kwargs => evalArgs st loc r
      | _ => throw .other
  | e :: r => do
      let v ← evalDE st loc e
      pure (v :: (← evalArgs st loc r))

def fOf [Val α] (σ : Nat → IvRaw) (t : NT α) : Except PyErr (F α) :=
  match t.toF? σ with
  | some φ => .ok φ
  | Option.none => .error .other

/-- Calls whose receiver is not `self`. -/
def callOther [Val α] (st : DState α) (recv : Option (DV α)) (cls : String) (m : String) (args : List (DV α)) :
    Except PyErr (DV α × DState α) :=
  match recv, cls, m, args with
  | Option.none, "StlHorizon", "()", [] => .ok (.hObj, { st with hVisited := some [] })
  | some .hObj, _, "visit", [.node (some i) t, .none] =>
      match st.hVisited with
      | some vis => do
          let φ ← fOf st.store t
          let n ← horG φ
          pure (.int n, { st with hVisited := some (i :: vis) })
      | Option.none => .error .other
  | Option.none, "StlAstVisitor", "visit", [.selfObj, .node (some i) t, .int R] =>
      match st.hVisited with
      | some vis =>
          if st.subHor && vis.contains i then do
            let φ ← fOf st.store t
            let ψ ← pastG φ R
            pure (.fml ψ, st)
          else .error .key
      | Option.none => .error .key
  | some .namesObj, _, "update", [.sdict ks v] => .ok (.none, { st with names := ks.foldl (fun d k => setKey k v d) st.names })
  | _, _, _, _ => .error .other

def setAttrD (st : DState α) (o : DV α) (f : String) (v : DV α) : Except PyErr (DState α) :=
  match o, f, v with
  | .selfObj, "ast", .astObj => .ok { st with selfAst := true }
  | .selfObj, "subformula_horizons", .hTable => .ok { st with subHor := true }
  | .astObj, "specs", .list l => .ok { st with specs := l }
  | .astObj, "phi_name_to_node_dict", .namesObj => .ok st
  | .node _ t, f, v =>
      match t.loc? with
      | some l =>
          let i := st.store l
          let upd (j : IvRaw) : DState α := { st with store := setIv st.store l j, hVisited := st.hVisited.map (fun _ => []) }
          if f = "begin" then do let q ← numOf v; pure (upd { i with b := q })
          else if f = "end" then do let q ← numOf v; pure (upd { i with e := q })
          else if f = "begin_unit" then match v with | .str s => pure (upd { i with bu := s }) | _ => throw .type
          else if f = "end_unit" then match v with | .str s => pure (upd { i with eu := s }) | _ => throw .type
          else throw .other
      | Option.none => throw .other
  | _, _, _ => .error .other

/-- Statements; `callSelf m args` runs the method `m` of the pastifier. -/
def execDS [Val α] (callSelf : String → List (DV α) → DState α → Except PyErr (DV α × DState α)) :
    DS → DState α → Locals α → Except PyErr (DState α × Locals α)
  | .skip, st, loc => .ok (st, loc)
  | .seq a b, st, loc => do
      let (st1, loc1) ← execDS callSelf a st loc
      execDS callSelf b st1 loc1
  | .ite c t e, st, loc => do
      match (← evalDE st loc c) with
      | .bool true => execDS callSelf t st loc
      | .bool false => execDS callSelf e st loc
      | _ => throw .type
  | .setLoc x e, st, loc => do
      let v ← evalDE st loc e
      pure (st, setKey x v loc)
  | .setAttr o f v, st, loc => do
      let ov ← evalDE st loc o
      let vv ← evalDE st loc v
      pure (← setAttrD st ov f vv, loc)
  | .setItem x k v, st, loc => do
      match (← getKey x loc), (← evalDE st loc k), (← evalDE st loc v) with
      | .dict d, .node (some i) _, .int n => pure (st, setKey x (.dict (setIdx i n d)) loc)
      | _, _, _ => throw .other
  | .forIn x e body, st, loc => do
      match (← evalDE st loc e) with
      | .list l => l.foldlM (fun (p : DState α × Locals α) v => execDS callSelf body p.1 (setKey x v p.2)) (st, loc)
      | _ => throw .type
  | .call tgt recv m args, st, loc => do
      let vs ← evalArgs st loc args
      let bind (r : DV α × DState α) : DState α × Locals α :=
        (r.2, match tgt with | some x => setKey x r.1 loc | Option.none => loc)
      match recv with
      | .self_ => do pure (bind (← callSelf m vs st))
      | .glob cls => do pure (bind (← callOther st Option.none cls m vs))
      | .loc l =>
          if m = "append" then
            match (← getKey l loc), vs, tgt with
            | .list xs, [v], Option.none => pure (st, setKey l (.list (xs ++ [v])) loc)
            | _, _, _ => throw .other
          else do pure (bind (← callOther st (some (← getKey l loc)) "" m vs))
      | e => do pure (bind (← callOther st (some (← evalDE st loc e)) "" m vs))
  | .unsupported _, _, _ => .error .other

/-- Binding of the parameters: `def m(self, p…, *args, **kwargs)`. -/
def bindParams (m : DMethod) (args : List (DV α)) : Except PyErr (Locals α) :=
  let n := m.params.length
  if args.length < n then .error .type
  else
    let base := m.params.zip (args.take n)
    match m.vararg with
    | some a => .ok (base ++ [(a, .list (args.drop n))] ++ (match m.kwarg with | some k => [(k, .kwargs)] | Option.none => []))
    | Option.none =>
        if args.length = n then .ok (base ++ (match m.kwarg with | some k => [(k, .kwargs)] | Option.none => []))
        else .error .type

/-- A method call on the pastifier with a recursion budget (`RecursionError` = `PyErr.other` when it is exhausted). -/
def callM [Val α] (methods : List (String × DMethod)) : Nat → String → List (DV α) → DState α → Except PyErr (DV α × DState α)
  | 0, _, _, _ => .error .other
  | fuel + 1, name, args, st =>
      match methods.lookup name with
      | Option.none => .error .key
      | some m => do
          let loc ← bindParams m args
          let (st1, loc1) ← execDS (callM methods fuel) m.body st loc
          match m.ret with
          | some e => do pure (← evalDE st1 loc1 e, st1)
          | Option.none => pure (.none, st1)

def DE.supported : DE → Bool
  | .unsupported _ => false
  | .attr e _ | .len e | .frac e | .isInst e _ | .star e | .dstar e => e.supported
  | .index a b | .mul a b | .div a b | .eq a b | .gt a b | .keysWhereEq a b | .constDict a b => a.supported && b.supported
  | _ => true

def DS.supported : DS → Bool
  | .unsupported _ => false
  | .skip => true
  | .seq a b => a.supported && b.supported
  | .ite c t e => c.supported && t.supported && e.supported
  | .setLoc _ e => e.supported
  | .setAttr o _ v => o.supported && v.supported
  | .setItem _ k v => k.supported && v.supported
  | .forIn _ e b => e.supported && b.supported
  | .call _ r _ args => r.supported && args.all DE.supported

def DMethod.supported (m : DMethod) : Bool :=
  m.body.supported && (match m.ret with | some e => e.supported | Option.none => true)

end Rtamt.Py.PDrv
