/-
  The dense-time offline `evaluate(dataset)` run through the methods *translated from the source*
  (`GeneratedDnEval.lean`: `evaluate` with `exist_ast` and `set_variable_to_ast_from_dataset` inlined, `visitAst`) under
  the semantics of `DnEval.lean`: `self.visitAst(self.ast)` is the translated `visitAst` called with `ast`, `*args = ()`,
  `**kwargs = {}`; `self.visit(spec, *args, **kwargs)` inside it is the translated visitor with its dispatch (`evalAlgG`).
  `RtamtProofs/GenDnEval.lean` proves `evaluateDnG = evaluateDnSpecs` (the mirror of `Rtamt/Dense/OfflineSpecs.lean`).
-/
import Rtamt.Py.GeneratedDnEval

namespace Rtamt.Py.DnEval
open Rtamt Val Rtamt.Py Rtamt.Dense Rtamt.Dense.Alg

variable {α : Type} [Val α]

/-- Inside `visitAst` nothing calls `visitAst`. -/
def noVisitAst : VisitAst α := fun _ _ => .error .other

/-- `self.visitAst(a)` (the method assigns to locals only: the state of the object is the one it was called on). -/
def visitAstG (c : VCtx) : VisitAst α := fun a st =>
  match callE c noVisitAst Gen.DnEval.visitAst st [a, .tuple0, .kw0] with
  | .ok r => .ok r.1
  | .error e => .error e.1

/-- `interpreter.evaluate(dataset)`: the sample list returned or the exception raised, and the state of the interpreter
    object afterwards (after an exception: the state at the moment it was raised). -/
def evaluateDnG (fuel : Nat) (cfg : DCfg) (st : DState α) (d : DData α) : Except PyErr (ASig α) × DState α :=
  match callE ⟨fuel, cfg⟩ (visitAstG ⟨fuel, cfg⟩) Gen.DnEval.evaluate st [.data d] with
  | .ok (.samples s, st') => (.ok s, st')
  | .ok (_, st') => (.error .type, st')
  | .error (e, st') => (.error e, st')

end Rtamt.Py.DnEval
