/-
  The glue of the DENSE-time online interpreter: the update visitor (`AbstractOnlineUpdateVisitor` of
  `rtamt/semantics/abstract_online_interpreter.py` with the leaf methods of `DenseTimeOnlineUpdateVisitor` and its flag
  `constants_sent`) and the body of `AbstractDenseTimeOnlineInterpreter.update` / `.set_variable_to_ast_from_dataset`
  (`rtamt/semantics/abstract_dense_time_online_interpreter.py`).

  The dense-time counterpart of `Rtamt/Py/Glue.lean`: `harness/py2lean.py` (`generate_glue_dense`) translates the method
  bodies into terms of `GE` / `GS` below (`GeneratedGlueDn.lean`, regenerated on every run), this file gives the terms
  their meaning.

    self.updated                 name  -> signal      the per-update memo (cleared by `visitAst`)
    self.results                 node  -> signal      what `get_value` reads
    self.constants_sent          bool                 the flag of `DenseTimeOnlineUpdateVisitor`
    online_operator_dict         name  -> operator    the operation objects (`ProgramOn.StoreOn`, keyed by the formula)
    var_object_dict              name  -> signal      the batch of every variable (written by
                                                      `set_variable_to_ast_from_dataset`, cleared by `fromkeys(…, [])`)

  A value is a list of `[time, value]` pairs (`ASig α`); `operator.update(args…)` on an operation object is the mirror's
  `ProgramOn.nodeStepOn` (the operation classes themselves are the subject of `RtamtProofs/GenDenseOn*.lean`).
-/
import Rtamt.Dense.ProgramOn

namespace Rtamt.Py.GDn
open Rtamt Val Rtamt.Dense Rtamt.Dense.Alg Rtamt.Dense.AlgOn Rtamt.Dense.ProgramOn

/-- A dictionary key computed from the node. -/
inductive GKey | nodeName | node | nodeVar
  deriving DecidableEq, Repr, Inhabited

/-- A time stamp written in the source: an integer literal or `float("inf")`. -/
inductive GTm | lit (n : Nat) | inf
  deriving DecidableEq, Repr, Inhabited

inductive GE
  | loc (x : String)
  | visit (k : Nat)                        -- self.visit(node.children[k], …)
  | visitSpec                              -- self.visit(spec, …) inside the loop of `visitAst`
  | inDict (d : String) (k : GKey)         -- k in self.d
  | getDict (d : String) (k : GKey)        -- self.d[k] / d[k]
  | opUpdate (op : String) (args : List GE) -- op.update(args…), `op` a local bound to an operation object
  | nodeVal                                -- node.val
  | nodeField                              -- node.field
  | isConst | isVar                        -- isinstance(node, Constant) / isinstance(node, Variable)
  | emptyList                              -- []
  -- the constructs of the dense-time visitor / interpreter
  | flag                                   -- self.constants_sent
  | sigLit2 (t1 : GTm) (e1 : GE) (t2 : GTm) (e2 : GE)   -- [[t1, e1], [t2, e2]]
  | lastOf (x : String)                    -- x[len(x) - 1]
  | boolLit (b : Bool)                     -- True / False
  | visitAst                               -- self.updateVisitor.visitAst(self.ast, self.online_operator_dict, self.ast.var_object_dict)
  | dataIdx (i : Nat)                      -- data[i] inside `for data in dataset`
  | inFreeVars (e : GE)                    -- e in self.ast.free_vars
  | inOps (e : GE)                         -- e in self.online_operator_dict
  | outVarField                            -- self.ast.out_var_field
  | unsupported (what : String)
  deriving Repr, Inhabited

inductive GS
  | skip
  | seq (a b : GS)
  | setLoc (x : String) (e : GE)
  | setDict (d : String) (k : GKey) (e : GE)   -- self.d[k] = e
  | clearDict (d : String)                     -- self.d = dict()
  | ite (c : GE) (t e : GS)
  | forSpecs (body : GS)                       -- for spec in ast.specs: body
  | appendLoc (x : String) (e : GE)            -- x.append(e)
  -- the constructs of the dense-time interpreter
  | setFlag (e : GE)                           -- self.updateVisitor.constants_sent = e
  | setVar (k e : GE)                          -- self.ast.var_object_dict[k] = e
  | clearVars                                  -- self.ast.var_object_dict = self.ast.var_object_dict.fromkeys(self.ast.var_object_dict, [])
  | forData (body : GS)                        -- for data in dataset: body
  | superSetAst                                -- super(AbstractDenseTimeOnlineInterpreter, self).set_ast(ast): a named step, see `GEnv.setAst`
  | opaque (what : String)                     -- a statement outside the model's state (no effect on it); named, see `GenGlueDn`
  | unsupported (what : String)
  deriving Repr, Inhabited

structure GMethod where
  body : GS
  ret : Option GE
  deriving Repr, Inhabited

/-! ### what is outside the translated subset -/

mutual
def GE.unsup : GE → List String
  | .opUpdate _ args => GE.unsupL args
  | .sigLit2 _ e1 _ e2 => e1.unsup ++ e2.unsup
  | .inFreeVars e => e.unsup
  | .inOps e => e.unsup
  | .unsupported w => [w]
  | _ => []
def GE.unsupL : List GE → List String
  | [] => []
  | e :: es => e.unsup ++ GE.unsupL es
end

/-- The source texts of everything below a statement that is outside the translated subset. -/
def GS.unsup : GS → List String
  | .seq a b => a.unsup ++ b.unsup
  | .setLoc _ e => e.unsup
  | .setDict _ _ e => e.unsup
  | .ite c t e => c.unsup ++ t.unsup ++ e.unsup
  | .forSpecs b => b.unsup
  | .appendLoc _ e => e.unsup
  | .setFlag e => e.unsup
  | .setVar k e => k.unsup ++ e.unsup
  | .forData b => b.unsup
  | .unsupported w => [w]
  | _ => []

/-- The statements kept as named steps without effect on the model's state. -/
def GS.opaques : GS → List String
  | .seq a b => a.opaques ++ b.opaques
  | .ite _ t e => t.opaques ++ e.opaques
  | .forSpecs b => b.opaques
  | .forData b => b.opaques
  | .opaque w => [w]
  | _ => []

def GMethod.unsup (m : GMethod) : List String :=
  m.body.unsup ++ (match m.ret with | some e => e.unsup | none => [])

variable {α : Type} [Val α] [DecidableEq α]

/-- Values of the glue language. -/
inductive GV (α : Type)
  | none
  | num (x : α)
  | bool (b : Bool)
  | str (s : String)
  | nil                          -- `[]`: the empty signal and the empty list of results alike
  | sig (s : ASig α)             -- a list of `[time, value]` pairs
  | list (l : List (ASig α))     -- the list `visitAst` collects
  | opRef (k : F α)              -- an operation object: a reference into `online_operator_dict`
  deriving Inhabited

/-- The state the visitor and the interpreter work on. -/
structure GSt (α : Type) where
  ops : StoreOn α
  updated : MemoOn α
  results : MemoOn α
  sent : Bool                    -- updateVisitor.constants_sent
  vod : String → ASig α          -- ast.var_object_dict

def memoSet (m : MemoOn α) (k : F α) (v : ASig α) : MemoOn α := (k, v) :: m

/-- `var_object_dict[x] = s`. -/
def vodSet (vod : String → ASig α) (x : String) (s : ASig α) : String → ASig α :=
  fun y => if y = x then s else vod y

/-- A visit of a child / of an assertion: threads the state and yields the signal. -/
abbrev Visit (α : Type) := GSt α → Except PyErr (ASig α × GSt α)

structure GEnv (α : Type) where
  node : F α
  kids : List (Visit α) := []
  spec : Option (Visit α) := Option.none
  /-- what `self.updateVisitor.visitAst(self.ast, …)` runs -/
  vast : Option (GSt α → Except PyErr (List (ASig α) × GSt α)) := Option.none
  /-- what `AbstractOnlineInterpreter.set_ast` (not translated: `online_operator_dict = dict()`, then the construction
      visitor registers a fresh operation object for every operator node) leaves in `online_operator_dict`; the runner
      supplies `ProgramOn.initStoreOn specs []` -/
  setAst : Option (Except PyErr (StoreOn α)) := Option.none
  /-- `self.ast.free_vars` -/
  free : List String := []
  /-- the argument `dataset` of `update` -/
  dataset : List (String × ASig α) := []
  data : Option (String × ASig α) := Option.none
  loc : List (String × GV α) := []

def gGet (x : String) (l : List (String × GV α)) : Except PyErr (GV α) :=
  match l.lookup x with
  | some v => .ok v
  | none => .error .other

def gSet (x : String) (v : GV α) (l : List (String × GV α)) : List (String × GV α) :=
  (x, v) :: l.filter (fun p => p.1 != x)

/-- A value where a signal is expected (`[]` is the empty signal). -/
def asSig : GV α → Except PyErr (ASig α)
  | .sig s => .ok s
  | .nil => .ok []
  | _ => .error .type

/-- A value where the list of results is expected. -/
def asList : GV α → Except PyErr (List (ASig α))
  | .list l => .ok l
  | .nil => .ok []
  | _ => .error .type

def tmOf : GTm → Tm
  | .lit n => .fin (n : Rat)
  | .inf => .inf

mutual
def evalGE (cfg : DCfg) (env : GEnv α) (st : GSt α) : GE → Except PyErr (GV α × GSt α)
  | .loc x => do pure (← gGet x env.loc, st)
  | .visit k =>
      match env.kids[k]? with
      | some f => do
          let (v, st') ← f st
          pure (.sig v, st')
      | none => .error .index
  | .visitSpec =>
      match env.spec with
      | some f => do
          let (v, st') ← f st
          pure (.sig v, st')
      | none => .error .other
  | .inDict d k =>
      match d, k with
      | "updated", .nodeName => .ok (.bool (st.updated.lookup env.node).isSome, st)
      | _, _ => .error .other
  | .getDict d k =>
      match d, k with
      | "updated", .nodeName =>
          match st.updated.lookup env.node with
          | some v => .ok (.sig v, st)
          | none => .error .key
      | "online_operator_dict", .nodeName =>
          match st.ops.lookup env.node with
          | some _ => .ok (.opRef env.node, st)
          | none => .error .key
      | "var_object_dict", .nodeVar =>
          match env.node with
          | .var x => .ok (.sig (st.vod x), st)
          | _ => .error .other
      | _, _ => .error .other
  | .opUpdate op args => do
      match (← gGet op env.loc) with
      | .opRef k => do
          let (vs, st1) ← evalArgs cfg env st args
          let s ← st1.ops.get k
          let (s', o) ← nodeStepOn cfg k s vs
          pure (.sig o, { st1 with ops := st1.ops.set k s' })
      | _ => .error .type
  | .nodeVal =>
      match env.node with
      | .const c => .ok (.num c, st)
      | _ => .error .other
  | .nodeField => .ok (.bool false, st)            -- float-typed variables: `node.field` is empty
  | .isConst => .ok (.bool (match env.node with | .const _ => true | _ => false), st)
  | .isVar => .ok (.bool (match env.node with | .var _ => true | _ => false), st)
  | .emptyList => .ok (.nil, st)
  | .flag => .ok (.bool st.sent, st)
  | .sigLit2 t1 e1 t2 e2 => do
      match (← evalGE cfg env st e1) with
      | (.num v1, st1) =>
          match (← evalGE cfg env st1 e2) with
          | (.num v2, st2) => pure (.sig [(tmOf t1, v1), (tmOf t2, v2)], st2)
          | _ => .error .type
      | _ => .error .type
  | .lastOf x => do
      let l ← asList (← gGet x env.loc)
      match l[l.length - 1]? with
      | some s => pure (.sig s, st)
      | none => .error .index                       -- `[][-1]`
  | .boolLit b => .ok (.bool b, st)
  | .visitAst =>
      match env.vast with
      | some f => do
          let (l, st') ← f st
          pure (.list l, st')
      | none => .error .other
  | .dataIdx i =>
      match env.data with
      | some (x, s) =>
          match i with
          | 0 => .ok (.str x, st)
          | 1 => .ok (.sig s, st)
          | _ => .error .index
      | none => .error .other
  | .inFreeVars e => do
      match (← evalGE cfg env st e) with
      | (.str x, st1) => pure (.bool (env.free.contains x), st1)
      | _ => .error .type
  | .inOps e => do
      match (← evalGE cfg env st e) with
      | (.str x, st1) => pure (.bool (st1.ops.lookup (.var x)).isSome, st1)   -- the name of a variable node is the variable
      | _ => .error .type
  | .outVarField => .ok (.bool false, st)          -- float-typed output: `ast.out_var_field` is empty
  | .unsupported _ => .error .other

def evalArgs (cfg : DCfg) (env : GEnv α) (st : GSt α) : List GE → Except PyErr (List (ASig α) × GSt α)
  | [] => .ok ([], st)
  | e :: es => do
      let (gv, st1) ← evalGE cfg env st e
      let v ← asSig gv
      let (vs, st2) ← evalArgs cfg env st1 es
      pure (v :: vs, st2)
end

def execGS (cfg : DCfg) : GS → GEnv α → GSt α → List (Visit α) → Except PyErr (GEnv α × GSt α)
  | .skip, env, st, _ => .ok (env, st)
  | .seq a b, env, st, specs => do
      let (env1, st1) ← execGS cfg a env st specs
      execGS cfg b env1 st1 specs
  | .setLoc x e, env, st, _ => do
      let (v, st1) ← evalGE cfg env st e
      pure ({ env with loc := gSet x v env.loc }, st1)
  | .setDict d k e, env, st, _ => do
      let (gv, st1) ← evalGE cfg env st e
      let v ← asSig gv
      match d, k with
      | "updated", .nodeName => pure (env, { st1 with updated := memoSet st1.updated env.node v })
      | "results", .node => pure (env, { st1 with results := memoSet st1.results env.node v })
      | _, _ => throw .other
  | .clearDict d, env, st, _ =>
      match d with
      | "updated" => .ok (env, { st with updated := [] })
      | _ => .error .other
  | .ite c t e, env, st, specs => do
      match (← evalGE cfg env st c) with
      | (.bool true, st1) => execGS cfg t env st1 specs
      | (.bool false, st1) => execGS cfg e env st1 specs
      | _ => throw .type
  | .forSpecs body, env, st, specs =>
      specs.foldlM (fun (p : GEnv α × GSt α) f => execGS cfg body { p.1 with spec := some f } p.2 []) (env, st)
  | .appendLoc x e, env, st, _ => do
      let l ← asList (← gGet x env.loc)
      let (gv, st1) ← evalGE cfg env st e
      let v ← asSig gv
      pure ({ env with loc := gSet x (.list (l ++ [v])) env.loc }, st1)
  | .setFlag e, env, st, _ => do
      match (← evalGE cfg env st e) with
      | (.bool b, st1) => pure (env, { st1 with sent := b })
      | _ => throw .type
  | .setVar k e, env, st, _ => do
      match (← evalGE cfg env st k) with
      | (.str x, st1) => do
          let (gv, st2) ← evalGE cfg env st1 e
          let v ← asSig gv
          pure (env, { st2 with vod := vodSet st2.vod x v })
      | _ => throw .type
  | .clearVars, env, st, _ => .ok (env, { st with vod := fun _ => [] })
  | .forData body, env, st, _ =>
      env.dataset.foldlM (fun (p : GEnv α × GSt α) d => execGS cfg body { p.1 with data := some d } p.2 []) (env, st)
  | .superSetAst, env, st, _ =>
      match env.setAst with
      | some r => do
          let o ← r
          pure (env, { st with ops := o })
      | none => .error .other
  | .opaque _, env, st, _ => .ok (env, st)
  | .unsupported _, _, _, _ => .error .other

/-- Call of a method in the environment `env` (the node, the visits of its children, …). -/
def callG (cfg : DCfg) (m : GMethod) (env : GEnv α) (specs : List (Visit α)) (st : GSt α) :
    Except PyErr (GV α × GSt α) := do
  let (env1, st1) ← execGS cfg m.body env st specs
  match m.ret with
  | some e => evalGE cfg env1 st1 e
  | none => pure (.none, st1)

end Rtamt.Py.GDn
