/-
  The shape of one `visitX(self, element, args)` method of the explainer (`rtamt/explanation/*/discrete_time/explainer.py`),
  as extracted by `harness/py2lean.py`.  Every such method
    * reads `intervals = args[0]`, `flag = args[1]` and the results of the operands (`self.spec.results[child]`),
    * computes the intervals of the operands with one of the functions of `explanations.py` (one function for
      `flag = True`, one for `flag = False`; a bounded operator also passes `element.begin`, `element.end`),
    * records `self.explanations[element.name] = intervals`,
    * visits the operands with `[op_intervals, flag]` or `[op_intervals, not flag]`,
  or only records (leaves), or only raises.
-/
namespace Rtamt.Py

inductive ExplAction
  | leaf
  | un (sat unsat : String) (timed : Bool) (negChild : Bool)
  | bin (sat unsat : String) (neg1 neg2 : Bool)
  | raises
  | unsupported (what : String)
  deriving Repr, Inhabited, DecidableEq

end Rtamt.Py
