/-
  The methods of the discrete-time offline visitor
  (`rtamt/semantics/stl/discrete_time/offline/ast_visitor.py`) as translated by `harness/py2lean.py`:
  a `visitX(self, node, *args, **kwargs)` first fetches the results of the node's children
  (`X = self.visit(node.children[k], *args, **kwargs)`) and, for bounded operators, the bounds in samples
  (`begin, end = self.time_unit_transformer(node)`); these statements become the parameters of the
  translated method, the rest is its body.  Attributes of the node that the bodies read are passed as
  locals: `$operator` (`node.operator.value`), `$val` (`node.val`), `$length` (`args[0]`),
  `$var` (`self.ast.var_object_dict[node.var]`), `$field` (`node.field`).
-/
import Rtamt.Py.Sem

namespace Rtamt.Py
open Rtamt Val

structure OffMethod where
  name : String
  kids : List String
  interval : Bool
  body : S
  ret : Option E
  deriving Repr, Inhabited

variable {α : Type} [Val α]

/-- Run a translated visit method: `kids` are the children's results, `iv` the bounds in samples,
    `extra` the node attributes the body reads. -/
def callOff (m : OffMethod) (kids : List (List α)) (iv : Option (Nat × Nat)) (extra : Store α) :
    Except PyErr (List α) := do
  if kids.length ≠ m.kids.length then throw .type
  if m.interval ≠ iv.isSome then throw .type
  let loc : Store α := m.kids.zip (kids.map V.list) ++
    (match iv with | some (a, b) => [("begin", .int a), ("end", .int b)] | none => []) ++ extra
  let env ← exec m.body { self := [], loc := loc }
  match m.ret with
  | some e =>
      match asList (← evalE env e) with
      | some l => pure l
      | none => throw .type
  | none => throw .type

end Rtamt.Py
