/-
  The discrete-time offline `evaluate(dataset)` as a whole method
  (`AbstractDiscreteTimeOfflineInterpreter.evaluate` / `.set_variable_to_ast_from_dataset` of
  `rtamt/semantics/abstract_discrete_time_offline_interpreter.py`, `AbstractInterpreter.exist_ast`,
  `AbstractAstVisitor.visitAst`): `harness/py2lean.py` (`generate_offline_evaluate`) translates the method bodies
  into terms of `OE` / `OS` below (`GeneratedOffEval.lean`, regenerated on every run), this file gives the terms
  their meaning.

    self.ast                       unset (no attribute) / None / the specification
    self.ast.specs                 the assertions (the parser substitutes a referenced assertion by its node)
    self.ast.var_object_dict       name -> column           (`Rtamt.Env`, an assignment shadows the earlier entry)
    self.ast.results['time']       the time column
    self.ast.unit                  the default unit (read by `normalize`)
    the attributes of `DiscreteTimeInterpreter`  (`attrs`, the store of `Rtamt/Py/Sem.lean`)
    dataset                        `Rtamt.Dataset`

  `self.visit(spec, *args, **kwargs)` is the translated visitor with its dispatch (`evalOffG` of `RunOff.lean`); the gap
  loop is a statement of the language of `Sem.lean` (translated by the translator of the sampling bookkeeping, the
  same term as in `GeneratedClock.lean`) and runs on `attrs` with the locals `ts` and `$unit` (`self.ast.unit`).
  `self.visitAst(a, x)` is a parameter (`va`) of the semantics: the runner instantiates it with the translated
  `visitAst` (`RunOffEval.lean`).  `*args` holds the one-element tuple `(x,)`, represented by its element; `**kwargs`
  the empty dictionary, represented by `none`.

  Exceptions: `AttributeError` is `.other`.
-/
import Rtamt.Py.RunOff
import Rtamt.Discrete.OfflineSpecs

namespace Rtamt.Py.OffEval
open Rtamt Val Rtamt.Py

inductive OE
  | loc (x : String)
  | strLit (s : String)
  | intLit (n : Int)
  | len (e : OE)                               -- len(e)
  | idx (e i : OE)                             -- e[i], `e` a data set (`i` a key), a list or a tuple
  | sub (a b : OE)                             -- a - b on integers
  | ne (a b : OE)                              -- a != b on strings
  | astIsNone                                  -- self.ast is None
  | selfAst                                    -- self.ast
  | specsOf (x : String)                       -- x.specs, `x` a local bound to the specification
  | visit (node : OE) (args kwargs : String)   -- self.visit(node, *args, **kwargs)
  | callVisitAst (a x : OE)                    -- self.visitAst(a, x)
  | emptyList                                  -- []
  | zip (a b : OE)                             -- zip(a, b)
  | comp (body : OE) (x : String) (it : OE)    -- [body for x in it]
  | pair2 (a b : OE)                           -- [a, b]
  | unsupported (what : String)
  deriving Repr, Inhabited

inductive OS
  | skip
  | seq (a b : OS)
  | setLoc (x : String) (e : OE)
  | ite (c : OE) (t e : OS)
  | raise (k : PyErr)
  | forIn (x : String) (it : OE) (body : OS)   -- for x in it (a data set: its keys; `ast.specs`)
  | setVar (k e : OE)                          -- self.ast.var_object_dict[k] = e
  | setResult (k e : OE)                       -- self.ast.results[k] = e
  | appendLoc (x : String) (e : OE)            -- x.append(e)
  | clock (s : Rtamt.Py.S)                     -- sampling bookkeeping (language of `Sem.lean`)
  | unsupported (what : String)
  deriving Repr, Inhabited

structure OMethod where
  params : List String
  body : OS
  ret : Option OE
  deriving Repr, Inhabited

/-! ### what is outside the translated subset -/

def OE.unsup : OE → List String
  | .len e => e.unsup
  | .idx e i => e.unsup ++ i.unsup
  | .sub a b => a.unsup ++ b.unsup
  | .ne a b => a.unsup ++ b.unsup
  | .visit n _ _ => n.unsup
  | .callVisitAst a x => a.unsup ++ x.unsup
  | .zip a b => a.unsup ++ b.unsup
  | .comp b _ it => b.unsup ++ it.unsup
  | .pair2 a b => a.unsup ++ b.unsup
  | .unsupported w => [w]
  | _ => []

def OS.unsup : OS → List String
  | .seq a b => a.unsup ++ b.unsup
  | .setLoc _ e => e.unsup
  | .ite c t e => c.unsup ++ t.unsup ++ e.unsup
  | .forIn _ it b => it.unsup ++ b.unsup
  | .setVar k e => k.unsup ++ e.unsup
  | .setResult k e => k.unsup ++ e.unsup
  | .appendLoc _ e => e.unsup
  | .unsupported w => [w]
  | _ => []

/-- The statements in the language of `Sem.lean` (their own `supported` is checked by the proof file). -/
def OS.clocks : OS → List Rtamt.Py.S
  | .seq a b => a.clocks ++ b.clocks
  | .ite _ t e => t.clocks ++ e.clocks
  | .forIn _ _ b => b.clocks
  | .clock s => [s]
  | _ => []

def OMethod.unsup (m : OMethod) : List String :=
  m.body.unsup ++ (match m.ret with | some e => e.unsup | none => [])

/-! ### values and state -/

inductive OV (α : Type)
  | none
  | bool (b : Bool)
  | int (n : Int)
  | str (s : String)
  | rat (q : Rat)                       -- a time stamp
  | num (x : α)                         -- a robustness value
  | data (d : Dataset α)
  | times (l : List Rat)                -- the time column
  | vals (l : List α)                   -- a column / the result of a visit
  | nil                                 -- []
  | valss (l : List (List α))           -- a non-empty list of results (`out` of `visitAst`)
  | tup (t : Rat) (v : α)               -- an element of `zip(ts, rob)`
  | zipped (l : List (Rat × α))         -- zip(ts, rob)
  | tv (t : Rat) (v : α)                -- [t, v]
  | tvs (l : List (Rat × α))            -- [[t, v], ...]
  | astRef                              -- the specification object
  | node (φ : F α)                      -- an assertion
  | nodes (l : List (F α))              -- ast.specs
  deriving Inhabited

structure OAst (α : Type) where
  specs : List (F α)
  vars : Rtamt.Env α
  resTime : Option (List Rat)
  unit : String
  deriving Inhabited

inductive AstSlot (α : Type)
  | unset                               -- the object has no attribute `ast` (before `set_ast`)
  | none                                -- `set_ast(None)`
  | some (a : OAst α)
  deriving Inhabited

structure OState (α : Type) where
  ast : AstSlot α
  attrs : Rtamt.Py.Store α
  deriving Inhabited

structure OEnv (α : Type) where
  st : OState α
  loc : List (String × OV α)
  deriving Inhabited

variable {α : Type} [Val α]

/-- An attribute of `self.ast`. -/
def OState.getAst (st : OState α) : Except PyErr (OAst α) :=
  match st.ast with
  | .some a => .ok a
  | _ => .error .other

/-- Python `l[i]` (a negative index counts from the end). -/
def pyIdx {β : Type} (l : List β) (i : Int) : Except PyErr β :=
  let j : Int := if i < 0 then i + l.length else i
  if j < 0 then .error .index else
    match l[j.toNat]? with
    | some x => .ok x
    | none => .error .index

/-- `self.visitAst(a, x)` as seen by the caller. -/
abbrev VisitAst (α : Type) := OV α → OV α → OState α → Except PyErr (OV α)

def evalOE (va : VisitAst α) (env : OEnv α) : OE → Except PyErr (OV α)
  | .loc x => getKey x env.loc
  | .strLit s => .ok (.str s)
  | .intLit n => .ok (.int n)
  | .len e => do
      match ← evalOE va env e with
      | .times l => pure (.int l.length)
      | .vals l => pure (.int l.length)
      | .nil => pure (.int 0)
      | .valss l => pure (.int l.length)
      | .tvs l => pure (.int l.length)
      | _ => throw .type
  | .idx e i => do
      let ev ← evalOE va env e
      let iv ← evalOE va env i
      match ev, iv with
      | .data d, .str k =>
          if k == "time" then
            match d.time with
            | some t => pure (.times t)
            | none => throw .key
          else
            match d.cols.lookup k with
            | some l => pure (.vals l)
            | none => throw .key
      | .nil, .int _ => throw .index
      | .valss l, .int i => do let r ← pyIdx l i; pure (.vals r)
      | .tup t v, .int i => do let r ← pyIdx [OV.rat t, OV.num v] i; pure r
      | .tv t v, .int i => do let r ← pyIdx [OV.rat t, OV.num v] i; pure r
      | _, _ => throw .type
  | .sub a b => do
      let av ← evalOE va env a
      let bv ← evalOE va env b
      match av, bv with
      | .int x, .int y => pure (.int (x - y))
      | _, _ => throw .type
  | .ne a b => do
      let av ← evalOE va env a
      let bv ← evalOE va env b
      match av, bv with
      | .str x, .str y => pure (.bool (x != y))
      | _, _ => throw .type
  | .astIsNone =>
      match env.st.ast with
      | .unset => throw .other
      | .none => pure (.bool true)
      | .some _ => pure (.bool false)
  | .selfAst =>
      match env.st.ast with
      | .unset => throw .other
      | .none => pure .none
      | .some _ => pure .astRef
  | .specsOf x => do
      match ← getKey x env.loc with
      | .astRef => do let a ← env.st.getAst; pure (.nodes a.specs)
      | .none => throw .other
      | _ => throw .type
  | .visit node args kwargs => do
      let nv ← evalOE va env node
      let av ← getKey args env.loc
      let kv ← getKey kwargs env.loc
      match nv, av, kv with
      | .node φ, .int n, .none =>
          if n < 0 then throw .type else do
            let a ← env.st.getAst
            let r ← evalOffG a.vars n.toNat φ
            pure (.vals r)
      | _, _, _ => throw .type
  | .callVisitAst a x => do
      let av ← evalOE va env a
      let xv ← evalOE va env x
      va av xv env.st
  | .emptyList => .ok .nil
  | .zip a b => do
      let av ← evalOE va env a
      let bv ← evalOE va env b
      match av, bv with
      | .times t, .vals r => pure (.zipped (t.zip r))
      | _, _ => throw .type
  | .comp body x it => do
      let elems : List (OV α) ← (do
        match ← evalOE va env it with
        | .zipped l => pure (l.map fun p => OV.tup p.1 p.2)
        | .tvs l => pure (l.map fun p => OV.tv p.1 p.2)
        | _ => throw .type)
      let rs ← elems.mapM (fun v => do
        match ← evalOE va { env with loc := setKey x v env.loc } body with
        | .tv t r => pure (t, r)
        | _ => throw .type)
      pure (.tvs rs)
  | .pair2 a b => do
      let av ← evalOE va env a
      let bv ← evalOE va env b
      match av, bv with
      | .rat t, .num v => pure (.tv t v)
      | _, _ => throw .type
  | .unsupported _ => throw .other

/-- The time column bound to a local. -/
def timesOf : OV α → Except PyErr (List Rat)
  | .times l => .ok l
  | _ => .error .type

def execOS (va : VisitAst α) : OS → OEnv α → Except PyErr (OEnv α)
  | .skip, env => pure env
  | .seq a b, env => do
      let e1 ← execOS va a env
      execOS va b e1
  | .setLoc x e, env => do
      let v ← evalOE va env e
      pure { env with loc := setKey x v env.loc }
  | .ite c t e, env => do
      match ← evalOE va env c with
      | .bool true => execOS va t env
      | .bool false => execOS va e env
      | _ => throw .type
  | .raise k, _ => throw k
  | .forIn x it body, env => do
      let items : List (OV α) ← (do
        match ← evalOE va env it with
        | .data d => pure (d.keys.map OV.str)
        | .nodes l => pure (l.map OV.node)
        | .nil => pure []
        | _ => throw .type)
      items.foldlM (fun env v => execOS va body { env with loc := setKey x v env.loc }) env
  | .setVar k e, env => do
      let kv ← evalOE va env k
      let ev ← evalOE va env e
      match kv, ev with
      | .str k, .vals l => do
          let a ← env.st.getAst
          pure { env with st := { env.st with ast := .some { a with vars := (k, l) :: a.vars } } }
      | _, _ => throw .type
  | .setResult k e, env => do
      let kv ← evalOE va env k
      let ev ← evalOE va env e
      match kv, ev with
      | .str k, .times l =>
          if k == "time" then do
            let a ← env.st.getAst
            pure { env with st := { env.st with ast := .some { a with resTime := some l } } }
          else throw .type
      | _, _ => throw .type
  | .appendLoc x e, env => do
      let cur ← getKey x env.loc
      let v ← evalOE va env e
      match cur, v with
      | .nil, .vals r => pure { env with loc := setKey x (.valss [r]) env.loc }
      | .valss l, .vals r => pure { env with loc := setKey x (.valss (l ++ [r])) env.loc }
      | _, _ => throw .type
  | .clock s, env => do
      let ts ← (getKey "ts" env.loc >>= timesOf)
      let a ← env.st.getAst
      let r ← Rtamt.Py.exec s { self := env.st.attrs, loc := [("ts", .rlist ts), ("$unit", .str a.unit)] }
      pure { env with st := { env.st with attrs := r.self } }
  | .unsupported _, _ => throw .other

/-- Run a translated method on the state `st`. -/
def callO (va : VisitAst α) (m : OMethod) (st : OState α) (args : List (OV α)) :
    Except PyErr (OV α × OState α) := do
  if args.length ≠ m.params.length then throw .type
  let env ← execOS va m.body { st := st, loc := m.params.zip args }
  match m.ret with
  | some e => do
      let v ← evalOE va env e
      pure (v, env.st)
  | none => pure (.none, env.st)

end Rtamt.Py.OffEval
