/-
  A deep embedding of the Python subset in which the dense-time ONLINE monitor is written
  (`rtamt/semantics/stl/dense_time/online/*.py`: `intersection.py` and the operation classes, and
  `rtamt/semantics/arithmetic/dense_time/online/*.py`), and its semantics.  It is `Rtamt/Py/Dn.lean` (the sub-language of the
  offline monitor; see there for the two sorts of floats, samples, segments, the layered function table) extended by what the
  stateful classes need:

  * objects: `DV.obj cls store` - the attributes `self.x` of a method are the locals named "self.x"; a method call runs the
    body on the object's store plus the arguments and returns the new store together with the result (`runFn` for a
    method); `S.mcall` (`t = self.a.m(args)`) and `S.new` (`self.a = Cls(args)`) call the table entries "Cls.m" /
    "Cls.__init__" one layer down and store the changed object back;
  * `break` (`Ctl.brk`) next to `return`;
  * list concatenation `a + b`, `x.copy()` (a call of `list`);
  * a time stamp may be compared with `-float('inf')` (the initial `residual_start` of the bounded once): `XT`;
  * `float('nan')` is truthy (`prev = float('nan')` of the operation classes; case 1 of the online intersection had
    `last = float('nan')` before its repair to `last = []`).

  `harness/py2lean.py` translates the sources into `Rtamt/Py/GeneratedDenseOn.lean` on every run; the driver command
  `denseongen` runs the translated classes next to the real monitor; `RtamtProofs/GenDenseOn*.lean` relate them to the
  mirror `Rtamt/Dense/AlgOn.lean`, on which `C05_online_mirror_partial` is proved.
-/
import Rtamt.Dense.AlgOn

namespace Rtamt.Py.DnOn
open Rtamt Val Rtamt.Dense.Alg

inductive DV (α : Type)
  | none
  | nan
  | uinf (neg : Bool)
  | tm (t : Tm)
  | val (x : α)
  | int (n : Int)
  | bool (b : Bool)
  | cmp (c : Cmp)
  | fn (name : String)
  | pair (a b : DV α)
  | smp (t : Tm) (p : DV α)
  | seg (lo hi : Tm) (x : α)
  | list (l : List (DV α))
  | obj (cls : String) (store : List (String × DV α))
  deriving Inhabited

inductive BinOp | add | sub | mul | div | lt | le | gt | ge | eq | ne
  deriving DecidableEq, Repr, Inhabited

inductive E
  | loc (x : String)
  | int (n : Int)
  | inf | nan | noneLit | emptyList
  | boolLit (b : Bool)
  | cmpc (c : Cmp)
  | fnRef (name : String)
  | neg (e : E)
  | not (e : E)
  | bin (op : BinOp) (a b : E)
  | and_ (a b : E)
  | or_ (a b : E)
  | idx (e i : E)
  | sliceFrom (e : E) (n : Nat)
  | list2 (a b : E)
  | tup3 (a b c : E)
  | tup4 (a b c d : E)
  | call1 (f : String) (a : E)
  | call2 (f : String) (a b : E)
  | call3 (f : String) (a b c : E)
  | call4 (f : String) (a b c d : E)
  | unsupported (what : String)
  deriving Repr, Inhabited

inductive S
  | skip
  | seq (a b : S)
  | setLoc (x : String) (e : E)
  | unpack (xs : List String) (e : E)
  | appendLoc (x : String) (e : E)
  | insert0 (x : String) (e : E)
  | delIdx (x : String) (i : E)          -- `del x[i]`, `x.pop(i)` as a statement
  | ite (c : E) (t e : S)
  | while_ (c : E) (body : S)
  | forIn (x : String) (it : E) (body : S)
  | forEnum (i x : String) (it : E) (rev : Bool) (body : S)
  | ret (e : E)
  | brk
  | mcall (target : Option String) (obj : String) (meth : String) (args : List E)   -- [t =] self.a.m(args)
  | new (target : String) (cls : String) (args : List E)                          -- t = Cls(args)
  | raise (k : PyErr)
  | unsupported (what : String)
  deriving Repr, Inhabited

structure Fn where
  name : String
  params : List String
  body : S
  isMethod : Bool := false          -- the first parameter is `self`
  deriving Repr, Inhabited

abbrev Env (α : Type) := List (String × DV α)

variable {α : Type} [Val α]

def getLoc (k : String) (env : Env α) : Except PyErr (DV α) :=
  match env.lookup k with
  | some v => .ok v
  | none => .error .key

def setLoc {β : Type} (k : String) (v : β) : List (String × β) → List (String × β)
  | [] => [(k, v)]
  | (k', v') :: r => if k' == k then (k, v) :: r else (k', v') :: setLoc k v r

/-! ### the two sorts of floats -/

/-- A float in a position that holds a time stamp. -/
def toTm : DV α → Except PyErr Tm
  | .tm t => .ok t
  | .int n => .ok (.fin n)
  | .uinf false => .ok .inf
  | _ => .error .type

/-- A float in a position that holds a sample value; the integer literal `0` is the only integer compared with values. -/
def toVal : DV α → Except PyErr α
  | .val x => .ok x
  | .uinf false => .ok Val.pinf
  | .uinf true => .ok Val.ninf
  | .int 0 => .ok Val.zero
  | _ => .error .type

/-- The payload of a sample: untyped infinities become values. -/
def toPayload : DV α → Except PyErr (DV α)
  | .uinf false => .ok (.val Val.pinf)
  | .uinf true => .ok (.val Val.ninf)
  | .val x => .ok (.val x)
  | .bool b => .ok (.bool b)
  | .pair a b => .ok (.pair a b)
  | .nan => .ok .nan
  | _ => .error .type

def isTimeLike : DV α → Bool
  | .tm _ => true
  | _ => false

def isValLike : DV α → Bool
  | .val _ => true
  | _ => false

def numEq (a b : α) : Bool := !Val.lt a b && !Val.lt b a

def cmpTm (op : BinOp) (a b : Tm) : Except PyErr Bool :=
  match op with
  | .lt => .ok (Tm.lt a b)
  | .gt => .ok (Tm.lt b a)
  | .le => .ok (Tm.le a b)
  | .ge => .ok (Tm.le b a)
  | .eq => .ok (a == b)
  | .ne => .ok (!(a == b))
  | _ => .error .type

/-- Time stamps extended by `-float('inf')` (the initial `residual_start` of `OnceTimedOperation`). -/
inductive XT | ninf | t (x : Tm)
  deriving DecidableEq, Repr, Inhabited

def toXT : DV α → Except PyErr XT
  | .uinf true => .ok .ninf
  | v => (toTm v).map XT.t

def XT.lt : XT → XT → Bool
  | .ninf, .ninf => false
  | .ninf, .t _ => true
  | .t _, .ninf => false
  | .t a, .t b => Tm.lt a b

def cmpXT (op : BinOp) (a b : XT) : Except PyErr Bool :=
  match op with
  | .lt => .ok (XT.lt a b)
  | .gt => .ok (XT.lt b a)
  | .le => .ok (!XT.lt b a)
  | .ge => .ok (!XT.lt a b)
  | .eq => .ok (a == b)
  | .ne => .ok (!(a == b))
  | _ => .error .type

def cmpVal (op : BinOp) (a b : α) : Except PyErr Bool :=
  match op with
  | .lt => .ok (Val.lt a b)
  | .gt => .ok (Val.lt b a)
  | .le => .ok (!Val.lt b a)
  | .ge => .ok (!Val.lt a b)
  | .eq => .ok (numEq a b)
  | .ne => .ok (vne a b)
  | _ => .error .type

def cmpInt (op : BinOp) (a b : Int) : Except PyErr Bool :=
  match op with
  | .lt => .ok (decide (a < b))
  | .gt => .ok (decide (b < a))
  | .le => .ok (decide (a ≤ b))
  | .ge => .ok (decide (b ≤ a))
  | .eq => .ok (decide (a = b))
  | .ne => .ok (!decide (a = b))
  | _ => .error .type

def isCmp : BinOp → Bool
  | .lt | .le | .gt | .ge | .eq | .ne => true
  | _ => false

/-- Comparison of two floats / integers / Booleans / pairs of values. `nan` compares unequal to everything. -/
def cmpDV (op : BinOp) (x y : DV α) : Except PyErr Bool :=
  match x, y with
  | .nan, _ => if isCmp op then .ok (op == .ne) else .error .type
  | _, .nan => if isCmp op then .ok (op == .ne) else .error .type
  | .int a, .int b => cmpInt op a b
  | .bool a, .bool b =>
      match op with
      | .eq => .ok (a == b)
      | .ne => .ok (a != b)
      | _ => .error .type
  | .cmp a, .cmp b =>
      match op with
      | .eq => .ok (decide (a = b))
      | .ne => .ok (!decide (a = b))
      | _ => .error .type
  | .pair a b, .pair c d =>
      -- `[a, b] != [c, d]` on the pairs `intersect.split` builds (lists of two values)
      match op, a, b, c, d with
      | .ne, .val a, .val b, .val c, .val d => .ok (vne a c || vne b d)
      | .eq, .val a, .val b, .val c, .val d => .ok (!(vne a c || vne b d))
      | _, _, _, _, _ => .error .type
  | x, y =>
      if isTimeLike x || isTimeLike y then do cmpXT op (← toXT x) (← toXT y)
      else if isValLike x || isValLike y then do cmpVal op (← toVal x) (← toVal y)
      else .error .type

def arith (op : BinOp) (x y : DV α) : Except PyErr (DV α) :=
  match op, x, y with
  | .add, .int a, .int b => .ok (.int (a + b))
  | .sub, .int a, .int b => .ok (.int (a - b))
  | .mul, .int a, .int b => .ok (.int (a * b))
  | .add, .list a, .list b => .ok (.list (a ++ b))
  | op, x, y =>
      if isTimeLike x || isTimeLike y then do
        -- a time stamp shifted by a bound
        let a ← toTm x
        match (← toTm y), op with
        | .fin q, .add => pure (.tm (a.add q))
        | .fin q, .sub => pure (.tm (a.sub q))
        | _, _ => throw .type
      else if isValLike x || isValLike y then do
        let a ← toVal x
        let b ← toVal y
        match op with
        | .add => pure (.val (Val.add a b))
        | .sub => pure (.val (Val.sub a b))
        | .mul => pure (.val (Val.mul a b))
        | .div => pure (.val (Val.div a b))
        | _ => throw .type
      else .error .type

def evalBin (op : BinOp) (x y : DV α) : Except PyErr (DV α) :=
  if isCmp op then (cmpDV op x y).map .bool else arith op x y

def evalNeg : DV α → Except PyErr (DV α)
  | .val x => .ok (.val (Val.neg x))
  | .uinf b => .ok (.uinf (!b))
  | .int n => .ok (.int (-n))
  | .nan => .ok .nan
  | _ => .error .type

/-- Python truthiness of the values conditions are made of. -/
def truthy : DV α → Except PyErr Bool
  | .bool b => .ok b
  | .list l => .ok (!l.isEmpty)
  | .none => .ok false
  | .int n => .ok (n != 0)
  | .nan => .ok true
  | .smp _ _ => .ok true
  | .seg _ _ _ => .ok true
  | .pair _ _ => .ok true
  | _ => .error .type

def pyIndex (n : Nat) (i : Int) : Except PyErr Nat :=
  if 0 ≤ i then (if i.toNat < n then .ok i.toNat else .error .index)
  else (if (-i).toNat ≤ n then .ok (n - (-i).toNat) else .error .index)

def evalIdx (x : DV α) (i : DV α) : Except PyErr (DV α) :=
  match x, i with
  | .list l, .int i => do
      let k ← pyIndex l.length i
      match l[k]? with
      | some v => pure v
      | none => throw .index
  | .smp t p, .int i => do
      match (← pyIndex 2 i) with
      | 0 => pure (.tm t)
      | _ => pure p
  | .seg lo hi v, .int i => do
      match (← pyIndex 3 i) with
      | 0 => pure (.tm lo)
      | 1 => pure (.tm hi)
      | _ => pure (.val v)
  | .pair a b, .int i => do
      match (← pyIndex 2 i) with
      | 0 => pure a
      | _ => pure b
  | _, _ => .error .type

/-- `[a, b]`: a sample when the first component is a time stamp, the pair of `intersect.split` when it is a value, a list
    of two otherwise (`[[0, c], [inf, c]]`). -/
def mkList2 (a b : DV α) : Except PyErr (DV α) :=
  match a with
  | .tm t => do pure (.smp t (← toPayload b))
  | .int n => do pure (.smp (.fin n) (← toPayload b))
  | .uinf false => do pure (.smp .inf (← toPayload b))
  | .val x =>
      match b with
      | .val y => .ok (.pair (.val x) (.val y))
      | .uinf s => .ok (.pair (.val x) (.val (if s then Val.ninf else Val.pinf)))
      | _ => .error .type
  | .smp t p => .ok (.list [.smp t p, b])
  | _ => .error .type

/-- `(lo, hi, value)`. -/
def mkSeg (a b c : DV α) : Except PyErr (DV α) := do
  pure (.seg (← toTm a) (← toTm b) (← toVal c))

/-- Functions of the standard library the code calls. -/
def builtin (f : String) (args : List (DV α)) : Except PyErr (DV α) :=
  match f, args with
  | "max", [a, b] =>
      -- `max(a_start, b_start)` in `SinceOperation` is taken of two time stamps
      if isTimeLike a || isTimeLike b then do
        let x ← toTm a
        let y ← toTm b
        pure (.tm (if Tm.lt x y then y else x))
      else do pure (.val (pmax (← toVal a) (← toVal b)))
  | "min", [a, b] =>
      if isTimeLike a || isTimeLike b then do
        let x ← toTm a
        let y ← toTm b
        pure (.tm (if Tm.lt y x then y else x))
      else do pure (.val (pmin (← toVal a) (← toVal b)))
  | "abs", [a] => do pure (.val (Val.abs (← toVal a)))
  | "math.sqrt", [a] => do pure (.val (Val.sqrt (← toVal a)))
  | "math.exp", [a] => do pure (.val (Val.exp (← toVal a)))
  | "math.log", [a] => do pure (.val (Val.ln (← toVal a)))
  | "math.log", [a, b] => do pure (.val (Val.log (← toVal a) (← toVal b)))
  | "math.pow", [a, b] => do pure (.val (Val.pow (← toVal a) (← toVal b)))
  | "float", [a] => do pure (.val (← toVal a))
  | "len", [.list l] => .ok (.int l.length)
  | "list", [.list l] => .ok (.list l)
  | "list", [] => .ok (.list [])
  | _, _ => .error .type

/-- A name in call position: a local that holds a function reference (`method`), or the name itself. -/
def resolve (env : Env α) (f : String) : String :=
  match env.lookup f with
  | some (.fn g) => g
  | _ => f

abbrev Call (α : Type) := String → List (DV α) → Except PyErr (DV α)

def evalE (call : Call α) (env : Env α) : E → Except PyErr (DV α)
  | .loc x => getLoc x env
  | .int n => .ok (.int n)
  | .inf => .ok (.uinf false)
  | .nan => .ok .nan
  | .noneLit => .ok .none
  | .emptyList => .ok (.list [])
  | .boolLit b => .ok (.bool b)
  | .cmpc c => .ok (.cmp c)
  | .fnRef g => .ok (.fn g)
  | .neg e => do evalNeg (← evalE call env e)
  | .not e => do pure (.bool (!(← truthy (← evalE call env e))))
  | .bin op a b => do
      let x ← evalE call env a
      let y ← evalE call env b
      evalBin op x y
  | .and_ a b => do
      let x ← evalE call env a
      if (← truthy x) then evalE call env b else pure x
  | .or_ a b => do
      let x ← evalE call env a
      if (← truthy x) then pure x else evalE call env b
  | .idx e i => do
      let x ← evalE call env e
      let k ← evalE call env i
      evalIdx x k
  | .sliceFrom e n => do
      match (← evalE call env e) with
      | .list l => pure (.list (l.drop n))
      | _ => throw .type
  | .list2 a b => do
      let x ← evalE call env a
      let y ← evalE call env b
      mkList2 x y
  | .tup3 a b c => do
      let x ← evalE call env a
      let y ← evalE call env b
      let z ← evalE call env c
      mkSeg x y z
  | .tup4 a b c d => do
      let x ← evalE call env a
      let y ← evalE call env b
      let z ← evalE call env c
      let u ← evalE call env d
      pure (.list [x, y, z, u])
  | .call1 f a => do
      let x ← evalE call env a
      call (resolve env f) [x]
  | .call2 f a b => do
      let x ← evalE call env a
      let y ← evalE call env b
      call (resolve env f) [x, y]
  | .call3 f a b c => do
      let x ← evalE call env a
      let y ← evalE call env b
      let z ← evalE call env c
      call (resolve env f) [x, y, z]
  | .call4 f a b c d => do
      let x ← evalE call env a
      let y ← evalE call env b
      let z ← evalE call env c
      let u ← evalE call env d
      call (resolve env f) [x, y, z, u]
  | .unsupported _ => .error .other

/-- How a statement ends: normally, by `return v`, or by `break`. -/
inductive Ctl (α : Type)
  | none
  | ret (v : DV α)
  | brk
  deriving Inhabited

/-- The result of a statement: the new locals, and how it ended. -/
abbrev Res (α : Type) := Env α × Ctl α

/-- `while c: body`; running out of fuel is reported as `ValueError` (no statement of the code raises one). -/
def whileLoop (cond : Env α → Except PyErr Bool) (body : Env α → Except PyErr (Res α)) :
    Nat → Env α → Except PyErr (Res α)
  | 0, _ => .error .value
  | fuel + 1, env => do
      if (← cond env) then
        let (env', r) ← body env
        match r with
        | .ret v => pure (env', .ret v)
        | .brk => pure (env', .none)
        | .none => whileLoop cond body fuel env'
      else pure (env, .none)

/-- A `for` loop over the items `its` (each item binds some locals). -/
def forLoop (bind : DV α × Nat → Env α → Env α) (body : Env α → Except PyErr (Res α)) :
    List (DV α × Nat) → Env α → Except PyErr (Res α)
  | [], env => .ok (env, .none)
  | it :: rest, env => do
      let (env', r) ← body (bind it env)
      match r with
      | .ret v => pure (env', .ret v)
      | .brk => pure (env', .none)
      | .none => forLoop bind body rest env'

def delAt (l : List (DV α)) (i : Int) : Except PyErr (List (DV α)) := do
  let k ← pyIndex l.length i
  pure (l.eraseIdx k)

def exec (call : Call α) (fuel : Nat) : S → Env α → Except PyErr (Res α)
  | .skip, env => .ok (env, .none)
  | .seq a b, env => do
      let (env', r) ← exec call fuel a env
      match r with
      | .none => exec call fuel b env'
      | c => pure (env', c)
  | .setLoc x e, env => do
      let v ← evalE call env e
      pure (setLoc x v env, .none)
  | .unpack xs e, env => do
      match (← evalE call env e) with
      | .list l =>
          if l.length ≠ xs.length then throw .value else
          pure ((xs.zip l).foldl (fun env p => setLoc p.1 p.2 env) env, .none)
      | _ => throw .type
  | .appendLoc x e, env => do
      let v ← evalE call env e
      match (← getLoc x env) with
      | .list l => pure (setLoc x (.list (l ++ [v])) env, .none)
      | _ => throw .type
  | .insert0 x e, env => do
      let v ← evalE call env e
      match (← getLoc x env) with
      | .list l => pure (setLoc x (.list (v :: l)) env, .none)
      | _ => throw .type
  | .delIdx x i, env => do
      match (← getLoc x env), (← evalE call env i) with
      | .list l, .int k => do
          let l' ← delAt l k
          pure (setLoc x (.list l') env, .none)
      | _, _ => throw .type
  | .ite c t e, env => do
      if (← truthy (← evalE call env c)) then exec call fuel t env else exec call fuel e env
  | .while_ c body, env =>
      whileLoop (fun env => do truthy (← evalE call env c)) (exec call fuel body) fuel env
  | .forIn x it body, env => do
      match (← evalE call env it) with
      | .list l => forLoop (fun p env => setLoc x p.1 env) (exec call fuel body) (l.map (fun v => (v, 0))) env
      | _ => throw .type
  | .forEnum i x it rev body, env => do
      match (← evalE call env it) with
      | .list l =>
          let items := l.zipIdx
          forLoop (fun p env => setLoc x p.1 (setLoc i (.int p.2) env)) (exec call fuel body)
            (if rev then items.reverse else items) env
      | _ => throw .type
  | .ret e, env => do
      let v ← evalE call env e
      pure (env, .ret v)
  | .brk, env => .ok (env, .brk)
  | .mcall target o m args, env => do
      let vs ← args.mapM (evalE call env)
      match (← getLoc o env) with
      | .obj cls store => do
          match (← call (cls ++ "." ++ m) (.obj cls store :: vs)) with
          | .list [o', r] =>
              let env1 := setLoc o o' env
              pure (match target with | some t => setLoc t r env1 | none => env1, .none)
          | _ => throw .type
      | _ => throw .type
  | .new target cls args, env => do
      let vs ← args.mapM (evalE call env)
      match (← call (cls ++ ".__init__") (.obj cls [] :: vs)) with
      | .list [o', _] => pure (setLoc target o' env, .none)
      | _ => throw .type
  | .raise k, _ => .error k
  | .unsupported _, _ => .error .other

def isSelfKey (k : String) : Bool := k.startsWith "self."

/-- Call of a translated function: a function that ends without `return` returns `None`.  A method gets the object as its first
    argument: its attributes are the locals "self.x" of the body, and the call returns `[object', result]`. -/
def runFn (call : Call α) (fuel : Nat) (f : Fn) (args : List (DV α)) : Except PyErr (DV α) := do
  if f.isMethod then
    match args with
    | .obj cls store :: rest => do
        if rest.length + 1 ≠ f.params.length then throw .type
        let (env, r) ← exec call fuel f.body (store ++ (f.params.drop 1).zip rest)
        let res := match r with | .ret v => v | _ => .none
        pure (.list [.obj cls (env.filter (fun p => isSelfKey p.1)), res])
    | _ => throw .type
  else do
    if args.length ≠ f.params.length then throw .type
    let (_, r) ← exec call fuel f.body (f.params.zip args)
    pure (match r with | .ret v => v | _ => .none)

/-- The function table at call depth `k`: the code has no recursion, a call goes one layer down. -/
def callAt (fns : List (String × Fn)) (fuel : Nat) : Nat → Call α
  | 0 => builtin
  | k + 1 => fun f args =>
      match fns.lookup f with
      | some fn => runFn (callAt fns fuel k) fuel fn args
      | none => builtin f args

/-! ### encodings of the mirror's data -/

def encSmp (p : Tm × α) : DV α := .smp p.1 (.val p.2)
def encSig (s : ASig α) : DV α := .list (s.map encSmp)

def decSig : DV α → Option (ASig α)
  | .list l => l.mapM (fun v => match v with
      | .smp t (.val x) => some (t, x)
      | _ => Option.none)
  | _ => Option.none

end Rtamt.Py.DnOn
