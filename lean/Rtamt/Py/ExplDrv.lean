/-
  The driver of the explainer and its result container, as far as `explain()` uses them:

    * `Explanations.__setitem__` (`rtamt/explanation/ltl/discrete_time/explainer.py`) - a `dict` subclass; a second record for a
      name is merged with what is there by `interval_union`;
    * `LTLExplainer.explain` / `STLExplainer.explain` (`…/ltl/…/explainer.py`, `…/stl/…/explainer.py`) - the loop over the
      assertions, `top_signal[0] < 0`, the initial `[[[0, 0]], False]`, the fresh `Explanations()`;
    * `LTLExplainer.__init__`, `STLExplainer.__init__`;
    * `AbstractOfflineSpecification.explain` (`rtamt/spec/abstract_specification.py`).

  `harness/py2lean.py` (`generate_expl_driver`) translates the bodies of these methods, purely syntactically, into terms of
  `DE` / `DR` / `DS` (`GeneratedExplDrv.lean`, regenerated on every run); this file gives the terms their meaning.

  Objects.  Four objects are reachable from these methods and are named (`ObjId`): the explainer (a store of attributes that
  the methods read and assign), the AST object (`.specs`: the assertions, `.results`: node -> list of floats), the
  specification object (`.explainer`, `.offline_interpreter`, `.ast`) and the offline interpreter
  (`.time_unit_transformer`).  `Explanations` objects live on a heap (`World.dicts`, `dictRef i`): `Explanations()` allocates
  an empty one, `dict.__setitem__(d, k, v)` updates in place, so that an explainer that keeps pointing to an old dictionary
  keeps the old contents.  Interval lists are values (the code copies them with `list(i)` before merging).

  Calls.  A call of a module-level function (`interval_union`) runs the function *as translated* in `GeneratedExpl.lean`
  (`Ctx.funcs`, under `Sem.lean`); a method call on one of the named objects (`self.visit(..)`,
  `self.explainer.explain(..)`) is handed to `Ctx.meth` (the runner `RunExplDrv.lean` ties the knot: `visit` is the run of the
  translated visit methods, whose `self.explanations[name] = intervals` is `Explanations.__setitem__` as translated).
  Calls have effects and occur only as a whole statement or the right-hand side of an assignment (`DR`); the expressions
  proper (`DE`) are pure.
-/
import Rtamt.Py.RunExpl

namespace Rtamt.Py.Drv
open Rtamt Rtamt.Py Val

inductive ObjId | explainer | ast | specification | interp
  deriving DecidableEq, Repr, Inhabited

abbrev Dict := List (String × IvsZ)

inductive DV (α : Type)
  | none
  | bool (b : Bool)
  | int (n : Int)
  | num (x : α)
  | str (s : String)                 -- a dictionary key (`element.name`)
  | sig (l : List α)                 -- `results[node]`
  | iv (b e : Int)                   -- `[b, e]`
  | ivs (l : IvsZ)                   -- `[[b, e], …]`
  | pair (a b : DV α)                -- any other two-element list (`[intervals, flag]`)
  | node (φ : F α)
  | nodes (l : List (F α))           -- `ast.specs`
  | results                          -- `ast.results`
  | ref (o : ObjId)
  | dictRef (i : Nat)                -- an `Explanations` object
  | tut                              -- `offline_interpreter.time_unit_transformer` (a bound method): passed on, never called here
  deriving Inhabited

inductive DE
  | loc (x : String)                 -- a local / parameter (`self` included)
  | attr (e : DE) (a : String)       -- e.a
  | none_ | true_ | false_
  | int (n : Int)
  | emptyList                        -- []
  | list1 (a : DE)                   -- [a]
  | list2 (a b : DE)                 -- [a, b]
  | idx (e i : DE)                   -- e[i]
  | lt (a b : DE)                    -- a < b
  | isIn (a b : DE)                  -- a in b
  | add (a b : DE)                   -- a + b
  | listOf (e : DE)                  -- list(e)
  | comp (body : DE) (x : String) (it : DE)     -- [body for x in it]
  | neg (e : DE)                     -- -e
  | sliceFrom (e lo : DE)            -- e[lo:]
  | unsupported (what : String)
  deriving Repr, Inhabited, DecidableEq

/-- Right-hand sides / expression statements: an expression or one call. -/
inductive DR
  | pure (e : DE)
  | call (f : String) (args : List DE)                 -- f(args…), `f` a global name
  | meth (recv : DE) (m : String) (args : List DE)     -- recv.m(args…)
  | methG (g m : String) (args : List DE)              -- G.m(args…), `G` a global name (`dict.__setitem__(self, …)`)
  | unsupported (what : String)
  deriving Repr, Inhabited, DecidableEq

inductive DS
  | skip
  | seq (a b : DS)
  | setLoc (x : String) (r : DR)
  | setAttr (e : DE) (a : String) (r : DR)             -- e.a = r
  | expr (r : DR)
  | ite (c : DE) (t e : DS)
  | forIn (x : String) (it : DE) (body : DS)
  | unsupported (what : String)
  deriving Repr, Inhabited, DecidableEq

structure DMethod where
  params : List String               -- `self` first
  body : DS
  deriving Repr, Inhabited, DecidableEq

def DE.supported : DE → Bool
  | .unsupported _ => false
  | .attr e _ => e.supported
  | .list1 a => a.supported
  | .list2 a b => a.supported && b.supported
  | .idx a b => a.supported && b.supported
  | .lt a b => a.supported && b.supported
  | .isIn a b => a.supported && b.supported
  | .add a b => a.supported && b.supported
  | .listOf e => e.supported
  | .comp b _ it => b.supported && it.supported
  | .neg e => e.supported
  | .sliceFrom e lo => e.supported && lo.supported
  | _ => true

def DR.supported : DR → Bool
  | .pure e => e.supported
  | .call _ as => as.all DE.supported
  | .meth r _ as => r.supported && as.all DE.supported
  | .methG _ _ as => as.all DE.supported
  | .unsupported _ => false

def DS.supported : DS → Bool
  | .skip => true
  | .seq a b => a.supported && b.supported
  | .setLoc _ r => r.supported
  | .setAttr e _ r => e.supported && r.supported
  | .expr r => r.supported
  | .ite c t e => c.supported && t.supported && e.supported
  | .forIn _ it b => it.supported && b.supported
  | .unsupported _ => false

variable {α : Type} [Val α]

structure World (α : Type) where
  specs : List (F α)                        -- `ast.specs`
  results : F α → List α                    -- `ast.results[node]`
  explainer : List (String × DV α)          -- the attributes of the explainer object
  dicts : List Dict                         -- the `Explanations` objects allocated so far

structure Ctx (α : Type) where
  funcs : List (String × Method)            -- the module-level functions visible where the method is defined
  meth : ObjId → String → List (DV α) → World α → Except PyErr (DV α × World α)

abbrev Locals (α : Type) := List (String × DV α)

def getAttr (w : World α) : DV α → String → Except PyErr (DV α)
  | .ref .explainer, a => getKey a w.explainer
  | .ref .ast, "specs" => .ok (.nodes w.specs)
  | .ref .ast, "results" => .ok .results
  | .ref .specification, "explainer" => .ok (.ref .explainer)
  | .ref .specification, "offline_interpreter" => .ok (.ref .interp)
  | .ref .specification, "ast" => .ok (.ref .ast)
  | .ref .interp, "time_unit_transformer" => .ok .tut
  | _, _ => .error .other

def setAttrV (w : World α) : DV α → String → DV α → Except PyErr (World α)
  | .ref .explainer, a, v => .ok { w with explainer := setKey a v w.explainer }
  | _, _, _ => .error .other

def evalIdxD (w : World α) : DV α → DV α → Except PyErr (DV α)
  | .results, .node φ => .ok (.sig (w.results φ))
  | .sig l, .int i =>
      if i < 0 then .error .other else
      match l[i.toNat]? with
      | some x => .ok (.num x)
      | Option.none => .error .index
  | .dictRef i, .str k =>
      match w.dicts[i]? with
      | some d => (getKey k d).map .ivs
      | Option.none => .error .other
  | .ivs l, .int i =>
      if i < 0 then .error .other else
      match l[i.toNat]? with
      | some p => .ok (.iv p.1 p.2)
      | Option.none => .error .index
  | .pair a _, .int 0 => .ok a
  | .pair _ b, .int 1 => .ok b
  | _, _ => .error .type

def evalLt : DV α → DV α → Except PyErr (DV α)
  | .num x, .int 0 => .ok (.bool (Val.lt x Val.zero))
  | .num x, .num y => .ok (.bool (Val.lt x y))
  | .int a, .int b => .ok (.bool (decide (a < b)))
  | _, _ => .error .type

def evalIn (w : World α) : DV α → DV α → Except PyErr (DV α)
  | .str k, .dictRef i =>
      match w.dicts[i]? with
      | some d => .ok (.bool (d.lookup k).isSome)
      | Option.none => .error .other
  | _, _ => .error .type

def mkList1 : DV α → Except PyErr (DV α)
  | .iv b e => .ok (.ivs [(b, e)])
  | _ => .error .type

def mkList2 : DV α → DV α → DV α
  | .int a, .int b => .iv a b
  | .iv a b, .iv c d => .ivs [(a, b), (c, d)]
  | x, y => .pair x y

def asIv : DV α → Except PyErr (Int × Int)
  | .iv b e => .ok (b, e)
  | _ => .error .type

def evalDE (w : World α) (loc : Locals α) : DE → Except PyErr (DV α)
  | .loc x => getKey x loc
  | .attr e a => do getAttr w (← evalDE w loc e) a
  | .none_ => .ok .none
  | .true_ => .ok (.bool true)
  | .false_ => .ok (.bool false)
  | .int n => .ok (.int n)
  | .emptyList => .ok (.ivs [])
  | .list1 a => do mkList1 (← evalDE w loc a)
  | .list2 a b => do
      let x ← evalDE w loc a
      let y ← evalDE w loc b
      pure (mkList2 x y)
  | .idx e i => do
      let x ← evalDE w loc e
      let k ← evalDE w loc i
      evalIdxD w x k
  | .lt a b => do
      let x ← evalDE w loc a
      let y ← evalDE w loc b
      evalLt x y
  | .isIn a b => do
      let x ← evalDE w loc a
      let y ← evalDE w loc b
      evalIn w x y
  | .add a b => do
      match (← evalDE w loc a), (← evalDE w loc b) with
      | .ivs l, .ivs r => pure (.ivs (l ++ r))
      | _, _ => .error .type
  | .listOf e => do
      match (← evalDE w loc e) with
      | .iv b e => pure (.iv b e)               -- a copy of `[b, e]`
      | _ => .error .type
  | .comp body x it => do
      match (← evalDE w loc it) with
      | .ivs l => do
          let vs ← l.mapM (fun p => do asIv (← evalDE w (setKey x (.iv p.1 p.2) loc) body))
          pure (.ivs vs)
      | _ => .error .type
  | .neg e => do
      match (← evalDE w loc e) with
      | .int n => pure (.int (-n))
      | _ => .error .type
  | .sliceFrom e lo => do
      match (← evalDE w loc e), (← evalDE w loc lo) with
      | .nodes l, .int k => pure (.nodes (l.drop (sliceIdx l.length k)))     -- Python slice bounds: `Sem.sliceIdx`
      | _, _ => .error .type
  | .unsupported _ => .error .other

/-- The values handed to a translated module-level function. -/
def toV : DV α → Except PyErr (V α)
  | .ivs l => .ok (encZ l)
  | .sig l => .ok (.list l)
  | .int n => .ok (.int n)
  | _ => .error .type

def fromV (v : V α) : Except PyErr (DV α) := (ivsOf v).map .ivs

def callGlobal (ctx : Ctx α) (f : String) (vs : List (DV α)) (w : World α) : Except PyErr (DV α × World α) :=
  match f, vs with
  | "Explanations", [] => .ok (.dictRef w.dicts.length, { w with dicts := w.dicts ++ [[]] })    -- `dict.__init__`: empty
  | f, vs => do
      let as ← vs.mapM toV
      let r ← callFn ctx.funcs f as
      pure (← fromV r, w)

/-- `G.m(args…)` for a global `G`: only `dict.__setitem__(d, key, intervals)`. -/
def callMethG (g m : String) (vs : List (DV α)) (w : World α) : Except PyErr (DV α × World α) :=
  match g, m, vs with
  | "dict", "__setitem__", [.dictRef i, .str k, .ivs I] =>
      match w.dicts[i]? with
      | some d => .ok (.none, { w with dicts := w.dicts.set i (setKey k I d) })
      | Option.none => .error .other
  | _, _, _ => .error .other

def evalDR (ctx : Ctx α) (w : World α) (loc : Locals α) : DR → Except PyErr (DV α × World α)
  | .pure e => do pure (← evalDE w loc e, w)
  | .call f args => do
      let vs ← args.mapM (evalDE w loc)
      callGlobal ctx f vs w
  | .meth recv m args => do
      let r ← evalDE w loc recv
      let vs ← args.mapM (evalDE w loc)
      match r with
      | .ref o => ctx.meth o m vs w
      | _ => .error .other
  | .methG g m args => do
      let vs ← args.mapM (evalDE w loc)
      callMethG g m vs w
  | .unsupported _ => .error .other

def execDS (ctx : Ctx α) : DS → World α × Locals α → Except PyErr (World α × Locals α)
  | .skip, s => .ok s
  | .seq a b, s => do execDS ctx b (← execDS ctx a s)
  | .setLoc x r, (w, loc) => do
      let (v, w1) ← evalDR ctx w loc r
      pure (w1, setKey x v loc)
  | .setAttr e a r, (w, loc) => do
      let (v, w1) ← evalDR ctx w loc r
      let o ← evalDE w1 loc e
      let w2 ← setAttrV w1 o a v
      pure (w2, loc)
  | .expr r, (w, loc) => do
      let (_, w1) ← evalDR ctx w loc r
      pure (w1, loc)
  | .ite c t e, (w, loc) => do
      match (← evalDE w loc c) with
      | .bool true => execDS ctx t (w, loc)
      | .bool false => execDS ctx e (w, loc)
      | _ => .error .type
  | .forIn x it body, (w, loc) => do
      match (← evalDE w loc it) with
      | .nodes l => l.foldlM (fun s φ => execDS ctx body (s.1, setKey x (.node φ) s.2)) (w, loc)
      | _ => .error .type
  | .unsupported _, _ => .error .other

/-- A call of a translated method (all of them return `None`): the world after it. -/
def callD (ctx : Ctx α) (m : DMethod) (w : World α) (args : List (DV α)) : Except PyErr (World α) := do
  if args.length ≠ m.params.length then throw .type
  let (w1, _) ← execDS ctx m.body (w, m.params.zip args)
  pure w1

end Rtamt.Py.Drv
