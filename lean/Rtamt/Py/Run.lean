/-
  The online monitor run through the *translated* operation classes (`GeneratedOps.lean`) and the
  semantics of the Python subset (`Sem.lean`).  Which class is constructed for which node, with which
  arguments, is read from the table extracted from the construction visitor (`GeneratedOnCtor.lean`);
  the update / reset visitors' order (children first, then the node's operation object) is hand-written
  like `stepTree`.  Used by the driver (`ondgen`, `ondgenreset`): the correspondence check
  compares the real monitor with this run too, which validates the semantics given to the Python
  subset, and with the hand-written mirror (`ond`), which the theorems of `RtamtProofs/GenOps.lean`
  prove equal.
-/
import Rtamt.Py.GeneratedOps
import Rtamt.Py.GeneratedOnCtor
import Rtamt.Py.RunOff
import Rtamt.Discrete.Online

namespace Rtamt.Py
open Rtamt Val

variable {α : Type} [Val α]

inductive GTree (α : Type)
  | leaf
  | n1 (c : Class) (s : Store α) (k : GTree α)
  | n2 (c : Class) (s : Store α) (l r : GTree α)
  deriving Inhabited

/-- The operation class of a given name among the translated classes. -/
def classByName (n : String) : Option Class := Gen.all.find? (fun c => c.name == n)

/-- What the construction visitor does for a node class (`GeneratedOnCtor.lean`, extracted from the source). -/
def ctorOf (k : Kind) : Option CtorAction := Gen.OnCtor.table.lookup (visitName k)

/-- `online_operator_dict[node.name] = Cls(args…)`: the class and the freshly constructed object.  A `visitX` that only raises
    gives RTAMTException; a node class the visitor does not override registers no operator, and the first update fails with
    KeyError. -/
def buildOp (k : Kind) (operator : Option Cmp) (iv : Option (Nat × Nat)) : Except PyErr (Class × Store α) :=
  match ctorOf k with
  | some (.builds cls args) => do
      match classByName cls with
      | none => throw .other
      | some c =>
          let vs ← args.mapM (fun a => match a, operator, iv with
            | .operator, some o, _ => (.ok (.cmp o) : Except PyErr (V α))
            | .begin_, _, some (a, _) => .ok (.int a)
            | .end_, _, some (_, b) => .ok (.int b)
            | _, _, _ => .error .type)
          let s ← construct c vs
          pure (c, s)
  | some .raises => .error .rtamt
  | some (.unsupported _) => .error .other
  | none => .error .key

/-- A `visitX` that only raises does so before the children are visited. -/
def raisesFirst (k : Kind) : Except PyErr Unit :=
  match ctorOf k with
  | some .raises => .error .rtamt
  | _ => .ok ()

def initG : F α → Except PyErr (GTree α)
  | .var _ => .ok .leaf
  | .const _ => .ok .leaf
  | .un op φ => do
      raisesFirst op.kind
      let k ← initG φ
      let (c, s) ← buildOp op.kind none none
      pure (.n1 c s k)
  | .bin op φ ψ => do
      raisesFirst op.kind
      let l ← initG φ
      let r ← initG ψ
      match op with
      | .predSat _ | .predZero => throw .other        -- the interface-aware forms are not run through the generated classes
      | _ =>
        let (c, s) ← buildOp op.kind (match op with | .pred o => some o | _ => none) none
        pure (.n2 c s l r)
  | .tmp1 op φ => do
      raisesFirst op.kind
      let k ← initG φ
      let (c, s) ← buildOp op.kind none none
      pure (.n1 c s k)
  | .tmp2 op φ ψ => do
      raisesFirst op.kind
      let l ← initG φ
      let r ← initG ψ
      let (c, s) ← buildOp op.kind none none
      pure (.n2 c s l r)
  | .tb1 op a b φ => do
      raisesFirst op.kind
      let k ← initG φ
      let (c, s) ← buildOp op.kind none (some (a, b))
      pure (.n1 c s k)
  | .tb2 op a b φ ψ => do
      raisesFirst op.kind
      let l ← initG φ
      let r ← initG ψ
      let (c, s) ← buildOp op.kind none (some (a, b))
      pure (.n2 c s l r)

def stepG (env : String → α) : F α → GTree α → Except PyErr (GTree α × α)
  | .var x, .leaf => .ok (.leaf, env x)
  | .const c, .leaf => .ok (.leaf, c)
  | .un _ φ, .n1 c s k | .tmp1 _ φ, .n1 c s k | .tb1 _ _ _ φ, .n1 c s k => do
      let (k', v) ← stepG env φ k
      let (s', o) ← update c s [.num v]
      pure (.n1 c s' k', ← numOf o)
  | .bin _ φ ψ, .n2 c s l r | .tmp2 _ φ ψ, .n2 c s l r | .tb2 _ _ _ φ ψ, .n2 c s l r => do
      let (l', v1) ← stepG env φ l
      let (r', v2) ← stepG env ψ r
      let (s', o) ← update c s [.num v1, .num v2]
      pure (.n2 c s' l' r', ← numOf o)
  | _, _ => .error .type

def resetG : GTree α → Except PyErr (GTree α)
  | .leaf => .ok .leaf
  | .n1 c s k => do pure (.n1 c (← reset c s) (← resetG k))
  | .n2 c s l r => do pure (.n2 c (← reset c s) (← resetG l) (← resetG r))

def runG (φ : F α) : GTree α → List (String → α) → Except PyErr (GTree α × List α)
  | t, [] => .ok (t, [])
  | t, e :: es => do
      let (t', o) ← stepG e φ t
      let (t'', os) ← runG φ t' es
      pure (t'', o :: os)

end Rtamt.Py
