/-
  The online monitor run through the *translated* operation classes (`GeneratedOps.lean`) and the
  semantics of the Python subset (`Sem.lean`), with the same glue as `stepTree` (children first, then
  the node's operation object).  Used by the driver (`ondgen`, `ondgenreset`): the correspondence check
  compares the real monitor with this run too, which validates the semantics given to the Python
  subset, and with the hand-written mirror (`ond`), which the theorems of `RtamtProofs/GenOps.lean`
  prove equal.
-/
import Rtamt.Py.GeneratedOps
import Rtamt.Discrete.Online

namespace Rtamt.Py
open Rtamt Val

variable {α : Type} [Val α]

inductive GTree (α : Type)
  | leaf
  | n1 (c : Class) (s : Store α) (k : GTree α)
  | n2 (c : Class) (s : Store α) (l r : GTree α)
  deriving Inhabited

def clsUn : Un → Class
  | .abs => Gen.AbsOperation | .sqrt => Gen.SqrtOperation | .exp => Gen.ExpOperation | .ln => Gen.LnOperation
  | .negate => Gen.NegateOperation | .not => Gen.NotOperation

def clsBin : Bin → Except PyErr (Class × List (V α))
  | .add => .ok (Gen.AdditionOperation, []) | .sub => .ok (Gen.SubtractionOperation, [])
  | .mul => .ok (Gen.MultiplicationOperation, []) | .div => .ok (Gen.DivisionOperation, [])
  | .pow => .ok (Gen.PowOperation, []) | .log => .ok (Gen.LogOperation, [])
  | .and => .ok (Gen.AndOperation, []) | .or => .ok (Gen.OrOperation, [])
  | .implies => .ok (Gen.ImpliesOperation, []) | .iff => .ok (Gen.IffOperation, []) | .xor => .ok (Gen.XorOperation, [])
  | .pred c => .ok (Gen.PredicateOperation, [.cmp c])
  | _ => .error .other                      -- the interface-aware forms are not run through the generated classes

def clsT1 : T1 → Except PyErr Class
  | .rise => .ok Gen.RiseOperation | .fall => .ok Gen.FallOperation | .prev => .ok Gen.PreviousOperation
  | .sprev => .ok Gen.StrongPreviousOperation | .once => .ok Gen.OnceOperation | .hist => .ok Gen.HistoricallyOperation
  | _ => .error .rtamt

def clsTB1 : TB1 → Except PyErr Class
  | .once => .ok Gen.OnceTimedOperation | .hist => .ok Gen.HistoricallyTimedOperation
  | _ => .error .rtamt

def clsTB2 : TB2 → Except PyErr Class
  | .since => .ok Gen.SinceTimedOperation | .precedes => .ok Gen.PrecedesTimedOperation
  | _ => .error .rtamt

def initG : F α → Except PyErr (GTree α)
  | .var _ => .ok .leaf
  | .const _ => .ok .leaf
  | .un op φ => do
      let k ← initG φ
      let c := clsUn op
      pure (.n1 c (← construct c []) k)
  | .bin op φ ψ => do
      let l ← initG φ
      let r ← initG ψ
      let (c, args) ← clsBin op
      pure (.n2 c (← construct c args) l r)
  | .tmp1 op φ => do
      let c ← clsT1 op
      let k ← initG φ
      pure (.n1 c (← construct c []) k)
  | .tmp2 op φ ψ => do
      match op with
      | .since =>
          let l ← initG φ
          let r ← initG ψ
          pure (.n2 Gen.SinceOperation (← construct Gen.SinceOperation []) l r)
      | .until => throw .rtamt
  | .tb1 op a b φ => do
      let c ← clsTB1 op
      let k ← initG φ
      pure (.n1 c (← construct c [.int a, .int b]) k)
  | .tb2 op a b φ ψ => do
      let c ← clsTB2 op
      let l ← initG φ
      let r ← initG ψ
      pure (.n2 c (← construct c [.int a, .int b]) l r)

def stepG (env : String → α) : F α → GTree α → Except PyErr (GTree α × α)
  | .var x, .leaf => .ok (.leaf, env x)
  | .const c, .leaf => .ok (.leaf, c)
  | .un _ φ, .n1 c s k | .tmp1 _ φ, .n1 c s k | .tb1 _ _ _ φ, .n1 c s k => do
      let (k', v) ← stepG env φ k
      let (s', o) ← update c s [.num v]
      pure (.n1 c s' k', ← numOf o)
  | .bin _ φ ψ, .n2 c s l r | .tmp2 _ φ ψ, .n2 c s l r | .tb2 _ _ _ φ ψ, .n2 c s l r => do
      let (l', v1) ← stepG env φ l
      let (r', v2) ← stepG env ψ r
      let (s', o) ← update c s [.num v1, .num v2]
      pure (.n2 c s' l' r', ← numOf o)
  | _, _ => .error .type

def resetG : GTree α → Except PyErr (GTree α)
  | .leaf => .ok .leaf
  | .n1 c s k => do pure (.n1 c (← reset c s) (← resetG k))
  | .n2 c s l r => do pure (.n2 c (← reset c s) (← resetG l) (← resetG r))

def runG (φ : F α) : GTree α → List (String → α) → Except PyErr (GTree α × List α)
  | t, [] => .ok (t, [])
  | t, e :: es => do
      let (t', o) ← stepG e φ t
      let (t'', os) ← runG φ t' es
      pure (t'', o :: os)

end Rtamt.Py
