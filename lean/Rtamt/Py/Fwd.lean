/-
  The specification-level API of `rtamt/spec/abstract_specification.py`: the methods of `AbstractSpecification`,
  `AbstractOfflineSpecification` and `AbstractOnlineSpecification` that forward to the interpreter(s) a specification
  object owns — `set_sampling_period`, `get_sampling_frequency`, the properties `sampling_violation_counter` and
  `sampling_tolerance`, and the `set_ast` bookkeeping at the head of `evaluate()` / `update()` / `reset()`.

  `harness/py2lean.py` translates the bodies of these methods, purely syntactically, into terms of `FE` / `FS`
  (`GeneratedFwd.lean`, regenerated on every run); this file gives the terms their meaning.  A specification object is a
  record of up to two interpreters (`hasattr(self, 'online_interpreter')`), each discrete- or dense-time
  (`isinstance(self.x, DiscreteTimeInterpreter)` …); a call that reaches an interpreter is either one of the methods
  whose effect is modelled (`set_sampling_period`, `set_ast`, the attributes of the sampling bookkeeping) or an opaque
  call (`evaluate`, `update`, `reset`) that is *recorded* together with whether the interpreter had been given its AST —
  an interpreter used before `set_ast` raises `AttributeError` in the code.

  `RtamtProofs/GenFwd.lean` proves that the translated methods act as the mirror functions below (`SpecObj.…`).
-/
import Rtamt.Discrete.Sampling

namespace Rtamt.Py.Fwd
open Rtamt

/-- Which interpreter class an attribute holds (the `isinstance` tests of the source). -/
inductive IKind | discreteOffline | discreteOnline | denseOffline | denseOnline
  deriving DecidableEq, Repr, Inhabited

def IKind.discrete : IKind → Bool
  | .discreteOffline | .discreteOnline => true
  | _ => false

/-- The class names the source tests with `isinstance`. -/
def IKind.isa (k : IKind) (cls : String) : Except PyErr Bool :=
  match cls with
  | "DiscreteTimeInterpreter" => .ok k.discrete
  | "AbstractDenseTimeOfflineInterpreter" => .ok (k == .denseOffline)
  | "AbstractDiscreteTimeOfflineInterpreter" => .ok (k == .discreteOffline)
  | "AbstractDenseTimeOnlineInterpreter" => .ok (k == .denseOnline)
  | "AbstractDiscreteTimeOnlineInterpreter" => .ok (k == .discreteOnline)
  | _ => .error .other

/-- Values. -/
inductive FV
  | none
  | bool (b : Bool)
  | int (n : Int)
  | rat (q : Rat)
  | unit (u : TUnit)
  | opaque (n : Nat)             -- a data set, a time stamp, … : passed on, never inspected
  | list (l : List FV)
  | ast                          -- `self.ast`
  deriving Repr, Inhabited, BEq

/-- A call that reached an interpreter and whose effect is not modelled here. -/
structure Event where
  target : String          -- the attribute (`online_interpreter` / `offline_interpreter`)
  method : String
  args : List FV
  hasAst : Bool            -- had `set_ast` been called on it before?
  deriving Repr, BEq

/-- An interpreter as far as this layer sees it. -/
structure Interp where
  kind : IKind
  period : Rat := 1
  periodUnit : TUnit := .s
  tol : Rat := 1 / 10
  viol : Nat := 0
  hasAst : Bool := false
  deriving Repr, BEq

structure SpecObj where
  online : Option Interp := Option.none
  offline : Option Interp := Option.none
  flags : List (String × Bool) := []         -- `set_ast_flag` and its like
  log : List Event := []                     -- newest first
  deriving Repr, BEq

def SpecObj.interp (o : SpecObj) (a : String) : Except PyErr (Option Interp) :=
  match a with
  | "online_interpreter" => .ok o.online
  | "offline_interpreter" => .ok o.offline
  | _ => .error .other

def SpecObj.setInterp (o : SpecObj) (a : String) (i : Interp) : SpecObj :=
  match a with
  | "online_interpreter" => { o with online := some i }
  | "offline_interpreter" => { o with offline := some i }
  | _ => o

inductive FE
  | loc (x : String)
  | none_
  | true_
  | false_
  | int (n : Int)
  | emptyList
  | hasAttr (a : String)                        -- hasattr(self, 'a')
  | isInst (a cls : String)                     -- isinstance(self.a, cls)
  | flag (f : String)                           -- self.f   (a Boolean attribute of the specification object)
  | selfAst                                     -- self.ast
  | attrOf (a f : String)                       -- self.a.f
  | callOf (a m : String) (args : List FE)      -- self.a.m(args…)
  | orElse (x y : FE)                           -- x or y
  | add (x y : FE)
  | ne (x y : FE)
  | eq (x y : FE)
  | lenOf (x : FE)
  | idx (x : FE) (k : Nat)                      -- x[k]
  | listOf (xs : List FE)                       -- [x, …]
  | unsupported (what : String)
  deriving Repr, Inhabited

inductive FS
  | skip
  | seq (a b : FS)
  | setLoc (x : String) (e : FE)
  | setFlag (f : String) (e : FE)               -- self.f = e
  | ite (c : FE) (t e : FS)
  | expr (e : FE)                               -- an expression statement (a call)
  | mkExc                                       -- `RTAMTException('…')` as a statement: builds an exception, does not raise it
  | raise_ (rtamt : Bool)                       -- raise RTAMTException(…) / raise Exception(…)
  | ret (e : FE)
  | retNone
  | forAppend (i : String) (xs : FE) (tgt : String)   -- for i in xs: tgt.append(i)
  | unsupported (what : String)
  deriving Repr, Inhabited

structure FMethod where
  params : List String
  body : FS
  deriving Repr, Inhabited

abbrev Locals := List (String × FV)

def lget (x : String) (l : Locals) : Except PyErr FV :=
  match l.lookup x with
  | some v => .ok v
  | none => .error .other

def lset (x : String) (v : FV) (l : Locals) : Locals := (x, v) :: l.filter (fun p => p.1 != x)

/-- Python truthiness of the values that occur. -/
def truthy : FV → Bool
  | .none => false
  | .bool b => b
  | .int n => n != 0
  | .rat q => q != 0
  | .list l => !l.isEmpty
  | _ => true

def fvEq : FV → FV → Bool
  | .none, .none => true
  | .bool a, .bool b => a == b
  | .int a, .int b => a == b
  | .int a, .bool b => a == (if b then 1 else 0)
  | .bool a, .int b => (if a then 1 else 0) == b
  | .rat a, .rat b => a == b
  | _, _ => false

/-- A call on an interpreter: the modelled methods, else an event. -/
def callInterp (o : SpecObj) (a m : String) (args : List FV) : Except PyErr (FV × SpecObj) := do
  match (← o.interp a) with
  | Option.none => .error .other
  | some i =>
      match m, args with
      | "set_sampling_period", [p, .unit u, .rat t] =>
          -- `DiscreteTimeInterpreter.set_sampling_period` (translated on its own: `gen_interp_set_sampling_period`):
          -- period and unit are assigned before the tolerance is checked
          let p' : Except PyErr Rat := match p with
            | .rat q => .ok q
            | .int n => .ok (n : Rat)
            | _ => .error .type
          do
            let q ← p'
            let i1 := { i with period := q, periodUnit := u }
            if t < 0 ∨ t > 1 then
              -- the exception leaves the method: the object keeps the new period and unit
              .error .other
            else
              pure (.none, o.setInterp a { i1 with tol := t })
      | "set_ast", [.ast] => pure (.none, o.setInterp a { i with hasAst := true })
      | "get_sampling_frequency", [] =>
          if i.period * (i.periodUnit.nanos : Rat) = 0 then .error .other
          else pure (.rat (1000000000 * 1 / (i.period * (i.periodUnit.nanos : Rat))), o)
      | _, _ => pure (.opaque 0, { o with log := { target := a, method := m, args := args, hasAst := i.hasAst } :: o.log })

def attrInterp (o : SpecObj) (a f : String) : Except PyErr FV := do
  match (← o.interp a) with
  | Option.none => .error .other
  | some i =>
      match f with
      | "sampling_violation_counter" => .ok (.int i.viol)
      | "sampling_tolerance" => .ok (.rat i.tol)
      | _ => .error .other

mutual
def evalFE (o : SpecObj) (l : Locals) : FE → Except PyErr (FV × SpecObj)
  | .loc x => do pure (← lget x l, o)
  | .none_ => .ok (.none, o)
  | .true_ => .ok (.bool true, o)
  | .false_ => .ok (.bool false, o)
  | .int n => .ok (.int n, o)
  | .emptyList => .ok (.list [], o)
  | .hasAttr a => do pure (.bool (← o.interp a).isSome, o)
  | .isInst a cls => do
      match (← o.interp a) with
      | some i => do pure (.bool (← i.kind.isa cls), o)
      | Option.none => .error .other
  | .flag f =>
      match o.flags.lookup f with
      | some b => .ok (.bool b, o)
      | Option.none => .error .other
  | .selfAst => .ok (.ast, o)
  | .attrOf a f => do pure (← attrInterp o a f, o)
  | .callOf a m args => do
      let (vs, o1) ← evalArgs o l args
      callInterp o1 a m vs
  | .orElse x y => do
      let (v, o1) ← evalFE o l x
      if truthy v then pure (v, o1) else evalFE o1 l y
  | .add x y => do
      let (v, o1) ← evalFE o l x
      let (w, o2) ← evalFE o1 l y
      match v, w with
      | .int a, .int b => pure (.int (a + b), o2)
      | _, _ => .error .type
  | .ne x y => do
      let (v, o1) ← evalFE o l x
      let (w, o2) ← evalFE o1 l y
      pure (.bool (!fvEq v w), o2)
  | .eq x y => do
      let (v, o1) ← evalFE o l x
      let (w, o2) ← evalFE o1 l y
      pure (.bool (fvEq v w), o2)
  | .lenOf x => do
      match (← evalFE o l x) with
      | (.list xs, o1) => pure (.int xs.length, o1)
      | _ => .error .type
  | .idx x k => do
      match (← evalFE o l x) with
      | (.list xs, o1) =>
          match xs[k]? with
          | some v => pure (v, o1)
          | Option.none => .error .index
      | _ => .error .type
  | .listOf xs => do
      let (vs, o1) ← evalArgs o l xs
      pure (.list vs, o1)
  | .unsupported _ => .error .other

def evalArgs (o : SpecObj) (l : Locals) : List FE → Except PyErr (List FV × SpecObj)
  | [] => .ok ([], o)
  | e :: es => do
      let (v, o1) ← evalFE o l e
      let (vs, o2) ← evalArgs o1 l es
      pure (v :: vs, o2)
end

/-- Execution: the new object and locals, and the returned value once a `return` was reached. -/
def execFS : FS → SpecObj → Locals → Except PyErr (SpecObj × Locals × Option FV)
  | .skip, o, l => .ok (o, l, Option.none)
  | .seq a b, o, l => do
      match (← execFS a o l) with
      | (o1, l1, Option.none) => execFS b o1 l1
      | r => pure r
  | .setLoc x e, o, l => do
      let (v, o1) ← evalFE o l e
      pure (o1, lset x v l, Option.none)
  | .setFlag f e, o, l => do
      match (← evalFE o l e) with
      | (.bool b, o1) => pure ({ o1 with flags := (f, b) :: o1.flags.filter (fun p => p.1 != f) }, l, Option.none)
      | _ => .error .type
  | .ite c t e, o, l => do
      let (v, o1) ← evalFE o l c
      if truthy v then execFS t o1 l else execFS e o1 l
  | .expr e, o, l => do
      let (_, o1) ← evalFE o l e
      pure (o1, l, Option.none)
  | .mkExc, o, l => .ok (o, l, Option.none)
  | .raise_ r, _, _ => .error (if r then .rtamt else .other)
  | .ret e, o, l => do
      let (v, o1) ← evalFE o l e
      pure (o1, l, some v)
  | .retNone, o, l => .ok (o, l, some .none)
  | .forAppend _ xs tgt, o, l => do
      match (← evalFE o l xs), (← lget tgt l) with
      | (.list vs, o1), .list acc => pure (o1, lset tgt (.list (acc ++ vs)) l, Option.none)
      | _, _ => .error .type
  | .unsupported _, _, _ => .error .other

/-- A method call on the specification object: the returned value (`None` when the body runs off its end). -/
def callF (m : FMethod) (o : SpecObj) (args : List FV) : Except PyErr (FV × SpecObj) := do
  if args.length ≠ m.params.length then throw .type
  let (o1, _, r) ← execFS m.body o (m.params.zip args)
  pure (r.getD .none, o1)

/-! ### the mirror: what the methods are meant to do -/

def Interp.setSampling (i : Interp) (p : Rat) (u : TUnit) (t : Rat) : Interp :=
  { i with period := p, periodUnit := u, tol := t }

/-- `spec.set_sampling_period(p, u, t)` with a tolerance in `[0, 1]`: every discrete-time interpreter the object owns
    gets the three values. -/
def SpecObj.setSampling (o : SpecObj) (p : Rat) (u : TUnit) (t : Rat) : SpecObj :=
  { o with
    online := o.online.map (fun i => if i.kind.discrete then i.setSampling p u t else i)
    offline := o.offline.map (fun i => if i.kind.discrete then i.setSampling p u t else i) }

/-- `spec.sampling_violation_counter`: the sum over the discrete-time interpreters; `None` when there is none. -/
def SpecObj.violations (o : SpecObj) : Option Nat :=
  let on := o.online.bind (fun i => if i.kind.discrete then some i.viol else Option.none)
  let off := o.offline.bind (fun i => if i.kind.discrete then some i.viol else Option.none)
  match on, off with
  | Option.none, Option.none => Option.none
  | some a, Option.none => some a
  | Option.none, some b => some b
  | some a, some b => some (a + b)

end Rtamt.Py.Fwd
