/-
  The explainer run through the functions of `explanations.py` and the table of visit methods of
  `explainer.py` *translated from the source* (`GeneratedExpl.lean`) under the semantics of the Python
  subset (`Sem.lean`), with the dispatch of `StlAstVisitor.visit` (`visitName`) and the default
  `visitChildren` (the operands are visited with the same `[intervals, flag]`) for a node class the
  explainer does not override.

  `self.spec.results[child]` is the offline result of the operand, `rho σ n ψ 0 … n-1` (C01).
  Returned: the `(variable, intervals)` pairs the visit records, in the order of the visit (the
  records of operator nodes influence nothing and are left out; `Explanations.__setitem__` merges the
  intervals recorded for one name with `interval_union`).  A method of the `STLExplainer` class sees the
  functions of the STL module, an inherited one those of the LTL module.
-/
import Rtamt.Py.GeneratedExpl
import Rtamt.Py.RunOff
import Rtamt.Discrete.ExplainU

namespace Rtamt.Py
open Rtamt Val

abbrev IvsZ := List (Int × Int)

variable {α : Type} [Val α]

/-- A Python list of intervals (the empty list carries no element type). -/
def encZ (I : IvsZ) : V α := if I.isEmpty then .dlist [] else .ivs I

def ivsOf : V α → Except PyErr IvsZ
  | .dlist [] => .ok []
  | .ivs l => .ok l
  | _ => .error .type

/-- `self.spec.results[ψ]`. -/
def sigOf (σ : String → Nat → α) (n : Nat) (ψ : F α) : V α := .list ((List.range n).map (rho σ n ψ))

def explAction (k : Kind) : Option (ExplAction × List (String × Method)) :=
  match Gen.Expl.stlActions.lookup (visitName k) with
  | some a => some (a, Gen.Expl.stlFuncs)
  | none => (Gen.Expl.ltlActions.lookup (visitName k)).map (fun a => (a, Gen.Expl.ltlFuncs))

def callFn (fs : List (String × Method)) (name : String) (args : List (V α)) : Except PyErr (V α) :=
  match fs.lookup name with
  | some m => (call m [] args).map (·.2)
  | none => .error .other

/-- The intervals handed to the operand of a unary node. -/
def childIvs1 (k : Kind) (sig : V α) (ab : Option (Nat × Nat)) (I : IvsZ) (flag : Bool) :
    Except PyErr (Option (IvsZ × Bool)) :=
  match explAction k with
  | none => .ok (some (I, flag))                       -- visitChildren
  | some (.un sat unsat timed neg, fs) => do
      let extra : List (V α) ← (if timed then
          match ab with
          | some (a, b) => .ok [.int a, .int b]
          | none => .error .other
        else .ok [])
      let r ← callFn fs (if flag then sat else unsat) ([sig, encZ I] ++ extra)
      let J ← ivsOf r
      pure (some (J, if neg then !flag else flag))
  | some (.leaf, _) => .ok none
  | some (.raises, _) => .error .rtamt
  | some _ => .error .other

/-- The intervals handed to the two operands of a binary node. -/
def childIvs2 (k : Kind) (sig1 sig2 : V α) (I : IvsZ) (flag : Bool) :
    Except PyErr (Option ((IvsZ × Bool) × (IvsZ × Bool))) :=
  match explAction k with
  | none => .ok (some ((I, flag), (I, flag)))
  | some (.bin sat unsat neg1 neg2, fs) => do
      match (← callFn fs (if flag then sat else unsat) [sig1, sig2, encZ I]) with
      | .pair r1 r2 => do
          let J1 ← ivsOf r1
          let J2 ← ivsOf r2
          pure (some ((J1, if neg1 then !flag else flag), (J2, if neg2 then !flag else flag)))
      | _ => .error .type
  | some (.leaf, _) => .ok none
  | some (.raises, _) => .error .rtamt
  | some _ => .error .other

def explainG (σ : String → Nat → α) (n : Nat) : F α → IvsZ → Bool → Except PyErr (List (String × IvsZ))
  | .var x, I, _ =>
      match explAction .Variable with
      | some (.leaf, _) => .ok [(x, I)]
      | some (.raises, _) => .error .rtamt
      | none => .ok []
      | some _ => .error .other
  | .const _, _, _ =>
      match explAction .Constant with
      | some (.leaf, _) => .ok []
      | some (.raises, _) => .error .rtamt
      | none => .ok []
      | some _ => .error .other
  | .un op φ, I, flag => do
      match (← childIvs1 op.kind (sigOf σ n φ) none I flag) with
      | some (J, f) => explainG σ n φ J f
      | none => pure []
  | .bin op φ ψ, I, flag => do
      match (← childIvs2 op.kind (sigOf σ n φ) (sigOf σ n ψ) I flag) with
      | some ((J1, f1), (J2, f2)) => do
          let a ← explainG σ n φ J1 f1
          let b ← explainG σ n ψ J2 f2
          pure (a ++ b)
      | none => pure []
  | .tmp1 op φ, I, flag => do
      match (← childIvs1 op.kind (sigOf σ n φ) none I flag) with
      | some (J, f) => explainG σ n φ J f
      | none => pure []
  | .tmp2 op φ ψ, I, flag => do
      match (← childIvs2 op.kind (sigOf σ n φ) (sigOf σ n ψ) I flag) with
      | some ((J1, f1), (J2, f2)) => do
          let a ← explainG σ n φ J1 f1
          let b ← explainG σ n ψ J2 f2
          pure (a ++ b)
      | none => pure []
  | .tb1 op a b φ, I, flag => do
      match (← childIvs1 op.kind (sigOf σ n φ) (some (a, b)) I flag) with
      | some (J, f) => explainG σ n φ J f
      | none => pure []
  | .tb2 op _ _ φ ψ, I, flag => do
      match (← childIvs2 op.kind (sigOf σ n φ) (sigOf σ n ψ) I flag) with
      | some ((J1, f1), (J2, f2)) => do
          let a ← explainG σ n φ J1 f1
          let b ← explainG σ n ψ J2 f2
          pure (a ++ b)
      | none => pure []

/-- `explain(spec)` for one assertion: only when it is violated at time 0 (`top_signal[0] < 0`), from
    `[[0, 0]]` and `False`. -/
def explainSpecG (σ : String → Nat → α) (n : Nat) (φ : F α) : Except PyErr (List (String × IvsZ)) :=
  if isUnsat (rho σ n φ 0) then explainG σ n φ [(0, 0)] false else .ok []

end Rtamt.Py
