/-
  M-spec (executable) for dense time: the robustness `rhoD φ w t` of a formula on
  piecewise-constant signals given as time-stamped sample lists, under the finitary
  interpretation the dense-time monitors implement:

    * a signal `[(τ0,v0), (τ1,v1), …]` is the right-continuous step function with value
      `vi` on `[τi, τ(i+1))` and the last value held on `[τn, ∞)`; it is undefined before `τ0`;
    * the domain of a formula starts at the latest start of its variables (`dom`);
    * bounded windows are closed: `once[a,b]` looks at `[t-b, t-a] ∩ [dom, ∞)`,
      `eventually[a,b]` at `[t+a, t+b]`;
    * `since` / `until` are non-strict (the witness may be the current instant) and
      require the left operand on the *closed* interval between the witness and `t`:
        (φ until ψ)(t) = sup_{t' ≥ t} min(ψ(t'), inf_{t'' ∈ [t, t']} φ(t'')).

  Because all signals are right-continuous step functions, every supremum over a closed
  window `[lo, hi]` is the maximum of the value at `lo` and the values at the
  break-points inside `(lo, hi]`; `bps φ` is a finite superset of the break-points of
  `rhoD φ`.  Time is `Rat`.
-/
import Rtamt.Syntax

namespace Rtamt.Dense
open Rtamt Val

abbrev DSig (α : Type) := List (Rat × α)
abbrev DEnv (α : Type) := List (String × DSig α)

variable {α : Type} [Val α]

/-- Value of a step signal at `t`: the last sample whose time stamp is `≤ t`. -/
def DSig.valAt : DSig α → Rat → Option α
  | [], _ => none
  | (τ, v) :: rest, t =>
      if t < τ then none
      else match DSig.valAt rest t with
           | some v' => some v'
           | none => some v

def DSig.times (s : DSig α) : List Rat := s.map (·.1)

def DEnv.sig (w : DEnv α) (x : String) : DSig α := (w.lookup x).getD []

/-- Start of the domain of a formula: the latest first time stamp of its variables
    (0 for a formula without variables, as the constant signal `[[0,c],[inf,c]]` of the code). -/
def dom (w : DEnv α) (φ : F α) : Rat :=
  (φ.vars.map (fun x => ((w.sig x).times.head?).getD 0)).foldl max 0

/-- End of the common input domain: the earliest last time stamp of the variables. -/
def domEnd (w : DEnv α) (φ : F α) : Option Rat :=
  match φ.vars.map (fun x => ((w.sig x).times.getLast?).getD 0) with
  | [] => none
  | t :: ts => some (ts.foldl min t)

/-- Bounds of the dense-time operators are in the default unit; the core syntax carries
    naturals — the correspondence harness scales time so that all bounds are integers
    (quarter grid ×4); `scale` is that factor's inverse applied here. -/
structure DCfg where
  scale : Rat := 1      -- a bound `k` of the core formula denotes the duration `k * scale`

/-- Candidate break-points (a finite superset of the break-points of `rhoD φ`). -/
def bps (cfg : DCfg) (w : DEnv α) : F α → List Rat
  | .var x => (w.sig x).times
  | .const _ => []
  | .un _ φ => bps cfg w φ
  | .bin _ φ ψ => bps cfg w φ ++ bps cfg w ψ
  | .tmp1 _ φ => bps cfg w φ
  | .tmp2 _ φ ψ => bps cfg w φ ++ bps cfg w ψ
  | .tb1 op a b φ =>
      let B := dom w φ :: bps cfg w φ
      match op with
      | .once | .hist => B.map (· + (a : Rat) * cfg.scale) ++ B.map (· + (b : Rat) * cfg.scale) ++ B
      | .ev | .alw => B.map (· - (a : Rat) * cfg.scale) ++ B.map (· - (b : Rat) * cfg.scale) ++ B
  | .tb2 op a b φ ψ =>
      let B := max (dom w φ) (dom w ψ) :: (bps cfg w φ ++ bps cfg w ψ)
      match op with
      | .since | .precedes => B ++ B.map (· + (a : Rat) * cfg.scale) ++ B.map (· + (b : Rat) * cfg.scale)
      | .until => B ++ B.map (· - (a : Rat) * cfg.scale) ++ B.map (· - (b : Rat) * cfg.scale)

/-- `sup` (or `inf`) of a right-continuous step function `g` with break-points in `B` over the
    closed window `[lo, hi]` (`hi = none`: unbounded above): value at `lo` and at the break-points
    in `(lo, hi]`.  `none` if `g` is undefined somewhere it is read. -/
def foldWin (f : α → α → α) (init : α) (g : Rat → Option α) (B : List Rat) (lo : Rat) (hi : Option Rat) :
    Option α :=
  let pts := lo :: B.filter (fun τ => decide (lo < τ) && (match hi with | some h => decide (τ ≤ h) | none => true))
  pts.foldlM (fun acc τ => (g τ).map (fun v => f acc v)) init

def rhoD (cfg : DCfg) (w : DEnv α) : F α → Rat → Option α
  | .var x => fun t => (w.sig x).valAt t
  | .const c => fun _ => some c
  | .un op φ => fun t => (rhoD cfg w φ t).map op.app
  | .bin op φ ψ => fun t => do
      let l ← rhoD cfg w φ t
      let r ← rhoD cfg w ψ t
      pure (op.app l r)
  | .tmp1 op φ => fun t =>
      let g := rhoD cfg w φ
      let B := bps cfg w φ
      let d := dom w φ
      if t < d then none else
      match op with
      | .once => foldWin pmax ninf g B d (some t)
      | .hist => foldWin pmin pinf g B d (some t)
      | .ev => foldWin pmax ninf g B t none
      | .alw => foldWin pmin pinf g B t none
      | _ => none                                  -- rise/fall/prev/next: not dense-time operators
  | .tmp2 op φ ψ => fun t =>
      let gφ := rhoD cfg w φ
      let gψ := rhoD cfg w ψ
      let Bφ := bps cfg w φ
      let B := bps cfg w φ ++ bps cfg w ψ
      let d := max (dom w φ) (dom w ψ)
      if t < d then none else
      match op with
      | .since =>
          -- sup_{t' ∈ [d, t]} min(ψ(t'), inf_{[t', t]} φ)
          foldWin pmax ninf
            (fun t' => do
              let r ← gψ t'
              let l ← foldWin pmin pinf gφ Bφ t' (some t)
              pure (pmin l r)) B d (some t)
      | .until =>
          -- sup_{t' ≥ t} min(ψ(t'), inf_{[t, t']} φ)
          foldWin pmax ninf
            (fun t' => do
              let r ← gψ t'
              let l ← foldWin pmin pinf gφ Bφ t (some t')
              pure (pmin l r)) B t none
  | .tb1 op a b φ => fun t =>
      let g := rhoD cfg w φ
      let B := bps cfg w φ
      let d := dom w φ
      let a' : Rat := a * cfg.scale
      let b' : Rat := b * cfg.scale
      if t < d then none else
      match op with
      | .once => if t - a' < d then some ninf else foldWin pmax ninf g B (max (t - b') d) (some (t - a'))
      | .hist => if t - a' < d then some pinf else foldWin pmin pinf g B (max (t - b') d) (some (t - a'))
      | .ev => foldWin pmax ninf g B (t + a') (some (t + b'))
      | .alw => foldWin pmin pinf g B (t + a') (some (t + b'))
  | .tb2 op a b φ ψ => fun t =>
      let gφ := rhoD cfg w φ
      let gψ := rhoD cfg w ψ
      let Bφ := bps cfg w φ
      let B := bps cfg w φ ++ bps cfg w ψ
      let d := max (dom w φ) (dom w ψ)
      let a' : Rat := a * cfg.scale
      let b' : Rat := b * cfg.scale
      if t < d then none else
      match op with
      | .since =>
          if t - a' < d then some ninf else
          foldWin pmax ninf
            (fun t' => do
              let r ← gψ t'
              let l ← foldWin pmin pinf gφ Bφ t' (some t)
              pure (pmin l r)) B (max (t - b') d) (some (t - a'))
      | .until =>
          foldWin pmax ninf
            (fun t' => do
              let r ← gψ t'
              let l ← foldWin pmin pinf gφ Bφ t (some t')
              pure (pmin l r)) B (t + a') (some (t + b'))
      | .precedes => none

end Rtamt.Dense

namespace Rtamt.Dense
open Rtamt Val

variable {α : Type} [Val α]

/-! ### bottom-up evaluator

`rhoD` re-evaluates the operands at every point it reads, which is exponential in the nesting
depth.  `sigOf` computes the step function of every sub-formula once, as a sample list over the
candidate break-points `bps`, and evaluates an operator at a point from the operand *lists*.
It is the evaluator the driver runs; it coincides with `rhoD` as long as `bps` is a superset
of the break-points (validated by the driver on every run against `rhoD`, see `Main.lean`). -/

def insertSorted (t : Rat) : List Rat → List Rat
  | [] => [t]
  | x :: xs => if t < x then t :: x :: xs else if t = x then x :: xs else x :: insertSorted t xs

def sortDedup (l : List Rat) : List Rat := l.foldl (fun acc t => insertSorted t acc) []

/-- Operand as a function of time, from its sample list (constants are defined everywhere). -/
def asFun (φ : F α) (s : DSig α) : Rat → Option α :=
  match φ with
  | .const c => fun _ => some c
  | _ => s.valAt

/-- One operator at one point, reading its operands through `gs`. -/
def opAt (cfg : DCfg) (w : DEnv α) (φ : F α) (gs : List (Rat → Option α)) (t : Rat) : Option α :=
  match φ, gs with
  | .var x, _ => (w.sig x).valAt t
  | .const c, _ => some c
  | .un op _, [g] => (g t).map op.app
  | .bin op _ _, [g1, g2] => do
      let l ← g1 t
      let r ← g2 t
      pure (op.app l r)
  | .tmp1 op ψ, [g] =>
      let B := bps cfg w ψ
      let d := dom w ψ
      if t < d then none else
      match op with
      | .once => foldWin pmax ninf g B d (some t)
      | .hist => foldWin pmin pinf g B d (some t)
      | .ev => foldWin pmax ninf g B t none
      | .alw => foldWin pmin pinf g B t none
      | _ => none
  | .tmp2 op ψ1 ψ2, [g1, g2] =>
      let B1 := bps cfg w ψ1
      let B := bps cfg w ψ1 ++ bps cfg w ψ2
      let d := max (dom w ψ1) (dom w ψ2)
      if t < d then none else
      match op with
      | .since =>
          foldWin pmax ninf
            (fun t' => do
              let r ← g2 t'
              let l ← foldWin pmin pinf g1 B1 t' (some t)
              pure (pmin l r)) B d (some t)
      | .until =>
          foldWin pmax ninf
            (fun t' => do
              let r ← g2 t'
              let l ← foldWin pmin pinf g1 B1 t (some t')
              pure (pmin l r)) B t none
  | .tb1 op a b ψ, [g] =>
      let B := bps cfg w ψ
      let d := dom w ψ
      let a' : Rat := a * cfg.scale
      let b' : Rat := b * cfg.scale
      if t < d then none else
      match op with
      | .once => if t - a' < d then some ninf else foldWin pmax ninf g B (max (t - b') d) (some (t - a'))
      | .hist => if t - a' < d then some pinf else foldWin pmin pinf g B (max (t - b') d) (some (t - a'))
      | .ev => foldWin pmax ninf g B (t + a') (some (t + b'))
      | .alw => foldWin pmin pinf g B (t + a') (some (t + b'))
  | .tb2 op a b ψ1 ψ2, [g1, g2] =>
      let B1 := bps cfg w ψ1
      let B := bps cfg w ψ1 ++ bps cfg w ψ2
      let d := max (dom w ψ1) (dom w ψ2)
      let a' : Rat := a * cfg.scale
      let b' : Rat := b * cfg.scale
      if t < d then none else
      match op with
      | .since =>
          if t - a' < d then some ninf else
          foldWin pmax ninf
            (fun t' => do
              let r ← g2 t'
              let l ← foldWin pmin pinf g1 B1 t' (some t)
              pure (pmin l r)) B (max (t - b') d) (some (t - a'))
      | .until =>
          foldWin pmax ninf
            (fun t' => do
              let r ← g2 t'
              let l ← foldWin pmin pinf g1 B1 t (some t')
              pure (pmin l r)) B (t + a') (some (t + b'))
      | .precedes => none
  | _, _ => none

/-- Sample list of a node from a point-evaluator: the candidate break-points `≥ dom`. -/
def sample (cfg : DCfg) (w : DEnv α) (φ : F α) (at_ : Rat → Option α) : DSig α :=
  let d := dom w φ
  let pts := sortDedup ((d :: bps cfg w φ).filter (fun t => decide (d ≤ t)))
  pts.filterMap (fun t => (at_ t).map (fun v => (t, v)))

def sigOf (cfg : DCfg) (w : DEnv α) : F α → DSig α
  | .var x => w.sig x
  | .const c => [(0, c)]
  | .un op φ =>
      let g := asFun φ (sigOf cfg w φ)
      sample cfg w (.un op φ) (opAt cfg w (.un op φ) [g])
  | .bin op φ ψ =>
      let g1 := asFun φ (sigOf cfg w φ)
      let g2 := asFun ψ (sigOf cfg w ψ)
      sample cfg w (.bin op φ ψ) (opAt cfg w (.bin op φ ψ) [g1, g2])
  | .tmp1 op φ =>
      let g := asFun φ (sigOf cfg w φ)
      sample cfg w (.tmp1 op φ) (opAt cfg w (.tmp1 op φ) [g])
  | .tmp2 op φ ψ =>
      let g1 := asFun φ (sigOf cfg w φ)
      let g2 := asFun ψ (sigOf cfg w ψ)
      sample cfg w (.tmp2 op φ ψ) (opAt cfg w (.tmp2 op φ ψ) [g1, g2])
  | .tb1 op a b φ =>
      let g := asFun φ (sigOf cfg w φ)
      sample cfg w (.tb1 op a b φ) (opAt cfg w (.tb1 op a b φ) [g])
  | .tb2 op a b φ ψ =>
      let g1 := asFun φ (sigOf cfg w φ)
      let g2 := asFun ψ (sigOf cfg w ψ)
      sample cfg w (.tb2 op a b φ ψ) (opAt cfg w (.tb2 op a b φ ψ) [g1, g2])

/-- Value of the formula at `t` through the bottom-up evaluator. -/
def evalAt (cfg : DCfg) (w : DEnv α) (φ : F α) (t : Rat) : Option α :=
  if t < dom w φ then none else asFun φ (sigOf cfg w φ) t

end Rtamt.Dense
