/-
  M-spec (executable) for dense time: the robustness `rhoD φ w t` of a formula on
  piecewise-constant signals given as time-stamped sample lists, under the finitary
  interpretation the dense-time monitors implement:

    * a signal `[(τ0,v0), (τ1,v1), …]` is the right-continuous step function with value
      `vi` on `[τi, τ(i+1))` and the last value held on `[τn, ∞)`; it is undefined before `τ0`;
    * the domain of a formula starts at the latest start of its variables (`dom`);
    * bounded windows are closed: `once[a,b]` looks at `[t-b, t-a] ∩ [dom, ∞)`,
      `eventually[a,b]` at `[t+a, t+b]`;
    * `since` / `until` are non-strict (the witness may be the current instant) and
      require the left operand on the *closed* interval between the witness and `t`:
        (φ until ψ)(t) = sup_{t' ≥ t} min(ψ(t'), inf_{t'' ∈ [t, t']} φ(t'')).

  Because all signals are right-continuous step functions, every supremum over a closed
  window `[lo, hi]` is the maximum of the value at `lo` and the values at the
  break-points inside `(lo, hi]`; `bps φ` is a finite superset of the break-points of
  `rhoD φ`.  Time is `Rat`.
-/
import Rtamt.Syntax

namespace Rtamt.Dense
open Rtamt Val

abbrev DSig (α : Type) := List (Rat × α)
abbrev DEnv (α : Type) := List (String × DSig α)

variable {α : Type} [Val α]

/-- Value of a step signal at `t`: the last sample whose time stamp is `≤ t`. -/
def DSig.valAt : DSig α → Rat → Option α
  | [], _ => none
  | (τ, v) :: rest, t =>
      if t < τ then none
      else match DSig.valAt rest t with
           | some v' => some v'
           | none => some v

def DSig.times (s : DSig α) : List Rat := s.map (·.1)

def DEnv.sig (w : DEnv α) (x : String) : DSig α := (w.lookup x).getD []

/-- Start of the domain of a formula: the latest first time stamp of its variables
    (0 for a formula without variables, as the constant signal `[[0,c],[inf,c]]` of the code). -/
def dom (w : DEnv α) (φ : F α) : Rat :=
  (φ.vars.map (fun x => ((w.sig x).times.head?).getD 0)).foldl max 0

/-- End of the common input domain: the earliest last time stamp of the variables. -/
def domEnd (w : DEnv α) (φ : F α) : Option Rat :=
  match φ.vars.map (fun x => ((w.sig x).times.getLast?).getD 0) with
  | [] => none
  | t :: ts => some (ts.foldl min t)

/-- Candidate break-points (a finite superset of the break-points of `rhoD φ`). -/
def bps (w : DEnv α) : F α → List Rat
  | .var x => (w.sig x).times
  | .const _ => []
  | .un _ φ => bps w φ
  | .bin _ φ ψ => bps w φ ++ bps w ψ
  | .tmp1 _ φ => bps w φ
  | .tmp2 _ φ ψ => bps w φ ++ bps w ψ
  | .tb1 op a b φ =>
      let B := bps w φ
      match op with
      | .once | .hist => B.map (· + (a : Rat)) ++ B.map (· + (b : Rat)) ++ B
      | .ev | .alw => B.map (· - (a : Rat)) ++ B.map (· - (b : Rat)) ++ B
  | .tb2 op a b φ ψ =>
      let B := bps w φ ++ bps w ψ
      match op with
      | .since | .precedes => B ++ B.map (· + (a : Rat)) ++ B.map (· + (b : Rat))
      | .until => B ++ B.map (· - (a : Rat)) ++ B.map (· - (b : Rat))

/-- `sup` (or `inf`) of a right-continuous step function `g` with break-points in `B` over the
    closed window `[lo, hi]` (`hi = none`: unbounded above): value at `lo` and at the break-points
    in `(lo, hi]`.  `none` if `g` is undefined somewhere it is read. -/
def foldWin (f : α → α → α) (init : α) (g : Rat → Option α) (B : List Rat) (lo : Rat) (hi : Option Rat) :
    Option α :=
  let pts := lo :: B.filter (fun τ => decide (lo < τ) && (match hi with | some h => decide (τ ≤ h) | none => true))
  pts.foldlM (fun acc τ => (g τ).map (fun v => f acc v)) init

/-- Bounds of the dense-time operators are in the default unit; the core syntax carries
    naturals — the correspondence harness scales time so that all bounds are integers
    (quarter grid ×4); `scale` is that factor's inverse applied here. -/
structure DCfg where
  scale : Rat := 1      -- a bound `k` of the core formula denotes the duration `k * scale`

def rhoD (cfg : DCfg) (w : DEnv α) : F α → Rat → Option α
  | .var x => fun t => (w.sig x).valAt t
  | .const c => fun _ => some c
  | .un op φ => fun t => (rhoD cfg w φ t).map op.app
  | .bin op φ ψ => fun t => do
      let l ← rhoD cfg w φ t
      let r ← rhoD cfg w ψ t
      pure (op.app l r)
  | .tmp1 op φ => fun t =>
      let g := rhoD cfg w φ
      let B := bps w φ
      let d := dom w φ
      if t < d then none else
      match op with
      | .once => foldWin pmax ninf g B d (some t)
      | .hist => foldWin pmin pinf g B d (some t)
      | .ev => foldWin pmax ninf g B t none
      | .alw => foldWin pmin pinf g B t none
      | _ => none                                  -- rise/fall/prev/next: not dense-time operators
  | .tmp2 op φ ψ => fun t =>
      let gφ := rhoD cfg w φ
      let gψ := rhoD cfg w ψ
      let Bφ := bps w φ
      let B := bps w φ ++ bps w ψ
      let d := max (dom w φ) (dom w ψ)
      if t < d then none else
      match op with
      | .since =>
          -- sup_{t' ∈ [d, t]} min(ψ(t'), inf_{[t', t]} φ)
          foldWin pmax ninf
            (fun t' => do
              let r ← gψ t'
              let l ← foldWin pmin pinf gφ Bφ t' (some t)
              pure (pmin l r)) B d (some t)
      | .until =>
          -- sup_{t' ≥ t} min(ψ(t'), inf_{[t, t']} φ)
          foldWin pmax ninf
            (fun t' => do
              let r ← gψ t'
              let l ← foldWin pmin pinf gφ Bφ t (some t')
              pure (pmin l r)) B t none
  | .tb1 op a b φ => fun t =>
      let g := rhoD cfg w φ
      let B := bps w φ
      let d := dom w φ
      let a' : Rat := a * cfg.scale
      let b' : Rat := b * cfg.scale
      if t < d then none else
      match op with
      | .once => if t - a' < d then some ninf else foldWin pmax ninf g B (max (t - b') d) (some (t - a'))
      | .hist => if t - a' < d then some pinf else foldWin pmin pinf g B (max (t - b') d) (some (t - a'))
      | .ev => foldWin pmax ninf g B (t + a') (some (t + b'))
      | .alw => foldWin pmin pinf g B (t + a') (some (t + b'))
  | .tb2 op a b φ ψ => fun t =>
      let gφ := rhoD cfg w φ
      let gψ := rhoD cfg w ψ
      let Bφ := bps w φ
      let B := bps w φ ++ bps w ψ
      let d := max (dom w φ) (dom w ψ)
      let a' : Rat := a * cfg.scale
      let b' : Rat := b * cfg.scale
      if t < d then none else
      match op with
      | .since =>
          if t - a' < d then some ninf else
          foldWin pmax ninf
            (fun t' => do
              let r ← gψ t'
              let l ← foldWin pmin pinf gφ Bφ t' (some t)
              pure (pmin l r)) B (max (t - b') d) (some (t - a'))
      | .until =>
          foldWin pmax ninf
            (fun t' => do
              let r ← gψ t'
              let l ← foldWin pmin pinf gφ Bφ t (some t')
              pure (pmin l r)) B (t + a') (some (t + b'))
      | .precedes => none

end Rtamt.Dense
