/-
  M-alg for dense time, online: a mirror of the incremental list algorithms of
  `rtamt/semantics/stl/dense_time/online/` (`intersection.py` with remainders and the pending `last` sample, the
  operation classes) and `rtamt/semantics/arithmetic/dense_time/online/`, statement by statement, with the state of
  every operation object as a value:

    Python                                              here
    -----------------------------------------------     ------------------------------
    intersection(l1, l2, method) -> out, last, r1, r2   `interOn` (`onLoop`, `tail1`, `tail2`)
    And/Or/Implies/Iff/Xor/Addition/…Operation.update   `binUpdate` on `BinSt` (buffers, `last_output`)
    PredicateOperation.update                           `binUpdate` with subtraction, then the comparison
    Abs/Sqrt/Exp/Ln/Negate/NotOperation.update          `Alg.mapUn`
    OnceOperation / HistoricallyOperation.update        `scanUpdate`
    SinceOperation.update                               `sinceUpdate` on `SinceSt`
    OnceTimedOperation / HistoricallyTimedOperation     `timedUpdate` on `TimedSt` (pending segments, `residual_start`)
    SinceTimedOperation.update                          `sinceTimedUpdate`
    the update visitor (one assertion)                  `stepOn` on the state tree `OnSt`

  The interpreter keys the operation objects by node name and updates a name once per `update()`; two occurrences of the
  same sub-formula then see the same inputs, so a tree of states behaves the same (the discrete-time counterpart of this
  is proved in C09).  Case 1 of the online intersection (interval 1 precedes interval 2) resets the pending sample:
  `last = []` (`Last.nil`), as the symmetric branches of the two tail loops do.

  The correspondence check feeds the same batches to the real `update()` and to `runOn` and compares every returned
  list sample by sample (`harness/dense.py`, stream `on-c/mirror`).
-/
import Rtamt.Dense.Alg

namespace Rtamt.Dense.AlgOn
open Rtamt Val Rtamt.Dense.Alg

variable {α : Type} [Val α]

/-- The pending sample `last` of the online intersection: `[]` or `[t, v]`. -/
inductive Last (β : Type)
  | nil
  | item (t : Tm) (v : β)
  deriving Repr, Inhabited

section inter
variable {β : Type}

/-- The main `while in_samples_1[1:] and in_samples_2[1:]` loop of the online `intersection`. -/
def onLoop (f : α → α → β) (ne : β → β → Bool) :
    ASig α → ASig α → ASig β → Last β → Except PyErr (ASig β × Last β × ASig α × ASig α)
  | (p1, v1) :: (c1, w1) :: r1, (p2, v2) :: (c2, w2) :: r2, out, last =>
      let lt := Tm.lt
      let o := f v1 v2
      let l1 := (p1, v1) :: (c1, w1) :: r1
      let l2 := (p2, v2) :: (c2, w2) :: r2
      let l1' := (c1, w1) :: r1
      let l2' := (c2, w2) :: r2
      if lt c1 p2 then onLoop f ne l1' l2 out .nil                                                        -- 1
      else if lt p1 c1 && c1 == p2 && lt p2 c2 then onLoop f ne l1' l2 out (.item p2 (f w1 v2))           -- 2
      else if lt p1 p2 && lt p2 c1 && lt c1 c2 then
        onLoop f ne l1' l2 (appendD ne out (p2, o)) (.item c1 (f w1 v2))                                  -- 3
      else if lt p1 p2 && lt p2 c1 && c1 == c2 then
        onLoop f ne l1' l2 (appendD ne out (p2, o)) (.item c2 (f w1 w2))                                  -- 4
      else if lt p2 p1 && lt p1 c1 && c1 == c2 then
        onLoop f ne l1' l2 (appendD ne out (p1, o)) (.item c2 (f w1 w2))                                  -- 5
      else if lt p1 p2 && lt p2 c2 && lt c2 c1 then
        onLoop f ne l1 l2' (appendD ne out (p2, o)) (.item c2 (f v1 w2))                                  -- 6
      else if p1 == p2 && lt p2 c2 && lt c2 c1 then
        onLoop f ne l1 l2' (appendD ne out (p2, o)) (.item c2 (f v1 w2))                                  -- 7
      else if p1 == p2 && lt p2 c2 && c2 == c1 then
        onLoop f ne l1' l2 (appendD ne out (p2, o)) (.item c2 (f w1 w2))                                  -- 8
      else if p1 == p2 && lt p2 c1 && lt c1 c2 then
        onLoop f ne l1' l2 (appendD ne out (p1, o)) (.item c1 (f w1 v2))                                  -- 9
      else if lt p2 p1 && lt p1 c1 && lt c1 c2 then
        onLoop f ne l1' l2 (appendD ne out (p1, o)) (.item c1 (f w1 v2))                                  -- 10
      else if lt p2 c2 && c2 == p1 && lt p1 c1 then onLoop f ne l1 l2' out (.item c2 (f v1 w2))           -- 11
      else if lt p2 p1 && lt p1 c2 && lt c2 c1 then
        onLoop f ne l1 l2' (appendD ne out (p1, o)) (.item c2 (f v1 w2))                                  -- 12
      else if lt c2 p1 then onLoop f ne l1 l2' out last                                                   -- 13
      else .error .rtamt
  | l1, l2, out, last => .ok (out, last, l1, l2)
termination_by l1 l2 => l1.length + l2.length
decreasing_by all_goals (simp only [List.length_cons]; omega)

/-- `if len(in_samples_1) > 1: while in_samples_1[1:]: …` after the main loop (`prev_in_sample_2 = (p2, v2)` fixed). -/
def tail1 (f : α → α → β) (ne : β → β → Bool) (p2 : Tm) (v2 : α) : ASig α → ASig β → Last β → ASig β × Last β
  | (p1, v1) :: (c1, w1) :: r1, out, last =>
      if Tm.lt p2 p1 then (out, last)
      else if p1 == p2 then (out, .item p2 (f v1 v2))
      else if Tm.lt p2 c1 then tail1 f ne p2 v2 ((c1, w1) :: r1) (appendD ne out (p2, f v1 v2)) (.item p2 (f v1 v2))
      else if p2 == c1 then tail1 f ne p2 v2 ((c1, w1) :: r1) (appendD ne out (p2, f w1 v2)) (.item p2 (f w1 v2))
      else tail1 f ne p2 v2 ((c1, w1) :: r1) out .nil
  | _, out, last => (out, last)

/-- The symmetric loop over the second list (`prev_in_sample_1 = (p1, v1)` fixed). -/
def tail2 (f : α → α → β) (ne : β → β → Bool) (p1 : Tm) (v1 : α) : ASig α → ASig β → Last β → ASig β × Last β
  | (p2, v2) :: (c2, w2) :: r2, out, last =>
      if Tm.lt p1 p2 then (out, last)
      else if p2 == p1 then (out, .item p1 (f v1 v2))
      else if Tm.lt p1 c2 then tail2 f ne p1 v1 ((c2, w2) :: r2) (appendD ne out (p1, f v1 v2)) (.item p1 (f v1 v2))
      else if p1 == c2 then tail2 f ne p1 v1 ((c2, w2) :: r2) (appendD ne out (p1, f v1 w2)) (.item p1 (f v1 w2))
      else tail2 f ne p1 v1 ((c2, w2) :: r2) out .nil
  | _, out, last => (out, last)

/-- `intersection(in_samples_1, in_samples_2, method)` of the online package: `(out_samples, last, remainder_1, remainder_2)`. -/
def interOn (f : α → α → β) (ne : β → β → Bool) (s1 s2 : ASig α) :
    Except PyErr (ASig β × Last β × ASig α × ASig α) :=
  match s1, s2 with
  | [], _ => .ok ([], .nil, s1, s2)
  | _, [] => .ok ([], .nil, s1, s2)
  | (p1, v1) :: _, (p2, v2) :: _ => do
      let last0 : Last β := if p1 == p2 then .item p1 (f v1 v2) else .nil
      let (out, last, l1, l2) ← onLoop f ne s1 s2 [] last0
      match l1, l2 with
      | (q1, x1) :: _ :: _, (q2, x2) :: _ =>
          let _ := (q1, x1)
          let (out', last') := tail1 f ne q2 x2 l1 out last
          pure (out', last', l1, l2)
      | (q1, x1) :: _, (q2, x2) :: _ :: _ =>
          let _ := (q2, x2)
          let (out', last') := tail2 f ne q1 x1 l2 out last
          pure (out', last', l1, l2)
      | _, _ => pure (out, last, l1, l2)

end inter

/-! ### binary point-wise operations -/

structure BinSt (α : Type) where
  buf1 : ASig α := []
  buf2 : ASig α := []
  lastOut : Option (Tm × α) := none
  deriving Inhabited

/-- `buf + sample[1:]` when the buffer ends at the time stamp the new batch starts with, else `buf + sample`. -/
def joinBuf (buf s : ASig α) : ASig α :=
  match buf.getLast?, s with
  | some (t, _), (t', _) :: rest => if t == t' then buf ++ rest else buf ++ s
  | _, _ => buf ++ s

def binUpdate (f : α → α → α) (st : BinSt α) (sl sr : ASig α) : Except PyErr (BinSt α × ASig α) := do
  let b1 := joinBuf st.buf1 sl
  let b2 := joinBuf st.buf2 sr
  let (result, last, left, right) ← interOn f vne b1 b2
  let result ← match last with
    | .nil => pure result
    | .item t v =>
        match result.getLast? with
        | none => pure [(t, v)]
        | some (t', _) => pure (if Tm.lt t' t then result ++ [(t, v)] else result)
  let result := match st.lastOut, result with
    | some (t, v), (t', v') :: rest => if t == t' && !vne v v' then rest else result
    | _, _ => result
  let lastOut := match result.getLast? with
    | some p => some p
    | none => st.lastOut
  pure ({ buf1 := left, buf2 := right, lastOut := lastOut }, result)

/-- `MultiplicationOperation.update` sets `self.last_output = []` at every call (the other ten classes do it in `__init__`
    only): the test against `last_output` never fires and the sample at the last time stamp is returned again. -/
def binUpdateNL (f : α → α → α) (st : BinSt α) (sl sr : ASig α) : Except PyErr (BinSt α × ASig α) :=
  binUpdate f { st with lastOut := none } sl sr

/-! ### unbounded once / historically -/

def scanUpdate (comb : α → α → α) (prev : α) : ASig α → α × ASig α
  | [] => (prev, [])
  | (t, v) :: rest =>
      let o := comb v prev
      let (p', out) := scanUpdate comb o rest
      (p', (t, o) :: out)

/-! ### since -/

structure SinceSt (α : Type) where
  bufA : ASig α := []
  bufB : ASig α := []
  prev : α
  last : Option (Tm × α) := none

def tmMax (a b : Tm) : Tm := if Tm.lt a b then b else a
def tmMin (a b : Tm) : Tm := if Tm.lt b a then b else a

def sinceLoop : ASig α → ASig α → α → Option (Tm × α) → ASig α → ASig α × ASig α × α × Option (Tm × α) × ASig α
  | (a0, av) :: (a1, avn) :: ra, (b0, bv) :: (b1, bvn) :: rb, prev, last, res =>
      let sv := fun (x y : α) => pmax (pmin x y) (pmin x prev)
      let lo := tmMax a0 b0
      let hi := tmMin a1 b1
      let emit := Tm.lt lo hi
      let val := sv av bv
      if Tm.lt a1 b1 then
        let lastVal := sv avn bv
        if emit then sinceLoop ((a1, avn) :: ra) ((b0, bv) :: (b1, bvn) :: rb) val (some (hi, lastVal)) (res ++ [(lo, val)])
        else sinceLoop ((a1, avn) :: ra) ((b0, bv) :: (b1, bvn) :: rb) prev last res
      else if Tm.lt b1 a1 then
        let lastVal := sv av bvn
        if emit then sinceLoop ((a0, av) :: (a1, avn) :: ra) ((b1, bvn) :: rb) val (some (hi, lastVal)) (res ++ [(lo, val)])
        else sinceLoop ((a0, av) :: (a1, avn) :: ra) ((b1, bvn) :: rb) prev last res
      else
        let lastVal := sv avn bvn
        if emit then sinceLoop ((a1, avn) :: ra) ((b1, bvn) :: rb) val (some (hi, lastVal)) (res ++ [(lo, val)])
        else sinceLoop ((a1, avn) :: ra) ((b1, bvn) :: rb) prev last res
  | a, b, prev, last, res => (a, b, prev, last, res)
termination_by a b => a.length + b.length
decreasing_by all_goals (simp only [List.length_cons]; omega)

def sinceUpdate (st : SinceSt α) (sl sr : ASig α) : SinceSt α × ASig α :=
  let (a, b, prev, last, res) := sinceLoop (st.bufA ++ sl) (st.bufB ++ sr) st.prev st.last []
  ({ bufA := a, bufB := b, prev := prev, last := last }, res)

/-! ### bounded once / historically -/

structure TimedSt (α : Type) where
  segs : List (Seg α) := []          -- `self.prev`, in list order
  rs : Option Tm := none             -- `self.residual_start` (`none`: the initial -inf / +inf, never compared)
  started : Bool := false
  deriving Inhabited

/-- The segments `b` of the `while len(sample) >= i` loop (the last one ends at its own start plus `end`). -/
def onSegs (begin_ end_ : Rat) : ASig α → List (Seg α)
  | [] => []
  | [(t, v)] => [⟨t.add begin_, t.add end_, v⟩]
  | (t, v) :: (t', v') :: rest => ⟨t.add begin_, t'.add end_, v⟩ :: onSegs begin_ end_ ((t', v') :: rest)

/-- The output loop over `out`: `(sample_result, last, self.prev)`. -/
def timedEmit (rs : Option Tm) : List (Seg α) → Option α → ASig α → Option (Tm × α) → List (Seg α) →
    ASig α × Option (Tm × α) × List (Seg α)
  | [], _, res, last, keep => (res, last, keep)
  | b :: rest, prev, res, last, keep =>
      let isLast := rest.isEmpty
      let changed := match prev with
        | none => true
        | some x => vne b.v x
      let res1 := if changed || isLast then res ++ [(b.lo, b.v)] else res
      match rs with
      | none => timedEmit rs rest (some b.v) res last (keep ++ [b])
      | some r =>
          if Tm.le b.hi r then timedEmit rs rest (some b.v) res1 (some (b.lo, b.v)) keep
          else if Tm.le b.lo r && Tm.lt r b.hi then
            let last' := if Tm.lt b.lo r then some (r, b.v) else some (b.lo, b.v)
            timedEmit rs rest (some b.v) res1 last' (keep ++ [⟨r, b.hi, b.v⟩])
          else timedEmit rs rest (some b.v) res last (keep ++ [b])

def timedUpdateCore (worse : α → α → Bool) (neutral : α) (begin_ end_ : Rat) (st : TimedSt α) (s : ASig α) :
    Except PyErr (TimedSt α × ASig α) := do
  -- `out = self.prev`, its last segment re-ended at the first new time stamp plus `end`
  let out0 : List (Seg α) :=
    match s, st.segs.reverse with
    | (t0, _) :: _, lp :: restRev => (⟨lp.lo, t0.add end_, lp.v⟩ :: restRev).reverse
    | _, _ => st.segs
  let rs := match s.getLast? with
    | some (t, _) => some t
    | none => st.rs
  let out1 : List (Seg α) :=
    match s with
    | (t0, _) :: _ =>
        if t0 == Tm.zero && decide (0 < begin_) && !st.started then out0 ++ [⟨Tm.zero, t0.add begin_, neutral⟩] else out0
    | [] => out0
  -- the stack of `pushSeg` is kept top first
  let stk ← (onSegs begin_ end_ s).foldlM (pushSeg worse) out1.reverse
  let (res, last, keep) := timedEmit rs stk.reverse none [] none []
  let res := match last with
    | none => res
    | some (t, v) =>
        match res.getLast? with
        | none => [(t, v)]
        | some (t', _) => if Tm.lt t' t then res ++ [(t, v)] else res
  pure ({ segs := keep, rs := rs, started := st.started || !s.isEmpty }, res)

/-- `if sample and sample[0][0] == self.residual_start: sample = sample[1:]`: the operand repeats the sample its previous
    batch ended with (the operations return the sample at their last time stamp again). -/
def dropRepeat (rs : Option Tm) (s : ASig α) : ASig α :=
  match rs, s with
  | some r, (t, _) :: rest => if t == r then rest else s
  | _, _ => s

/-- `OnceTimedOperation.update` / `HistoricallyTimedOperation.update`. -/
def timedUpdate (worse : α → α → Bool) (neutral : α) (begin_ end_ : Rat) (st : TimedSt α) (s : ASig α) :
    Except PyErr (TimedSt α × ASig α) :=
  timedUpdateCore worse neutral begin_ end_ st (dropRepeat st.rs s)

/-! ### the state tree of one assertion -/

inductive OnSt (α : Type)
  | leaf
  | cst (sent : Bool)      -- a constant node: has its signal been handed over (`constants_sent` of the update visitor)
  | un (c : OnSt α)
  | scan (prev : α) (c : OnSt α)
  | bin (st : BinSt α) (l r : OnSt α)
  | since (st : SinceSt α) (l r : OnSt α)
  | timed (st : TimedSt α) (c : OnSt α)
  | sinceT (o : TimedSt α) (s : SinceSt α) (h : TimedSt α) (a : BinSt α) (l r : OnSt α)

/-- The construction visitor (`visitX` of `StlDenseTimeOnlineAstVisitor`): which operation object for which node. -/
def initOn : F α → Except PyErr (OnSt α)
  | .var _ => .ok .leaf
  | .const _ => .ok (.cst false)
  | .un _ φ => do pure (.un (← initOn φ))
  | .bin op φ ψ => do
      match op with
      | .predZero => .error .other          -- the vacuity override needs the comparison operator: not mirrored
      | _ => pure (.bin {} (← initOn φ) (← initOn ψ))
  | .tmp1 op φ => do
      match op with
      | .once => pure (.scan Val.ninf (← initOn φ))
      | .hist => pure (.scan Val.pinf (← initOn φ))
      | _ => .error .rtamt
  | .tmp2 op φ ψ => do
      match op with
      | .since => pure (.since { prev := Val.ninf } (← initOn φ) (← initOn ψ))
      | .until => .error .rtamt
  | .tb1 op _ _ φ => do
      match op with
      | .once | .hist => pure (.timed {} (← initOn φ))
      | _ => .error .rtamt
  | .tb2 op _ _ φ ψ => do
      match op with
      | .since => pure (.sinceT {} { prev := Val.ninf } {} {} (← initOn φ) (← initOn ψ))
      | _ => .error .rtamt

/-- One `update()`: the batch of every variable (a variable without new samples has `[]`). -/
def stepOn (cfg : DCfg) (inp : String → ASig α) : F α → OnSt α → Except PyErr (OnSt α × ASig α)
  | .var x, .leaf => .ok (.leaf, inp x)
  | .const c, .cst sent => .ok (.cst true, if sent then [] else [(Tm.zero, c), (.inf, c)])
  | .un op φ, .un c => do
      let (c', s) ← stepOn cfg inp φ c
      -- the online `LnOperation` has no sign test of its own (`math.log` raises); `SqrtOperation` has
      let out ← mapUn op s
      pure (.un c', out)
  | .bin op φ ψ, .bin st l r => do
      let (l', sl) ← stepOn cfg inp φ l
      let (r', sr) ← stepOn cfg inp ψ r
      match op with
      | .pred c =>
          let (st', d) ← binUpdate (fun a b => Val.sub a b) st sl sr
          pure (.bin st' l' r', d.map (fun p => (p.1, cmpOfDiff c p.2)))
      | .predSat c =>
          -- the interface-aware `PredicateOperation.update` for an insensitive predicate (robustness semantics): `sat()` of the
          -- subtraction output — the positions where the robustness value changes, and the last — as `±inf`
          let (st', d) ← binUpdate (fun a b => Val.sub a b) st sl sr
          let both := dedupGoK (fun (x : α × Bool) => x.1) none (d.map (fun p => (p.1, (cmpOfDiff c p.2, satOfDiff c p.2))))
          pure (.bin st' l' r', both.map (fun p => (p.1, if p.2.2 then Val.pinf else Val.ninf)))
      | .predZero => .error .other
      | .mul =>
          let (st', o) ← binUpdateNL op.app st sl sr
          pure (.bin st' l' r', o)
      | _ =>
          let (st', o) ← binUpdate op.app st sl sr
          pure (.bin st' l' r', o)
  | .tmp1 op φ, .scan prev c => do
      let (c', s) ← stepOn cfg inp φ c
      let comb : α → α → α := match op with
        | .hist => pmin
        | _ => pmax
      let (p', out) := scanUpdate comb prev s
      pure (.scan p' c', out)
  | .tmp2 _ φ ψ, .since st l r => do
      let (l', sl) ← stepOn cfg inp φ l
      let (r', sr) ← stepOn cfg inp ψ r
      let (st', out) := sinceUpdate st sl sr
      pure (.since st' l' r', out)
  | .tb1 op a b φ, .timed st c => do
      let (c', s) ← stepOn cfg inp φ c
      let a' : Rat := a * cfg.scale
      let b' : Rat := b * cfg.scale
      let (st', out) ← match op with
        | .hist => timedUpdate gtW Val.pinf a' b' st s
        | _ => timedUpdate ltW Val.ninf a' b' st s
      pure (.timed st' c', out)
  | .tb2 _ a b φ ψ, .sinceT o s h an l r => do
      let (l', sl) ← stepOn cfg inp φ l
      let (r', sr) ← stepOn cfg inp ψ r
      let a' : Rat := a * cfg.scale
      let b' : Rat := b * cfg.scale
      let (o', out1) ← timedUpdate ltW Val.ninf a' b' o sr
      let (s', out2) := sinceUpdate s sl sr
      let (h', out3) ← timedUpdate gtW Val.pinf 0 a' h out2
      let (an', out) ← binUpdate (fun x y => pmin x y) an out1 out3
      pure (.sinceT o' s' h' an' l' r', out)
  | _, _ => .error .other

/-- A sequence of `update()` calls on a fresh monitor: the list each call returns. -/
def runOn (cfg : DCfg) (φ : F α) (batches : List (String → ASig α)) : Except PyErr (List (ASig α)) := do
  let st0 ← initOn φ
  let rec go (st : OnSt α) : List (String → ASig α) → Except PyErr (List (ASig α))
    | [] => pure []
    | b :: rest => do
        let (st', out) ← stepOn cfg b φ st
        let outs ← go st' rest
        pure (out :: outs)
  go st0 batches

end Rtamt.Dense.AlgOn
