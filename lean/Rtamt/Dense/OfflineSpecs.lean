/-
  M-alg: `AbstractDenseTimeOfflineInterpreter.evaluate(dataset)` as a whole method
  (`rtamt/semantics/abstract_dense_time_offline_interpreter.py`, `DenseTimeInterpreter.set_variable_to_ast_from_dataset`,
  `AbstractAstVisitor.visitAst`) for a specification with several assertions (`ast.specs`).

    * a data set is a Python list of rows `[name, samples]` (`DData`); `set_variable_to_ast_from_dataset` writes the
      samples of every row whose name is in `ast.free_vars` into `ast.var_object_dict` (`bindRows`; rows are taken in
      order, so the LAST row of a name is what the dictionary holds; an assignment shadows the earlier entry of the
      association list); what the dictionary held before stays for the names the data set does not have;
    * `visitAst`: every assertion is evaluated in order by the visitor (`evalAlg`), the first exception ends the call
      (`evalSpecsD`) - and the statements after it are not run, so `var_object_dict` keeps the batches just written;
    * `var_object_dict = var_object_dict.fromkeys(var_object_dict, [])`: every key is kept, every batch becomes `[]`
      (`clearVars`);
    * `return rob[len(rob) - 1]`: the list of the LAST assertion; `IndexError` for a specification without assertions -
      raised AFTER the clearing.

  The result is a pair: what the call returns or raises, and `var_object_dict` afterwards (also after an exception).
-/
import Rtamt.Dense.Alg

namespace Rtamt.Dense.Alg
open Rtamt Val

/-- The argument of `evaluate`: rows `[name, samples]`. -/
abbrev DData (α : Type) := List (String × DSig α)

variable {α : Type} [Val α]

/-- `set_variable_to_ast_from_dataset(dataset)` on `var_object_dict = w`. -/
def bindRows (free : List String) (d : DData α) (w : DEnv α) : DEnv α :=
  d.foldl (fun w r => if free.contains r.1 then (r.1, r.2) :: w else w) w

/-- `d.fromkeys(d, [])`. -/
def clearVars (w : DEnv α) : DEnv α := w.map (fun p => (p.1, []))

/-- `visitAst`: `out = []; for spec in ast.specs: out.append(self.visit(spec))`. -/
def evalSpecsD (cfg : DCfg) (w : DEnv α) : List (F α) → Except PyErr (List (ASig α))
  | [] => .ok []
  | φ :: rest => do
      let r ← evalAlg cfg w φ
      let rs ← evalSpecsD cfg w rest
      pure (r :: rs)

/-- The whole method on a specification with the assertions `specs` and the free variables `free`: what the call
    returns or raises, and `var_object_dict` afterwards. -/
def evaluateDnSpecs (cfg : DCfg) (specs : List (F α)) (free : List String) (d : DData α) (w : DEnv α) :
    Except PyErr (ASig α) × DEnv α :=
  let w1 := bindRows free d w
  match evalSpecsD cfg w1 specs with
  | .error e => (.error e, w1)
  | .ok robs =>
      match robs.getLast? with
      | none => (.error .index, clearVars w1)
      | some rob => (.ok rob, clearVars w1)

end Rtamt.Dense.Alg
