/-
  M-alg for dense time, offline: a mirror of the list algorithms of
  `rtamt/semantics/stl/dense_time/offline/intersection.py` (`intersection`, `_append`, `intersects`) and
  `rtamt/semantics/stl/dense_time/offline/ast_visitor.py` (the module-level `*_operation` functions and the
  `visitX` methods), statement by statement:

    Python                                           here
    ---------------------------------------------    ------------------------------
    intersection(l1, l2, method) (13 Allen cases)     `inter` / `interLoop`
    _append                                           `appendD`
    visitAbs/Sqrt/Exp/Ln/Not/Negate                   `mapUn`
    visitPredicate                                    `predicate` (subtraction, then comparison, `dedup`)
    visitOnce / visitHistorically                     `fwdScan` + `dedup`
    visitEventually / visitAlways                     `backScan`
    since_operation / until_operation                 `sinceOp` / `untilOp`
    once_timed_operation / historically_timed_…       `fwdTimed` (segment stack `pushSeg`, `popWhile`)
    eventually_timed_operation / always_timed_…       `backTimed` (`pushSegB`, `popWhileB`)
    since_timed_operation / until_timed_operation     `sinceTimed` / `untilTimed`
    visitConstant                                     `[(0, c), (inf, c)]`

  Time stamps are `Tm` = rationals plus `inf` (Python's `float('inf')`, which the code appends to its operands and
  uses as the open end of the last segment).  Python's partial list operations (`out[len(out)-1]` after `del`,
  `out[0]` after `pop(0)`) are `Except PyErr`.  `a != b` on samples is `vne` (`a < b or b < a`): NaN samples are
  outside the model (the driver reports them as `undef`).

  The correspondence check compares the sample list computed here with the list `evaluate()` returns, sample by
  sample (`harness/dense.py`, stream `alg`).  `RtamtProofs/Dense/Alg*.lean` relate this mirror to `rhoD`.
-/
import Rtamt.Dense.Ref
import Rtamt.Discrete.Offline

namespace Rtamt.Dense.Alg
open Rtamt Val

/-- Time stamps of the sample lists: a rational or `float('inf')`. -/
inductive Tm
  | fin (q : Rat)
  | inf
  deriving DecidableEq, Repr, Inhabited

namespace Tm
def lt : Tm → Tm → Bool
  | fin a, fin b => decide (a < b)
  | fin _, inf => true
  | inf, _ => false
/-- `a <= b` on floats that are not NaN. -/
def le (a b : Tm) : Bool := !lt b a
def add : Tm → Rat → Tm
  | fin a, q => fin (a + q)
  | inf, _ => inf
def sub : Tm → Rat → Tm
  | fin a, q => fin (a - q)
  | inf, _ => inf
def zero : Tm := fin 0
end Tm

abbrev ASig (β : Type) := List (Tm × β)

/-- A segment `(lo, hi, value)` of the interval stacks. -/
structure Seg (α : Type) where
  lo : Tm
  hi : Tm
  v : α
  deriving Repr, Inhabited

variable {α : Type} [Val α]

/-- `a != b` on two samples (no NaN). -/
def vne (a b : α) : Bool := Val.lt a b || Val.lt b a

/-- `intersect.intersects(x1, x2, y1, y2)`. -/
def intersects (x1 x2 y1 y2 : Tm) : Bool := Tm.le x1 y2 && Tm.le y1 x2

section inter
variable {β : Type}

/-- `_append(in_list, item)`: the item is dropped when its value equals the value of the last item. -/
def appendD (ne : β → β → Bool) (out : ASig β) (item : Tm × β) : ASig β :=
  match out.getLast? with
  | none => [item]
  | some p => if ne p.2 item.2 then out ++ [item] else out

/-- "Finitary interpretation": `if in_samples[-1][0] < inf: in_samples.append([inf, in_samples[-1][1]])`. -/
def extendInf (s : ASig α) : ASig α :=
  match s.getLast? with
  | some (t, v) => if Tm.lt t .inf then s ++ [(.inf, v)] else s
  | none => s

/-- The `while in_samples_1[1:] and in_samples_2[1:]` loop; `prev_in_sample_k` is the head of list `k`,
    `current_in_sample_k` its second element. -/
def interLoop (f : α → α → β) (ne : β → β → Bool) : ASig α → ASig α → ASig β → Except PyErr (ASig β)
  | (p1, v1) :: (c1, w1) :: r1, (p2, v2) :: (c2, w2) :: r2, out =>
      let o := f v1 v2
      let lt := Tm.lt
      if lt c1 p2 then interLoop f ne ((c1, w1) :: r1) ((p2, v2) :: (c2, w2) :: r2) out                       -- 1
      else if lt p1 c1 && c1 == p2 && lt p2 c2 then
        interLoop f ne ((c1, w1) :: r1) ((p2, v2) :: (c2, w2) :: r2) out                                       -- 2
      else if lt p1 p2 && lt p2 c1 && lt c1 c2 then
        interLoop f ne ((c1, w1) :: r1) ((p2, v2) :: (c2, w2) :: r2) (appendD ne out (p2, o))                  -- 3
      else if lt p1 p2 && lt p2 c1 && c1 == c2 then
        interLoop f ne ((c1, w1) :: r1) ((p2, v2) :: (c2, w2) :: r2) (appendD ne out (p2, o))                  -- 4
      else if lt p2 p1 && lt p1 c1 && c1 == c2 then
        interLoop f ne ((c1, w1) :: r1) ((p2, v2) :: (c2, w2) :: r2) (appendD ne out (p1, o))                  -- 5
      else if lt p1 p2 && lt p2 c2 && lt c2 c1 then
        interLoop f ne ((p1, v1) :: (c1, w1) :: r1) ((c2, w2) :: r2) (appendD ne out (p2, o))                  -- 6
      else if p1 == p2 && lt p2 c2 && lt c2 c1 then
        interLoop f ne ((p1, v1) :: (c1, w1) :: r1) ((c2, w2) :: r2) (appendD ne out (p2, o))                  -- 7
      else if p1 == p2 && lt p2 c2 && c2 == c1 then
        interLoop f ne ((c1, w1) :: r1) ((p2, v2) :: (c2, w2) :: r2) (appendD ne out (p2, o))                  -- 8
      else if p1 == p2 && lt p2 c1 && lt c1 c2 then
        interLoop f ne ((c1, w1) :: r1) ((p2, v2) :: (c2, w2) :: r2) (appendD ne out (p1, o))                  -- 9
      else if lt p2 p1 && lt p1 c1 && lt c1 c2 then
        interLoop f ne ((c1, w1) :: r1) ((p2, v2) :: (c2, w2) :: r2) (appendD ne out (p1, o))                  -- 10
      else if lt p2 c2 && c2 == p1 && lt p1 c1 then
        interLoop f ne ((p1, v1) :: (c1, w1) :: r1) ((c2, w2) :: r2) out                                       -- 11
      else if lt p2 p1 && lt p1 c2 && lt c2 c1 then
        interLoop f ne ((p1, v1) :: (c1, w1) :: r1) ((c2, w2) :: r2) (appendD ne out (p1, o))                  -- 12
      else if lt c2 p1 then
        interLoop f ne ((p1, v1) :: (c1, w1) :: r1) ((c2, w2) :: r2) out                                       -- 13
      else .error .rtamt
  | _, _, out => .ok out
termination_by l1 l2 => l1.length + l2.length
decreasing_by all_goals (simp only [List.length_cons]; omega)

/-- `intersection(in_samples_1, in_samples_2, method)[0]`. -/
def inter (f : α → α → β) (ne : β → β → Bool) (s1 s2 : ASig α) : Except PyErr (ASig β) :=
  if s1.isEmpty || s2.isEmpty then .ok []
  else interLoop f ne (extendInf s1) (extendInf s2) []

end inter

/-- Output loop shared by `visitPredicate`, `visitOnce`, `visitHistorically`, `since_operation` and the bounded past
    operators: a sample is kept when its value differs from the previous one (`prev` starts as NaN, or the test
    `i == 0` holds: the first is always kept) or when it is the last one. -/
def dedupGo : Option α → ASig α → ASig α
  | _, [] => []
  | _, [p] => [p]
  | prev, p :: q :: rest =>
      let keep := match prev with
        | none => true
        | some x => vne p.2 x
      (if keep then [p] else []) ++ dedupGo (some p.2) (q :: rest)

def dedup (s : ASig α) : ASig α := dedupGo none s

/-- The unary point-wise visitors; `visitSqrt` and `visitLn` raise on a negative sample. -/
def mapUn (op : Un) (s : ASig α) : Except PyErr (ASig α) :=
  s.mapM (fun p =>
    match op with
    | .sqrt | .ln => if Val.lt p.2 Val.zero then .error .other else .ok (p.1, op.app p.2)
    | _ => .ok (p.1, op.app p.2))

/-- The value `visitPredicate` derives from the difference `left - right`. -/
def cmpOfDiff : Cmp → α → α
  | .eq, d => Val.neg (Val.abs d)
  | .ne, d => Val.abs d
  | .le, d => Val.neg d
  | .lt, d => Val.neg d
  | .ge, d => d
  | .gt, d => d

def predicate (c : Cmp) (l r : ASig α) : Except PyErr (ASig α) := do
  let d ← inter (fun a b => Val.sub a b) vne l r
  pure (dedup (d.map (fun p => (p.1, cmpOfDiff c p.2))))

/-- `sat_val` of the interface-aware `visitPredicate`, from the difference `left - right`. -/
def satOfDiff : Cmp → α → Bool
  | .eq, d => !Val.lt d Val.zero && !Val.lt Val.zero d
  | .ne, d => Val.lt Val.zero (Val.abs d)
  | .le, d => !Val.lt Val.zero d
  | .lt, d => Val.lt d Val.zero
  | .ge, d => !Val.lt d Val.zero
  | .gt, d => Val.lt Val.zero d

/-- The output loop of the interface-aware `visitPredicate`: robustness and satisfaction are kept at the same positions,
    those where the ROBUSTNESS differs from the previous one, and the last. -/
def dedupGoK {γ : Type} (key : γ → α) : Option α → List (Tm × γ) → List (Tm × γ)
  | _, [] => []
  | _, [p] => [p]
  | prev, p :: q :: rest =>
      let keep := match prev with
        | none => true
        | some x => vne (key p.2) x
      (if keep then [p] else []) ++ dedupGoK key (some (key p.2)) (q :: rest)

/-- `IAStl…DenseTimeOfflineAstVisitor.visitPredicate` for an insensitive predicate: `mk sat` is `±inf` by satisfaction
    (robustness semantics) or `0.0` (vacuity semantics). -/
def predicateIA (c : Cmp) (mk : Bool → α) (l r : ASig α) : Except PyErr (ASig α) := do
  let d ← inter (fun a b => Val.sub a b) vne l r
  let both := dedupGoK (fun (x : α × Bool) => x.1) none (d.map (fun p => (p.1, (cmpOfDiff c p.2, satOfDiff c p.2))))
  pure (both.map (fun p => (p.1, mk p.2.2)))

/-- The method handed to `intersection` by the binary point-wise visitors. -/
def binMethod : Bin → α → α → α
  | .pred c => fun a b => cmpOfDiff c (Val.sub a b)
  | op => op.app

/-- `visitOnce` / `visitHistorically`: running maximum / minimum (`max(in_sample[1], self.prev)`), then the output loop. -/
def fwdScan (comb : α → α → α) (init : α) (s : ASig α) : ASig α :=
  let rec go (acc : α) : ASig α → ASig α
    | [] => []
    | (t, v) :: rest => let o := comb v acc; (t, o) :: go o rest
  dedup (go init s)

/-- `visitEventually` / `visitAlways` / `until_operation`: from the last sample to the first; the head of the result is
    removed (`pop(0)`) when the new value equals it and `i < len(sample) - 2`. `g acc p` is the value at sample `p`
    given the value `acc` after it. -/
def backScanG {γ : Type} (g : α → γ → α) (init : α) (nx0 : Option α) (s : List (Tm × γ)) : ASig α :=
  let n := s.length
  let step := fun (st : α × Option α × ASig α × Nat) (p : Tm × γ) =>
    let (acc, nx, out, i) := st
    let ov := g acc p.2
    let eqNext := match nx with
      | none => false
      | some x => !vne ov x
    let out' := if eqNext && decide (i + 2 < n) then out.tail else out
    (ov, some ov, (p.1, ov) :: out', i - 1)
  (s.reverse.foldl step (init, nx0, [], n - 1)).2.2.1

def backScan (comb : α → α → α) (init : α) (s : ASig α) : ASig α :=
  backScanG (fun acc v => comb v acc) init none s

/-- `intersect.split`: the pair of both operands' values; `_append` compares the pairs. -/
def pairNe (a b : α × α) : Bool := vne a.1 b.1 || vne a.2 b.2

/-- `max(min(o1, o2), min(o1, prev))`. -/
def sinceVal (acc : α) (p : α × α) : α := pmax (pmin p.1 p.2) (pmin p.1 acc)

def sinceOp (l r : ASig α) : Except PyErr (ASig α) := do
  let io ← inter (fun a b => (a, b)) pairNe l r
  let rec go (acc : α) : List (Tm × (α × α)) → ASig α
    | [] => []
    | (t, p) :: rest => let o := sinceVal acc p; (t, o) :: go o rest
  pure (dedup (go Val.ninf io))

def untilOp (l r : ASig α) : Except PyErr (ASig α) := do
  let io ← inter (fun a b => (a, b)) pairNe l r
  pure (backScanG sinceVal Val.ninf (some Val.ninf) io)

def andOp (l r : ASig α) : Except PyErr (ASig α) := inter (fun a b => pmin a b) vne l r

/-! ### bounded past operators: a stack of segments, the last one on top -/

/-- `while (a[2] < b[2]) and (b[0] < a[0]): del out[-1]; a = out[-1]` (`worse a b`: `a[2] < b[2]` for `once`,
    `a[2] > b[2]` for `historically`). The stack is given top first. -/
def popWhile (worse : α → α → Bool) (b : Seg α) : List (Seg α) → Except PyErr (List (Seg α))
  | [] => .error .index
  | a :: rest => if worse a.v b.v && Tm.lt b.lo a.lo then popWhile worse b rest else .ok (a :: rest)

def pushSeg (worse : α → α → Bool) (stk : List (Seg α)) (b : Seg α) : Except PyErr (List (Seg α)) :=
  match stk with
  | [] => .ok [b]
  | _ => do
    let stk' ← popWhile worse b stk
    match stk' with
    | [] => .error .index
    | a :: rest =>
      if !intersects a.lo a.hi b.lo b.hi then .ok (b :: a :: rest)
      else if !worse a.v b.v then .ok (⟨a.hi, b.hi, b.v⟩ :: a :: rest)
      else
        let rest1 := if Tm.lt a.lo b.lo then ⟨a.lo, b.lo, a.v⟩ :: rest else rest
        .ok (⟨b.lo, b.hi, b.v⟩ :: rest1)

/-- The segments `b` of the `while i <= len(input_list)` loop, in order. -/
def fwdSegs (begin_ end_ : Rat) : ASig α → List (Seg α)
  | [] => []
  | [(t, v)] => [⟨t.add begin_, .inf, v⟩]
  | (t, v) :: (t', v') :: rest => ⟨t.add begin_, t'.add end_, v⟩ :: fwdSegs begin_ end_ ((t', v') :: rest)

/-- `once_timed_operation` (`worse = (· < ·)`, `neutral = -inf`) / `historically_timed_operation`. -/
def fwdTimed (worse : α → α → Bool) (neutral : α) (s : ASig α) (begin_ end_ : Rat) : Except PyErr (ASig α) := do
  let init : List (Seg α) :=
    match s with
    | [] => []
    | (t0, _) :: _ => if decide (0 < begin_) then [⟨Tm.zero, t0.add begin_, neutral⟩] else []
  let stk ← (fwdSegs begin_ end_ s).foldlM (pushSeg worse) init
  pure (dedup (stk.reverse.map (fun g => (g.lo, g.v))))

/-! ### bounded future operators: the list of segments grows at the front -/

def popWhileB (worse : α → α → Bool) (b : Seg α) : List (Seg α) → Except PyErr (List (Seg α))
  | [] => .error .index
  | a :: rest => if worse a.v b.v && Tm.lt a.hi b.hi then popWhileB worse b rest else .ok (a :: rest)

def pushSegB (worse : α → α → Bool) (out : List (Seg α)) (b : Seg α) : Except PyErr (List (Seg α)) :=
  match out with
  | [] => .ok [b]
  | _ => do
    let out' ← popWhileB worse b out
    match out' with
    | [] => .error .index
    | a :: rest =>
      if !intersects a.lo a.hi b.lo b.hi then .ok (b :: a :: rest)
      else if !worse a.v b.v then .ok (⟨b.lo, a.lo, b.v⟩ :: a :: rest)
      else
        let rest1 := if Tm.lt b.hi a.hi then ⟨b.hi, a.hi, a.v⟩ :: rest else rest
        .ok (⟨b.lo, b.hi, b.v⟩ :: rest1)

/-- The segments `b` of the `while i >= 0` loop, for `i = 0 … n-1` (the loop takes them from the last to the first). -/
def backSegs (begin_ end_ : Rat) : ASig α → List (Seg α)
  | [] => []
  | [(t, v)] => [⟨t.sub end_, .inf, v⟩]
  | (t, v) :: (t', v') :: rest => ⟨t.sub end_, t'.sub begin_, v⟩ :: backSegs begin_ end_ ((t', v') :: rest)

/-- `always_timed_operation` (`worse = (· > ·)`) / `eventually_timed_operation` (`worse = (· < ·)`). -/
def backTimed (worse : α → α → Bool) (s : ASig α) (begin_ end_ : Rat) : Except PyErr (ASig α) := do
  let out ← (backSegs begin_ end_ s).reverse.foldlM (pushSegB worse) []
  pure (out.filterMap (fun g =>
    if Tm.le g.lo Tm.zero && Tm.lt Tm.zero g.hi then some (Tm.zero, g.v)
    else if Tm.lt Tm.zero g.lo then some (g.lo, g.v)
    else none))

def ltW (a b : α) : Bool := Val.lt a b
def gtW (a b : α) : Bool := Val.lt b a

def onceTimed (s : ASig α) (a b : Rat) := fwdTimed ltW Val.ninf s a b
def histTimed (s : ASig α) (a b : Rat) := fwdTimed gtW Val.pinf s a b
def evTimed (s : ASig α) (a b : Rat) := backTimed ltW s a b
def alwTimed (s : ASig α) (a b : Rat) := backTimed gtW s a b

def sinceTimed (l r : ASig α) (a b : Rat) : Except PyErr (ASig α) := do
  let out1 ← onceTimed r a b
  let out2 ← sinceOp l r
  if decide (0 < a) then
    let out3 ← histTimed out2 0 a
    andOp out1 out3
  else andOp out1 out2

def untilTimed (l r : ASig α) (a b : Rat) : Except PyErr (ASig α) := do
  let out1 ← evTimed r a b
  let out2 ← untilOp l r
  if decide (0 < a) then
    let out3 ← alwTimed out2 0 a
    andOp out1 out3
  else andOp out1 out2

/-- Input signals: finite time stamps. -/
def ofDSig (s : DSig α) : ASig α := s.map (fun p => (Tm.fin p.1, p.2))

/-- The dense-time offline visitor (`visit` of every node class). -/
def evalAlg (cfg : DCfg) (w : DEnv α) : F α → Except PyErr (ASig α)
  | .var x =>
      match w.lookup x with
      | some s => .ok (ofDSig s)
      | none => .error .key
  | .const c => .ok [(Tm.zero, c), (.inf, c)]
  | .un op φ => do mapUn op (← evalAlg cfg w φ)
  | .bin op φ ψ => do
      let l ← evalAlg cfg w φ
      let r ← evalAlg cfg w ψ
      match op with
      | .pred c => predicate c l r
      | .predSat c => predicateIA c (fun b => if b then Val.pinf else Val.ninf) l r
      | .predZero => .error .other          -- needs the comparison operator: see `evalAlgIA`
      | _ => inter (binMethod op) vne l r
  | .tmp1 op φ => do
      let s ← evalAlg cfg w φ
      match op with
      | .once => pure (fwdScan pmax Val.ninf s)
      | .hist => pure (fwdScan pmin Val.pinf s)
      | .ev => pure (backScan pmax Val.ninf s)
      | .alw => pure (backScan pmin Val.pinf s)
      | _ => .error .rtamt
  | .tmp2 op φ ψ => do
      let l ← evalAlg cfg w φ
      let r ← evalAlg cfg w ψ
      match op with
      | .since => sinceOp l r
      | .until => untilOp l r
  | .tb1 op a b φ => do
      let s ← evalAlg cfg w φ
      let a' : Rat := a * cfg.scale
      let b' : Rat := b * cfg.scale
      match op with
      | .once => onceTimed s a' b'
      | .hist => histTimed s a' b'
      | .ev => evTimed s a' b'
      | .alw => alwTimed s a' b'
  | .tb2 op a b φ ψ => do
      let l ← evalAlg cfg w φ
      let r ← evalAlg cfg w ψ
      let a' : Rat := a * cfg.scale
      let b' : Rat := b * cfg.scale
      match op with
      | .since => sinceTimed l r a' b'
      | .until => untilTimed l r a' b'
      | .precedes => .error .rtamt

/-- The sample list read as a right-continuous step function at a finite time. -/
def valAtA {β : Type} : ASig β → Rat → Option β
  | [], _ => none
  | (τ, v) :: rest, t =>
      if Tm.lt (.fin t) τ then none
      else match valAtA rest t with
           | some v' => some v'
           | none => some v

end Rtamt.Dense.Alg
