/-
  M-alg for dense time, online: the interpreter as the code organises it — `online_operator_dict` (one operation
  object per *node name*), several assertions per specification (`ast.specs`; a later assertion that refers to an
  earlier one holds the referenced node itself), the per-update memo of `AbstractOnlineUpdateVisitor`
  (`self.updated`: every name is updated once per `update()`), and the flag `constants_sent` of
  `DenseTimeOnlineUpdateVisitor` (one flag for the whole monitor: a constant signal `[[0, c], [inf, c]]` is handed to
  the operations in the first `update()` only).

  `Rtamt/Dense/AlgOn.lean` models one assertion as a *tree* of operation states (`OnSt`, `stepOn`), every occurrence
  of a sub-formula with a state of its own; C05 is proved about that tree.  This file is the dense-time counterpart of
  `Rtamt/Discrete/Program.lean`: the dictionary keyed by the formula (the printed name is injective on formulas,
  `names_injective`), and `RtamtProofs/C09Dense.lean` proves that it returns, for every assertion, what the tree of
  that assertion returns.

  The order of the statements is the code's:

      def visitBinary(self, node, online_operator_dict, var_object_dict):
          sample_left  = self.visit(node.children[0], …)
          sample_right = self.visit(node.children[1], …)
          if node.name in self.updated:
              sample_return = self.updated[node.name]
          else:
              operator = online_operator_dict[node.name]
              sample_return = operator.update(sample_left, sample_right)
              self.updated[node.name] = sample_return

  (the operands are visited *before* the memo is looked at).
-/
import Rtamt.Dense.AlgOn

namespace Rtamt.Dense.ProgramOn
open Rtamt Val Rtamt.Dense.Alg Rtamt.Dense.AlgOn

variable {α : Type} [Val α] [DecidableEq α]

/-- The state of the operation object registered for one node (the operands have objects of their own). -/
inductive NSt (α : Type)
  | unit                                   -- the unary point-wise classes keep nothing
  | scan (prev : α)
  | bin (st : BinSt α)
  | since (st : SinceSt α)
  | timed (st : TimedSt α)
  | sinceT (o : TimedSt α) (s : SinceSt α) (h : TimedSt α) (a : BinSt α)

abbrev StoreOn (α : Type) := List (F α × NSt α)
abbrev MemoOn (α : Type) := List (F α × ASig α)

def StoreOn.get (st : StoreOn α) (k : F α) : Except PyErr (NSt α) :=
  match st.lookup k with
  | some s => .ok s
  | none => .error .key

def StoreOn.set (st : StoreOn α) (k : F α) (s : NSt α) : StoreOn α :=
  (k, s) :: st.filter (fun p => p.1 ≠ k)

/-- The object the construction visitor (`visitX` of `StlDenseTimeOnlineAstVisitor`) registers for an operator node;
    `RTAMTException` for the classes it rejects (the same table as `AlgOn.initOn`). -/
def initNodeOn : F α → Except PyErr (NSt α)
  | .var _ => .error .other
  | .const _ => .error .other
  | .un _ _ => .ok .unit
  | .bin op _ _ =>
      match op with
      | .predZero => .error .other
      | _ => .ok (.bin {})
  | .tmp1 op _ =>
      match op with
      | .once => .ok (.scan Val.ninf)
      | .hist => .ok (.scan Val.pinf)
      | _ => .error .rtamt
  | .tmp2 op _ _ =>
      match op with
      | .since => .ok (.since { prev := Val.ninf })
      | .until => .error .rtamt
  | .tb1 op _ _ _ =>
      match op with
      | .once | .hist => .ok (.timed {})
      | _ => .error .rtamt
  | .tb2 op _ _ _ _ =>
      match op with
      | .since => .ok (.sinceT {} { prev := Val.ninf } {} {})
      | _ => .error .rtamt

/-- `set_ast`: the construction visitor visits the operands, then registers a fresh object under the node's name
    (a name that occurs twice is registered twice; the second object replaces the first, both are fresh). -/
def initStoreOnF : F α → StoreOn α → Except PyErr (StoreOn α)
  | .var _, st => .ok st
  | .const _, st => .ok st
  | .un op φ, st => do
      let st1 ← initStoreOnF φ st
      pure (st1.set (.un op φ) (← initNodeOn (.un op φ)))
  | .bin op φ ψ, st => do
      let st1 ← initStoreOnF φ st
      let st2 ← initStoreOnF ψ st1
      pure (st2.set (.bin op φ ψ) (← initNodeOn (.bin op φ ψ)))
  | .tmp1 op φ, st => do
      let st1 ← initStoreOnF φ st
      pure (st1.set (.tmp1 op φ) (← initNodeOn (.tmp1 op φ)))
  | .tmp2 op φ ψ, st => do
      let st1 ← initStoreOnF φ st
      let st2 ← initStoreOnF ψ st1
      pure (st2.set (.tmp2 op φ ψ) (← initNodeOn (.tmp2 op φ ψ)))
  | .tb1 op a b φ, st => do
      let st1 ← initStoreOnF φ st
      pure (st1.set (.tb1 op a b φ) (← initNodeOn (.tb1 op a b φ)))
  | .tb2 op a b φ ψ, st => do
      let st1 ← initStoreOnF φ st
      let st2 ← initStoreOnF ψ st1
      pure (st2.set (.tb2 op a b φ ψ) (← initNodeOn (.tb2 op a b φ ψ)))

def initStoreOn : List (F α) → StoreOn α → Except PyErr (StoreOn α)
  | [], st => .ok st
  | φ :: rest, st => do
      let st1 ← initStoreOnF φ st
      initStoreOn rest st1

/-- `operator.update(args…)` of the object registered for a node: the node's part of `AlgOn.stepOn`. -/
def nodeStepOn (cfg : DCfg) : F α → NSt α → List (ASig α) → Except PyErr (NSt α × ASig α)
  | .un op _, .unit, [s] => do
      let out ← mapUn op s
      pure (.unit, out)
  | .bin op _ _, .bin st, [sl, sr] =>
      match op with
      | .pred c => do
          let (st', d) ← binUpdate (fun a b => Val.sub a b) st sl sr
          pure (.bin st', d.map (fun p => (p.1, cmpOfDiff c p.2)))
      | .predSat c => do
          let (st', d) ← binUpdate (fun a b => Val.sub a b) st sl sr
          let both := dedupGoK (fun (x : α × Bool) => x.1) none (d.map (fun p => (p.1, (cmpOfDiff c p.2, satOfDiff c p.2))))
          pure (.bin st', both.map (fun p => (p.1, if p.2.2 then Val.pinf else Val.ninf)))
      | .predZero => .error .other
      | .mul => do
          let (st', o) ← binUpdateNL op.app st sl sr
          pure (.bin st', o)
      | _ => do
          let (st', o) ← binUpdate op.app st sl sr
          pure (.bin st', o)
  | .tmp1 op _, .scan prev, [s] =>
      let comb : α → α → α := match op with
        | .hist => pmin
        | _ => pmax
      let (p', out) := scanUpdate comb prev s
      .ok (.scan p', out)
  | .tmp2 _ _ _, .since st, [sl, sr] =>
      let (st', out) := sinceUpdate st sl sr
      .ok (.since st', out)
  | .tb1 op a b _, .timed st, [s] => do
      let a' : Rat := a * cfg.scale
      let b' : Rat := b * cfg.scale
      let (st', out) ← match op with
        | .hist => timedUpdate gtW Val.pinf a' b' st s
        | _ => timedUpdate ltW Val.ninf a' b' st s
      pure (.timed st', out)
  | .tb2 _ a b _ _, .sinceT o s h an, [sl, sr] => do
      let a' : Rat := a * cfg.scale
      let b' : Rat := b * cfg.scale
      let (o', out1) ← timedUpdate ltW Val.ninf a' b' o sr
      let (s', out2) := sinceUpdate s sl sr
      let (h', out3) ← timedUpdate gtW Val.pinf 0 a' h out2
      let (an', out) ← binUpdate (fun x y => pmin x y) an out1 out3
      pure (.sinceT o' s' h' an', out)
  | _, _, _ => .error .other

/-- The part of `visitUnary` / `visitBinary` after the operands: memo, or the object's `update`. -/
def finishOn (cfg : DCfg) (k : F α) (args : List (ASig α)) (sm : StoreOn α × MemoOn α) :
    Except PyErr (ASig α × (StoreOn α × MemoOn α)) :=
  match sm.2.lookup k with
  | some v => .ok (v, sm)
  | none => do
      let s ← sm.1.get k
      let (s', o) ← nodeStepOn cfg k s args
      pure (o, (sm.1.set k s', (k, o) :: sm.2))

/-- One visit of the update visitor.  `inp x`: the batch of variable `x` in this `update()` (`[]` when the call
    left it out); `sent`: `self.constants_sent`. -/
def visitOnM (cfg : DCfg) (inp : String → ASig α) (sent : Bool) :
    F α → StoreOn α × MemoOn α → Except PyErr (ASig α × (StoreOn α × MemoOn α))
  | .var x, sm => .ok (inp x, sm)
  | .const c, sm => .ok (if sent then [] else [(Tm.zero, c), (.inf, c)], sm)
  | .un op φ, sm => do
      let (s, sm1) ← visitOnM cfg inp sent φ sm
      finishOn cfg (.un op φ) [s] sm1
  | .bin op φ ψ, sm => do
      let (s1, sm1) ← visitOnM cfg inp sent φ sm
      let (s2, sm2) ← visitOnM cfg inp sent ψ sm1
      finishOn cfg (.bin op φ ψ) [s1, s2] sm2
  | .tmp1 op φ, sm => do
      let (s, sm1) ← visitOnM cfg inp sent φ sm
      finishOn cfg (.tmp1 op φ) [s] sm1
  | .tmp2 op φ ψ, sm => do
      let (s1, sm1) ← visitOnM cfg inp sent φ sm
      let (s2, sm2) ← visitOnM cfg inp sent ψ sm1
      finishOn cfg (.tmp2 op φ ψ) [s1, s2] sm2
  | .tb1 op a b φ, sm => do
      let (s, sm1) ← visitOnM cfg inp sent φ sm
      finishOn cfg (.tb1 op a b φ) [s] sm1
  | .tb2 op a b φ ψ, sm => do
      let (s1, sm1) ← visitOnM cfg inp sent φ sm
      let (s2, sm2) ← visitOnM cfg inp sent ψ sm1
      finishOn cfg (.tb2 op a b φ ψ) [s1, s2] sm2

/-- `visitAst`: all assertions in order, one memo per update. -/
def visitSpecsOn (cfg : DCfg) (inp : String → ASig α) (sent : Bool) :
    List (F α) → StoreOn α × MemoOn α → Except PyErr (List (ASig α) × (StoreOn α × MemoOn α))
  | [], sm => .ok ([], sm)
  | φ :: rest, sm => do
      let (v, sm1) ← visitOnM cfg inp sent φ sm
      let (vs, sm2) ← visitSpecsOn cfg inp sent rest sm1
      pure (v :: vs, sm2)

/-- One `update()`: fresh memo, all assertions; the lists of all assertions, the memo of the round, the new dictionary. -/
def updateSpecsOn (cfg : DCfg) (inp : String → ASig α) (sent : Bool) (specs : List (F α)) (st : StoreOn α) :
    Except PyErr (List (ASig α) × MemoOn α × StoreOn α) := do
  let (vs, (st', mm)) ← visitSpecsOn cfg inp sent specs (st, [])
  pure (vs, mm, st')

/-- A sequence of `update()` calls; `constants_sent` is set at the end of every call. -/
def runSpecsOn (cfg : DCfg) (specs : List (F α)) :
    StoreOn α → Bool → List (String → ASig α) → Except PyErr (List (List (ASig α) × MemoOn α))
  | _, _, [] => .ok []
  | st, sent, b :: rest => do
      let (vs, mm, st') ← updateSpecsOn cfg b sent specs st
      let outs ← runSpecsOn cfg specs st' true rest
      pure ((vs, mm) :: outs)

/-- A fresh multi-assertion monitor fed `batches`.  `update()` returns the list of the last assertion; `get_value(n)`
    of an assertion or of a named sub-formula reads the memo of the round. -/
def runProgramOn (cfg : DCfg) (specs : List (F α)) (batches : List (String → ASig α)) :
    Except PyErr (List (List (ASig α) × MemoOn α)) := do
  let st ← initStoreOn specs []
  runSpecsOn cfg specs st false batches

end Rtamt.Dense.ProgramOn
