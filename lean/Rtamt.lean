import Rtamt.Value
import Rtamt.Syntax
import Rtamt.Discrete.Rho
import Rtamt.Discrete.Offline
import Rtamt.Proto
import Rtamt.Generated
