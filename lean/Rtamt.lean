import Rtamt.Value
import Rtamt.Syntax
import Rtamt.Discrete.Rho
import Rtamt.Discrete.Offline
import Rtamt.Discrete.Online
import Rtamt.Discrete.Pastify
import Rtamt.Proto
import Rtamt.Generated
