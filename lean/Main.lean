/-
  Line-protocol driver: one case per input line, one result per output line.
  Fields are separated by `|`.  Imports the model only (no Mathlib).
-/
import Rtamt
import Rtamt.Proto
import Rtamt.Generated

open Rtamt Rtamt.Proto

def errStr : PyErr → String
  | .index => "index" | .value => "value" | .key => "key" | .type => "type"
  | .rtamt => "rtamt" | .other => "other"

def showRes : Except PyErr (List Float) → String
  | .ok l => "ok " ++ showVals l
  | .error e => "err " ++ errStr e

def sigma (w : Env Float) (x : String) (t : Nat) : Float :=
  match w.lookup x with
  | some l => l.getD t (0.0 / 0.0)
  | none => 0.0 / 0.0

/-- All sub-formulas (for the NaN taint check: `inf - inf` is undefined in the README). -/
def subs : F Float → List (F Float)
  | .var x => [.var x]
  | .const c => [.const c]
  | .un op φ => .un op φ :: subs φ
  | .bin op φ ψ => .bin op φ ψ :: (subs φ ++ subs ψ)
  | .tmp1 op φ => .tmp1 op φ :: subs φ
  | .tmp2 op φ ψ => .tmp2 op φ ψ :: (subs φ ++ subs ψ)
  | .tb1 op a b φ => .tb1 op a b φ :: subs φ
  | .tb2 op a b φ ψ => .tb2 op a b φ ψ :: (subs φ ++ subs ψ)

/-- Some sub-formula takes the value NaN at some sample: the case is outside the domain of
    the README semantics (and of `LawfulVal`). -/
def tainted (w : Env Float) (n : Nat) (φ : F Float) : Bool :=
  (subs φ).any (fun ψ => (List.range n).any (fun t => (rho (sigma w) n ψ t).isNaN))

def parseInt (s : String) : Option Int :=
  if s.startsWith "-" then (s.drop 1).toString.toNat?.map (fun n => - (n : Int)) else s.toNat?.map (fun n => (n : Int))

/-- `p/q` or `p` -/
def parseRat (s : String) : Option Rat :=
  match s.splitOn "/" with
  | [p] => (parseInt p).map (fun n => (n : Rat))
  | [p, q] => do
      let n ← parseInt p
      let d ← q.toNat?
      if d = 0 then none else pure (mkRat n d)
  | _ => none

/-- dense signal `x:t0@v0,t1@v1` (times rational, values IEEE bits) -/
def parseDSig (s : String) : Option (String × Dense.DSig Float) :=
  match s.trimAscii.toString.splitOn ":" with
  | [x, body] =>
      let items := (body.splitOn ",").filter (· ≠ "")
      (items.mapM (fun (it : String) => match it.splitOn "@" with
          | [t, v] => do
              let t ← parseRat t
              let v ← floatOfBits v
              pure (t, v)
          | _ => none)).map (fun l => (x, l))
  | _ => none

def showOptVals (l : List (Option Float)) : String :=
  " ".intercalate (l.map (fun o => match o with | some v => bitsOfFloat v | none => "U"))

def parseUnit : String → Option TUnit
  | "s" => some .s | "ms" => some .ms | "us" => some .us | "ns" => some .ns | _ => none

def parseEnv (fields : List String) : Option (Env Float) := (fields.filter (· ≠ "")).mapM parseSignal

def handle (line : String) : String :=
  let fields := (line.splitOn "|").map (fun s => s.trimAscii.toString)
  match fields with
  | "rho" :: f :: n :: sigs =>
      match parseFormula f, n.toNat?, parseEnv sigs with
      | some φ, some n, some w => "ok " ++ showVals ((List.range n).map (rho (sigma w) n φ))
      | _, _, _ => "bad-input"
  | "rhot" :: f :: n :: sigs =>
      match parseFormula f, n.toNat?, parseEnv sigs with
      | some φ, some n, some w =>
          if tainted w n φ then "undef" else "ok " ++ showVals ((List.range n).map (rho (sigma w) n φ))
      | _, _, _ => "bad-input"
  | "offd" :: f :: n :: sigs =>
      match parseFormula f, n.toNat?, parseEnv sigs with
      | some φ, some n, some w => showRes (evalOff Generated.offlineDiscrete.handles w n φ)
      | _, _, _ => "bad-input"
  | "offdgen" :: f :: n :: sigs =>
      -- the offline visitor run through the visit methods translated from the Python source
      match parseFormula f, n.toNat?, parseEnv sigs with
      | some φ, some n, some w => showRes (Py.evalOffG w n φ)
      | _, _, _ => "bad-input"
  | "ond" :: f :: n :: sigs =>
      match parseFormula f, n.toNat?, parseEnv sigs with
      | some φ, some n, some w =>
          let es := (List.range n).map (fun t => fun x => sigma w x t)
          showRes (runOnline Generated.onlineDiscrete.handles Generated.onlineDiscrete.raises φ es)
      | _, _, _ => "bad-input"
  | "ondgen" :: f :: n :: sigs =>
      -- the online monitor run through the operation classes translated from the Python source
      match parseFormula f, n.toNat?, parseEnv sigs with
      | some φ, some n, some w =>
          let es := (List.range n).map (fun t => fun x => sigma w x t)
          let r : Except PyErr (List Float) := do
            let t ← Py.initG φ
            let (_, os) ← Py.runG φ t es
            pure os
          showRes r
      | _, _, _ => "bad-input"
  | "ondgenreset" :: f :: npre :: n :: sigs =>
      match parseFormula f, npre.toNat?, n.toNat?, parseEnv sigs with
      | some φ, some npre, some n, some w =>
          let es := (List.range n).map (fun t => fun x => sigma w x t)
          let r : Except PyErr (List Float) := do
            let t0 ← Py.initG φ
            let (t1, _) ← Py.runG φ t0 (es.take npre)
            let t2 ← Py.resetG t1
            let (_, os) ← Py.runG φ t2 (es.drop npre)
            pure os
          showRes r
      | _, _, _, _ => "bad-input"
  | "counter" :: period :: punit :: tol :: unit :: start :: ts :: _ =>
      -- model of the sampling-violation counter: online fold, offline loop, specification
      match parseRat period, parseUnit punit, parseRat tol, parseUnit unit, start.toNat?, (words ts).mapM parseRat with
      | some p, some pu, some tl, some u, some st, some tsl =>
          let c : SamplingCfg := { period := p, periodUnit := pu, tol := tl, unit := u }
          s!"ok {onlineCounter c tsl} {offlineCounter c st tsl} {(gaps tsl).countP c.outside}"
      | _, _, _, _, _, _ => "bad-input"
  | "dense" :: scale :: f :: times :: sigs =>
      -- dense-time reference semantics: value of rhoD at each query time ("U" = undefined there),
      -- then the start and the end of the common input domain
      match parseRat scale, parseFormula f, (words times).mapM parseRat, (sigs.filter (· ≠ "")).mapM parseDSig with
      | some sc, some φ, some ts, some w =>
          let cfg : Dense.DCfg := { scale := sc }
          let d := Dense.dom w φ
          let e := match Dense.domEnd w φ with | some e => s!"{e.num}/{e.den}" | none => "inf"
          -- fast bottom-up evaluator; cross-checked against the point-wise definition rhoD on shallow formulas
          let vals := ts.map (Dense.evalAt cfg w φ)
          let agree := if φ.size ≤ 6 then
              (ts.map (Dense.rhoD cfg w φ)).map (fun o => o.map Float.toBits) == vals.map (fun o => o.map Float.toBits)
            else true
          -- inf - inf somewhere in a sub-formula: outside the domain of the semantics
          let nanTaint := (subs φ).any (fun ψ => (Dense.sigOf cfg w ψ).any (fun p => p.2.isNaN))
          if !agree then "model-mismatch"
          else if nanTaint then s!"undef | {d.num}/{d.den} {e}"
          else s!"ok {showOptVals vals} | {d.num}/{d.den} {e}"
      | _, _, _, _ => "bad-input"
  | "densealg" :: scale :: f :: sigs =>
      -- the mirror of the dense-time offline list algorithms: the sample list `evaluate()` returns, sample by sample
      match parseRat scale, parseFormula f, (sigs.filter (· ≠ "")).mapM parseDSig with
      | some sc, some φ, some w =>
          let cfg : Dense.DCfg := { scale := sc }
          let nanTaint := (subs φ).any (fun ψ => match Dense.Alg.evalAlg cfg w ψ with
            | .ok l => l.any (fun p => p.2.isNaN)
            | .error _ => false)
          if nanTaint then "undef" else
          match Dense.Alg.evalAlg cfg w φ with
          | .ok l => "ok " ++ " ".intercalate (l.map (fun p =>
              (match p.1 with | .fin q => s!"{q.num}/{q.den}" | .inf => "inf") ++ "@" ++ bitsOfFloat p.2))
          | .error e => "err " ++ errStr e
      | _, _, _ => "bad-input"
  | "densealggen" :: scale :: f :: sigs =>
      -- the dense-time offline visitor as translated from the source (GeneratedDense.lean) under the semantics of Dn.lean
      match parseRat scale, parseFormula f, (sigs.filter (· ≠ "")).mapM parseDSig with
      | some sc, some φ, some w =>
          let cfg : Dense.DCfg := { scale := sc }
          let fuel := 100000
          let nanTaint := (subs φ).any (fun ψ => match Dense.Alg.evalAlg cfg w ψ with
            | .ok l => l.any (fun p => p.2.isNaN)
            | .error _ => false)
          if nanTaint then "undef" else
          match Py.Dn.evalAlgG fuel cfg w φ with
          | .ok l => "ok " ++ " ".intercalate (l.map (fun p =>
              (match p.1 with | .fin q => s!"{q.num}/{q.den}" | .inf => "inf") ++ "@" ++ bitsOfFloat p.2))
          | .error e => "err " ++ errStr e
      | _, _, _ => "bad-input"
  | "denseon" :: scale :: f :: batches =>
      -- the mirror of the dense-time online operation classes: one field per update() (`x:… & y:…`, `-` = no samples),
      -- output: the list every update() returns, `;`-separated
      let parseBatch (b : String) : Option (List (String × Dense.DSig Float)) :=
        if b.trimAscii.toString == "-" then some [] else
        ((b.splitOn "&").filter (fun x => x.trimAscii.toString ≠ "")).mapM parseDSig
      match parseRat scale, parseFormula f, (batches.filter (fun b => b.trimAscii.toString ≠ "")).mapM parseBatch with
      | some sc, some φ, some bs =>
          let cfg : Dense.DCfg := { scale := sc }
          let inps : List (String → Dense.Alg.ASig Float) := bs.map (fun b => fun x =>
            match b.lookup x with
            | some s => Dense.Alg.ofDSig s
            | none => [])
          match Dense.AlgOn.runOn cfg φ inps with
          | .ok outs =>
              if outs.any (fun l => l.any (fun p => p.2.isNaN)) then "undef" else
              "ok " ++ " ; ".intercalate (outs.map (fun l => if l.isEmpty then "-" else " ".intercalate (l.map (fun p =>
                (match p.1 with | .fin q => s!"{q.num}/{q.den}" | .inf => "inf") ++ "@" ++ bitsOfFloat p.2))))
          | .error e => "err " ++ errStr e
      | _, _, _ => "bad-input"
  | "denseongen" :: scale :: f :: batches =>
      -- the dense-time online operation classes as translated from the source (GeneratedDenseOn.lean) under DnOn.lean
      let parseBatch (b : String) : Option (List (String × Dense.DSig Float)) :=
        if b.trimAscii.toString == "-" then some [] else
        ((b.splitOn "&").filter (fun x => x.trimAscii.toString ≠ "")).mapM parseDSig
      match parseRat scale, parseFormula f, (batches.filter (fun b => b.trimAscii.toString ≠ "")).mapM parseBatch with
      | some sc, some φ, some bs =>
          let cfg : Dense.DCfg := { scale := sc }
          let inps : List (String → Dense.Alg.ASig Float) := bs.map (fun b => fun x =>
            match b.lookup x with
            | some s => Dense.Alg.ofDSig s
            | none => [])
          match Py.DnOn.runOnG 100000 cfg φ inps with
          | .ok outs =>
              if outs.any (fun l => l.any (fun p => p.2.isNaN)) then "undef" else
              "ok " ++ " ; ".intercalate (outs.map (fun l => if l.isEmpty then "-" else " ".intercalate (l.map (fun p =>
                (match p.1 with | .fin q => s!"{q.num}/{q.den}" | .inf => "inf") ++ "@" ++ bitsOfFloat p.2))))
          | .error e => "err " ++ errStr e
      | _, _, _ => "bad-input"
  | "denseprogen" :: scale :: fs :: batches =>
      -- the dense-time online INTERPRETER (operator dictionary keyed by name, per-update memo, several assertions, constants_sent)
      -- as translated from the source (GeneratedGlueDn.lean under GlueDn.lean): set_ast(), then one update() per batch;
      -- `fs`: the assertions, inlined, separated by `##`; output: the list every update() returns (the last assertion's)
      let parseBatch (b : String) : Option (List (String × Dense.DSig Float)) :=
        if b.trimAscii.toString == "-" then some [] else
        ((b.splitOn "&").filter (fun x => x.trimAscii.toString ≠ "")).mapM parseDSig
      match parseRat scale, ((fs.splitOn "##").filter (fun x => x.trimAscii.toString ≠ "")).mapM (fun x => parseFormula x.trimAscii.toString),
            (batches.filter (fun b => b.trimAscii.toString ≠ "")).mapM parseBatch with
      | some sc, some specs, some bs =>
          let cfg : Dense.DCfg := { scale := sc }
          let free : List String := (specs.flatMap (fun φ => φ.vars)).eraseDups
          let ds : List (List (String × Dense.Alg.ASig Float)) := bs.map (fun b => b.map (fun p => (p.1, Dense.Alg.ofDSig p.2)))
          let st0 : Py.GDn.GSt Float := { ops := [], updated := [], results := [], sent := true, vod := fun _ => [] }
          match (do let st ← Py.GDn.setAstGDn cfg specs st0; Py.GDn.runSpecsGDn cfg free specs st ds) with
          | .ok rounds =>
              let outs := rounds.map (fun r => r.1)
              if outs.any (fun l => l.any (fun p => p.2.isNaN)) then "undef" else
              "ok " ++ " ; ".intercalate (outs.map (fun l => if l.isEmpty then "-" else " ".intercalate (l.map (fun p =>
                (match p.1 with | .fin q => s!"{q.num}/{q.den}" | .inf => "inf") ++ "@" ++ bitsOfFloat p.2))))
          | .error e => "err " ++ errStr e
      | _, _, _ => "bad-input"
  | "parse" :: unit :: consts :: hex :: _ =>
      -- front end: text is hex-encoded UTF-8; consts: `K=2.0,J=3`
      let bytes : Option (List UInt8) :=
        let cs := hex.toList
        if cs.length % 2 != 0 then none else
        (List.range (cs.length / 2)).mapM (fun i => do
          let a ← Front.digitVal (cs.getD (2 * i) '0')
          let b ← Front.digitVal (cs.getD (2 * i + 1) '0')
          pure (UInt8.ofNat (a * 16 + b)))
      let cl : List (String × String) := ((consts.splitOn ",").filter (· ≠ "")).filterMap (fun (kv : String) =>
        match kv.splitOn "=" with | [k, v] => some (k, v) | _ => none)
      match parseUnit unit, bytes with
      | some u, some bs =>
          match String.fromUTF8? (ByteArray.mk bs.toArray) with
          | some text =>
              match Front.parseAndCheck cl u text with
              | .ok spec => "ok " ++ spec.str
              | .error (.lex c) => s!"err rtamt lex {c.toNat}"
              | .error (.syntax k) => s!"err rtamt syntax {k}"
              | .error (.semantic m) => s!"err rtamt semantic {m}"
          | none => "bad-input"
      | _, _ => "bad-input"
  | "explain" :: f :: n :: sigs =>
      -- positions reported by the mirror of the explainer: `x:t0,t1 ; y:...` (sorted), or `unsupported`
      match parseFormula f, n.toNat?, parseEnv sigs with
      | some φ, some n, some w =>
          match explainSpec (sigma w) n φ with
          | .error _ => "err rtamt"
          | .ok ex =>
              let vars := (φ.vars.eraseDups)
              let items := vars.map (fun x =>
                let ts := (List.range n).filter (fun t => reported ex x t)
                x ++ ":" ++ ",".intercalate (ts.map toString))
              "ok " ++ " ; ".intercalate items
      | _, _, _ => "bad-input"
  | "explainat" :: f :: n :: flag :: ivs :: sigs =>
      -- the explainer started on the formula with a given interval list and polarity (`b-e b-e ...`, flag 0/1)
      let parseIv (s : String) : Option (Nat × Nat) :=
        match s.splitOn "-" with
        | [a, b] => match a.toNat?, b.toNat? with | some x, some y => some (x, y) | _, _ => none
        | _ => none
      match parseFormula f, n.toNat?, (words ivs).mapM parseIv, parseEnv sigs with
      | some φ, some n, some I, some w =>
          match explain (sigma w) n φ I (flag == "1") with
          | .error _ => "err rtamt"
          | .ok ex =>
              let vars := (φ.vars.eraseDups)
              let items := vars.map (fun x =>
                let ts := (List.range n).filter (fun t => reported ex x t)
                x ++ ":" ++ ",".intercalate (ts.map toString))
              "ok " ++ " ; ".intercalate items
      | _, _, _, _ => "bad-input"
  | "explaingen" :: f :: n :: flag :: ivs :: sigs =>
      -- the same run through the functions and the table of visit methods translated from the source (`explainG`);
      -- per variable the positions and the merged list `interval_union` leaves in `explanations[x]`;
      -- `ivs` = `spec` runs `explain()` of the assertion (only when violated at 0)
      let parseIv (s : String) : Option (Int × Int) :=
        match s.splitOn "-" with
        | [a, b] => match a.toNat?, b.toNat? with | some x, some y => some ((x : Int), (y : Int)) | _, _ => none
        | _ => none
      match parseFormula f, n.toNat?, (if ivs == "spec" then some [] else (words ivs).mapM parseIv), parseEnv sigs with
      | some φ, some n, some I, some w =>
          let r := if ivs == "spec" then Py.explainSpecG (sigma w) n φ else Py.explainG (sigma w) n φ I (flag == "1")
          match r with
          | .error .rtamt => "err rtamt"
          | .error _ => "err other"
          | .ok ex =>
              let vars := (φ.vars.eraseDups)
              let items := vars.map (fun x =>
                let recs : List Ivs := (ex.filter (fun p => p.1 == x)).map (fun p => p.2.map (fun q => (q.1.toNat, q.2.toNat)))
                let ts := (List.range n).filter (fun t => recs.any (fun I => I.any (fun q => decide (q.1 ≤ t) && decide (t ≤ q.2))))
                -- `Explanations.__setitem__`: the first record of a name is stored as it is, a later one is merged with
                -- what is there by `interval_union`
                let stored : Option Ivs := recs.foldl (fun acc I => match acc with
                  | none => some I
                  | some A => some (unionIvs (A ++ I))) none
                x ++ ":" ++ ",".intercalate (ts.map toString) ++ ":" ++
                  (match stored with
                   | some I => " ".intercalate (I.map (fun q => s!"{q.1}-{q.2}"))
                   | none => "none"))
              "ok " ++ " ; ".intercalate items
      | _, _, _, _ => "bad-input"
  | "ia" :: sem :: inputs :: f :: _ =>
      -- the IA predicate override as a formula transformation
      let sm : Option Sem := match sem with
        | "standard" => some .standard | "outRob" => some .outRob | "inRob" => some .inRob
        | "inVac" => some .inVac | "outVac" => some .outVac | _ => none
      match sm, parseFormula f with
      | some sm, some φ => "ok " ++ showF (iaT sm ((inputs.splitOn ",").filter (· ≠ "")) φ)
      | _, _ => "bad-input"
  | "prog" :: fs :: n :: sigs =>
      -- multi-assertion online monitor (dictionary keyed by formula + per-update memo): per update the
      -- value of every assertion; rounds separated by ';'
      match (fs.splitOn ";;").mapM (fun s => parseFormula s), n.toNat?, parseEnv sigs with
      | some specs, some n, some w =>
          let es := (List.range n).map (fun t => fun x => sigma w x t)
          match runProgram Generated.onlineDiscrete.handles Generated.onlineDiscrete.raises specs es with
          | .ok rounds => "ok " ++ ";".intercalate (rounds.map (fun rd => showVals rd.1))
          | .error e => "err " ++ errStr e
      | _, _, _ => "bad-input"
  | "proggen" :: fs :: npre :: n :: sigs =>
      -- the same program run through the update / reset visitors translated from the source (`Rtamt/Py/RunGlue.lean`):
      -- `npre` updates, `reset()` if npre > 0, then the remaining updates; prints the rounds after the reset
      match (fs.splitOn ";;").mapM (fun s => parseFormula s), npre.toNat?, n.toNat?, parseEnv sigs with
      | some specs, some npre, some n, some w =>
          let es := (List.range n).map (fun t => fun x => sigma w x t)
          let r : Except PyErr (List (List (Option Float))) := do
            let ops ← initStore Generated.onlineDiscrete.handles Generated.onlineDiscrete.raises specs []
            let st0 : Py.GSt Float := { ops := ops, updated := [], results := [] }
            let rec feed (st : Py.GSt Float) : List (String → Float) → Except PyErr (Py.GSt Float × List (List (Option Float)))
              | [] => .ok (st, [])
              | e :: rest => do
                  let (vs, st') ← Py.updateSpecsG e specs st
                  let (st'', more) ← feed st' rest
                  pure (st'', vs :: more)
            let (st1, _) ← feed st0 (es.take npre)
            let st2 ← (if npre > 0 then Py.resetSpecsG specs st1 else pure st1)
            let (_, rounds) ← feed st2 (es.drop npre)
            pure rounds
          match r with
          | .ok rounds => "ok " ++ ";".intercalate (rounds.map (fun rd => showVals (rd.map (fun o => o.getD 0.0))))
          | .error e => "err " ++ errStr e
      | _, _, _, _ => "bad-input"
  | "units" :: unit :: period :: punit :: b :: bu :: e :: eu :: _ =>
      -- elaboration of one surface interval: discrete samples and dense default-unit bounds
      let ou (s : String) : Option (Option TUnit) := if s = "-" then some none else (parseUnit s).map some
      match parseUnit unit, parseRat period, parseUnit punit, parseRat b, ou bu, parseRat e, ou eu with
      | some u, some p, some pu, some b, some bu, some e, some eu =>
          let c : UnitCfg := { unit := u, period := p, periodUnit := pu }
          let i : SIv := { b := b, e := e, bu := bu, eu := eu }
          let d := i.toDefault u
          let dense := s!"{d.1.num}/{d.1.den} {d.2.num}/{d.2.den}"
          match i.toSamples c with
          | .ok (lo, hi) => s!"ok {lo} {hi} | {dense}"
          | .error _ => s!"err rtamt | {dense}"
      | _, _, _, _, _, _, _ => "bad-input"
  | "ondreset" :: f :: npre :: n :: sigs =>
      -- feed samples 0..npre-1, reset(), feed samples npre..n-1 ; prints post-reset outputs
      match parseFormula f, npre.toNat?, n.toNat?, parseEnv sigs with
      | some φ, some npre, some n, some w =>
          let es := (List.range n).map (fun t => fun x => sigma w x t)
          let r : Except PyErr (List Float) := do
            let st0 ← initTree Generated.onlineDiscrete.handles Generated.onlineDiscrete.raises φ
            let (st1, _) ← runTree φ st0 (es.take npre)
            let st2 := resetTree φ st1
            let (_, os) ← runTree φ st2 (es.drop npre)
            pure os
          showRes r
      | _, _, _, _ => "bad-input"
  | "sat" :: f :: n :: sigs =>
      match parseFormula f, n.toNat?, parseEnv sigs with
      | some φ, some n, some w =>
          if !(φ.isFormula && φ.noIffXor) then "err notformula"
          else "ok " ++ " ".intercalate ((List.range n).map (fun t => if sat (sigma w) n φ t then "1" else "0"))
      | _, _, _ => "bad-input"
  | "past" :: f :: _ =>
      match parseFormula f with
      | some φ =>
          match hor? φ with
          | some h => s!"ok {h} | {showF (pastify φ)}"
          | none => "err rtamt"
      | none => "bad-input"
  | "pastgen" :: f :: _ =>
      -- horizon and pastifier run through the visit methods translated from the Python source
      match parseFormula f with
      | some φ =>
          match (Py.horG φ : Except PyErr Int), Py.pastifyG φ with
          | .ok h, .ok ψ => s!"ok {h} | {showF ψ}"
          | .error .rtamt, _ => "err rtamt"
          | _, .error .rtamt => "err rtamt"
          | _, _ => "err other"
      | none => "bad-input"
  | "frag" :: name :: f :: _ =>
      match parseFormula f with
      | some φ =>
          let b : Option Bool := match name with
            | "frag" => some φ.frag
            | "futureFree" => some φ.futureFree
            | "bounded" => some φ.bounded
            | "online" => some φ.online
            | "wf" => some φ.wf
            | "isFormula" => some φ.isFormula
            | "noIffXor" => some φ.noIffXor
            | "simplePreds" => some φ.simplePreds
            | "simpleArith" => some φ.simpleArith
            | _ => none
          match b with
          | some true => "1"
          | some false => "0"
          | none => "bad-op"
      | none => "bad-input"
  | "echo" :: f :: _ =>
      match parseFormula f with
      | some φ => "ok " ++ showF φ
      | none => "bad-input"
  | _ => "bad-op"

partial def loop (h : IO.FS.Stream) (out : IO.FS.Stream) : IO Unit := do
  let line ← h.getLine
  if line.isEmpty then return ()
  let l := line.trimAscii.toString
  if !l.isEmpty then
    out.putStrLn (handle l)
  loop h out

def main : IO Unit := do
  let out ← IO.getStdout
  loop (← IO.getStdin) out
  out.flush
