import RtamtProofs.GenDenseInter
import RtamtProofs.GenDenseFwd
import RtamtProofs.GenDenseBack
import RtamtProofs.GenDenseScan
import RtamtProofs.GenDenseUn

namespace Rtamt.Py.Dn
open Rtamt Val Rtamt.Dense Rtamt.Dense.Alg

variable {α : Type} [Val α]

namespace GenD

@[simp] theorem exMap_ok {ε σ ρ : Type} (a : σ) (f : σ → ρ) : Except.map f (Except.ok a : Except ε σ) = .ok (f a) := rfl
@[simp] theorem exMap_error {ε σ ρ : Type} (e : ε) (f : σ → ρ) : Except.map f (Except.error e : Except ε σ) = .error e := rfl

/-- the length of a result of the mirror (0 for an exception) -/
def outLen (x : Except PyErr (ASig α)) : Nat :=
  match x with
  | .ok o => o.length
  | .error _ => 0

@[simp] theorem outLen_ok (o : ASig α) : outLen (.ok o) = o.length := rfl

end GenD

open GenD

/-- fuel for `since_timed_operation` -/
def Gst (l r : ASig α) (a b : Rat) : Nat :=
  l.length + r.length + outLen (onceTimed r a b) + outLen (sinceOp l r) +
    outLen (do let o ← sinceOp l r; histTimed o 0 a) + 4

theorem gen_since_timed (fuel k : Nat) (l r : ASig α) (a b : Rat) (h : Gst l r a b ≤ fuel) :
    callAt Gen.Dense.fns fuel (k + 4) "since_timed_operation" [encSig l, encSig r, .tm (.fin a), .tm (.fin b)]
      = (sinceTimed l r a b).map encSig := by
  rw [callAt_fn _ _ _ _ Gen.Dense.fn_since_timed_operation _ rfl]
  have hgt : evalBin .gt (.tm (.fin a) : DV α) (.int 0) = .ok (.bool (decide (0 < a))) := by
    simp [evalBin, isCmp, cmpDV, isTimeLike, toTm, cmpTm, Tm.lt]
  unfold Gst at h
  have c1 : callAt Gen.Dense.fns fuel (k + 3) "once_timed_operation" [encSig r, .tm (.fin a), .tm (.fin b)] = _ :=
    gen_once_timed fuel (k + 1) r a b (by unfold Fwd.G; omega)
  have c2 := gen_since_operation' fuel k (gen_intersection fuel k) l r (by omega)
  unfold sinceTimed
  cases h1 : onceTimed r a b with
  | error e =>
      rw [h1] at c1
      by_cases ha : 0 < a <;>
        simp [runFn, Gen.Dense.fn_since_timed_operation, exec, evalE, hgt, c1, ha, truthy, GenScan.resolve_cons]
  | ok o1 =>
      rw [h1] at c1
      cases h2 : sinceOp l r with
      | error e =>
          rw [h2] at c2
          by_cases ha : 0 < a <;>
            simp [runFn, Gen.Dense.fn_since_timed_operation, exec, evalE, hgt, c1, c2, ha, truthy, GenScan.resolve_cons]
      | ok o2 =>
          rw [h2] at c2
          simp only [h1, h2, outLen_ok, ok_bind] at h
          by_cases ha : 0 < a
          · have c3 : callAt Gen.Dense.fns fuel (k + 3) "historically_timed_operation" [encSig o2, .int 0, .tm (.fin a)] = _ :=
              gen_hist_timed_int0 fuel (k + 1) o2 a (by unfold Fwd.G; omega)
            cases h3 : histTimed o2 0 a with
            | error e =>
                rw [h3] at c3
                simp [runFn, Gen.Dense.fn_since_timed_operation, exec, evalE, hgt, c1, c2, c3, ha, truthy, GenScan.resolve_cons, h3]
            | ok o3 =>
                rw [h3] at c3
                simp only [h3, outLen_ok] at h
                have c4 := gen_and_operation fuel k o1 o3 (by omega)
                cases h4 : andOp o1 o3 <;> rw [h4] at c4 <;>
                simp [runFn, Gen.Dense.fn_since_timed_operation, exec, evalE, hgt, c1, c2, c3, c4, ha, truthy, GenScan.resolve_cons, h3, h4]
          · have c4 := gen_and_operation fuel k o1 o2 (by omega)
            cases h4 : andOp o1 o2 <;> rw [h4] at c4 <;>
            simp [runFn, Gen.Dense.fn_since_timed_operation, exec, evalE, hgt, c1, c2, c4, ha, truthy, GenScan.resolve_cons, h4]

end Rtamt.Py.Dn
