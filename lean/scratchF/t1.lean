import RtamtProofs.GenDenseBase
open Rtamt Rtamt.Dense.Alg Rtamt.Py.Dn
example (t : Tm) : t.add ((0 : Int) : Rat) = t.add 0 := by simp
example : (((0 : Int) : Rat)) = 0 := by simp
