/-
  The dense-time offline `evaluate(dataset)` as a whole method, as translated from the Python source
  (`Rtamt/Py/GeneratedDnEval.lean`, regenerated on every run by `harness/py2lean.py`: `evaluate` of
  `AbstractDenseTimeOfflineInterpreter` with `AbstractInterpreter.exist_ast` and
  `DenseTimeInterpreter.set_variable_to_ast_from_dataset` inlined, and `AbstractAstVisitor.visitAst`), run by `evaluateDnG`
  (`Rtamt/Py/RunDnEval.lean`), denotes the hand-written mirror `evaluateDnSpecs` (`Rtamt/Dense/OfflineSpecs.lean`) - the list
  returned, the exception raised, and `var_object_dict` afterwards, ALSO after an exception - and, for a specification with
  one assertion, `evalAlg`, on which C04 is stated (`C04_alg_eq_rhoD_partial`).  Composed with `genD_eval_list` (the
  translated visitor is `evalAlg`, for enough fuel).

  The residue of a failed call: the `fromkeys` clearing comes after `visitAst`, so when the visit of an assertion raises
  `var_object_dict` keeps the batches of that call, and a later call whose data set leaves a variable out reads the batch of
  the FAILED call (`genDnEval_residue`; the real library does the same).  When the data set covers the variables of the
  assertions the result does not depend on the earlier dictionary (`genDnEval_repeat`).
-/
import Rtamt.Py.RunDnEval
import RtamtProofs.GenOps
import RtamtProofs.GenDenseC04

namespace Rtamt.Py.DnEval
open Rtamt Val Rtamt.Py Rtamt.Dense Rtamt.Dense.Alg

variable {α : Type} [Val α]

/-- A Python list of results: `[]` or a non-empty list. -/
def evOfList : List (ASig α) → EV α
  | [] => .nil
  | x :: xs => .sigs (x :: xs)

/-! ### steps of the symbolic execution -/

theorem pure_ok {ε σ : Type} (a : σ) : (pure a : Except ε σ) = .ok a := rfl
theorem throw_err {ε σ : Type} (e : ε) : (throw e : Except ε σ) = .error e := rfl

omit [Val α] in
theorem liftE_ok {β : Type} (st : DState α) (v : β) : liftE st (.ok v) = .ok v := rfl
omit [Val α] in
theorem liftE_error {β : Type} (st : DState α) (e : PyErr) : liftE (β := β) st (.error e) = .error (e, st) := rfl

theorem getKey_setKey_ite {β : Type} (k k' : String) (v : β) (l : List (String × β)) :
    getKey k (setKey k' v l) = if k = k' then .ok v else getKey k l := by
  by_cases h : k = k'
  · subst h; simp only [getKey_setKey_same, if_true]
  · simp only [getKey_setKey_ne _ _ _ _ h, h, if_false]

theorem execES_seq (c : VCtx) (va : VisitAst α) (a b : ES) (env : EEnv α) :
    execES c va (.seq a b) env = (execES c va a env >>= execES c va b) := by
  simp only [execES]

theorem execES_setLoc (c : VCtx) (va : VisitAst α) (x : String) (e : EE) (env : EEnv α) (v : EV α)
    (h : evalEE c va env e = .ok v) :
    execES c va (.setLoc x e) env = .ok { env with loc := setKey x v env.loc } := by
  simp only [execES, h, liftE_ok]; rfl

theorem execES_forIn_nodes (c : VCtx) (va : VisitAst α) (x : String) (it : EE) (body : ES) (env : EEnv α) (l : List (F α))
    (h : evalEE c va env it = .ok (.nodes l)) :
    execES c va (.forIn x it body) env
      = (l.map EV.node).foldlM (fun env v => execES c va body { env with loc := setKey x v env.loc }) env := by
  simp only [execES, h, ok_bind, pure_ok, liftE_ok]

theorem execES_forIn_data (c : VCtx) (va : VisitAst α) (x : String) (it : EE) (body : ES) (env : EEnv α) (d : DData α)
    (h : evalEE c va env it = .ok (.data d)) :
    execES c va (.forIn x it body) env
      = (d.map fun r => EV.row r.1 r.2).foldlM (fun env v => execES c va body { env with loc := setKey x v env.loc }) env := by
  simp only [execES, h, ok_bind, pure_ok, liftE_ok]

/-! ### `visitAst` -/

theorem visit_loop (c : VCtx) (st : DState α) (a : DAst α) (hst : st.ast = .some a) :
    ∀ (specs : List (F α)) (_ : ∀ φ ∈ specs, Dn.evalAlgG c.fuel c.cfg a.vars φ = evalAlg c.cfg a.vars φ)
      (acc : List (ASig α)) (loc : List (String × EV α))
      (_ : getKey "args" loc = .ok .tuple0) (_ : getKey "kwargs" loc = .ok .kw0)
      (_ : getKey "out" loc = .ok (evOfList acc)),
      (∀ e, evalSpecsD c.cfg a.vars specs = .error e →
        (specs.map EV.node).foldlM (fun env v => execES c noVisitAst
            (.appendLoc "out" (.visit (.loc "spec") "args" "kwargs")) { env with loc := setKey "spec" v env.loc })
          (⟨st, loc⟩ : EEnv α) = .error (e, st)) ∧
      (∀ rs, evalSpecsD c.cfg a.vars specs = .ok rs →
        ∃ loc', (specs.map EV.node).foldlM (fun env v => execES c noVisitAst
            (.appendLoc "out" (.visit (.loc "spec") "args" "kwargs")) { env with loc := setKey "spec" v env.loc })
          (⟨st, loc⟩ : EEnv α) = .ok ⟨st, loc'⟩ ∧ getKey "out" loc' = .ok (evOfList (acc ++ rs))) := by
  intro specs
  induction specs with
  | nil =>
    intro _ acc loc _ _ hout
    refine ⟨fun e h => by simp [evalSpecsD] at h, fun rs h => ?_⟩
    have : rs = [] := by simpa [evalSpecsD] using h.symm
    subst this
    exact ⟨loc, rfl, by simpa using hout⟩
  | cons φ rest ih =>
    intro hs acc loc hargs hkw hout
    have hφ := hs φ (List.mem_cons_self ..)
    have hrest : ∀ ψ ∈ rest, Dn.evalAlgG c.fuel c.cfg a.vars ψ = evalAlg c.cfg a.vars ψ :=
      fun ψ hψ => hs ψ (List.mem_cons_of_mem _ hψ)
    have hstep : execES c noVisitAst (.appendLoc "out" (.visit (.loc "spec") "args" "kwargs"))
        (⟨st, setKey "spec" (.node φ) loc⟩ : EEnv α)
        = (liftE st (evalAlg c.cfg a.vars φ) >>= fun r =>
            .ok ⟨st, setKey "out" (evOfList (acc ++ [r])) (setKey "spec" (.node φ) loc)⟩) := by
      have h1 : getKey "out" (setKey "spec" (EV.node φ) loc) = .ok (evOfList acc) := by
        rw [getKey_setKey_ne _ _ _ _ (by decide)]; exact hout
      have h2 : getKey "args" (setKey "spec" (EV.node φ) loc) = .ok .tuple0 := by
        rw [getKey_setKey_ne _ _ _ _ (by decide)]; exact hargs
      have h3 : getKey "kwargs" (setKey "spec" (EV.node φ) loc) = .ok .kw0 := by
        rw [getKey_setKey_ne _ _ _ _ (by decide)]; exact hkw
      simp only [execES, evalEE, h1, h2, h3, getKey_setKey_same, ok_bind, DState.getAst, hst, hφ, liftE_ok]
      cases evalAlg c.cfg a.vars φ with
      | error e => rfl
      | ok r =>
        simp only [ok_bind, liftE_ok]
        cases acc <;> rfl
    simp only [List.map_cons, List.foldlM_cons, hstep, evalSpecsD]
    cases hr : evalAlg c.cfg a.vars φ with
    | error e =>
      refine ⟨fun e' h => ?_, fun rs h => ?_⟩
      · have : e = e' := by simpa [error_bind] using h
        subst this
        simp only [liftE_error, error_bind]
      · simp at h
    | ok r =>
      simp only [ok_bind, liftE_ok]
      obtain ⟨ihE, ihO⟩ := ih hrest (acc ++ [r]) (setKey "out" (evOfList (acc ++ [r])) (setKey "spec" (.node φ) loc))
        (by rw [getKey_setKey_ne _ _ _ _ (by decide), getKey_setKey_ne _ _ _ _ (by decide)]; exact hargs)
        (by rw [getKey_setKey_ne _ _ _ _ (by decide), getKey_setKey_ne _ _ _ _ (by decide)]; exact hkw)
        (getKey_setKey_same ..)
      refine ⟨fun e h => ?_, fun rs h => ?_⟩
      · cases hrs : evalSpecsD c.cfg a.vars rest with
        | error e' =>
          rw [hrs] at h
          have : e' = e := by simpa [error_bind] using h
          exact this ▸ ihE e' hrs
        | ok rs' => rw [hrs] at h; simp at h
      · cases hrs : evalSpecsD c.cfg a.vars rest with
        | error e' => rw [hrs] at h; simp at h
        | ok rs' =>
          rw [hrs] at h
          have : rs = r :: rs' := by simpa [ok_bind] using h.symm
          subst this
          obtain ⟨loc', h1, h2⟩ := ihO rs' hrs
          exact ⟨loc', h1, by simpa using h2⟩

/-- The translated `visitAst(ast)`: every assertion is visited in order; the list of the results. -/
theorem visitAstG_eq (c : VCtx) (st : DState α) (a : DAst α) (hst : st.ast = .some a)
    (hs : ∀ φ ∈ a.specs, Dn.evalAlgG c.fuel c.cfg a.vars φ = evalAlg c.cfg a.vars φ) :
    visitAstG c .astRef st = (evalSpecsD c.cfg a.vars a.specs >>= fun rs => .ok (evOfList rs)) := by
  have h1 : getKey "args" [("ast", (EV.astRef : EV α)), ("args", .tuple0), ("kwargs", .kw0), ("out", .nil)] = .ok .tuple0 := by
    rw [getKey_cons_ne _ _ _ _ (by decide), getKey_cons_same]
  have h2 : getKey "kwargs" [("ast", (EV.astRef : EV α)), ("args", .tuple0), ("kwargs", .kw0), ("out", .nil)] = .ok .kw0 := by
    rw [getKey_cons_ne _ _ _ _ (by decide), getKey_cons_ne _ _ _ _ (by decide), getKey_cons_same]
  have h3 : getKey "out" [("ast", (EV.astRef : EV α)), ("args", .tuple0), ("kwargs", .kw0), ("out", .nil)] = .ok (evOfList []) := by
    rw [getKey_cons_ne _ _ _ _ (by decide), getKey_cons_ne _ _ _ _ (by decide), getKey_cons_ne _ _ _ _ (by decide), getKey_cons_same]
    rfl
  obtain ⟨hE, hO⟩ := visit_loop c st a hst a.specs hs [] _ h1 h2 h3
  have hspecs : evalEE c noVisitAst (⟨st, [("ast", (EV.astRef : EV α)), ("args", .tuple0), ("kwargs", .kw0), ("out", .nil)]⟩ : EEnv α)
      (.specsOf "ast") = .ok (.nodes a.specs) := by
    simp only [evalEE, getKey_cons_same, ok_bind, DState.getAst, hst, pure_ok]
  simp only [visitAstG, callE, Gen.DnEval.visitAst, List.length_cons, List.length_nil, ne_eq, not_true_eq_false, if_false,
    List.zip_cons_cons, List.zip_nil_right, pure_ok]
  rw [execES_seq, execES_setLoc _ _ _ _ _ .nil rfl, ok_bind]
  simp only [setKey, String.reduceBEq, Bool.false_eq_true, if_false]
  rw [execES_forIn_nodes _ _ _ _ _ _ _ hspecs]
  cases hr : evalSpecsD c.cfg a.vars a.specs with
  | error e => rw [hE e hr]; rfl
  | ok rs =>
    obtain ⟨loc', hl, hout⟩ := hO rs hr
    rw [hl]
    simp only [ok_bind, evalEE, hout, List.nil_append, liftE_ok]

/-! ### `set_variable_to_ast_from_dataset` -/

/-- the body of the loop of `set_variable_to_ast_from_dataset`, as translated -/
def bindBody : ES :=
  (.seq (.setLoc "var_name" (.idx (.loc "data") (.intLit 0))) (.seq (.setLoc "var_object" (.idx (.loc "data") (.intLit 1))) (.ite (.isIn (.idx (.loc "data") (.intLit 0)) .freeVars) (.setVar (.loc "var_name") (.loc "var_object")) .skip)))

theorem bind_step (c : VCtx) (va : VisitAst α) (specs : List (F α)) (free : List String) (w : DEnv α)
    (x : String) (s : DSig α) (loc : List (String × EV α)) :
    execES c va bindBody (⟨⟨.some ⟨specs, w, free⟩⟩, setKey "data" (.row x s) loc⟩ : EEnv α)
      = .ok ⟨⟨.some ⟨specs, if free.contains x then (x, s) :: w else w, free⟩⟩,
          setKey "var_object" (.sig s) (setKey "var_name" (.str x) (setKey "data" (.row x s) loc))⟩ := by
  by_cases hx : x ∈ free <;>
    simp [bindBody, execES, evalEE, getKey_setKey_ite, ok_bind, pure_ok, liftE_ok, pyIdx, DState.getAst, hx, liftE]

theorem bind_loop (c : VCtx) (va : VisitAst α) (specs : List (F α)) (free : List String) :
    ∀ (rows : DData α) (w : DEnv α) (loc : List (String × EV α)),
      ∃ loc', (rows.map fun r => EV.row r.1 r.2).foldlM (fun env v => execES c va bindBody
            { env with loc := setKey "data" v env.loc })
          (⟨⟨.some ⟨specs, w, free⟩⟩, loc⟩ : EEnv α)
        = .ok ⟨⟨.some ⟨specs, bindRows free rows w, free⟩⟩, loc'⟩ := by
  intro rows
  induction rows with
  | nil => intro w loc; exact ⟨loc, rfl⟩
  | cons r rest ih =>
    intro w loc
    obtain ⟨loc', h⟩ := ih (if free.contains r.1 then (r.1, r.2) :: w else w)
      (setKey "var_object" (.sig r.2) (setKey "var_name" (.str r.1) (setKey "data" (.row r.1 r.2) loc)))
    refine ⟨loc', ?_⟩
    simp only [List.map_cons, List.foldlM_cons, bind_step, ok_bind]
    rw [h]
    rfl

/-! ### the last element -/

theorem pyIdx_last {β : Type} (l : List β) :
    pyIdx l ((l.length : Int) - 1) = match l.getLast? with | none => .error .index | some x => .ok x := by
  cases l with
  | nil => rfl
  | cons x xs =>
    have h1 : ¬ ((((x :: xs).length : Nat) : Int) - 1 < 0) := by simp only [List.length_cons]; omega
    have h2 : ((((x :: xs).length : Nat) : Int) - 1).toNat = (x :: xs).length - 1 := by omega
    simp only [pyIdx, h1, if_false, h2, List.getLast?_eq_getElem?]
    cases (x :: xs)[(x :: xs).length - 1]? <;> rfl

/-! ### `evaluate(dataset)` -/

/-- The interpreter object after `set_ast(a)`. -/
def mkState (a : DAst α) : DState α := ⟨.some a⟩

/-- The translated `evaluate(dataset)` is the mirror `evaluateDnSpecs`, for a fuel with which the translated visitor is the
    mirror of the visitor on every assertion (`genD_eval_list`). -/
theorem genDnEval_evaluate_fuel (fuel : Nat) (cfg : DCfg) (a : DAst α) (d : DData α)
    (hf : ∀ φ ∈ a.specs, Dn.evalAlgG fuel cfg (bindRows a.free d a.vars) φ = evalAlg cfg (bindRows a.free d a.vars) φ) :
    evaluateDnG fuel cfg (mkState a) d =
      ((evaluateDnSpecs cfg a.specs a.free d a.vars).1,
        mkState { a with vars := (evaluateDnSpecs cfg a.specs a.free d a.vars).2 }) := by
  obtain ⟨specs, w, free⟩ := a
  obtain ⟨loc1, hl1⟩ := bind_loop ⟨fuel, cfg⟩ (visitAstG ⟨fuel, cfg⟩) specs free d w [("dataset", .data d)]
  have s1 : execES ⟨fuel, cfg⟩ (visitAstG ⟨fuel, cfg⟩) (.ite .astIsNone (.raise .rtamt) .skip)
      (⟨⟨.some ⟨specs, w, free⟩⟩, [("dataset", .data d)]⟩ : EEnv α)
      = .ok ⟨⟨.some ⟨specs, w, free⟩⟩, [("dataset", .data d)]⟩ := by
    simp only [execES, evalEE, ok_bind, pure_ok, liftE_ok]
  have s2 : evalEE ⟨fuel, cfg⟩ (visitAstG ⟨fuel, cfg⟩) (⟨⟨.some ⟨specs, w, free⟩⟩, [("dataset", .data d)]⟩ : EEnv α)
      (.loc "dataset") = .ok (.data d) := by
    simp only [evalEE]; exact getKey_cons_same ..
  have s3 : evalEE ⟨fuel, cfg⟩ (visitAstG ⟨fuel, cfg⟩) (⟨⟨.some ⟨specs, bindRows free d w, free⟩⟩, loc1⟩ : EEnv α)
      (.callVisitAst .selfAst)
      = (evalSpecsD cfg (bindRows free d w) specs >>= fun rs => .ok (evOfList rs)) := by
    simp only [evalEE, ok_bind, pure_ok]
    exact visitAstG_eq ⟨fuel, cfg⟩ _ ⟨specs, bindRows free d w, free⟩ rfl hf
  simp only [evaluateDnG, callE, Gen.DnEval.evaluate, List.length_cons, List.length_nil, ne_eq, not_true_eq_false,
    if_false, List.zip_cons_cons, List.zip_nil_right, pure_ok, mkState]
  rw [execES_seq, s1, ok_bind, execES_seq, execES_forIn_data _ _ _ _ _ _ d s2]
  simp only [bindBody] at hl1
  rw [hl1, ok_bind, execES_seq]
  simp only [evaluateDnSpecs]
  cases hr : evalSpecsD cfg (bindRows free d w) specs with
  | error e =>
    have s3' : execES ⟨fuel, cfg⟩ (visitAstG ⟨fuel, cfg⟩) (.setLoc "rob" (.callVisitAst .selfAst))
        (⟨⟨.some ⟨specs, bindRows free d w, free⟩⟩, loc1⟩ : EEnv α)
        = .error (e, ⟨.some ⟨specs, bindRows free d w, free⟩⟩) := by
      simp only [execES, s3, hr, error_bind, liftE_error]
    rw [s3']
    simp only [error_bind]
  | ok robs =>
    have s3' := execES_setLoc ⟨fuel, cfg⟩ (visitAstG ⟨fuel, cfg⟩) "rob" (.callVisitAst .selfAst)
        (⟨⟨.some ⟨specs, bindRows free d w, free⟩⟩, loc1⟩ : EEnv α) (evOfList robs) (by rw [s3, hr, ok_bind])
    rw [s3', ok_bind]
    have s4 : execES ⟨fuel, cfg⟩ (visitAstG ⟨fuel, cfg⟩) (.setVarDict (.fromkeys .varDict .varDict .emptyList))
        (⟨⟨.some ⟨specs, bindRows free d w, free⟩⟩, setKey "rob" (evOfList robs) loc1⟩ : EEnv α)
        = .ok ⟨⟨.some ⟨specs, clearVars (bindRows free d w), free⟩⟩, setKey "rob" (evOfList robs) loc1⟩ := by
      simp only [execES, evalEE, ok_bind, pure_ok, liftE_ok, DState.getAst, clearVars]
    rw [s4, ok_bind]
    cases robs with
    | nil =>
      simp only [evalEE, getKey_setKey_same, evOfList, ok_bind, pure_ok, throw_err, error_bind, liftE_error,
        List.getLast?_nil]
    | cons r0 rs =>
      obtain ⟨rob, hrob⟩ : ∃ rob, (r0 :: rs).getLast? = some rob :=
        ⟨(r0 :: rs).getLast (by simp), List.getLast?_eq_some_getLast _⟩
      simp only [evalEE, getKey_setKey_same, evOfList, ok_bind, pure_ok, pyIdx_last, hrob, liftE_ok]

/-- **The translated `evaluate(dataset)` is the mirror `evaluateDnSpecs`** (with enough fuel for the `while` loops of the
    visitor): the first exception raised by the visit of an assertion - `var_object_dict` then keeps the batches of the data
    set, the clearing is not reached -, otherwise `var_object_dict` is cleared (every key kept, every batch `[]`) and the call
    returns the list of the last assertion, or raises `IndexError` for a specification without assertions. -/
theorem genDnEval_evaluate (cfg : DCfg) (a : DAst α) (d : DData α) :
    ∃ N, ∀ fuel, N ≤ fuel →
      evaluateDnG fuel cfg (mkState a) d =
        ((evaluateDnSpecs cfg a.specs a.free d a.vars).1,
          mkState { a with vars := (evaluateDnSpecs cfg a.specs a.free d a.vars).2 }) := by
  obtain ⟨N, hN⟩ := Dn.genD_eval_list cfg (bindRows a.free d a.vars) a.specs (fun φ _ => φ.denseSupported_all)
  exact ⟨N, fun fuel hf => genDnEval_evaluate_fuel fuel cfg a d (hN fuel hf)⟩

/-- Before `set_ast` the object has no attribute `ast`: `exist_ast()` raises `AttributeError`, not the `RTAMTException`
    it is written for; after `set_ast(None)` it raises the `RTAMTException`.  The state is unchanged. -/
theorem genDnEval_no_ast (fuel : Nat) (cfg : DCfg) (d : DData α) :
    evaluateDnG fuel cfg (⟨.unset⟩ : DState α) d = (.error .other, ⟨.unset⟩) ∧
    evaluateDnG fuel cfg (⟨.none⟩ : DState α) d = (.error .rtamt, ⟨.none⟩) := by
  constructor <;>
    simp only [evaluateDnG, callE, Gen.DnEval.evaluate, List.length_cons, List.length_nil, ne_eq, not_true_eq_false,
      if_false, List.zip_cons_cons, List.zip_nil_right, pure_ok, execES, evalEE, ok_bind, error_bind, throw_err,
      liftE_error, liftE_ok]

/-! ### one assertion: `evalAlg`, and C04 on the run of the translated method -/

theorem evaluateDnSpecs_single (cfg : DCfg) (φ : F α) (free : List String) (d : DData α) (w : DEnv α) :
    evaluateDnSpecs cfg [φ] free d w =
      match evalAlg cfg (bindRows free d w) φ with
      | .error e => (.error e, bindRows free d w)
      | .ok s => (.ok s, clearVars (bindRows free d w)) := by
  simp only [evaluateDnSpecs, evalSpecsD]
  cases evalAlg cfg (bindRows free d w) φ with
  | error e => rfl
  | ok r => rfl

/-- For a specification with one assertion the translated `evaluate(dataset)` is exactly the visitor (`evalAlg`) on the
    data set written into `var_object_dict`; the dictionary is cleared when the visitor returns, not when it raises. -/
theorem genDnEval_single (cfg : DCfg) (a : DAst α) (φ : F α) (hφ : a.specs = [φ]) (d : DData α) :
    ∃ N, ∀ fuel, N ≤ fuel →
      evaluateDnG fuel cfg (mkState a) d =
        match evalAlg cfg (bindRows a.free d a.vars) φ with
        | .error e => (.error e, mkState { a with vars := bindRows a.free d a.vars })
        | .ok s => (.ok s, mkState { a with vars := clearVars (bindRows a.free d a.vars) }) := by
  obtain ⟨N, hN⟩ := genDnEval_evaluate cfg a d
  refine ⟨N, fun fuel hf => ?_⟩
  rw [hN fuel hf, hφ, evaluateDnSpecs_single]
  cases evalAlg cfg (bindRows a.free d a.vars) φ with
  | error e => rfl
  | ok r => rfl

/-- **C04 on the run of the translated `evaluate()`** (fragment and hypotheses of `C04_alg_eq_rhoD_partial`, on the
    dictionary the visitor reads: the data set written over what `var_object_dict` held): for a specification with the one
    assertion `φ`, with enough fuel the translated `evaluate(dataset)` returns a sample list with strictly increasing time
    stamps that starts at the beginning of the common input domain and, read as a step function, equals the dense-time
    robustness at every time of the domain; `var_object_dict` is cleared afterwards. -/
theorem C04_evaluate_translated_partial [LawfulVal α] (cfg : DCfg) (hs : 0 ≤ cfg.scale) (a : DAst α) (φ : F α)
    (hφ : a.specs = [φ]) (d : DData α)
    (hsup : supported φ = true) (hia : noIA φ = true) (hnp : noPartialOps φ = true)
    (hw : (bindRows a.free d a.vars).WF φ.vars) (h0 : StartsAt0 (bindRows a.free d a.vars) φ.vars)
    (hsub : ∀ a b : α, Val.neg (Val.sub a b) = Val.sub b a) :
    ∃ N s, (∀ fuel, N ≤ fuel →
        evaluateDnG fuel cfg (mkState a) d
          = (.ok s, mkState { a with vars := clearVars (bindRows a.free d a.vars) })) ∧
      Sorted s ∧ (times s).head? = some (Tm.fin (dom (bindRows a.free d a.vars) φ)) ∧
      ∀ t, dom (bindRows a.free d a.vars) φ ≤ t → valAtA s t = rhoD cfg (bindRows a.free d a.vars) φ t := by
  obtain ⟨s, he, h1, h2, h3⟩ := C04_alg_eq_rhoD_partial cfg hs (bindRows a.free d a.vars) φ hsup hia hnp hw h0 hsub
  obtain ⟨N, hN⟩ := genDnEval_single cfg a φ hφ d
  exact ⟨N, s, fun fuel hf => by rw [hN fuel hf, he], h1, h2, h3⟩

/-! ### what the visitor reads: the data set over the earlier dictionary -/

omit [Val α] in
/-- `var_object_dict[x]` after `set_variable_to_ast_from_dataset`: for a free variable the LAST row of that name, if there
    is one; otherwise what the dictionary held before. -/
theorem bindRows_lookup (free : List String) (x : String) :
    ∀ (d : DData α) (w : DEnv α), (bindRows free d w).lookup x =
      if free.contains x then (d.reverse.lookup x).or (w.lookup x) else w.lookup x := by
  intro d
  induction d with
  | nil => intro w; simp [bindRows]
  | cons r rest ih =>
    intro w
    have hstep : bindRows free (r :: rest) w = bindRows free rest (if free.contains r.1 then (r.1, r.2) :: w else w) := rfl
    rw [hstep, ih, List.reverse_cons, List.lookup_append]
    by_cases hx : x ∈ free
    · by_cases hxr : x = r.1
      · subst hxr
        simp [hx, List.lookup]
      · have hb : (x == r.1) = false := by simpa using hxr
        by_cases hr : r.1 ∈ free <;> simp [hx, hr, List.lookup, hb]
    · by_cases hxr : x = r.1
      · subst hxr; simp [hx]
      · have hb : (x == r.1) = false := by simpa using hxr
        by_cases hr : r.1 ∈ free <;> simp [hx, hr, List.lookup, hb]

omit [Val α] in
/-- The dictionary the visitor reads does not depend on what `var_object_dict` held before, for the free variables that
    have a row in the data set. -/
theorem bindRows_lookup_indep (free : List String) (x : String) (d : DData α) (w w' : DEnv α)
    (hx : x ∈ free) (hd : x ∈ d.map (·.1)) : (bindRows free d w).lookup x = (bindRows free d w').lookup x := by
  have hsome : ∃ s, d.reverse.lookup x = some s := by
    have : x ∈ d.reverse.map (·.1) := by simpa using hd
    generalize d.reverse = l at this
    induction l with
    | nil => simp at this
    | cons p rest ih =>
      by_cases hk : x = p.1
      · exact ⟨p.2, by subst hk; simp [List.lookup]⟩
      · have hb : (x == p.1) = false := by simpa using hk
        simp only [List.map_cons, List.mem_cons] at this
        rcases this with h | h
        · exact absurd h hk
        · obtain ⟨s, hs⟩ := ih h
          exact ⟨s, by simp [List.lookup, hb, hs]⟩
  obtain ⟨s, hs⟩ := hsome
  simp [bindRows_lookup, hx, hs]

omit [Val α] in
theorem bindRows_sig (free : List String) (x : String) (d : DData α) (w : DEnv α) (s : DSig α)
    (hx : x ∈ free) (hs : d.reverse.lookup x = some s) : (bindRows free d w).sig x = s := by
  simp [DEnv.sig, bindRows_lookup, hx, hs]

/-- `C04_evaluate_translated_partial` with the hypotheses on the data set itself: every variable of the assertion is a
    free variable of the specification and its last row in the data set is a non-empty sample list with strictly increasing
    time stamps that starts at time 0 - whatever `var_object_dict` held before (in particular the residue of a failed
    call). -/
theorem C04_evaluate_translated_dataset_partial [LawfulVal α] (cfg : DCfg) (hs : 0 ≤ cfg.scale) (a : DAst α) (φ : F α)
    (hφ : a.specs = [φ]) (d : DData α)
    (hsup : supported φ = true) (hia : noIA φ = true) (hnp : noPartialOps φ = true)
    (hd : ∀ x ∈ φ.vars, x ∈ a.free ∧ ∃ s : DSig α, d.reverse.lookup x = some s ∧ s ≠ [] ∧
      s.times.Pairwise (· < ·) ∧ s.times.head? = some 0)
    (hsub : ∀ a b : α, Val.neg (Val.sub a b) = Val.sub b a) :
    ∃ N s, (∀ fuel, N ≤ fuel →
        evaluateDnG fuel cfg (mkState a) d
          = (.ok s, mkState { a with vars := clearVars (bindRows a.free d a.vars) })) ∧
      Sorted s ∧ (times s).head? = some (Tm.fin (dom (bindRows a.free d a.vars) φ)) ∧
      ∀ t, dom (bindRows a.free d a.vars) φ ≤ t → valAtA s t = rhoD cfg (bindRows a.free d a.vars) φ t := by
  refine C04_evaluate_translated_partial cfg hs a φ hφ d hsup hia hnp ?_ ?_ hsub
  · intro x hx
    obtain ⟨hf, s, h1, h2, h3, _⟩ := hd x hx
    rw [bindRows_sig a.free x d a.vars s hf h1]
    exact ⟨h2, h3⟩
  · intro x hx
    obtain ⟨hf, s, h1, _, _, h4⟩ := hd x hx
    rw [bindRows_sig a.free x d a.vars s hf h1]
    exact h4

theorem evalAlg_congr (cfg : DCfg) (w w' : DEnv α) (φ : F α) (h : ∀ x ∈ φ.vars, w.lookup x = w'.lookup x) :
    evalAlg cfg w φ = evalAlg cfg w' φ := by
  induction φ with
  | var x => simp only [evalAlg, h x (by simp [F.vars])]
  | const c => rfl
  | un op φ ih => simp only [evalAlg, ih (fun x hx => h x (by simpa [F.vars] using hx))]
  | bin op φ ψ ih1 ih2 =>
    simp only [evalAlg, ih1 (fun x hx => h x (by simp [F.vars, hx])), ih2 (fun x hx => h x (by simp [F.vars, hx]))]
  | tmp1 op φ ih => simp only [evalAlg, ih (fun x hx => h x (by simpa [F.vars] using hx))]
  | tmp2 op φ ψ ih1 ih2 =>
    simp only [evalAlg, ih1 (fun x hx => h x (by simp [F.vars, hx])), ih2 (fun x hx => h x (by simp [F.vars, hx]))]
  | tb1 op a b φ ih => simp only [evalAlg, ih (fun x hx => h x (by simpa [F.vars] using hx))]
  | tb2 op a b φ ψ ih1 ih2 =>
    simp only [evalAlg, ih1 (fun x hx => h x (by simp [F.vars, hx])), ih2 (fun x hx => h x (by simp [F.vars, hx]))]

theorem evalSpecsD_congr (cfg : DCfg) (w w' : DEnv α) (specs : List (F α))
    (h : ∀ φ ∈ specs, ∀ x ∈ φ.vars, w.lookup x = w'.lookup x) : evalSpecsD cfg w specs = evalSpecsD cfg w' specs := by
  induction specs with
  | nil => rfl
  | cons φ rest ih =>
    simp only [evalSpecsD, evalAlg_congr cfg w w' φ (h φ (List.mem_cons_self ..)),
      ih (fun ψ hψ => h ψ (List.mem_cons_of_mem _ hψ))]

/-- The data set names every variable the assertions read, and they are free variables of the specification. -/
def Covers (specs : List (F α)) (free : List String) (d : DData α) : Prop :=
  ∀ φ ∈ specs, ∀ x ∈ φ.vars, x ∈ free ∧ x ∈ d.map (·.1)

/-- What `evaluate` returns or raises does not depend on the earlier content of `var_object_dict` when the data set
    covers the variables of the assertions. -/
theorem evaluateDnSpecs_indep (cfg : DCfg) (specs : List (F α)) (free : List String) (d : DData α) (w w' : DEnv α)
    (hc : Covers specs free d) :
    (evaluateDnSpecs cfg specs free d w).1 = (evaluateDnSpecs cfg specs free d w').1 := by
  have h := evalSpecsD_congr cfg (bindRows free d w) (bindRows free d w') specs
    (fun φ hφ x hx => bindRows_lookup_indep free x d w w' (hc φ hφ x hx).1 (hc φ hφ x hx).2)
  simp only [evaluateDnSpecs, h]
  cases evalSpecsD cfg (bindRows free d w') specs with
  | error e => rfl
  | ok robs =>
    simp only
    cases robs.getLast? <;> rfl

/-! ### two successive calls -/

/-- **Two successive `evaluate()` calls on one interpreter object** (the first may have raised): with enough fuel the state
    the second call runs on is the specification with `var_object_dict` as the first call left it (`evaluateDnSpecs … .2`:
    the batches of the first data set, uncleared, if the visit raised; every batch `[]` otherwise), the second call is the
    mirror on that dictionary, and when the second data set covers the variables of the assertions it returns (or raises)
    what a call on any other dictionary `w0` - a fresh object - returns for that data set. -/
theorem genDnEval_repeat (cfg : DCfg) (a : DAst α) (d1 d2 : DData α) :
    ∃ N, ∀ fuel, N ≤ fuel →
      (evaluateDnG fuel cfg (mkState a) d1).2
        = mkState { a with vars := (evaluateDnSpecs cfg a.specs a.free d1 a.vars).2 } ∧
      evaluateDnG fuel cfg (evaluateDnG fuel cfg (mkState a) d1).2 d2
        = ((evaluateDnSpecs cfg a.specs a.free d2 (evaluateDnSpecs cfg a.specs a.free d1 a.vars).2).1,
            mkState { a with vars :=
              (evaluateDnSpecs cfg a.specs a.free d2 (evaluateDnSpecs cfg a.specs a.free d1 a.vars).2).2 }) ∧
      (Covers a.specs a.free d2 → ∀ w0 : DEnv α,
        (evaluateDnG fuel cfg (evaluateDnG fuel cfg (mkState a) d1).2 d2).1
          = (evaluateDnSpecs cfg a.specs a.free d2 w0).1) := by
  obtain ⟨N1, h1⟩ := genDnEval_evaluate cfg a d1
  obtain ⟨N2, h2⟩ := genDnEval_evaluate cfg { a with vars := (evaluateDnSpecs cfg a.specs a.free d1 a.vars).2 } d2
  refine ⟨N1 + N2, fun fuel hf => ?_⟩
  have e1 := h1 fuel (by omega)
  have e2 := h2 fuel (by omega)
  refine ⟨by rw [e1], by rw [e1]; exact e2, fun hc w0 => ?_⟩
  rw [e1]
  simp only at e2 ⊢
  rw [e2]
  exact evaluateDnSpecs_indep cfg a.specs a.free d2 _ w0 hc

/-- **The residue of a failed call** (the model exhibits the behaviour of the real code): when the visit of an assertion
    raises, the `fromkeys` clearing is not reached and `var_object_dict` keeps the batches of the failed call; a later call
    whose data set leaves the variable `x` out reads, for `x`, the batch `s` the FAILED call was given. -/
theorem genDnEval_residue (cfg : DCfg) (a : DAst α) (d1 d2 : DData α) (e : PyErr)
    (hfail : evalSpecsD cfg (bindRows a.free d1 a.vars) a.specs = .error e)
    (x : String) (s : DSig α) (hx : x ∈ a.free) (hs : d1.reverse.lookup x = some s) (hno : d2.reverse.lookup x = none) :
    ∃ N, ∀ fuel, N ≤ fuel →
      evaluateDnG fuel cfg (mkState a) d1 = (.error e, mkState { a with vars := bindRows a.free d1 a.vars }) ∧
      (bindRows a.free d2 (bindRows a.free d1 a.vars)).lookup x = some s ∧
      (evaluateDnG fuel cfg (evaluateDnG fuel cfg (mkState a) d1).2 d2).1
        = (evaluateDnSpecs cfg a.specs a.free d2 (bindRows a.free d1 a.vars)).1 := by
  have hm : evaluateDnSpecs cfg a.specs a.free d1 a.vars = (.error e, bindRows a.free d1 a.vars) := by
    simp only [evaluateDnSpecs, hfail]
  obtain ⟨N, hN⟩ := genDnEval_repeat cfg a d1 d2
  obtain ⟨N1, h1⟩ := genDnEval_evaluate cfg a d1
  refine ⟨N + N1, fun fuel hf => ⟨?_, ?_, ?_⟩⟩
  · rw [h1 fuel (by omega), hm]
  · simp [bindRows_lookup, hx, hs, hno]
  · rw [(hN fuel (by omega)).2.1, hm]

/-- Non-vacuity of `genDnEval_residue`, on the mirror: two assertions `x` and `y`; the first call is given `x` only and
    raises (`KeyError` for `y`), the second call is given `y` only and RETURNS - it reads the `x` of the failed call - where
    the same call on an object that has not seen the failed call raises. -/
theorem residue_witness (cfg : DCfg) (s s' : DSig α) :
    (evaluateDnSpecs cfg [F.var "x", F.var "y"] ["x", "y"] [("x", s)] ([] : DEnv α)) = (.error .key, [("x", s)]) ∧
    (evaluateDnSpecs cfg [F.var "x", F.var "y"] ["x", "y"] [("y", s')] [("x", s)]).1 = .ok (ofDSig s') ∧
    (evaluateDnSpecs cfg [F.var "x", F.var "y"] ["x", "y"] [("y", s')] ([] : DEnv α)).1 = .error .key := by
  refine ⟨?_, ?_, ?_⟩ <;>
    simp [evaluateDnSpecs, bindRows, evalSpecsD, evalAlg, List.lookup, ok_bind, error_bind, pure_ok]

/-! ### the translated subset -/

/-- Nothing in the two translated methods is outside the translated subset; the methods are those of the classes
    `self.evaluate`, `self.set_variable_to_ast_from_dataset`, `self.exist_ast`, `self.visitAst` and `self.visit` resolve to
    along the MRO of `DenseTimeOfflineInterpreter` (`visitSpec` of `AbstractOfflineInterpreter` is not called by them). -/
theorem genDnEval_supported :
    Gen.DnEval.evaluate.unsup = [] ∧ Gen.DnEval.visitAst.unsup = [] ∧
    Gen.DnEval.resolution =
      [("evaluate", "AbstractDenseTimeOfflineInterpreter"),
       ("set_variable_to_ast_from_dataset", "DenseTimeInterpreter"),
       ("exist_ast", "AbstractInterpreter"), ("visitAst", "AbstractAstVisitor"),
       ("visit", "StlDenseTimeOfflineAstVisitor"), ("visitSpec", "AbstractOfflineInterpreter")] ∧
    Gen.DnEval.bases =
      [("DenseTimeOfflineInterpreter", ["AbstractDenseTimeOfflineInterpreter", "AstVisitor"]),
       ("AbstractDenseTimeOfflineInterpreter", ["AbstractOfflineInterpreter", "DenseTimeInterpreter"]),
       ("AbstractOfflineInterpreter", ["AbstractInterpreter"]), ("AbstractInterpreter", ["object"]),
       ("DenseTimeInterpreter", ["TimeInterpreter"]), ("TimeInterpreter", ["object"]),
       ("StlDenseTimeOfflineAstVisitor", ["StlAstVisitor"]), ("StlAstVisitor", ["LtlAstVisitor"]),
       ("LtlAstVisitor", ["AbstractAstVisitor"]), ("AbstractAstVisitor", ["object"])] := by
  refine ⟨by decide, by decide, by decide, by decide⟩

end Rtamt.Py.DnEval

section axioms_check
open Rtamt.Py.DnEval
#print axioms genDnEval_evaluate
#print axioms genDnEval_single
#print axioms genDnEval_no_ast
#print axioms C04_evaluate_translated_partial
#print axioms C04_evaluate_translated_dataset_partial
#print axioms genDnEval_repeat
#print axioms genDnEval_residue
#print axioms genDnEval_supported
end axioms_check
