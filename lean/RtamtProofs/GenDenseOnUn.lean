/-
  The translated operation classes of the dense-time ONLINE monitor that do not use `intersection`
  (`Rtamt/Py/GeneratedDenseOn.lean`), run under the semantics of `Rtamt/Py/DnOn.lean`, against the mirror
  `Rtamt/Dense/AlgOn.lean` - values AND exceptions, for all inputs, no well-formedness assumption on the sample lists:
  (1) `AbsOperation`, `SqrtOperation`, `ExpOperation`, `NegateOperation`, `NotOperation` `.update` = `mapUn` (the object is
      returned unchanged).  `LnOperation.update` has NO sign test (the offline `visitLn` and `mapUn .ln` have one) and
      `builtin "math.log"` is `Val.ln`, which does not raise: the translated method returns the point-wise logarithm on
      every batch (`gen_LnOperation_update_total`); it equals `mapUn .ln` exactly on the batches without a negative sample
      (`gen_LnOperation_update`) and differs on all others (`gen_LnOperation_update_differs`: mirror `.error .other`,
      translated code `.ok`; CPython's `math.log` raises `ValueError` there - and at 0, where mirror and embedding return
      `Val.ln 0`).
  (2) `OnceOperation` / `HistoricallyOperation` = `scanUpdate pmax` / `scanUpdate pmin` (relation `ScanRel`),
  (3) `SinceOperation` = `sinceUpdate` (relation `SinceRel`; fuel: `len(a) + len(b) + 1`),
  (4) `ConstantOperation`, `VariableOperation`,
  (5), (6) the same through `updateObj` / `construct` of the runner `Rtamt/Py/RunDnOn.lean`.
  The relations speak about lookups in the object's store and require every key of the store to be an attribute name
  (`isSelfKey`): an attribute store with a key `sample` would shadow the parameter (`runFn` puts the store in front of the
  arguments); the stores `runFn` returns satisfy it.
-/
import RtamtProofs.GenDenseOnBase

namespace Rtamt.Py.DnOn
open Rtamt Val Rtamt.Dense Rtamt.Dense.Alg Rtamt.Dense.AlgOn

set_option linter.unusedSectionVars false
set_option linter.unusedVariables false
set_option linter.unusedSimpArgs false

variable {α : Type} [Val α]

/- helper lemmas live in `Rtamt.Py.DnOn.GOnUn`; the relations and the main theorems in `Rtamt.Py.DnOn` -/
namespace GOnUn

/-- `isSelfKey` of a string literal -/
macro "selfkey" : tactic => `(tactic| first | decide +kernel | simp [isSelfKey])

@[simp] theorem exMap_ok {ε σ ρ : Type} (a : σ) (f : σ → ρ) : Except.map f (Except.ok a : Except ε σ) = .ok (f a) := rfl
@[simp] theorem exMap_error {ε σ ρ : Type} (e : ε) (f : σ → ρ) : Except.map f (Except.error e : Except ε σ) = .error e := rfl

/-! ### objects: the store of a method call -/

/-- the predicate `runFn` filters the final locals of a method with -/
abbrev selfP : String × DV α → Bool := fun p => isSelfKey p.1

/-- every key of the store is an attribute name -/
def SelfKeys (store : Env α) : Prop := ∀ p ∈ store, isSelfKey p.1 = true

theorem selfKeys_nil : SelfKeys ([] : Env α) := by intro p hp; cases hp

theorem selfKeys_filter (env : Env α) : SelfKeys (env.filter selfP) := by
  intro p hp
  exact (List.mem_filter.mp hp).2

theorem lookup_filter_self (env : Env α) (k : String) (hk : isSelfKey k = true) :
    (env.filter selfP).lookup k = env.lookup k := by
  induction env with
  | nil => rfl
  | cons p env ih =>
      obtain ⟨k', v⟩ := p
      by_cases hs : isSelfKey k' = true
      · rw [List.filter_cons_of_pos (by simpa using hs), List.lookup_cons, List.lookup_cons, ih]
      · rw [List.filter_cons_of_neg (by simpa using hs), List.lookup_cons, ih]
        have : (k == k') = false := by
          rw [beq_eq_false_iff_ne]; intro e; subst e; exact hs hk
        simp [this]

theorem lookup_append_nonself (store l : Env α) (k : String) (hs : SelfKeys store) (hk : isSelfKey k = false) :
    (store ++ l).lookup k = l.lookup k := by
  induction store with
  | nil => rfl
  | cons p store ih =>
      obtain ⟨k', v⟩ := p
      have h1 : isSelfKey k' = true := hs (k', v) (by simp)
      have : (k == k') = false := by
        rw [beq_eq_false_iff_ne]; intro e; subst e; rw [hk] at h1; cases h1
      rw [List.cons_append, List.lookup_cons, this]
      exact ih (fun p hp => hs p (by simp [hp]))

theorem lookup_append_some (store l : Env α) (k : String) (v : DV α) (h : store.lookup k = some v) :
    (store ++ l).lookup k = some v := by
  rw [List.lookup_append, h]; rfl

theorem getLoc_append_nonself (store l : Env α) (k : String) (hs : SelfKeys store) (hk : isSelfKey k = false) :
    getLoc k (store ++ l) = getLoc k l := by
  unfold getLoc; rw [lookup_append_nonself store l k hs hk]

theorem getLoc_append_some (store l : Env α) (k : String) (v : DV α) (h : store.lookup k = some v) :
    getLoc k (store ++ l) = .ok v := by
  unfold getLoc; rw [lookup_append_some store l k v h]

theorem getLoc_of_lookup {env : Env α} {k : String} {v : DV α} (h : getLoc k env = .ok v) : env.lookup k = some v := by
  unfold getLoc at h
  cases hl : env.lookup k with
  | none => rw [hl] at h; cases h
  | some w => rw [hl] at h; cases h; rfl

theorem filter_setLoc_nonself (k : String) (v : DV α) (env : Env α) (hk : isSelfKey k = false) :
    (setLoc k v env).filter selfP = env.filter selfP := by
  induction env with
  | nil => simp [setLoc, List.filter, selfP, hk]
  | cons p env ih =>
      obtain ⟨k', v'⟩ := p
      unfold setLoc
      cases h : (k' == k) with
      | true =>
          have e : k' = k := by simpa using h
          subst e
          simp [List.filter_cons, selfP, hk]
      | false =>
          simp only [Bool.false_eq_true, if_false, List.filter_cons, ih]

theorem filter_append_arg (store : Env α) (k : String) (v : DV α) (hs : SelfKeys store) (hk : isSelfKey k = false) :
    (store ++ [(k, v)]).filter selfP = store := by
  rw [List.filter_append]
  have h1 : store.filter selfP = store := List.filter_eq_self.mpr (fun p hp => hs p hp)
  have h2 : ([(k, v)] : Env α).filter selfP = [] := by simp [List.filter, selfP, hk]
  rw [h1, h2, List.append_nil]

theorem resolve_of_lookup_none {env : Env α} {f : String} (h : env.lookup f = none) : resolve env f = f := by
  unfold resolve; rw [h]

theorem resolve_append_nonself (store l : Env α) (f : String) (hs : SelfKeys store) (hk : isSelfKey f = false) :
    resolve (store ++ l) f = resolve l f := by
  unfold resolve; rw [lookup_append_nonself store l f hs hk]

@[simp] theorem resolve_nil (f : String) : resolve ([] : Env α) f = f := rfl

@[simp] theorem resolve_cons (f k' : String) (v : DV α) (env : Env α) :
    resolve ((k', v) :: env) f = if f = k' then (match v with | .fn g => g | _ => f) else resolve env f := by
  unfold resolve
  by_cases h : f = k'
  · subst h; cases v <;> simp [List.lookup_cons]
  · have : (f == k') = false := by rw [beq_eq_false_iff_ne]; exact h
    simp [List.lookup_cons, this, h]

/-- the call of a translated method -/
theorem call_method (fuel k : Nat) (name : String) (fn : Fn) (cls : String) (store : Env α) (args : List (DV α))
    (hl : Gen.DenseOn.fns.lookup name = some fn) (hm : fn.isMethod = true) (hlen : args.length + 1 = fn.params.length) :
    callAt Gen.DenseOn.fns fuel (k + 1) name (.obj cls store :: args) =
      (exec (callAt Gen.DenseOn.fns fuel k) fuel fn.body (store ++ (fn.params.drop 1).zip args)) >>= fun er =>
        .ok (.list [.obj cls (er.1.filter selfP), match er.2 with | .ret v => v | _ => .none]) := by
  rw [callAt_fn _ _ _ _ _ _ hl]
  unfold runFn
  simp only [hm, if_true]
  simp only [hlen, ne_eq, not_true_eq_false, if_false]
  cases exec (callAt Gen.DenseOn.fns fuel k) fuel fn.body (store ++ (fn.params.drop 1).zip args) with
  | error e => rfl
  | ok er => obtain ⟨env, r⟩ := er; cases r <;> rfl

section stmts
variable (call : Call α) (fuel : Nat)

theorem exec_seq_ok {a b : S} {env env' : Env α} (h : exec call fuel a env = .ok (env', .none)) :
    exec call fuel (.seq a b) env = exec call fuel b env' := by
  simp [exec, h]

theorem exec_seq_err {a b : S} {env : Env α} {e : PyErr} (h : exec call fuel a env = .error e) :
    exec call fuel (.seq a b) env = .error e := by
  simp [exec, h]

theorem exec_setLoc {x : String} {e : E} {env : Env α} {v : DV α} (h : evalE call env e = .ok v) :
    exec call fuel (.setLoc x e) env = .ok (setLoc x v env, .none) := by
  simp [exec, h]

theorem exec_ite_bool {c : E} {t e : S} {env : Env α} {b : Bool} (h : evalE call env c = .ok (.bool b)) :
    exec call fuel (.ite c t e) env = if b then exec call fuel t env else exec call fuel e env := by
  cases b <;> simp [exec, h, truthy]

theorem exec_while (c : E) (b : S) (env : Env α) :
    exec call fuel (.while_ c b) env =
      whileLoop (fun env => do truthy (← evalE call env c)) (exec call fuel b) fuel env := by
  rw [exec]

end stmts

/-! ### (1) the unary point-wise classes -/

/-- the generic loop `for iv in sample: BODY` where one iteration appends one sample (or raises) -/
theorem unLoopG (call : Call α) (fuel : Nat) (iv : String) (B : S) (F : Tm × α → Except PyErr (Tm × α))
    (P : Env α → Prop)
    (hstep : ∀ (env : Env α) (acc : List (DV α)) (t : Tm) (x : α),
      getLoc "sample_result" env = .ok (.list acc) → P env →
      match F (t, x) with
      | .ok q => ∃ env', exec call fuel B (setLoc iv (.smp t (.val x)) env) = .ok (env', .none) ∧
          getLoc "sample_result" env' = .ok (.list (acc ++ [encSmp q])) ∧ P env'
      | .error e => exec call fuel B (setLoc iv (.smp t (.val x)) env) = .error e)
    (s : ASig α) : ∀ (env : Env α) (acc : ASig α),
    getLoc "sample_result" env = .ok (encSig acc) → P env →
    match s.mapM F with
    | .ok o => ∃ env', forLoop (fun p env => setLoc iv p.1 env) (exec call fuel B)
          (s.map (fun v => (encSmp v, 0))) env = .ok (env', .none) ∧
        getLoc "sample_result" env' = .ok (encSig (acc ++ o)) ∧ P env'
    | .error e => forLoop (fun p env => setLoc iv p.1 env) (exec call fuel B)
          (s.map (fun v => (encSmp v, 0))) env = .error e := by
  induction s with
  | nil =>
      intro env acc h hP
      show ∃ env', _ ∧ _
      exact ⟨env, rfl, by simpa using h, hP⟩
  | cons p s ih =>
      intro env acc h hP
      obtain ⟨t, x⟩ := p
      rw [List.map_cons, forLoop_cons, List.mapM_cons]
      have hs := hstep env (acc.map encSmp) t x h hP
      dsimp only
      cases hF : F (t, x) with
      | error e =>
          rw [hF] at hs
          have hs' : exec call fuel B (setLoc iv (encSmp (t, x)) env) = .error e := hs
          simp [hs']
      | ok q =>
          rw [hF] at hs
          obtain ⟨env1, h1, h2, h3⟩ := hs
          have h1' : exec call fuel B (setLoc iv (encSmp (t, x)) env) = .ok (env1, .none) := h1
          have ih' := ih env1 (acc ++ [q]) (by simpa [encSig] using h2) h3
          simp only [h1', ok_bind]
          cases hM : s.mapM F with
          | error e => rw [hM] at ih'; simpa using ih'
          | ok o =>
              rw [hM] at ih'
              obtain ⟨env', h4, h5, h6⟩ := ih'
              exact ⟨env', by simpa using h4, by simpa using h5, h6⟩

/-- `out_time = iv[0]; out_value = -iv[1]; sample_result.append([out_time, out_value])` -/
def negBody (iv : String) : S := (.seq (.setLoc "out_time" (.idx (.loc iv) (.int 0))) (.seq (.setLoc "out_value" (.neg (.idx (.loc iv) (.int 1)))) (.appendLoc "sample_result" (.list2 (.loc "out_time") (.loc "out_value")))))

/-- `out_time = iv[0]; out_value = f(iv[1]); sample_result.append([out_time, out_value])` -/
def callBody (iv f : String) : S := (.seq (.setLoc "out_time" (.idx (.loc iv) (.int 0))) (.seq (.setLoc "out_value" (.call1 f (.idx (.loc iv) (.int 1)))) (.appendLoc "sample_result" (.list2 (.loc "out_time") (.loc "out_value")))))

/-- `if iv[1] < 0: raise Exception(…)` followed by `callBody` -/
def guardBody (iv f : String) : S := (.seq (.ite (.bin .lt (.idx (.loc iv) (.int 1)) (.int 0)) (.raise .other) .skip) (callBody iv f))

/-- the body of `update` of the six unary point-wise classes around the loop body `B` -/
def unWrap (iv : String) (B : S) : S := (.seq (.setLoc "sample_result" .emptyList) (.seq (.forIn iv (.loc "sample") B) (.ret (.loc "sample_result"))))

theorem negBody_step (call : Call α) (fuel : Nat) (iv : String) (env : Env α) (acc : List (DV α)) (t : Tm) (x : α)
    (hi1 : iv ≠ "out_time") (hi2 : iv ≠ "out_value") (hi3 : iv ≠ "sample_result")
    (h : getLoc "sample_result" env = .ok (.list acc)) :
    exec call fuel (negBody iv) (setLoc iv (.smp t (.val x)) env) =
      .ok (setLoc "sample_result" (.list (acc ++ [.smp t (.val (Val.neg x))]))
            (setLoc "out_value" (.val (Val.neg x)) (setLoc "out_time" (.tm t) (setLoc iv (.smp t (.val x)) env))), .none) := by
  simp [negBody, exec, evalE, h, evalIdx, pyIndex, evalNeg, mkList2, toPayload, hi1, hi2, hi3, Ne.symm hi1, Ne.symm hi2,
    Ne.symm hi3]

theorem callBody_step (call : Call α) (fuel : Nat) (iv f : String) (g : α → α) (env : Env α) (acc : List (DV α)) (t : Tm)
    (x : α) (hi1 : iv ≠ "out_time") (hi2 : iv ≠ "out_value") (hi3 : iv ≠ "sample_result")
    (hf1 : f ≠ iv) (hf2 : f ≠ "out_time")
    (hcall : call f [.val x] = .ok (.val (g x)))
    (h : getLoc "sample_result" env = .ok (.list acc)) (hr : resolve env f = f) :
    exec call fuel (callBody iv f) (setLoc iv (.smp t (.val x)) env) =
      .ok (setLoc "sample_result" (.list (acc ++ [.smp t (.val (g x))]))
            (setLoc "out_value" (.val (g x)) (setLoc "out_time" (.tm t) (setLoc iv (.smp t (.val x)) env))), .none) := by
  simp [callBody, exec, evalE, h, evalIdx, pyIndex, mkList2, toPayload, hf1, hf2, hr, hcall, hi1, hi2, hi3, Ne.symm hi1,
    Ne.symm hi2, Ne.symm hi3]

theorem guard_step (call : Call α) (fuel : Nat) (iv : String) (env : Env α) (t : Tm) (x : α)
    (h : getLoc iv env = .ok (.smp t (.val x))) :
    exec call fuel (.ite (.bin .lt (.idx (.loc iv) (.int 1)) (.int 0)) (.raise .other) .skip) env =
      if Val.lt x Val.zero then .error .other else .ok (env, .none) := by
  by_cases hx : Val.lt x Val.zero = true
  · simp [exec, evalE, h, evalIdx, pyIndex, evalBin, isCmp, cmpDV, isTimeLike, isValLike, toVal, cmpVal, truthy, hx]
  · have hx' : Val.lt x Val.zero = false := by simpa using hx
    simp [exec, evalE, h, evalIdx, pyIndex, evalBin, isCmp, cmpDV, isTimeLike, isValLike, toVal, cmpVal, truthy, hx']

theorem guardBody_step (call : Call α) (fuel : Nat) (iv f : String) (g : α → α) (env : Env α) (acc : List (DV α)) (t : Tm)
    (x : α) (hi1 : iv ≠ "out_time") (hi2 : iv ≠ "out_value") (hi3 : iv ≠ "sample_result")
    (hf1 : f ≠ iv) (hf2 : f ≠ "out_time")
    (hcall : call f [.val x] = .ok (.val (g x)))
    (h : getLoc "sample_result" env = .ok (.list acc)) (hr : resolve env f = f) :
    exec call fuel (guardBody iv f) (setLoc iv (.smp t (.val x)) env) =
      if Val.lt x Val.zero then .error .other else
      .ok (setLoc "sample_result" (.list (acc ++ [.smp t (.val (g x))]))
            (setLoc "out_value" (.val (g x)) (setLoc "out_time" (.tm t) (setLoc iv (.smp t (.val x)) env))), .none) := by
  unfold guardBody
  rw [exec, guard_step call fuel iv _ t x (by simp)]
  by_cases hx : Val.lt x Val.zero = true
  · simp [hx]
  · have hx' : Val.lt x Val.zero = false := by simpa using hx
    simp [hx', callBody_step call fuel iv f g env acc t x hi1 hi2 hi3 hf1 hf2 hcall h hr]

/-- what the loops of the unary classes keep: the attributes are not touched -/
def KeepsStore (store : Env α) (env : Env α) : Prop := env.filter selfP = store

theorem unMethodG (fuel k : Nat) (name : String) (fn : Fn) (iv : String) (B : S)
    (F : Tm × α → Except PyErr (Tm × α)) (P : Env α → Prop)
    (hl : Gen.DenseOn.fns.lookup name = some fn) (hm : fn.isMethod = true) (hp : fn.params = ["self", "sample"])
    (hb : fn.body = unWrap iv B) (cls : String) (store : Env α) (hs : SelfKeys store)
    (hP : ∀ v : DV α, P (setLoc "sample_result" (.list []) (store ++ [("sample", v)])))
    (hPs : ∀ env, P env → env.filter selfP = store)
    (hstep : ∀ (env : Env α) (acc : List (DV α)) (t : Tm) (x : α),
      getLoc "sample_result" env = .ok (.list acc) → P env →
      match F (t, x) with
      | .ok q => ∃ env', exec (callAt Gen.DenseOn.fns fuel k) fuel B (setLoc iv (.smp t (.val x)) env) = .ok (env', .none) ∧
          getLoc "sample_result" env' = .ok (.list (acc ++ [encSmp q])) ∧ P env'
      | .error e => exec (callAt Gen.DenseOn.fns fuel k) fuel B (setLoc iv (.smp t (.val x)) env) = .error e)
    (s : ASig α) :
    callAt Gen.DenseOn.fns fuel (k + 1) name [.obj cls store, encSig s] =
      (s.mapM F).map (fun out => .list [.obj cls store, encSig out]) := by
  have hl' := unLoopG (callAt Gen.DenseOn.fns fuel k) fuel iv B F P hstep s
    (setLoc "sample_result" (.list []) (store ++ [("sample", encSig s)])) [] (by simp [encSig]) (hP _)
  rw [call_method fuel k name fn cls store [encSig s] hl hm (by rw [hp]; rfl), hb, hp]
  simp only [unWrap, List.drop_succ_cons, List.drop_zero, List.zip_cons_cons, List.zip_nil_right]
  simp only [exec, evalE, ok_bind, pure_eq_ok]
  have hg : getLoc "sample" (setLoc "sample_result" (DV.list []) (store ++ [("sample", encSig s)])) = .ok (encSig s) := by
    rw [getLoc_setLoc_ne _ _ _ _ (by decide), getLoc_append_nonself _ _ _ hs (by selfkey)]
    simp
  rw [hg]
  simp only [ok_bind, encSig, List.map_map]
  rw [show ((fun v => (v, 0)) ∘ encSmp : Tm × α → DV α × Nat) = (fun v => (encSmp v, 0)) from rfl]
  rw [show encSig s = DV.list (s.map encSmp) from rfl] at hl'
  cases hM : s.mapM F with
  | error e => rw [hM] at hl'; simp [hl']
  | ok o =>
      rw [hM] at hl'
      obtain ⟨env', h1, h2, h3⟩ := hl'
      simp [h1, h2, hPs env' h3, encSig]

/-- the invariant of the loops of the unary classes: the name of the library function is not shadowed, the attributes are
    not touched -/
def UnInv (store : Env α) (f : String) (env : Env α) : Prop := resolve env f = f ∧ env.filter selfP = store

theorem unInv_init (store : Env α) (hs : SelfKeys store) (f : String) (v : DV α) (hf4 : f ≠ "sample_result")
    (hf5 : f ≠ "sample") (hf6 : isSelfKey f = false) :
    UnInv store f (setLoc "sample_result" (.list []) (store ++ [("sample", v)])) := by
  constructor
  · rw [resolve_setLoc_ne _ _ _ _ hf4, resolve_append_nonself _ _ _ hs hf6]
    simp [hf5]
  · rw [filter_setLoc_nonself _ _ _ (by selfkey), filter_append_arg _ _ _ hs (by selfkey)]

theorem unInv_step (store : Env α) (f iv : String) (env : Env α) (a b c d : DV α) (h : UnInv store f env)
    (hf1 : f ≠ iv) (hf2 : f ≠ "out_time") (hf3 : f ≠ "out_value") (hf4 : f ≠ "sample_result")
    (hiv : isSelfKey iv = false) :
    UnInv store f (setLoc "sample_result" a (setLoc "out_value" b (setLoc "out_time" c (setLoc iv d env)))) := by
  constructor
  · simp [hf1, hf2, hf3, hf4, h.1]
  · rw [filter_setLoc_nonself _ _ _ (by selfkey), filter_setLoc_nonself _ _ _ (by selfkey),
      filter_setLoc_nonself _ _ _ (by selfkey), filter_setLoc_nonself _ _ _ hiv, h.2]

/-- `AbsOperation`, `ExpOperation`, `LnOperation`: `out_value = f(iv[1])` with a function `f` of the standard library -/
theorem gen_unCall (fuel k : Nat) (name : String) (fn : Fn) (iv f : String) (g : α → α)
    (hl : Gen.DenseOn.fns.lookup name = some fn) (hm : fn.isMethod = true) (hp : fn.params = ["self", "sample"])
    (hb : fn.body = unWrap iv (callBody iv f)) (cls : String) (store : Env α) (hs : SelfKeys store)
    (hi1 : iv ≠ "out_time") (hi2 : iv ≠ "out_value") (hi3 : iv ≠ "sample_result") (hiv : isSelfKey iv = false)
    (hf1 : f ≠ iv) (hf2 : f ≠ "out_time") (hf3 : f ≠ "out_value") (hf4 : f ≠ "sample_result") (hf5 : f ≠ "sample")
    (hf6 : isSelfKey f = false)
    (hlook : Gen.DenseOn.fns.lookup f = none) (hbi : ∀ x : α, builtin f [.val x] = .ok (.val (g x))) (s : ASig α) :
    callAt Gen.DenseOn.fns fuel (k + 1) name [.obj cls store, encSig s] =
      (s.mapM (fun p => (.ok (p.1, g p.2) : Except PyErr (Tm × α)))).map (fun out => .list [.obj cls store, encSig out]) := by
  refine unMethodG fuel k name fn iv (callBody iv f) _ (UnInv store f) hl hm hp hb cls store hs
    (fun v => unInv_init store hs f v hf4 hf5 hf6) (fun env h => h.2) ?_ s
  intro env acc t x h hr
  refine ⟨_, callBody_step _ fuel iv f g env acc t x hi1 hi2 hi3 hf1 hf2 ?_ h hr.1, by simp [encSmp], ?_⟩
  · rw [callAt_builtin _ _ _ _ _ hlook]; exact hbi x
  · exact unInv_step store f iv env _ _ _ _ hr hf1 hf2 hf3 hf4 hiv

/-- `SqrtOperation`: the same after `if i[1] < 0: raise Exception` -/
theorem gen_unGuard (fuel k : Nat) (name : String) (fn : Fn) (iv f : String) (g : α → α)
    (hl : Gen.DenseOn.fns.lookup name = some fn) (hm : fn.isMethod = true) (hp : fn.params = ["self", "sample"])
    (hb : fn.body = unWrap iv (guardBody iv f)) (cls : String) (store : Env α) (hs : SelfKeys store)
    (hi1 : iv ≠ "out_time") (hi2 : iv ≠ "out_value") (hi3 : iv ≠ "sample_result") (hiv : isSelfKey iv = false)
    (hf1 : f ≠ iv) (hf2 : f ≠ "out_time") (hf3 : f ≠ "out_value") (hf4 : f ≠ "sample_result") (hf5 : f ≠ "sample")
    (hf6 : isSelfKey f = false)
    (hlook : Gen.DenseOn.fns.lookup f = none) (hbi : ∀ x : α, builtin f [.val x] = .ok (.val (g x))) (s : ASig α) :
    callAt Gen.DenseOn.fns fuel (k + 1) name [.obj cls store, encSig s] =
      (s.mapM (fun p => if Val.lt p.2 Val.zero then (.error .other : Except PyErr (Tm × α)) else .ok (p.1, g p.2))).map
        (fun out => .list [.obj cls store, encSig out]) := by
  refine unMethodG fuel k name fn iv (guardBody iv f) _ (UnInv store f) hl hm hp hb cls store hs
    (fun v => unInv_init store hs f v hf4 hf5 hf6) (fun env h => h.2) ?_ s
  intro env acc t x h hr
  have hc : callAt Gen.DenseOn.fns fuel k f [.val x] = .ok (.val (g x)) := by
    rw [callAt_builtin _ _ _ _ _ hlook]; exact hbi x
  have hs' := guardBody_step _ fuel iv f g env acc t x hi1 hi2 hi3 hf1 hf2 hc h hr.1
  by_cases hx : Val.lt x Val.zero = true
  · simp only [hx, if_true] at hs' ⊢
    exact hs'
  · simp only [hx] at hs' ⊢
    exact ⟨_, hs', by simp [encSmp], unInv_step store f iv env _ _ _ _ hr hf1 hf2 hf3 hf4 hiv⟩

/-- `NotOperation`, `NegateOperation` -/
theorem gen_unNeg (fuel k : Nat) (name : String) (fn : Fn) (iv : String)
    (hl : Gen.DenseOn.fns.lookup name = some fn) (hm : fn.isMethod = true) (hp : fn.params = ["self", "sample"])
    (hb : fn.body = unWrap iv (negBody iv)) (cls : String) (store : Env α) (hs : SelfKeys store)
    (hi1 : iv ≠ "out_time") (hi2 : iv ≠ "out_value") (hi3 : iv ≠ "sample_result") (hiv : isSelfKey iv = false)
    (s : ASig α) :
    callAt Gen.DenseOn.fns fuel (k + 1) name [.obj cls store, encSig s] =
      (s.mapM (fun p => (.ok (p.1, Val.neg p.2) : Except PyErr (Tm × α)))).map
        (fun out => .list [.obj cls store, encSig out]) := by
  refine unMethodG fuel k name fn iv (negBody iv) _ (fun env => env.filter selfP = store) hl hm hp hb cls store hs
    (fun v => by rw [filter_setLoc_nonself _ _ _ (by selfkey), filter_append_arg _ _ _ hs (by selfkey)])
    (fun env h => h) ?_ s
  intro env acc t x h hr
  refine ⟨_, negBody_step _ fuel iv env acc t x hi1 hi2 hi3 h, by simp [encSmp], ?_⟩
  rw [filter_setLoc_nonself _ _ _ (by selfkey), filter_setLoc_nonself _ _ _ (by selfkey),
    filter_setLoc_nonself _ _ _ (by selfkey), filter_setLoc_nonself _ _ _ hiv, hr]

/-- `Cls()` for a class whose `__init__` takes no argument -/
theorem init_generic (fuel k : Nat) (name : String) (fn : Fn) (cls : String) (env' : Env α)
    (hl : Gen.DenseOn.fns.lookup name = some fn) (hm : fn.isMethod = true) (hp : fn.params = ["self"])
    (hex : exec (callAt Gen.DenseOn.fns fuel k) fuel fn.body ([] : Env α) = .ok (env', .none)) :
    callAt Gen.DenseOn.fns fuel (k + 1) name [.obj cls []] = .ok (.list [.obj cls (env'.filter selfP), .none]) := by
  rw [call_method fuel k name fn cls [] [] hl hm (by rw [hp]; rfl), hp]
  simp only [List.drop_succ_cons, List.drop_zero, List.zip_nil_right, List.append_nil, hex, ok_bind]

theorem mapM_ok {β γ : Type} (g : β → γ) (l : List β) :
    l.mapM (fun p => (.ok (g p) : Except PyErr γ)) = .ok (l.map g) := by
  induction l with
  | nil => rfl
  | cons a l ih => simp [List.mapM_cons, ih]

end GOnUn

/-! ### (1) main theorems: the unary point-wise classes -/

open GOnUn

/-- an operation object without (relevant) attributes: every key of its store is an attribute name `self.x` -/
def UnRel (cls : String) (o : DV α) : Prop := ∃ store, o = .obj cls store ∧ ∀ p ∈ store, isSelfKey p.1 = true

theorem gen_AbsOperation_init (fuel k : Nat) : ∃ o : DV α,
    callAt Gen.DenseOn.fns fuel (k + 1) "AbsOperation.__init__" [.obj "AbsOperation" []] = .ok (.list [o, .none]) ∧
      UnRel "AbsOperation" o :=
  ⟨_, init_generic fuel k _ Gen.DenseOn.AbsOperation_init "AbsOperation" [] rfl rfl rfl rfl, _, rfl, selfKeys_filter _⟩

theorem gen_SqrtOperation_init (fuel k : Nat) : ∃ o : DV α,
    callAt Gen.DenseOn.fns fuel (k + 1) "SqrtOperation.__init__" [.obj "SqrtOperation" []] = .ok (.list [o, .none]) ∧
      UnRel "SqrtOperation" o :=
  ⟨_, init_generic fuel k _ Gen.DenseOn.SqrtOperation_init "SqrtOperation" [] rfl rfl rfl rfl, _, rfl, selfKeys_filter _⟩

theorem gen_ExpOperation_init (fuel k : Nat) : ∃ o : DV α,
    callAt Gen.DenseOn.fns fuel (k + 1) "ExpOperation.__init__" [.obj "ExpOperation" []] = .ok (.list [o, .none]) ∧
      UnRel "ExpOperation" o :=
  ⟨_, init_generic fuel k _ Gen.DenseOn.ExpOperation_init "ExpOperation" [] rfl rfl rfl rfl, _, rfl, selfKeys_filter _⟩

theorem gen_LnOperation_init (fuel k : Nat) : ∃ o : DV α,
    callAt Gen.DenseOn.fns fuel (k + 1) "LnOperation.__init__" [.obj "LnOperation" []] = .ok (.list [o, .none]) ∧
      UnRel "LnOperation" o :=
  ⟨_, init_generic fuel k _ Gen.DenseOn.LnOperation_init "LnOperation" [] rfl rfl rfl rfl, _, rfl, selfKeys_filter _⟩

theorem gen_NegateOperation_init (fuel k : Nat) : ∃ o : DV α,
    callAt Gen.DenseOn.fns fuel (k + 1) "NegateOperation.__init__" [.obj "NegateOperation" []] = .ok (.list [o, .none]) ∧
      UnRel "NegateOperation" o :=
  ⟨_, init_generic fuel k _ Gen.DenseOn.NegateOperation_init "NegateOperation" [] rfl rfl rfl rfl, _, rfl,
    selfKeys_filter _⟩

theorem gen_NotOperation_init (fuel k : Nat) : ∃ o : DV α,
    callAt Gen.DenseOn.fns fuel (k + 1) "NotOperation.__init__" [.obj "NotOperation" []] = .ok (.list [o, .none]) ∧
      UnRel "NotOperation" o :=
  ⟨_, init_generic fuel k _ Gen.DenseOn.NotOperation_init "NotOperation" _ rfl rfl rfl rfl, _, rfl, selfKeys_filter _⟩

/-- `AbsOperation.update` = `mapUn .abs`; the object is returned unchanged -/
theorem gen_AbsOperation_update (fuel k : Nat) (o : DV α) (h : UnRel "AbsOperation" o) (s : ASig α) :
    callAt Gen.DenseOn.fns fuel (k + 1) "AbsOperation.update" [o, encSig s] =
      (mapUn .abs s).map (fun out => .list [o, encSig out]) := by
  obtain ⟨store, rfl, hs⟩ := h
  exact gen_unCall fuel k _ Gen.DenseOn.AbsOperation_update "in_sample" "abs" Val.abs rfl rfl rfl rfl _ store hs
    (by decide) (by decide) (by decide) (by selfkey) (by decide) (by decide) (by decide) (by decide) (by decide)
    (by selfkey) rfl (fun x => by simp [builtin, toVal]) s

theorem gen_ExpOperation_update (fuel k : Nat) (o : DV α) (h : UnRel "ExpOperation" o) (s : ASig α) :
    callAt Gen.DenseOn.fns fuel (k + 1) "ExpOperation.update" [o, encSig s] =
      (mapUn .exp s).map (fun out => .list [o, encSig out]) := by
  obtain ⟨store, rfl, hs⟩ := h
  exact gen_unCall fuel k _ Gen.DenseOn.ExpOperation_update "i" "math.exp" Val.exp rfl rfl rfl rfl _ store hs
    (by decide) (by decide) (by decide) (by selfkey) (by decide) (by decide) (by decide) (by decide) (by decide)
    (by selfkey) rfl (fun x => by simp [builtin, toVal]) s

/-- `SqrtOperation.update` = `mapUn .sqrt`, the exception on a negative sample included -/
theorem gen_SqrtOperation_update (fuel k : Nat) (o : DV α) (h : UnRel "SqrtOperation" o) (s : ASig α) :
    callAt Gen.DenseOn.fns fuel (k + 1) "SqrtOperation.update" [o, encSig s] =
      (mapUn .sqrt s).map (fun out => .list [o, encSig out]) := by
  obtain ⟨store, rfl, hs⟩ := h
  exact gen_unGuard fuel k _ Gen.DenseOn.SqrtOperation_update "i" "math.sqrt" Val.sqrt rfl rfl rfl rfl _ store hs
    (by decide) (by decide) (by decide) (by selfkey) (by decide) (by decide) (by decide) (by decide) (by decide)
    (by selfkey) rfl (fun x => by simp [builtin, toVal]) s

theorem gen_NegateOperation_update (fuel k : Nat) (o : DV α) (h : UnRel "NegateOperation" o) (s : ASig α) :
    callAt Gen.DenseOn.fns fuel (k + 1) "NegateOperation.update" [o, encSig s] =
      (mapUn .negate s).map (fun out => .list [o, encSig out]) := by
  obtain ⟨store, rfl, hs⟩ := h
  exact gen_unNeg fuel k _ Gen.DenseOn.NegateOperation_update "i" rfl rfl rfl rfl _ store hs
    (by decide) (by decide) (by decide) (by selfkey) s

theorem gen_NotOperation_update (fuel k : Nat) (o : DV α) (h : UnRel "NotOperation" o) (s : ASig α) :
    callAt Gen.DenseOn.fns fuel (k + 1) "NotOperation.update" [o, encSig s] =
      (mapUn .not s).map (fun out => .list [o, encSig out]) := by
  obtain ⟨store, rfl, hs⟩ := h
  exact gen_unNeg fuel k _ Gen.DenseOn.NotOperation_update "i" rfl rfl rfl rfl _ store hs
    (by decide) (by decide) (by decide) (by selfkey) s

/-- The online `LnOperation.update` has NO sign test (the offline `visitLn` and the mirror's `mapUn .ln` have one), and
    `builtin "math.log"` is `Val.ln`, which does not raise: on EVERY input the translated method returns the point-wise
    logarithm. -/
theorem gen_LnOperation_update_total (fuel k : Nat) (o : DV α) (h : UnRel "LnOperation" o) (s : ASig α) :
    callAt Gen.DenseOn.fns fuel (k + 1) "LnOperation.update" [o, encSig s] =
      .ok (.list [o, encSig (s.map (fun p => (p.1, Val.ln p.2)))]) := by
  obtain ⟨store, rfl, hs⟩ := h
  have := gen_unCall fuel k "LnOperation.update" Gen.DenseOn.LnOperation_update "in_sample" "math.log" Val.ln rfl rfl rfl rfl
    "LnOperation" store hs
    (by decide) (by decide) (by decide) (by selfkey) (by decide) (by decide) (by decide) (by decide) (by decide)
    (by selfkey) rfl (fun x => by simp [builtin, toVal]) s
  rw [this, mapM_ok (fun p : Tm × α => (p.1, Val.ln p.2))]
  rfl

/-- the mirror on a batch without negative samples -/
theorem mapUn_ln_nonneg (s : ASig α) (hs : ∀ p ∈ s, Val.lt p.2 Val.zero = false) :
    mapUn .ln s = .ok (s.map (fun p => (p.1, Val.ln p.2))) := by
  unfold mapUn
  induction s with
  | nil => rfl
  | cons p s ih =>
      have h1 := hs p (by simp)
      have h2 := ih (fun q hq => hs q (by simp [hq]))
      simp only [List.mapM_cons, h1, Bool.false_eq_true, if_false, ok_bind, List.map_cons] at h2 ⊢
      rw [h2]; rfl

/-- the mirror on a batch with a negative sample -/
theorem mapUn_ln_neg (s : ASig α) (hs : ∃ p ∈ s, Val.lt p.2 Val.zero = true) : mapUn .ln s = .error .other := by
  unfold mapUn
  induction s with
  | nil => obtain ⟨p, hp, _⟩ := hs; cases hp
  | cons q s ih =>
      by_cases hq : Val.lt q.2 Val.zero = true
      · simp [List.mapM_cons, hq]
      · have ih' := ih (by
          obtain ⟨p, hp, hlt⟩ := hs
          rcases List.mem_cons.mp hp with e | e
          · subst e; exact absurd hlt hq
          · exact ⟨p, e, hlt⟩)
        simp only [List.mapM_cons, hq, if_false] at ih' ⊢
        simp [ih']

/-- `LnOperation.update` = `mapUn .ln` on the batches without a negative sample … -/
theorem gen_LnOperation_update (fuel k : Nat) (o : DV α) (h : UnRel "LnOperation" o) (s : ASig α)
    (hs : ∀ p ∈ s, Val.lt p.2 Val.zero = false) :
    callAt Gen.DenseOn.fns fuel (k + 1) "LnOperation.update" [o, encSig s] =
      (mapUn .ln s).map (fun out => .list [o, encSig out]) := by
  rw [gen_LnOperation_update_total fuel k o h s, mapUn_ln_nonneg s hs]; rfl

/-- … and DIFFERS from it on every batch with a negative sample: the mirror raises, the translated code does not. -/
theorem gen_LnOperation_update_differs (fuel k : Nat) (o : DV α) (h : UnRel "LnOperation" o) (s : ASig α)
    (hs : ∃ p ∈ s, Val.lt p.2 Val.zero = true) :
    mapUn .ln s = .error .other ∧
    callAt Gen.DenseOn.fns fuel (k + 1) "LnOperation.update" [o, encSig s] =
      .ok (.list [o, encSig (s.map (fun p => (p.1, Val.ln p.2)))]) :=
  ⟨mapUn_ln_neg s hs, gen_LnOperation_update_total fuel k o h s⟩

/-! ### (2) `OnceOperation` / `HistoricallyOperation` -/

namespace GOnUn

theorem isTimeLike_of_toVal {v : DV α} {p : α} (h : toVal v = .ok p) : isTimeLike v = false := by
  cases v <;> first | rfl | (simp [toVal] at h)

theorem builtin_max (x p : α) (v : DV α) (h : toVal v = .ok p) :
    builtin "max" [.val x, v] = .ok (.val (pmax x p)) := by
  have h0 : isTimeLike (DV.val x : DV α) = false := rfl
  have h1 : toVal (DV.val x : DV α) = .ok x := rfl
  simp [builtin, h0, h1, isTimeLike_of_toVal h, h]

theorem builtin_min (x p : α) (v : DV α) (h : toVal v = .ok p) :
    builtin "min" [.val x, v] = .ok (.val (pmin x p)) := by
  have h0 : isTimeLike (DV.val x : DV α) = false := rfl
  have h1 : toVal (DV.val x : DV α) = .ok x := rfl
  simp [builtin, h0, h1, isTimeLike_of_toVal h, h]

/-- `out_time = i[0]; out_value = f(i[1], self.prev); rv.append([out_time, out_value]); self.prev = out_value` -/
def scanBody (rv f : String) : S := (.seq (.setLoc "out_time" (.idx (.loc "i") (.int 0))) (.seq (.setLoc "out_value" (.call2 f (.idx (.loc "i") (.int 1)) (.loc "self.prev"))) (.seq (.appendLoc rv (.list2 (.loc "out_time") (.loc "out_value"))) (.setLoc "self.prev" (.loc "out_value")))))

def scanWrap (rv f : String) : S := (.seq (.setLoc rv .emptyList) (.seq (.forIn "i" (.loc "sample") (scanBody rv f)) (.ret (.loc rv))))

theorem scanBody_step (call : Call α) (fuel : Nat) (rv f : String) (o : α) (env : Env α) (acc : List (DV α)) (t : Tm)
    (x : α) (v : DV α)
    (hr1 : rv ≠ "i") (hr2 : rv ≠ "out_time") (hr3 : rv ≠ "out_value")
    (hf1 : f ≠ "i") (hf2 : f ≠ "out_time")
    (hcall : call f [.val x, v] = .ok (.val o))
    (h : getLoc rv env = .ok (.list acc)) (hp : getLoc "self.prev" env = .ok v) (hr : resolve env f = f) :
    exec call fuel (scanBody rv f) (setLoc "i" (.smp t (.val x)) env) =
      .ok (setLoc "self.prev" (.val o) (setLoc rv (.list (acc ++ [.smp t (.val o)]))
            (setLoc "out_value" (.val o) (setLoc "out_time" (.tm t) (setLoc "i" (.smp t (.val x)) env)))), .none) := by
  simp [scanBody, exec, evalE, h, hp, evalIdx, pyIndex, mkList2, toPayload, hf1, hf2, hr, hcall, hr1, hr2, hr3,
    Ne.symm hr1, Ne.symm hr2, Ne.symm hr3]

theorem scanLoop (call : Call α) (fuel : Nat) (rv f : String) (comb : α → α → α)
    (hr1 : rv ≠ "i") (hr2 : rv ≠ "out_time") (hr3 : rv ≠ "out_value") (hr4 : rv ≠ "self.prev")
    (hf1 : f ≠ "i") (hf2 : f ≠ "out_time") (hf3 : f ≠ "out_value") (hf4 : f ≠ rv) (hf5 : f ≠ "self.prev")
    (hcall : ∀ (x p : α) (v : DV α), toVal v = .ok p → call f [.val x, v] = .ok (.val (comb x p)))
    (s : ASig α) : ∀ (env : Env α) (acc : ASig α) (v : DV α) (prev : α),
    getLoc rv env = .ok (encSig acc) → getLoc "self.prev" env = .ok v → toVal v = .ok prev → resolve env f = f →
    ∃ env' v', forLoop (fun p env => setLoc "i" p.1 env) (exec call fuel (scanBody rv f))
          (s.map (fun v => (encSmp v, 0))) env = .ok (env', .none) ∧
        getLoc rv env' = .ok (encSig (acc ++ (scanUpdate comb prev s).2)) ∧
        getLoc "self.prev" env' = .ok v' ∧ toVal v' = .ok (scanUpdate comb prev s).1 := by
  induction s with
  | nil =>
      intro env acc v prev h hp hv hr
      exact ⟨env, v, rfl, by simpa [scanUpdate] using h, hp, by simpa [scanUpdate] using hv⟩
  | cons p s ih =>
      intro env acc v prev h hp hv hr
      obtain ⟨t, x⟩ := p
      have h1 := scanBody_step call fuel rv f (comb x prev) env (acc.map encSmp) t x v hr1 hr2 hr3 hf1 hf2
        (hcall x prev v hv) h hp hr
      obtain ⟨env', v', h2, h3, h4, h5⟩ := ih _ (acc ++ [(t, comb x prev)]) (.val (comb x prev)) (comb x prev)
        (show getLoc rv (setLoc "self.prev" (.val (comb x prev)) (setLoc rv (.list (acc.map encSmp ++ [.smp t (.val (comb x prev))]))
            (setLoc "out_value" (.val (comb x prev)) (setLoc "out_time" (.tm t) (setLoc "i" (.smp t (.val x)) env))))) = _ by
          simp [hr4, encSig, encSmp])
        (by simp) rfl (by simp [hf1, hf2, hf3, hf4, hf5, hr])
      refine ⟨env', v', ?_, ?_, h4, ?_⟩
      · rw [List.map_cons, forLoop_cons]
        have h1' : exec call fuel (scanBody rv f) (setLoc "i" (encSmp (t, x)) env) = _ := h1
        simp only [h1', ok_bind]
        exact h2
      · rw [h3]; simp [scanUpdate]
      · rw [h5]; simp [scanUpdate]

theorem scanMethodG (fuel k : Nat) (name : String) (fn : Fn) (rv f : String) (comb : α → α → α)
    (hl : Gen.DenseOn.fns.lookup name = some fn) (hm : fn.isMethod = true) (hp : fn.params = ["self", "sample"])
    (hb : fn.body = scanWrap rv f)
    (hr1 : rv ≠ "i") (hr2 : rv ≠ "out_time") (hr3 : rv ≠ "out_value") (hr4 : rv ≠ "self.prev") (hr5 : rv ≠ "sample")
    (hf1 : f ≠ "i") (hf2 : f ≠ "out_time") (hf3 : f ≠ "out_value") (hf4 : f ≠ rv) (hf5 : f ≠ "self.prev")
    (hf6 : f ≠ "sample") (hf7 : isSelfKey f = false)
    (hcall : ∀ (x p : α) (v : DV α), toVal v = .ok p →
      callAt Gen.DenseOn.fns fuel k f [.val x, v] = .ok (.val (comb x p)))
    (cls : String) (store : Env α) (hs : SelfKeys store) (v : DV α) (prev : α)
    (hv : store.lookup "self.prev" = some v) (htv : toVal v = .ok prev) (s : ASig α) :
    ∃ store' v', callAt Gen.DenseOn.fns fuel (k + 1) name [.obj cls store, encSig s] =
        .ok (.list [.obj cls store', encSig (scanUpdate comb prev s).2]) ∧
      SelfKeys store' ∧ store'.lookup "self.prev" = some v' ∧ toVal v' = .ok (scanUpdate comb prev s).1 := by
  obtain ⟨env', v', h1, h2, h3, h4⟩ := scanLoop (callAt Gen.DenseOn.fns fuel k) fuel rv f comb hr1 hr2 hr3 hr4
    hf1 hf2 hf3 hf4 hf5 hcall s (setLoc rv (.list []) (store ++ [("sample", encSig s)])) [] v prev
    (by simp [encSig])
    (by rw [getLoc_setLoc_ne _ _ _ _ (Ne.symm hr4)]; exact getLoc_append_some _ _ _ _ hv)
    htv
    (by rw [resolve_setLoc_ne _ _ _ _ hf4, resolve_append_nonself _ _ _ hs hf7]; simp [hf6])
  refine ⟨env'.filter selfP, v', ?_, selfKeys_filter _, ?_, h4⟩
  · rw [call_method fuel k name fn cls store [encSig s] hl hm (by rw [hp]; rfl), hb, hp]
    simp only [scanWrap, List.drop_succ_cons, List.drop_zero, List.zip_cons_cons, List.zip_nil_right]
    simp only [exec, evalE, ok_bind, pure_eq_ok]
    have hg : getLoc "sample" (setLoc rv (DV.list []) (store ++ [("sample", encSig s)])) = .ok (encSig s) := by
      rw [getLoc_setLoc_ne _ _ _ _ (Ne.symm hr5), getLoc_append_nonself _ _ _ hs (by selfkey)]
      simp
    rw [hg]
    simp only [ok_bind, encSig, List.map_map]
    rw [show ((fun v => (v, 0)) ∘ encSmp : Tm × α → DV α × Nat) = (fun v => (encSmp v, 0)) from rfl]
    rw [show encSig s = DV.list (s.map encSmp) from rfl] at h1
    simp [h1, h2, encSig]
  · rw [lookup_filter_self _ _ (by selfkey)]
    exact getLoc_of_lookup h3

end GOnUn

/-- The object of `OnceOperation` / `HistoricallyOperation` whose attribute `self.prev` holds the value `prev` (as a sample value,
    or as the untyped `-inf` / `+inf` the constructor stores: `toVal` of the stored value is `prev`). -/
def ScanRel (cls : String) (prev : α) (o : DV α) : Prop :=
  ∃ store, o = .obj cls store ∧ (∀ p ∈ store, isSelfKey p.1 = true) ∧
    ∃ v, store.lookup "self.prev" = some v ∧ toVal v = .ok prev

theorem gen_OnceOperation_init (fuel k : Nat) : ∃ o : DV α,
    callAt Gen.DenseOn.fns fuel (k + 1) "OnceOperation.__init__" [.obj "OnceOperation" []] = .ok (.list [o, .none]) ∧
      ScanRel "OnceOperation" Val.ninf o := by
  refine ⟨_, init_generic fuel k _ Gen.DenseOn.OnceOperation_init "OnceOperation"
    (setLoc "self.prev" (.uinf true) []) rfl rfl rfl ?_, _, rfl, selfKeys_filter _, .uinf true, ?_, rfl⟩
  · simp [Gen.DenseOn.OnceOperation_init, exec, evalE, evalNeg]
  · rw [lookup_filter_self _ _ (by selfkey), lookup_setLoc_same]

theorem gen_HistoricallyOperation_init (fuel k : Nat) : ∃ o : DV α,
    callAt Gen.DenseOn.fns fuel (k + 1) "HistoricallyOperation.__init__" [.obj "HistoricallyOperation" []] =
        .ok (.list [o, .none]) ∧
      ScanRel "HistoricallyOperation" Val.pinf o := by
  refine ⟨_, init_generic fuel k _ Gen.DenseOn.HistoricallyOperation_init "HistoricallyOperation"
    (setLoc "self.prev" (.uinf false) []) rfl rfl rfl ?_, _, rfl, selfKeys_filter _, .uinf false, ?_, rfl⟩
  · simp [Gen.DenseOn.HistoricallyOperation_init, exec, evalE]
  · rw [lookup_filter_self _ _ (by selfkey), lookup_setLoc_same]

/-- `OnceOperation.update` = `scanUpdate pmax` -/
theorem gen_OnceOperation_update (fuel k : Nat) (prev : α) (o : DV α) (h : ScanRel "OnceOperation" prev o) (s : ASig α) :
    ∃ o', callAt Gen.DenseOn.fns fuel (k + 1) "OnceOperation.update" [o, encSig s] =
        .ok (.list [o', encSig (scanUpdate pmax prev s).2]) ∧
      ScanRel "OnceOperation" (scanUpdate pmax prev s).1 o' := by
  obtain ⟨store, rfl, hs, v, hv, htv⟩ := h
  obtain ⟨store', v', h1, h2, h3, h4⟩ := scanMethodG fuel k "OnceOperation.update" Gen.DenseOn.OnceOperation_update
    "sample_result" "max" pmax rfl rfl rfl rfl (by decide) (by decide) (by decide) (by decide) (by decide)
    (by decide) (by decide) (by decide) (by decide) (by decide) (by decide) (by selfkey)
    (fun x p v hv => by rw [callAt_builtin _ _ _ _ _ rfl]; exact builtin_max x p v hv)
    "OnceOperation" store hs v prev hv htv s
  exact ⟨_, h1, store', rfl, h2, v', h3, h4⟩

/-- `HistoricallyOperation.update` = `scanUpdate pmin` -/
theorem gen_HistoricallyOperation_update (fuel k : Nat) (prev : α) (o : DV α)
    (h : ScanRel "HistoricallyOperation" prev o) (s : ASig α) :
    ∃ o', callAt Gen.DenseOn.fns fuel (k + 1) "HistoricallyOperation.update" [o, encSig s] =
        .ok (.list [o', encSig (scanUpdate pmin prev s).2]) ∧
      ScanRel "HistoricallyOperation" (scanUpdate pmin prev s).1 o' := by
  obtain ⟨store, rfl, hs, v, hv, htv⟩ := h
  obtain ⟨store', v', h1, h2, h3, h4⟩ := scanMethodG fuel k "HistoricallyOperation.update"
    Gen.DenseOn.HistoricallyOperation_update
    "result_sample" "min" pmin rfl rfl rfl rfl (by decide) (by decide) (by decide) (by decide) (by decide)
    (by decide) (by decide) (by decide) (by decide) (by decide) (by decide) (by selfkey)
    (fun x p v hv => by rw [callAt_builtin _ _ _ _ _ rfl]; exact builtin_min x p v hv)
    "HistoricallyOperation" store hs v prev hv htv s
  exact ⟨_, h1, store', rfl, h2, v', h3, h4⟩

/-! ### (3) `SinceOperation` -/

namespace GOnUn

/-! #### the mirror: one iteration of `sinceLoop` -/

/-- `max(min(x, y), min(x, self.prev))` -/
def svV (prev x y : α) : α := pmax (pmin x y) (pmin x prev)

/-- the arguments of the recursive call of `sinceLoop` -/
def sinceStep (a0 a1 b0 b1 : Tm) (av avn bv bvn : α) (ra rb : ASig α) (prev : α) (last : Option (Tm × α))
    (res : ASig α) : ASig α × ASig α × α × Option (Tm × α) × ASig α :=
  let emit := Tm.lt (tmMax a0 b0) (tmMin a1 b1)
  (if Tm.lt a1 b1 then (a1, avn) :: ra else if Tm.lt b1 a1 then (a0, av) :: (a1, avn) :: ra else (a1, avn) :: ra,
   if Tm.lt a1 b1 then (b0, bv) :: (b1, bvn) :: rb else (b1, bvn) :: rb,
   if emit then svV prev av bv else prev,
   if emit then some (tmMin a1 b1,
      if Tm.lt a1 b1 then svV prev avn bv else if Tm.lt b1 a1 then svV prev av bvn else svV prev avn bvn) else last,
   if emit then res ++ [(tmMax a0 b0, svV prev av bv)] else res)

theorem sinceLoop_step (a0 a1 b0 b1 : Tm) (av avn bv bvn : α) (ra rb : ASig α) (prev : α) (last : Option (Tm × α))
    (res : ASig α) :
    AlgOn.sinceLoop ((a0, av) :: (a1, avn) :: ra) ((b0, bv) :: (b1, bvn) :: rb) prev last res =
      (fun t : ASig α × ASig α × α × Option (Tm × α) × ASig α => AlgOn.sinceLoop t.1 t.2.1 t.2.2.1 t.2.2.2.1 t.2.2.2.2)
        (sinceStep a0 a1 b0 b1 av avn bv bvn ra rb prev last res) := by
  rw [AlgOn.sinceLoop]
  unfold sinceStep svV
  cases h1 : Tm.lt a1 b1 <;> cases h2 : Tm.lt b1 a1 <;> cases h3 : Tm.lt (tmMax a0 b0) (tmMin a1 b1) <;>
    simp [h1, h2, h3]

theorem sinceLoop_short (a b : ASig α) (prev : α) (last : Option (Tm × α)) (res : ASig α)
    (h : a.length < 2 ∨ b.length < 2) : AlgOn.sinceLoop a b prev last res = (a, b, prev, last, res) := by
  unfold AlgOn.sinceLoop
  split
  · simp only [List.length_cons] at h; omega
  · rfl

theorem sinceStep_length (a0 a1 b0 b1 : Tm) (av avn bv bvn : α) (ra rb : ASig α) (prev : α) (last : Option (Tm × α))
    (res : ASig α) :
    (sinceStep a0 a1 b0 b1 av avn bv bvn ra rb prev last res).1.length +
      (sinceStep a0 a1 b0 b1 av avn bv bvn ra rb prev last res).2.1.length < (ra.length + 2) + (rb.length + 2) := by
  unfold sinceStep
  cases h1 : Tm.lt a1 b1 <;> cases h2 : Tm.lt b1 a1 <;> simp <;> omega

/-! #### the pieces of the body -/

def im1 (x : String) : E := .bin .sub (.loc x) (.int 1)
def svE (x y : String) : E := .call2 "max" (.call2 "min" (.loc x) (.loc y)) (.call2 "min" (.loc x) (.loc "self.prev"))

def sincePre (rest : S) : S :=
  (.seq (.setLoc "a_start" (.idx (.idx (.loc "a") (im1 "i")) (.int 0)))
  (.seq (.setLoc "a_end" (.idx (.idx (.loc "a") (.loc "i")) (.int 0)))
  (.seq (.setLoc "b_start" (.idx (.idx (.loc "b") (im1 "j")) (.int 0)))
  (.seq (.setLoc "b_end" (.idx (.idx (.loc "b") (.loc "j")) (.int 0)))
  (.seq (.setLoc "a_val" (.idx (.idx (.loc "a") (im1 "i")) (.int 1)))
  (.seq (.setLoc "b_val" (.idx (.idx (.loc "b") (im1 "j")) (.int 1)))
  (.seq (.setLoc "a_val_next" (.idx (.idx (.loc "a") (.loc "i")) (.int 1)))
  (.seq (.setLoc "b_val_next" (.idx (.idx (.loc "b") (.loc "j")) (.int 1))) rest))))))))

def sinceBranch : S :=
  (.ite (.bin .lt (.loc "a_end") (.loc "b_end"))
    (.seq (.setLoc "last_val" (svE "a_val_next" "b_val")) (.delIdx "a" (im1 "i")))
    (.ite (.bin .gt (.loc "a_end") (.loc "b_end"))
      (.seq (.setLoc "last_val" (svE "a_val" "b_val_next")) (.delIdx "b" (im1 "j")))
      (.seq (.setLoc "last_val" (svE "a_val_next" "b_val_next")) (.seq (.delIdx "a" (im1 "i")) (.delIdx "b" (im1 "j"))))))

def sinceEmit : S :=
  (.seq (.setLoc "lo" (.call2 "max" (.loc "a_start") (.loc "b_start")))
  (.seq (.setLoc "hi" (.call2 "min" (.loc "a_end") (.loc "b_end")))
  (.seq (.setLoc "val" .nan)
  (.ite (.bin .lt (.loc "lo") (.loc "hi"))
    (.seq (.setLoc "val" (svE "a_val" "b_val"))
    (.seq (.appendLoc "sample_result" (.list2 (.loc "lo") (.loc "val")))
    (.seq (.setLoc "self.prev" (.loc "val")) (.setLoc "last" (.list2 (.loc "hi") (.loc "last_val"))))))
    .skip))))

def sinceBody : S := sincePre (.seq sinceBranch sinceEmit)

def sinceCond : E := (.and_ (.bin .gt (.call1 "len" (.loc "a")) (.int 1)) (.bin .gt (.call1 "len" (.loc "b")) (.int 1)))

def sincePost : S := (.seq (.setLoc "self.sample_left_buf" (.loc "a")) (.seq (.setLoc "self.sample_right_buf" (.loc "b")) (.seq (.setLoc "self.last" (.loc "last")) (.ret (.loc "sample_result")))))

theorem SinceOperation_update_body : Gen.DenseOn.SinceOperation_update.body =
    (.seq (.setLoc "sample_result" .emptyList) (.seq (.setLoc "a" (.bin .add (.loc "self.sample_left_buf") (.loc "sample_left"))) (.seq (.setLoc "b" (.bin .add (.loc "self.sample_right_buf") (.loc "sample_right"))) (.seq (.seq (.setLoc "i" (.int 1)) (.setLoc "j" (.int 1))) (.seq (.setLoc "last" (.loc "self.last")) (.seq (.while_ sinceCond sinceBody) sincePost)))))) := rfl

/-- what the library functions the body calls return -/
structure Calls (call : Call α) : Prop where
  len : ∀ l : List (DV α), call "len" [.list l] = .ok (.int l.length)
  maxV : ∀ x y : α, call "max" [.val x, .val y] = .ok (.val (pmax x y))
  minV : ∀ x y : α, call "min" [.val x, .val y] = .ok (.val (pmin x y))
  minP : ∀ (x p : α) (v : DV α), toVal v = .ok p → call "min" [.val x, v] = .ok (.val (pmin x p))
  maxT : ∀ s t : Tm, call "max" [.tm s, .tm t] = .ok (.tm (tmMax s t))
  minT : ∀ s t : Tm, call "min" [.tm s, .tm t] = .ok (.tm (tmMin s t))

theorem calls_callAt (fuel k : Nat) : Calls (callAt (α := α) Gen.DenseOn.fns fuel k) where
  len l := by rw [callAt_builtin _ _ _ _ _ rfl]; simp [builtin]
  maxV x y := by rw [callAt_builtin _ _ _ _ _ rfl]; exact builtin_max x y (.val y) rfl
  minV x y := by rw [callAt_builtin _ _ _ _ _ rfl]; exact builtin_min x y (.val y) rfl
  minP x p v h := by rw [callAt_builtin _ _ _ _ _ rfl]; exact builtin_min x p v h
  maxT s t := by rw [callAt_builtin _ _ _ _ _ rfl]; simp [builtin, isTimeLike, toTm, tmMax]
  minT s t := by rw [callAt_builtin _ _ _ _ _ rfl]; simp [builtin, isTimeLike, toTm, tmMin]

/-- the locals between two iterations -/
structure SInv (env : Env α) (a b : ASig α) (v : DV α) (prev : α) (last : Option (Tm × α)) (res : ASig α) : Prop where
  a : getLoc "a" env = .ok (encSig a)
  b : getLoc "b" env = .ok (encSig b)
  i : getLoc "i" env = .ok (.int 1)
  j : getLoc "j" env = .ok (.int 1)
  pv : getLoc "self.prev" env = .ok v
  tv : toVal v = .ok prev
  last : getLoc "last" env = .ok (encOptSmp last)
  res : getLoc "sample_result" env = .ok (encSig res)
  rlen : resolve env "len" = "len"
  rmax : resolve env "max" = "max"
  rmin : resolve env "min" = "min"

/-- the locals after the `if / elif / else` of one iteration -/
structure SInv2 (env : Env α) (a b : ASig α) (v : DV α) (prev : α) (last : Option (Tm × α)) (res : ASig α)
    (a0 a1 b0 b1 : Tm) (av bv lv : α) : Prop extends SInv env a b v prev last res where
  as : getLoc "a_start" env = .ok (.tm a0)
  ae : getLoc "a_end" env = .ok (.tm a1)
  bs : getLoc "b_start" env = .ok (.tm b0)
  be : getLoc "b_end" env = .ok (.tm b1)
  av : getLoc "a_val" env = .ok (.val av)
  bv : getLoc "b_val" env = .ok (.val bv)
  lv : getLoc "last_val" env = .ok (.val lv)

section body
variable (call : Call α) (fuel : Nat) (C : Calls call)
include C

theorem pre_spec (rest : S) (env : Env α) (a0 a1 b0 b1 : Tm) (av avn bv bvn : α) (la lb : List (DV α))
    (ha : getLoc "a" env = .ok (.list (.smp a0 (.val av) :: .smp a1 (.val avn) :: la)))
    (hb : getLoc "b" env = .ok (.list (.smp b0 (.val bv) :: .smp b1 (.val bvn) :: lb)))
    (hi : getLoc "i" env = .ok (.int 1)) (hj : getLoc "j" env = .ok (.int 1)) :
    exec call fuel (sincePre rest) env = exec call fuel rest
      (setLoc "b_val_next" (.val bvn) (setLoc "a_val_next" (.val avn) (setLoc "b_val" (.val bv) (setLoc "a_val" (.val av)
        (setLoc "b_end" (.tm b1) (setLoc "b_start" (.tm b0) (setLoc "a_end" (.tm a1) (setLoc "a_start" (.tm a0) env)))))))) := by
  simp [sincePre, exec, evalE, im1, ha, hb, hi, hj, evalBin, isCmp, arith, evalIdx, pyIndex]

theorem evalE_sv (env : Env α) (x y : String) (X Y prev : α) (v : DV α)
    (hx : getLoc x env = .ok (.val X)) (hy : getLoc y env = .ok (.val Y))
    (hpv : getLoc "self.prev" env = .ok v) (htv : toVal v = .ok prev)
    (hrmax : resolve env "max" = "max") (hrmin : resolve env "min" = "min") :
    evalE call env (svE x y) = .ok (.val (svV prev X Y)) := by
  simp [svE, evalE, hx, hy, hpv, hrmax, hrmin, C.minV, C.minP X prev v htv, C.maxV, svV]

omit C in
theorem evalE_ltT (env : Env α) (x y : String) (s t : Tm)
    (hx : getLoc x env = .ok (.tm s)) (hy : getLoc y env = .ok (.tm t)) :
    evalE call env (.bin .lt (.loc x) (.loc y)) = .ok (.bool (Tm.lt s t)) := by
  simp [evalE, hx, hy, evalBin, isCmp, cmpDV, isTimeLike, toXT, toTm, cmpXT, XT.lt, Except.map]

omit C in
theorem evalE_gtT (env : Env α) (x y : String) (s t : Tm)
    (hx : getLoc x env = .ok (.tm s)) (hy : getLoc y env = .ok (.tm t)) :
    evalE call env (.bin .gt (.loc x) (.loc y)) = .ok (.bool (Tm.lt t s)) := by
  simp [evalE, hx, hy, evalBin, isCmp, cmpDV, isTimeLike, toXT, toTm, cmpXT, XT.lt, Except.map]

omit C in
theorem exec_del0 (env : Env α) (x ix : String) (x0 : DV α) (l : List (DV α))
    (hx : getLoc x env = .ok (.list (x0 :: l))) (hi : getLoc ix env = .ok (.int 1)) :
    exec call fuel (.delIdx x (im1 ix)) env = .ok (setLoc x (.list l) env, .none) := by
  simp [exec, evalE, im1, hx, hi, evalBin, isCmp, arith, delAt, pyIndex]

theorem branch_spec (env : Env α) (a1 b1 : Tm) (av avn bv bvn prev : α) (v : DV α) (x0 x1 : DV α) (la : List (DV α))
    (y0 y1 : DV α) (lb : List (DV α))
    (hae : getLoc "a_end" env = .ok (.tm a1)) (hbe : getLoc "b_end" env = .ok (.tm b1))
    (hav : getLoc "a_val" env = .ok (.val av)) (havn : getLoc "a_val_next" env = .ok (.val avn))
    (hbv : getLoc "b_val" env = .ok (.val bv)) (hbvn : getLoc "b_val_next" env = .ok (.val bvn))
    (ha : getLoc "a" env = .ok (.list (x0 :: x1 :: la))) (hb : getLoc "b" env = .ok (.list (y0 :: y1 :: lb)))
    (hi : getLoc "i" env = .ok (.int 1)) (hj : getLoc "j" env = .ok (.int 1))
    (hpv : getLoc "self.prev" env = .ok v) (htv : toVal v = .ok prev)
    (hrmax : resolve env "max" = "max") (hrmin : resolve env "min" = "min") :
    exec call fuel sinceBranch env = .ok (
      if Tm.lt a1 b1 then setLoc "a" (.list (x1 :: la)) (setLoc "last_val" (.val (svV prev avn bv)) env)
      else if Tm.lt b1 a1 then setLoc "b" (.list (y1 :: lb)) (setLoc "last_val" (.val (svV prev av bvn)) env)
      else setLoc "b" (.list (y1 :: lb)) (setLoc "a" (.list (x1 :: la)) (setLoc "last_val" (.val (svV prev avn bvn)) env)),
      .none) := by
  unfold sinceBranch
  rw [exec_ite_bool call fuel (evalE_ltT call env _ _ a1 b1 hae hbe)]
  cases h1 : Tm.lt a1 b1 with
  | true =>
      simp only [if_true]
      rw [exec_seq_ok call fuel (exec_setLoc call fuel (evalE_sv call C env _ _ avn bv prev v havn hbv hpv htv hrmax hrmin))]
      exact exec_del0 call fuel _ "a" "i" x0 (x1 :: la) (by simp [ha]) (by simp [hi])
  | false =>
      simp only [Bool.false_eq_true, if_false]
      rw [exec_ite_bool call fuel (evalE_gtT call env _ _ a1 b1 hae hbe)]
      cases h2 : Tm.lt b1 a1 with
      | true =>
          simp only [if_true]
          rw [exec_seq_ok call fuel (exec_setLoc call fuel (evalE_sv call C env _ _ av bvn prev v hav hbvn hpv htv hrmax hrmin))]
          exact exec_del0 call fuel _ "b" "j" y0 (y1 :: lb) (by simp [hb]) (by simp [hj])
      | false =>
          simp only [Bool.false_eq_true, if_false]
          rw [exec_seq_ok call fuel (exec_setLoc call fuel (evalE_sv call C env _ _ avn bvn prev v havn hbvn hpv htv hrmax hrmin)),
            exec_seq_ok call fuel (exec_del0 call fuel _ "a" "i" x0 (x1 :: la) (by simp [ha]) (by simp [hi]))]
          exact exec_del0 call fuel _ "b" "j" y0 (y1 :: lb) (by simp [hb]) (by simp [hj])

theorem emit_spec {env : Env α} {a b : ASig α} {v : DV α} {prev : α} {last : Option (Tm × α)} {res : ASig α}
    {a0 a1 b0 b1 : Tm} {av bv lv : α} (h : SInv2 env a b v prev last res a0 a1 b0 b1 av bv lv) :
    ∃ env' v', exec call fuel sinceEmit env = .ok (env', .none) ∧
      SInv env' a b v' (if Tm.lt (tmMax a0 b0) (tmMin a1 b1) then svV prev av bv else prev)
        (if Tm.lt (tmMax a0 b0) (tmMin a1 b1) then some (tmMin a1 b1, lv) else last)
        (if Tm.lt (tmMax a0 b0) (tmMin a1 b1) then res ++ [(tmMax a0 b0, svV prev av bv)] else res) := by
  have e1 : exec call fuel sinceEmit env = exec call fuel
      (.ite (.bin .lt (.loc "lo") (.loc "hi"))
        (.seq (.setLoc "val" (svE "a_val" "b_val"))
        (.seq (.appendLoc "sample_result" (.list2 (.loc "lo") (.loc "val")))
        (.seq (.setLoc "self.prev" (.loc "val")) (.setLoc "last" (.list2 (.loc "hi") (.loc "last_val"))))))
        .skip)
      (setLoc "val" .nan (setLoc "hi" (.tm (tmMin a1 b1)) (setLoc "lo" (.tm (tmMax a0 b0)) env))) := by
    unfold sinceEmit
    rw [exec_seq_ok call fuel (exec_setLoc call fuel (v := .tm (tmMax a0 b0))
          (by simp [evalE, h.as, h.bs, h.rmax, C.maxT])),
      exec_seq_ok call fuel (exec_setLoc call fuel (v := .tm (tmMin a1 b1))
          (by simp [evalE, h.ae, h.be, h.rmin, C.minT])),
      exec_seq_ok call fuel (exec_setLoc call fuel (v := .nan) (by simp [evalE]))]
  rw [e1, exec_ite_bool call fuel (evalE_ltT call _ _ _ (tmMax a0 b0) (tmMin a1 b1) (by simp) (by simp))]
  cases h3 : Tm.lt (tmMax a0 b0) (tmMin a1 b1) with
  | false =>
      refine ⟨setLoc "val" .nan (setLoc "hi" (.tm (tmMin a1 b1)) (setLoc "lo" (.tm (tmMax a0 b0)) env)), v,
        by simp [exec], ?_⟩
      simp only [Bool.false_eq_true, if_false]
      constructor <;> simp [h.a, h.b, h.i, h.j, h.pv, h.tv, h.last, h.res, h.rlen, h.rmax, h.rmin]
  | true =>
      simp only [if_true]
      rw [exec_seq_ok call fuel (exec_setLoc call fuel
        (evalE_sv call C _ "a_val" "b_val" av bv prev v (by simp [h.av]) (by simp [h.bv]) (by simp [h.pv]) h.tv
          (by simp [h.rmax]) (by simp [h.rmin])))]
      refine ⟨setLoc "last" (.smp (tmMin a1 b1) (.val lv)) (setLoc "self.prev" (.val (svV prev av bv))
        (setLoc "sample_result" (.list (res.map encSmp ++ [.smp (tmMax a0 b0) (.val (svV prev av bv))]))
        (setLoc "val" (.val (svV prev av bv)) (setLoc "val" .nan (setLoc "hi" (.tm (tmMin a1 b1))
          (setLoc "lo" (.tm (tmMax a0 b0)) env)))))), .val (svV prev av bv), ?_, ?_⟩
      · have hr := h.res
        simp only [encSig] at hr
        simp [exec, evalE, hr, h.lv, mkList2, toPayload]
      · constructor <;>
          simp [h.a, h.b, h.i, h.j, h.rlen, h.rmax, h.rmin, encOptSmp, encSmp, encSig, toVal]

theorem cond_spec {env : Env α} {a b : ASig α} {v : DV α} {prev : α} {last : Option (Tm × α)} {res : ASig α}
    (h : SInv env a b v prev last res) :
    (do truthy (← evalE call env sinceCond)) = .ok (decide (1 < a.length) && decide (1 < b.length)) := by
  have e1 : evalE call env (.bin .gt (.call1 "len" (.loc "a")) (.int 1)) = .ok (.bool (decide (1 < a.length))) := by
    simp [evalE, h.a, h.rlen, C.len, encSig, evalBin, isCmp, cmpDV, cmpInt, Except.map]
    omega
  have e2 : evalE call env (.bin .gt (.call1 "len" (.loc "b")) (.int 1)) = .ok (.bool (decide (1 < b.length))) := by
    simp [evalE, h.b, h.rlen, C.len, encSig, evalBin, isCmp, cmpDV, cmpInt, Except.map]
    omega
  unfold sinceCond
  rw [evalE, e1]
  by_cases ha : 1 < a.length
  · simp [ha, truthy, e2]
  · simp [ha, truthy]

/-- one iteration -/
theorem body_spec {env : Env α} {a0 a1 b0 b1 : Tm} {av avn bv bvn : α} {ra rb : ASig α} {v : DV α} {prev : α}
    {last : Option (Tm × α)} {res : ASig α}
    (inv : SInv env ((a0, av) :: (a1, avn) :: ra) ((b0, bv) :: (b1, bvn) :: rb) v prev last res) :
    ∃ env' v', exec call fuel sinceBody env = .ok (env', .none) ∧
      SInv env' (sinceStep a0 a1 b0 b1 av avn bv bvn ra rb prev last res).1
        (sinceStep a0 a1 b0 b1 av avn bv bvn ra rb prev last res).2.1 v'
        (sinceStep a0 a1 b0 b1 av avn bv bvn ra rb prev last res).2.2.1
        (sinceStep a0 a1 b0 b1 av avn bv bvn ra rb prev last res).2.2.2.1
        (sinceStep a0 a1 b0 b1 av avn bv bvn ra rb prev last res).2.2.2.2 := by
  have ha : getLoc "a" env = .ok (.list (.smp a0 (.val av) :: .smp a1 (.val avn) :: ra.map encSmp)) := inv.a
  have hb : getLoc "b" env = .ok (.list (.smp b0 (.val bv) :: .smp b1 (.val bvn) :: rb.map encSmp)) := inv.b
  have hpre := pre_spec call fuel C (.seq sinceBranch sinceEmit) env a0 a1 b0 b1 av avn bv bvn _ _ ha hb inv.i inv.j
  have hbr := branch_spec call fuel C
    (setLoc "b_val_next" (.val bvn) (setLoc "a_val_next" (.val avn) (setLoc "b_val" (.val bv) (setLoc "a_val" (.val av)
        (setLoc "b_end" (.tm b1) (setLoc "b_start" (.tm b0) (setLoc "a_end" (.tm a1) (setLoc "a_start" (.tm a0) env))))))))
    a1 b1 av avn bv bvn prev v (.smp a0 (.val av)) (.smp a1 (.val avn)) (ra.map encSmp)
    (.smp b0 (.val bv)) (.smp b1 (.val bvn)) (rb.map encSmp) (by simp) (by simp) (by simp) (by simp) (by simp) (by simp)
    (by simp [ha]) (by simp [hb]) (by simp [inv.i]) (by simp [inv.j]) (by simp [inv.pv]) inv.tv
    (by simp [inv.rmax]) (by simp [inv.rmin])
  unfold sinceBody
  rw [hpre, exec_seq_ok call fuel hbr]
  unfold sinceStep
  cases h1 : Tm.lt a1 b1 with
  | true =>
      simp only [if_true]
      refine emit_spec call fuel C (v := v) (lv := svV prev avn bv) ?_
      constructor
      · constructor <;> simp [inv.i, inv.j, inv.pv, inv.tv, inv.last, inv.res, inv.rlen, inv.rmax, inv.rmin, hb, encSig, encSmp]
      all_goals simp
  | false =>
      simp only [Bool.false_eq_true, if_false]
      cases h2 : Tm.lt b1 a1 with
      | true =>
          simp only [if_true]
          refine emit_spec call fuel C (v := v) (lv := svV prev av bvn) ?_
          constructor
          · constructor <;> simp [inv.i, inv.j, inv.pv, inv.tv, inv.last, inv.res, inv.rlen, inv.rmax, inv.rmin, ha, encSig, encSmp]
          all_goals simp
      | false =>
          simp only [Bool.false_eq_true, if_false]
          refine emit_spec call fuel C (v := v) (lv := svV prev avn bvn) ?_
          constructor
          · constructor <;> simp [inv.i, inv.j, inv.pv, inv.tv, inv.last, inv.res, inv.rlen, inv.rmax, inv.rmin, encSig, encSmp]
          all_goals simp

/-- the `while` loop against `sinceLoop` -/
theorem loop_spec : ∀ (n : Nat) (a b : ASig α) (v : DV α) (prev : α) (last : Option (Tm × α)) (res : ASig α) (env : Env α),
    a.length + b.length < n → SInv env a b v prev last res →
    ∃ env' v', whileLoop (fun env => do truthy (← evalE call env sinceCond)) (exec call fuel sinceBody) n env =
        .ok (env', .none) ∧
      SInv env' (AlgOn.sinceLoop a b prev last res).1 (AlgOn.sinceLoop a b prev last res).2.1 v' (AlgOn.sinceLoop a b prev last res).2.2.1
        (AlgOn.sinceLoop a b prev last res).2.2.2.1 (AlgOn.sinceLoop a b prev last res).2.2.2.2 := by
  intro n
  induction n with
  | zero => intro a b v prev last res env hn; omega
  | succ n ih =>
      intro a b v prev last res env hn h
      have hc := cond_spec call C h
      by_cases hl : a.length < 2 ∨ b.length < 2
      · rw [sinceLoop_short a b prev last res hl]
        have hf : (decide (1 < a.length) && decide (1 < b.length)) = false := by
          rcases hl with hl | hl <;> simp <;> omega
        rw [hf] at hc
        exact ⟨env, v, whileLoop_done _ _ _ _ hc, h⟩
      · have ht : (decide (1 < a.length) && decide (1 < b.length)) = true := by
          simp; omega
        rw [ht] at hc
        obtain ⟨⟨a0, av⟩, ⟨a1, avn⟩, ra, rfl⟩ : ∃ x y r, a = x :: y :: r := by
          rcases a with _ | ⟨x, _ | ⟨y, r⟩⟩
          · simp at hl
          · simp at hl
          · exact ⟨x, y, r, rfl⟩
        obtain ⟨⟨b0, bv⟩, ⟨b1, bvn⟩, rb, rfl⟩ : ∃ x y r, b = x :: y :: r := by
          rcases b with _ | ⟨x, _ | ⟨y, r⟩⟩
          · simp at hl
          · simp at hl
          · exact ⟨x, y, r, rfl⟩
        obtain ⟨env1, v1, hex, hinv⟩ := body_spec call fuel C h
        rw [whileLoop_step _ _ _ _ _ hc hex, sinceLoop_step]
        refine ih _ _ _ _ _ _ env1 ?_ hinv
        have := sinceStep_length a0 a1 b0 b1 av avn bv bvn ra rb prev last res
        simp only [List.length_cons] at hn
        omega

/-- the whole body of `SinceOperation.update` on locals that hold the attributes of the state `st` and the two batches -/
theorem run_spec (env0 : Env α) (st : SinceSt α) (sl sr : ASig α) (v : DV α)
    (g1 : getLoc "self.sample_left_buf" env0 = .ok (encSig st.bufA))
    (g2 : getLoc "self.sample_right_buf" env0 = .ok (encSig st.bufB))
    (g3 : getLoc "self.prev" env0 = .ok v) (htv : toVal v = .ok st.prev)
    (g4 : getLoc "self.last" env0 = .ok (encOptSmp st.last))
    (g5 : getLoc "sample_left" env0 = .ok (encSig sl)) (g6 : getLoc "sample_right" env0 = .ok (encSig sr))
    (r1 : resolve env0 "len" = "len") (r2 : resolve env0 "max" = "max") (r3 : resolve env0 "min" = "min")
    (hf : st.bufA.length + sl.length + st.bufB.length + sr.length + 1 ≤ fuel) :
    ∃ env' v', exec call fuel Gen.DenseOn.SinceOperation_update.body env0 =
        .ok (env', .ret (encSig (sinceUpdate st sl sr).2)) ∧
      getLoc "self.sample_left_buf" env' = .ok (encSig (sinceUpdate st sl sr).1.bufA) ∧
      getLoc "self.sample_right_buf" env' = .ok (encSig (sinceUpdate st sl sr).1.bufB) ∧
      getLoc "self.prev" env' = .ok v' ∧ toVal v' = .ok (sinceUpdate st sl sr).1.prev ∧
      getLoc "self.last" env' = .ok (encOptSmp (sinceUpdate st sl sr).1.last) := by
  have hinv : SInv (setLoc "last" (encOptSmp st.last) (setLoc "j" (.int 1) (setLoc "i" (.int 1)
      (setLoc "b" (encSig (st.bufB ++ sr)) (setLoc "a" (encSig (st.bufA ++ sl)) (setLoc "sample_result" (.list []) env0))))))
      (st.bufA ++ sl) (st.bufB ++ sr) v st.prev st.last [] := by
    constructor <;> simp [g3, htv, r1, r2, r3, encSig]
  obtain ⟨env1, v1, hloop, inv⟩ := loop_spec call fuel C fuel _ _ _ _ _ _ _
    (by simp only [List.length_append]; omega) hinv
  have hpost : exec call fuel sincePost env1 =
      .ok (setLoc "self.last" (encOptSmp (AlgOn.sinceLoop (st.bufA ++ sl) (st.bufB ++ sr) st.prev st.last []).2.2.2.1)
        (setLoc "self.sample_right_buf" (encSig (AlgOn.sinceLoop (st.bufA ++ sl) (st.bufB ++ sr) st.prev st.last []).2.1)
          (setLoc "self.sample_left_buf" (encSig (AlgOn.sinceLoop (st.bufA ++ sl) (st.bufB ++ sr) st.prev st.last []).1) env1)),
        .ret (encSig (AlgOn.sinceLoop (st.bufA ++ sl) (st.bufB ++ sr) st.prev st.last []).2.2.2.2)) := by
    simp [sincePost, exec, evalE, inv.a, inv.b, inv.last, inv.res]
  refine ⟨setLoc "self.last" (encOptSmp (AlgOn.sinceLoop (st.bufA ++ sl) (st.bufB ++ sr) st.prev st.last []).2.2.2.1)
        (setLoc "self.sample_right_buf" (encSig (AlgOn.sinceLoop (st.bufA ++ sl) (st.bufB ++ sr) st.prev st.last []).2.1)
          (setLoc "self.sample_left_buf" (encSig (AlgOn.sinceLoop (st.bufA ++ sl) (st.bufB ++ sr) st.prev st.last []).1) env1)), v1, ?_, ?_, ?_, ?_, inv.tv, ?_⟩
  · rw [SinceOperation_update_body,
      exec_seq_ok call fuel (exec_setLoc call fuel (v := .list []) (by simp [evalE])),
      exec_seq_ok call fuel (exec_setLoc call fuel (v := encSig (st.bufA ++ sl))
        (by simp [evalE, g1, g5, evalBin, isCmp, arith, encSig])),
      exec_seq_ok call fuel (exec_setLoc call fuel (v := encSig (st.bufB ++ sr))
        (by simp [evalE, g2, g6, evalBin, isCmp, arith, encSig])),
      exec_seq_ok call fuel (b := .seq (.setLoc "last" (.loc "self.last")) (.seq (.while_ sinceCond sinceBody) sincePost))
        (env' := setLoc "j" (.int 1) (setLoc "i" (.int 1) (setLoc "b" (encSig (st.bufB ++ sr))
          (setLoc "a" (encSig (st.bufA ++ sl)) (setLoc "sample_result" (.list []) env0)))))
        (by simp [exec, evalE]),
      exec_seq_ok call fuel (exec_setLoc call fuel (v := encOptSmp st.last) (by simp [evalE, g4])),
      exec_seq_ok call fuel (by rw [exec_while]; exact hloop), hpost]
    rfl
  · simp; rfl
  · simp; rfl
  · simp [inv.pv]
  · simp; rfl

end body

end GOnUn

/-- The object of `SinceOperation` in the state `st` of the mirror. -/
def SinceRel (st : SinceSt α) (o : DV α) : Prop :=
  ∃ store, o = .obj "SinceOperation" store ∧ (∀ p ∈ store, isSelfKey p.1 = true) ∧
    store.lookup "self.sample_left_buf" = some (encSig st.bufA) ∧
    store.lookup "self.sample_right_buf" = some (encSig st.bufB) ∧
    (∃ v, store.lookup "self.prev" = some v ∧ toVal v = .ok st.prev) ∧
    store.lookup "self.last" = some (encOptSmp st.last)

theorem gen_SinceOperation_init (fuel k : Nat) : ∃ o : DV α,
    callAt Gen.DenseOn.fns fuel (k + 1) "SinceOperation.__init__" [.obj "SinceOperation" []] = .ok (.list [o, .none]) ∧
      SinceRel { prev := Val.ninf } o := by
  refine ⟨_, init_generic fuel k _ Gen.DenseOn.SinceOperation_init "SinceOperation"
    (setLoc "self.last" (.list []) (setLoc "self.prev" (.uinf true) (setLoc "self.sample_right_buf" (.list [])
      (setLoc "self.sample_left_buf" (.list []) [])))) rfl rfl rfl ?_, _, rfl, selfKeys_filter _, ?_, ?_, ⟨.uinf true, ?_, rfl⟩, ?_⟩
  · simp [Gen.DenseOn.SinceOperation_init, exec, evalE, evalNeg]
  all_goals rw [lookup_filter_self _ _ (by selfkey)]
  all_goals exact getLoc_of_lookup (by simp [encSig, encOptSmp])

/-- `SinceOperation.update` = `sinceUpdate`; the `while` loop runs at most `len(a) + len(b)` times -/
theorem gen_SinceOperation_update (fuel k : Nat) (st : SinceSt α) (o : DV α) (h : SinceRel st o) (sl sr : ASig α)
    (hf : st.bufA.length + sl.length + st.bufB.length + sr.length + 1 ≤ fuel) :
    ∃ o', callAt Gen.DenseOn.fns fuel (k + 1) "SinceOperation.update" [o, encSig sl, encSig sr] =
        .ok (.list [o', encSig (sinceUpdate st sl sr).2]) ∧
      SinceRel (sinceUpdate st sl sr).1 o' := by
  obtain ⟨store, rfl, hs, h1, h2, ⟨v, h3, htv⟩, h4⟩ := h
  obtain ⟨env', v', hex, e1, e2, e3, e4, e5⟩ := run_spec (callAt Gen.DenseOn.fns fuel k) fuel (calls_callAt fuel k)
    (store ++ [("sample_left", encSig sl), ("sample_right", encSig sr)]) st sl sr v
    (getLoc_append_some _ _ _ _ h1) (getLoc_append_some _ _ _ _ h2) (getLoc_append_some _ _ _ _ h3) htv
    (getLoc_append_some _ _ _ _ h4)
    (by rw [getLoc_append_nonself _ _ _ hs (by selfkey)]; simp)
    (by rw [getLoc_append_nonself _ _ _ hs (by selfkey)]; simp)
    (by rw [resolve_append_nonself _ _ _ hs (by selfkey)]; simp)
    (by rw [resolve_append_nonself _ _ _ hs (by selfkey)]; simp)
    (by rw [resolve_append_nonself _ _ _ hs (by selfkey)]; simp) hf
  refine ⟨.obj "SinceOperation" (env'.filter selfP), ?_, _, rfl, selfKeys_filter _, ?_, ?_, ⟨v', ?_, e4⟩, ?_⟩
  · rw [call_method fuel k "SinceOperation.update" Gen.DenseOn.SinceOperation_update "SinceOperation" store
      [encSig sl, encSig sr] rfl rfl rfl]
    have hz : (Gen.DenseOn.SinceOperation_update.params.drop 1).zip [encSig sl, encSig sr] =
        ([("sample_left", encSig sl), ("sample_right", encSig sr)] : Env α) := rfl
    rw [hz, hex]
    rfl
  all_goals rw [lookup_filter_self _ _ (by selfkey)]
  · exact getLoc_of_lookup e1
  · exact getLoc_of_lookup e2
  · exact getLoc_of_lookup e3
  · exact getLoc_of_lookup e5

/-! ### (4) `ConstantOperation`, `VariableOperation` (the runner `RunDnOn.lean` models the leaves by hand) -/

/-- The object of `ConstantOperation` for the constant `c`; `first` is the attribute `is_first_sample`. -/
def ConstRel (c : α) (first : Bool) (o : DV α) : Prop :=
  ∃ store, o = .obj "ConstantOperation" store ∧ (∀ p ∈ store, isSelfKey p.1 = true) ∧
    store.lookup "self.val" = some (.val c) ∧ store.lookup "self.is_first_sample" = some (.bool first)

theorem gen_ConstantOperation_init (fuel k : Nat) (c : α) : ∃ o : DV α,
    callAt Gen.DenseOn.fns fuel (k + 1) "ConstantOperation.__init__" [.obj "ConstantOperation" [], .val c] =
        .ok (.list [o, .none]) ∧
      ConstRel c true o := by
  refine ⟨.obj "ConstantOperation" ((setLoc "self.is_first_sample" (.bool true) (setLoc "self.val" (.val c)
      [("val", .val c)])).filter selfP), ?_, _, rfl, selfKeys_filter _, ?_, ?_⟩
  · rw [call_method fuel k "ConstantOperation.__init__" Gen.DenseOn.ConstantOperation_init "ConstantOperation" []
      [.val c] rfl rfl rfl]
    have hz : ([] : Env α) ++ (Gen.DenseOn.ConstantOperation_init.params.drop 1).zip [DV.val c] = [("val", .val c)] := rfl
    rw [hz]
    simp [Gen.DenseOn.ConstantOperation_init, exec, evalE]
  all_goals rw [lookup_filter_self _ _ (by selfkey)]
  all_goals exact getLoc_of_lookup (by simp)

/-- `ConstantOperation.update` never clears `is_first_sample`: a fresh object returns `[[0, c], [inf, c]]` at EVERY call (it is
    the update visitor that hands the signal over only once: `constants_sent`), and the object is returned unchanged. -/
theorem gen_ConstantOperation_update (fuel k : Nat) (c : α) (first : Bool) (o : DV α) (h : ConstRel c first o) :
    callAt Gen.DenseOn.fns fuel (k + 1) "ConstantOperation.update" [o] =
      .ok (.list [o, encSig (if first then [(Tm.zero, c), (.inf, c)] else [])]) := by
  obtain ⟨store, rfl, hs, h1, h2⟩ := h
  rw [call_method fuel k "ConstantOperation.update" Gen.DenseOn.ConstantOperation_update "ConstantOperation" store
    [] rfl rfl rfl]
  have hz : store ++ (Gen.DenseOn.ConstantOperation_update.params.drop 1).zip ([] : List (DV α)) = store := by
    simp [Gen.DenseOn.ConstantOperation_update]
  have g1 : getLoc "self.val" store = .ok (.val c) := by unfold getLoc; rw [h1]
  have g2 : getLoc "self.is_first_sample" store = .ok (.bool first) := by unfold getLoc; rw [h2]
  have hf : store.filter selfP = store := List.filter_eq_self.mpr (fun p hp => hs p hp)
  rw [hz]
  cases first with
  | true =>
      simp [Gen.DenseOn.ConstantOperation_update, exec, evalE, g1, g2, truthy, mkList2, toPayload,
        filter_setLoc_nonself _ _ _ (show isSelfKey "out" = false by selfkey), hf, encSig, encSmp, Tm.zero]
  | false =>
      simp [Gen.DenseOn.ConstantOperation_update, exec, evalE, g1, g2, truthy,
        filter_setLoc_nonself _ _ _ (show isSelfKey "out" = false by selfkey), hf, encSig]

/-- The object of `VariableOperation` whose attribute `val` holds `x`. -/
def VarRel (x : DV α) (o : DV α) : Prop :=
  ∃ store, o = .obj "VariableOperation" store ∧ (∀ p ∈ store, isSelfKey p.1 = true) ∧ store.lookup "self.val" = some x

theorem gen_VariableOperation_init (fuel k : Nat) : ∃ o : DV α,
    callAt Gen.DenseOn.fns fuel (k + 1) "VariableOperation.__init__" [.obj "VariableOperation" []] =
        .ok (.list [o, .none]) ∧
      VarRel .none o := by
  refine ⟨_, init_generic fuel k _ Gen.DenseOn.VariableOperation_init "VariableOperation"
    (setLoc "self.val" .none []) rfl rfl rfl ?_, _, rfl, selfKeys_filter _, ?_⟩
  · simp [Gen.DenseOn.VariableOperation_init, exec, evalE]
  · rw [lookup_filter_self _ _ (by selfkey), lookup_setLoc_same]

/-- `VariableOperation.update` returns the attribute `val` (`None` on a fresh object: the class is a placeholder, the update
    visitor reads the variable's batch itself). -/
theorem gen_VariableOperation_update (fuel k : Nat) (x : DV α) (o : DV α) (h : VarRel x o) :
    callAt Gen.DenseOn.fns fuel (k + 1) "VariableOperation.update" [o] = .ok (.list [o, x]) := by
  obtain ⟨store, rfl, hs, h1⟩ := h
  rw [call_method fuel k "VariableOperation.update" Gen.DenseOn.VariableOperation_update "VariableOperation" store
    [] rfl rfl rfl]
  have hz : store ++ (Gen.DenseOn.VariableOperation_update.params.drop 1).zip ([] : List (DV α)) = store := by
    simp [Gen.DenseOn.VariableOperation_update]
  have g1 : getLoc "self.val" store = .ok x := by unfold getLoc; rw [h1]
  have hf : store.filter selfP = store := List.filter_eq_self.mpr (fun p hp => hs p hp)
  rw [hz]
  simp [Gen.DenseOn.VariableOperation_update, exec, evalE, g1, hf]

/-! ### (5) the same through `updateObj` of the runner `RunDnOn.lean` (`depth = 7`) -/

namespace GOnUn

theorem updateObj_un (fuel : Nat) (cls name : String) (hn : cls ++ ".update" = name)
    (F : ASig α → Except PyErr (ASig α))
    (hu : ∀ (o : DV α), UnRel cls o → ∀ s,
      callAt Gen.DenseOn.fns fuel depth name [o, encSig s] = (F s).map (fun out => .list [o, encSig out]))
    (o : DV α) (h : UnRel cls o) (s : ASig α) :
    updateObj fuel o [s] = (F s).map (fun out => (o, out)) := by
  have hu' := hu o h s
  obtain ⟨store, rfl, hs⟩ := h
  unfold updateObj
  simp only [hn, List.map_cons, List.map_nil]
  rw [hu']
  cases F s with
  | error e => rfl
  | ok out => simp

theorem updateObj_scan (fuel : Nat) (cls name : String) (hn : cls ++ ".update" = name) (comb : α → α → α)
    (hu : ∀ (prev : α) (o : DV α), ScanRel cls prev o → ∀ s, ∃ o',
      callAt Gen.DenseOn.fns fuel depth name [o, encSig s] = .ok (.list [o', encSig (scanUpdate comb prev s).2]) ∧
        ScanRel cls (scanUpdate comb prev s).1 o')
    (prev : α) (o : DV α) (h : ScanRel cls prev o) (s : ASig α) :
    ∃ o', updateObj fuel o [s] = .ok (o', (scanUpdate comb prev s).2) ∧ ScanRel cls (scanUpdate comb prev s).1 o' := by
  obtain ⟨o', h1, h2⟩ := hu prev o h s
  obtain ⟨store, rfl, hs⟩ := h
  refine ⟨o', ?_, h2⟩
  unfold updateObj
  simp only [hn, List.map_cons, List.map_nil]
  rw [h1]
  simp

end GOnUn

theorem updateObj_AbsOperation (fuel : Nat) (o : DV α) (h : UnRel "AbsOperation" o) (s : ASig α) :
    updateObj fuel o [s] = (mapUn .abs s).map (fun out => (o, out)) :=
  updateObj_un fuel "AbsOperation" "AbsOperation.update" (by decide) (mapUn .abs)
    (fun o h s => gen_AbsOperation_update fuel 6 o h s) o h s

theorem updateObj_SqrtOperation (fuel : Nat) (o : DV α) (h : UnRel "SqrtOperation" o) (s : ASig α) :
    updateObj fuel o [s] = (mapUn .sqrt s).map (fun out => (o, out)) :=
  updateObj_un fuel "SqrtOperation" "SqrtOperation.update" (by decide) (mapUn .sqrt)
    (fun o h s => gen_SqrtOperation_update fuel 6 o h s) o h s

theorem updateObj_ExpOperation (fuel : Nat) (o : DV α) (h : UnRel "ExpOperation" o) (s : ASig α) :
    updateObj fuel o [s] = (mapUn .exp s).map (fun out => (o, out)) :=
  updateObj_un fuel "ExpOperation" "ExpOperation.update" (by decide) (mapUn .exp)
    (fun o h s => gen_ExpOperation_update fuel 6 o h s) o h s

theorem updateObj_NegateOperation (fuel : Nat) (o : DV α) (h : UnRel "NegateOperation" o) (s : ASig α) :
    updateObj fuel o [s] = (mapUn .negate s).map (fun out => (o, out)) :=
  updateObj_un fuel "NegateOperation" "NegateOperation.update" (by decide) (mapUn .negate)
    (fun o h s => gen_NegateOperation_update fuel 6 o h s) o h s

theorem updateObj_NotOperation (fuel : Nat) (o : DV α) (h : UnRel "NotOperation" o) (s : ASig α) :
    updateObj fuel o [s] = (mapUn .not s).map (fun out => (o, out)) :=
  updateObj_un fuel "NotOperation" "NotOperation.update" (by decide) (mapUn .not)
    (fun o h s => gen_NotOperation_update fuel 6 o h s) o h s

/-- on every batch, negative samples included, the translated `LnOperation` returns the point-wise logarithm -/
theorem updateObj_LnOperation_total (fuel : Nat) (o : DV α) (h : UnRel "LnOperation" o) (s : ASig α) :
    updateObj fuel o [s] = .ok (o, s.map (fun p => (p.1, Val.ln p.2))) :=
  updateObj_un fuel "LnOperation" "LnOperation.update" (by decide)
    (fun s => .ok (s.map (fun p : Tm × α => (p.1, Val.ln p.2))))
    (fun o h s => gen_LnOperation_update_total fuel 6 o h s) o h s

theorem updateObj_LnOperation (fuel : Nat) (o : DV α) (h : UnRel "LnOperation" o) (s : ASig α)
    (hs : ∀ p ∈ s, Val.lt p.2 Val.zero = false) :
    updateObj fuel o [s] = (mapUn .ln s).map (fun out => (o, out)) := by
  rw [updateObj_LnOperation_total fuel o h s, mapUn_ln_nonneg s hs]; rfl

theorem updateObj_OnceOperation (fuel : Nat) (prev : α) (o : DV α) (h : ScanRel "OnceOperation" prev o) (s : ASig α) :
    ∃ o', updateObj fuel o [s] = .ok (o', (scanUpdate pmax prev s).2) ∧
      ScanRel "OnceOperation" (scanUpdate pmax prev s).1 o' :=
  updateObj_scan fuel "OnceOperation" "OnceOperation.update" (by decide) pmax
    (fun prev o h s => gen_OnceOperation_update fuel 6 prev o h s) prev o h s

theorem updateObj_HistoricallyOperation (fuel : Nat) (prev : α) (o : DV α) (h : ScanRel "HistoricallyOperation" prev o)
    (s : ASig α) :
    ∃ o', updateObj fuel o [s] = .ok (o', (scanUpdate pmin prev s).2) ∧
      ScanRel "HistoricallyOperation" (scanUpdate pmin prev s).1 o' :=
  updateObj_scan fuel "HistoricallyOperation" "HistoricallyOperation.update" (by decide) pmin
    (fun prev o h s => gen_HistoricallyOperation_update fuel 6 prev o h s) prev o h s

theorem updateObj_SinceOperation (fuel : Nat) (st : SinceSt α) (o : DV α) (h : SinceRel st o) (sl sr : ASig α)
    (hf : st.bufA.length + sl.length + st.bufB.length + sr.length + 1 ≤ fuel) :
    ∃ o', updateObj fuel o [sl, sr] = .ok (o', (sinceUpdate st sl sr).2) ∧ SinceRel (sinceUpdate st sl sr).1 o' := by
  obtain ⟨o', h1, h2⟩ := gen_SinceOperation_update fuel 6 st o h sl sr hf
  obtain ⟨store, rfl, hs⟩ := h
  refine ⟨o', ?_, h2⟩
  unfold updateObj
  simp only [show "SinceOperation" ++ ".update" = "SinceOperation.update" by decide, List.map_cons, List.map_nil]
  rw [show depth = 6 + 1 from rfl, h1]
  simp

/-! ### (6) the constructors through `construct` of the runner -/

namespace GOnUn

theorem construct_of_init (fuel : Nat) (cls name : String) (hn : cls ++ ".__init__" = name) (args : List (DV α))
    (o : DV α) (h : callAt Gen.DenseOn.fns fuel depth name (.obj cls [] :: args) = .ok (.list [o, .none])) :
    construct fuel cls args = .ok o := by
  unfold construct
  rw [hn, h]
  rfl

end GOnUn

theorem construct_AbsOperation (fuel : Nat) :
    ∃ o : DV α, construct fuel "AbsOperation" [] = .ok o ∧ UnRel "AbsOperation" o := by
  obtain ⟨o, h1, h2⟩ := gen_AbsOperation_init (α := α) fuel 6
  exact ⟨o, construct_of_init fuel _ _ (by decide) [] o h1, h2⟩

theorem construct_SqrtOperation (fuel : Nat) :
    ∃ o : DV α, construct fuel "SqrtOperation" [] = .ok o ∧ UnRel "SqrtOperation" o := by
  obtain ⟨o, h1, h2⟩ := gen_SqrtOperation_init (α := α) fuel 6
  exact ⟨o, construct_of_init fuel _ _ (by decide) [] o h1, h2⟩

theorem construct_ExpOperation (fuel : Nat) :
    ∃ o : DV α, construct fuel "ExpOperation" [] = .ok o ∧ UnRel "ExpOperation" o := by
  obtain ⟨o, h1, h2⟩ := gen_ExpOperation_init (α := α) fuel 6
  exact ⟨o, construct_of_init fuel _ _ (by decide) [] o h1, h2⟩

theorem construct_LnOperation (fuel : Nat) :
    ∃ o : DV α, construct fuel "LnOperation" [] = .ok o ∧ UnRel "LnOperation" o := by
  obtain ⟨o, h1, h2⟩ := gen_LnOperation_init (α := α) fuel 6
  exact ⟨o, construct_of_init fuel _ _ (by decide) [] o h1, h2⟩

theorem construct_NegateOperation (fuel : Nat) :
    ∃ o : DV α, construct fuel "NegateOperation" [] = .ok o ∧ UnRel "NegateOperation" o := by
  obtain ⟨o, h1, h2⟩ := gen_NegateOperation_init (α := α) fuel 6
  exact ⟨o, construct_of_init fuel _ _ (by decide) [] o h1, h2⟩

theorem construct_NotOperation (fuel : Nat) :
    ∃ o : DV α, construct fuel "NotOperation" [] = .ok o ∧ UnRel "NotOperation" o := by
  obtain ⟨o, h1, h2⟩ := gen_NotOperation_init (α := α) fuel 6
  exact ⟨o, construct_of_init fuel _ _ (by decide) [] o h1, h2⟩

theorem construct_OnceOperation (fuel : Nat) :
    ∃ o : DV α, construct fuel "OnceOperation" [] = .ok o ∧ ScanRel "OnceOperation" Val.ninf o := by
  obtain ⟨o, h1, h2⟩ := gen_OnceOperation_init (α := α) fuel 6
  exact ⟨o, construct_of_init fuel _ _ (by decide) [] o h1, h2⟩

theorem construct_HistoricallyOperation (fuel : Nat) :
    ∃ o : DV α, construct fuel "HistoricallyOperation" [] = .ok o ∧ ScanRel "HistoricallyOperation" Val.pinf o := by
  obtain ⟨o, h1, h2⟩ := gen_HistoricallyOperation_init (α := α) fuel 6
  exact ⟨o, construct_of_init fuel _ _ (by decide) [] o h1, h2⟩

theorem construct_SinceOperation (fuel : Nat) :
    ∃ o : DV α, construct fuel "SinceOperation" [] = .ok o ∧ SinceRel { prev := Val.ninf } o := by
  obtain ⟨o, h1, h2⟩ := gen_SinceOperation_init (α := α) fuel 6
  exact ⟨o, construct_of_init fuel _ _ (by decide) [] o h1, h2⟩

end Rtamt.Py.DnOn
