/-
  C19 / C04 corollaries on the algorithms: the list the mirror of the dense-time offline visitor (`Dense.Alg.evalAlg`)
  returns for the sampled step signals, read at a sampling instant, is the entry of the list the mirror of the
  discrete-time offline visitor (`evalOff`) returns for the samples — M-alg (dense) = M-spec (dense) = M-spec (discrete)
  = M-alg (discrete), by `C04_alg_eq_rhoD_partial` / `evalAlg_denotes_partial`, `C19_sampled` and `C01_offline_eq_rho`.
-/
import RtamtProofs.C19
import RtamtProofs.C01
import RtamtProofs.Dense.AlgMain

namespace Rtamt
open Val Dense Dense.Alg

variable {α : Type} [Val α] [LawfulVal α]

namespace C19AlgAux

omit [Val α] [LawfulVal α] in
/-- Every variable signal of the grid environment starts at time `0` (when there is at least one sample). -/
theorem gridEnv_startsAt0 (P : Rat) (σ : String → Nat → α) (n : Nat) (hn : 0 < n) (xs ys : List String)
    (hys : ∀ x ∈ ys, x ∈ xs) : StartsAt0 (gridEnv P σ n xs) ys := by
  intro x hx
  rw [gridEnv_sig_mem P σ n xs x (hys x hx), gridSig_times]
  cases n with
  | zero => omega
  | succ m => simp [List.range_succ_eq_map]

end C19AlgAux

/-- The dense offline algorithm at the sampling instants = the discrete semantics. -/
theorem C19_alg_sampled (P : Rat) (hP : 0 < P) (σ : String → Nat → α) (n : Nat) (φ : F α)
    (hfrag : φ.gridFrag = true) (hia : noIA φ = true) (xs : List String) (hxs : ∀ x ∈ φ.vars, x ∈ xs) (hnd : xs.Nodup)
    (hsub : ∀ a b : α, Val.neg (Val.sub a b) = Val.sub b a)
    (k : Nat) (hk : k + hor φ < n) {s : ASig α}
    (he : evalAlg { scale := P } (gridEnv P σ n xs) φ = .ok s) :
    valAtA s ((k : Rat) * P) = some (rho σ n φ k) := by
  have hn : 0 < n := by omega
  have hden := evalAlg_denotes_partial { scale := P } (le_of_lt hP) (gridEnv P σ n xs) φ
    (supported_of_gridFrag φ hfrag) hia (gridEnv_WF P hP σ n hn xs φ.vars hxs)
    (C19AlgAux.gridEnv_startsAt0 P σ n hn xs φ.vars hxs) hsub he
  have h0 : (0 : Rat) ≤ (k : Rat) * P := mul_nonneg (Nat.cast_nonneg k) (le_of_lt hP)
  rw [hden.2 _ h0]
  exact C19_sampled P hP σ n φ hfrag xs hxs hnd k hk

/-- The two offline algorithms agree at the sampling instants: entry `k` of the discrete visitor's list is the value of
    the dense visitor's list at `k·P`. -/
theorem C19_alg_dense_eq_discrete (h : Kind → Bool) (w : Env α) (P : Rat) (hP : 0 < P) (σ : String → Nat → α) (n : Nat)
    (φ : F α) (hfrag : φ.gridFrag = true) (hia : noIA φ = true) (hwf : φ.wf = true)
    (hh : ∀ k ∈ φ.kinds, h k = true) (hp : φ.noPrecedes) (hw : w.Agrees σ n φ.vars)
    (xs : List String) (hxs : ∀ x ∈ φ.vars, x ∈ xs) (hnd : xs.Nodup)
    (hsub : ∀ a b : α, Val.neg (Val.sub a b) = Val.sub b a)
    (k : Nat) (hk : k + hor φ < n) {s : ASig α}
    (he : evalAlg { scale := P } (gridEnv P σ n xs) φ = .ok s) :
    ∃ l, evalOff h w n φ = .ok l ∧ (l[k]?) = valAtA s ((k : Rat) * P) := by
  have hn : 0 < n := by omega
  have hkn : k < n := by omega
  refine ⟨tab n (rho σ n φ), C01_offline_eq_rho h w σ n hn φ hwf hh hp hw, ?_⟩
  rw [C19_alg_sampled P hP σ n φ hfrag hia xs hxs hnd hsub k hk he, tab_getElem?, if_pos hkn]

end Rtamt
