/-
  The translated `always_timed_operation` / `eventually_timed_operation` (`Rtamt/Py/GeneratedDense.lean`) run under the
  semantics of `Rtamt/Py/Dn.lean` compute what the mirror `backTimed` of `Rtamt/Dense/Alg.lean` computes - values and
  exceptions, for every input list.
-/
import RtamtProofs.GenDenseBase

namespace Rtamt.Py.Dn
open Rtamt Val Rtamt.Dense Rtamt.Dense.Alg

set_option linter.unusedSectionVars false
set_option linter.unusedVariables false
set_option linter.unusedSimpArgs false

variable {α : Type} [Val α]

/- helper lemmas live in the namespace `Rtamt.Py.Dn.GenBack` (several `GenDense*.lean` files define helpers of the same name) -/
namespace GenBack

/-! ### `intersect.intersects` -/

theorem gen_intersects (fuel k : Nat) (x1 x2 y1 y2 : Tm) :
    callAt Gen.Dense.fns fuel (k + 1) "intersects" [.tm x1, .tm x2, .tm y1, .tm y2]
      = .ok (.bool (intersects x1 x2 y1 y2) : DV α) := by
  rw [callAt_fn _ _ _ _ Gen.Dense.fn_intersects _ rfl]
  cases h1 : Tm.le x1 y2 <;> cases h2 : Tm.le y1 x2 <;>
    simp [runFn, Gen.Dense.fn_intersects, exec, evalE, evalBin, isCmp, cmpDV, isTimeLike, toTm, cmpTm, truthy,
      intersects, Except.map, h1, h2]

/-! ### the pieces of the translated functions -/

def encSeg (g : Seg α) : DV α := .seg g.lo g.hi g.v
def encSegs (l : List (Seg α)) : DV α := .list (l.map encSeg)

/-- the argument `begin`: a time stamp or - `until_timed_operation` calls `always_timed_operation(out2, 0, begin)` - the
    integer literal `0` -/
def BegOK (x : DV α) (a : Rat) : Prop := x = .tm (.fin a) ∨ (x = .int 0 ∧ a = 0)

theorem BegOK.tm (a : Rat) : BegOK (.tm (.fin a) : DV α) a := .inl rfl
theorem BegOK.int0 : BegOK (.int 0 : DV α) 0 := .inr ⟨rfl, rfl⟩

def mkB : S :=
  (.ite (.bin .eq (.loc "i") (.bin .sub (.call1 "len" (.loc "input_list")) (.int 1))) (.setLoc "b" (.tup3 (.bin .sub (.idx (.idx (.loc "input_list") (.loc "i")) (.int 0)) (.loc "end")) .inf (.idx (.idx (.loc "input_list") (.loc "i")) (.int 1)))) (.setLoc "b" (.tup3 (.bin .sub (.idx (.idx (.loc "input_list") (.loc "i")) (.int 0)) (.loc "end")) (.bin .sub (.idx (.idx (.loc "input_list") (.bin .add (.loc "i") (.int 1))) (.int 0)) (.loc "begin")) (.idx (.idx (.loc "input_list") (.loc "i")) (.int 1)))))

def innerCond (op1 : BinOp) : E :=
  (.and_ (.bin op1 (.idx (.loc "a") (.int 2)) (.idx (.loc "b") (.int 2))) (.bin .gt (.idx (.loc "b") (.int 1)) (.idx (.loc "a") (.int 1))))

def innerBody : S := (.seq (.delIdx "out" (.int 0)) (.setLoc "a" (.idx (.loc "out") (.int 0))))

def afterInner (op2 : BinOp) : S :=
  (.ite (.not (.call4 "intersects" (.idx (.loc "a") (.int 0)) (.idx (.loc "a") (.int 1)) (.idx (.loc "b") (.int 0)) (.idx (.loc "b") (.int 1)))) (.insert0 "out" (.loc "b")) (.ite (.bin op2 (.idx (.loc "a") (.int 2)) (.idx (.loc "b") (.int 2))) (.insert0 "out" (.tup3 (.idx (.loc "b") (.int 0)) (.idx (.loc "a") (.int 0)) (.idx (.loc "b") (.int 2)))) (.seq (.delIdx "out" (.int 0)) (.seq (.ite (.bin .gt (.idx (.loc "a") (.int 1)) (.idx (.loc "b") (.int 1))) (.insert0 "out" (.tup3 (.idx (.loc "b") (.int 1)) (.idx (.loc "a") (.int 1)) (.idx (.loc "a") (.int 2)))) .skip) (.insert0 "out" (.tup3 (.idx (.loc "b") (.int 0)) (.idx (.loc "b") (.int 1)) (.idx (.loc "b") (.int 2))))))))

def elseBranch (op1 op2 : BinOp) : S :=
  (.seq (.setLoc "a" (.idx (.loc "out") (.int 0))) (.seq (.while_ (innerCond op1) innerBody) (afterInner op2)))

def pushS (op1 op2 : BinOp) : S := (.ite (.not (.loc "out")) (.insert0 "out" (.loc "b")) (elseBranch op1 op2))

def decI : S := (.setLoc "i" (.bin .sub (.loc "i") (.int 1)))

def outerBody (op1 op2 : BinOp) : S := (.seq mkB (.seq (pushS op1 op2) decI))

def outerCond : E := (.bin .ge (.loc "i") (.int 0))

def ansBody : S :=
  (.ite (.and_ (.bin .le (.idx (.loc "b") (.int 0)) (.int 0)) (.bin .gt (.idx (.loc "b") (.int 1)) (.int 0))) (.appendLoc "ans" (.list2 (.int 0) (.idx (.loc "b") (.int 2)))) (.ite (.bin .gt (.idx (.loc "b") (.int 0)) (.int 0)) (.appendLoc "ans" (.list2 (.idx (.loc "b") (.int 0)) (.idx (.loc "b") (.int 2)))) .skip))

def restS (op1 op2 : BinOp) : S :=
  (.seq (.while_ outerCond (outerBody op1 op2)) (.seq (.forEnum "i" "b" (.loc "out") false ansBody) (.ret (.loc "ans"))))

def domEnd : S :=
  (.ite (.loc "input_list") (.setLoc "domain_end" (.idx (.idx (.loc "input_list") (.bin .sub (.call1 "len" (.loc "input_list")) (.int 1))) (.int 0))) .skip)

def alwPre (R : S) : S :=
  (.seq (.setLoc "prev" .emptyList) (.seq (.setLoc "residual_start" .inf) (.seq (.setLoc "max" .inf) (.seq (.setLoc "out" .emptyList) (.seq (.setLoc "input_list" (.loc "sample")) (.seq (.setLoc "ans" .emptyList) (.seq (.setLoc "i" (.bin .sub (.call1 "len" (.loc "input_list")) (.int 1))) (.seq (.setLoc "domain_end" .inf) R))))))))

def evPre (R : S) : S :=
  (.seq (.setLoc "out" .emptyList) (.seq (.setLoc "input_list" (.loc "sample")) (.seq (.setLoc "ans" .emptyList) (.seq (.setLoc "prev" .emptyList) (.seq (.setLoc "residual_start" (.neg .inf)) (.seq (.setLoc "max" (.neg .inf)) (.seq (.setLoc "i" (.bin .sub (.call1 "len" (.loc "input_list")) (.int 1))) (.seq (.setLoc "domain_end" .inf) R))))))))

def alwFull (R : S) : S := alwPre (.seq domEnd R)
def evFull (R : S) : S := evPre (.seq domEnd R)

theorem alw_body_eq : Gen.Dense.fn_always_timed_operation.body = alwFull (restS .gt .le) := rfl
theorem ev_body_eq : Gen.Dense.fn_eventually_timed_operation.body = evFull (restS .lt .ge) := rfl

/-! ### locals that a piece of code leaves alone -/

/-- `env'` agrees with `env` outside the names `vs`. -/
def Frame (vs : List String) (env env' : Env α) : Prop := ∀ x, x ∉ vs → env'.lookup x = env.lookup x

theorem Frame.refl (vs : List String) (env : Env α) : Frame vs env env := fun _ _ => rfl

theorem Frame.trans {vs : List String} {e1 e2 e3 : Env α} (h1 : Frame vs e1 e2) (h2 : Frame vs e2 e3) :
    Frame vs e1 e3 := fun x hx => (h2 x hx).trans (h1 x hx)

theorem Frame.set {vs : List String} {e1 e2 : Env α} (h : Frame vs e1 e2) (k : String) (v : DV α) (hk : k ∈ vs) :
    Frame vs e1 (setLoc k v e2) := fun x hx => by
  have hne : x ≠ k := fun e => hx (e ▸ hk)
  rw [lookup_setLoc_ne _ _ _ _ hne]; exact h x hx

theorem Frame.mono {vs ws : List String} {e1 e2 : Env α} (h : Frame vs e1 e2) (hsub : ∀ x, x ∈ vs → x ∈ ws) :
    Frame ws e1 e2 := fun x hx => h x (fun hm => hx (hsub x hm))

theorem Frame.getLoc {vs : List String} {e1 e2 : Env α} (h : Frame vs e1 e2) (x : String) (hx : x ∉ vs) :
    getLoc x e2 = getLoc x e1 := by
  unfold Dn.getLoc; rw [h x hx]

theorem Frame.resolve {vs : List String} {e1 e2 : Env α} (h : Frame vs e1 e2) (x : String) (hx : x ∉ vs) :
    resolve e2 x = resolve e1 x := by
  unfold Dn.resolve; rw [h x hx]

/-- closes `Frame vs env (setLoc k₁ v₁ (… (setLoc kₙ vₙ env)))` -/
macro "frame_tac" : tactic =>
  `(tactic| repeat (first | exact Frame.refl _ _ | (refine Frame.set ?_ _ _ (by simp))))

@[simp] theorem resolve_nil (f : String) : resolve ([] : Env α) f = f := rfl

@[simp] theorem resolve_cons (f k' : String) (v : DV α) (env : Env α) :
    resolve ((k', v) :: env) f = if f = k' then (match v with | .fn g => g | _ => f) else resolve env f := by
  unfold resolve
  by_cases h : f = k'
  · subst h; cases v <;> simp [List.lookup_cons]
  · have : (f == k') = false := by rw [beq_eq_false_iff_ne]; exact h
    simp [List.lookup_cons, this, h]

/-! ### statements -/

theorem exec_seq_ok {call : Call α} {fuel : Nat} {a : S} {env env1 : Env α} (b : S)
    (h : exec call fuel a env = .ok (env1, none)) : exec call fuel (.seq a b) env = exec call fuel b env1 := by
  simp only [exec, h, ok_bind]

theorem exec_seq_err {call : Call α} {fuel : Nat} {a : S} {env : Env α} {e : PyErr} (b : S)
    (h : exec call fuel a env = .error e) : exec call fuel (.seq a b) env = .error e := by
  simp only [exec, h, error_bind]

theorem exec_while (call : Call α) (fuel : Nat) (c : E) (body : S) (env : Env α) :
    exec call fuel (.while_ c body) env
      = whileLoop (fun env => do truthy (← evalE call env c)) (exec call fuel body) fuel env := by
  simp only [exec]

/-! ### subscripts -/

theorem evalIdx_nat (l : List (DV α)) (n : Nat) (x : DV α) (h : l[n]? = some x) :
    evalIdx (.list l) (.int (n : Int)) = .ok x := by
  have hn : n < l.length := by
    rcases Nat.lt_or_ge n l.length with h' | h'
    · exact h'
    · rw [List.getElem?_eq_none h'] at h; cases h
  have hx : l[n] = x := by rw [List.getElem?_eq_getElem hn] at h; exact Option.some.inj h
  simp [evalIdx, pyIndex, hn, hx]

@[simp] theorem evalIdx_smp0 (t : Tm) (p : DV α) : evalIdx (.smp t p) (.int 0) = .ok (.tm t) := by
  simp [evalIdx, pyIndex]
@[simp] theorem evalIdx_smp1 (t : Tm) (p : DV α) : evalIdx (.smp t p) (.int 1) = .ok p := by
  simp [evalIdx, pyIndex]
@[simp] theorem evalIdx_encSmp0 (p : Tm × α) : evalIdx (encSmp p) (.int 0) = .ok (.tm p.1) := by
  simp [encSmp]
@[simp] theorem evalIdx_encSmp1 (p : Tm × α) : evalIdx (encSmp p) (.int 1) = .ok (.val p.2) := by
  simp [encSmp]
@[simp] theorem evalIdx_seg0 (lo hi : Tm) (v : α) : evalIdx (.seg lo hi v) (.int 0) = .ok (.tm lo) := by
  simp [evalIdx, pyIndex]
@[simp] theorem evalIdx_seg1 (lo hi : Tm) (v : α) : evalIdx (.seg lo hi v) (.int 1) = .ok (.tm hi) := by
  simp [evalIdx, pyIndex]
@[simp] theorem evalIdx_seg2 (lo hi : Tm) (v : α) : evalIdx (.seg lo hi v) (.int 2) = .ok (.val v) := by
  simp [evalIdx, pyIndex]
@[simp] theorem evalIdx_cons0 (x : DV α) (l : List (DV α)) : evalIdx (.list (x :: l)) (.int 0) = .ok x := by
  simp [evalIdx, pyIndex]
@[simp] theorem evalIdx_nil0 : evalIdx (.list ([] : List (DV α))) (.int 0) = .error .index := by
  simp [evalIdx, pyIndex]

/-! ### the operations on time stamps and integers the code uses -/

theorem evalBin_gt_tm (x y : Tm) : evalBin .gt (.tm x : DV α) (.tm y) = .ok (.bool (Tm.lt y x)) := by
  simp [evalBin, isCmp, cmpDV, isTimeLike, toTm, cmpTm, Except.map]

theorem evalBin_le_tm0 (x : Tm) : evalBin .le (.tm x : DV α) (.int 0) = .ok (.bool (Tm.le x Tm.zero)) := by
  simp [evalBin, isCmp, cmpDV, isTimeLike, toTm, cmpTm, Except.map, Tm.zero]

theorem evalBin_gt_tm0 (x : Tm) : evalBin .gt (.tm x : DV α) (.int 0) = .ok (.bool (Tm.lt Tm.zero x)) := by
  simp [evalBin, isCmp, cmpDV, isTimeLike, toTm, cmpTm, Except.map, Tm.zero]

theorem evalBin_sub_tm (x : Tm) (q : Rat) : evalBin .sub (.tm x : DV α) (.tm (.fin q)) = .ok (.tm (x.sub q)) := by
  simp [evalBin, isCmp, arith, isTimeLike, toTm]

theorem evalBin_sub_int (i j : Int) : evalBin .sub (.int i : DV α) (.int j) = .ok (.int (i - j)) := by
  simp [evalBin, isCmp, arith]

theorem evalBin_add_int (i j : Int) : evalBin .add (.int i : DV α) (.int j) = .ok (.int (i + j)) := by
  simp [evalBin, isCmp, arith]

theorem evalBin_eq_int (i j : Int) : evalBin .eq (.int i : DV α) (.int j) = .ok (.bool (decide (i = j))) := by
  simp [evalBin, isCmp, cmpDV, cmpInt, Except.map]

theorem evalBin_ge_int (i j : Int) : evalBin .ge (.int i : DV α) (.int j) = .ok (.bool (decide (j ≤ i))) := by
  simp [evalBin, isCmp, cmpDV, cmpInt, Except.map]

/-! ### the mirror, in the order of the loop -/

/-- the segment of the sample `p` followed by the samples `post` -/
def segOf (a b : Rat) (p : Tm × α) (post : ASig α) : Seg α :=
  match post with
  | [] => ⟨p.1.sub b, .inf, p.2⟩
  | q :: _ => ⟨p.1.sub b, q.1.sub a, p.2⟩

theorem backSegs_cons (a b : Rat) (p : Tm × α) (post : ASig α) :
    backSegs a b (p :: post) = segOf a b p post :: backSegs a b post := by
  obtain ⟨t, v⟩ := p
  cases post with
  | nil => rfl
  | cons q post => obtain ⟨t', v'⟩ := q; rfl

/-- the segments from the last to the first: `rp` are the samples not yet visited, in reverse order -/
def revSegs (a b : Rat) : ASig α → ASig α → List (Seg α)
  | [], _ => []
  | p :: rp, post => segOf a b p post :: revSegs a b rp (p :: post)

theorem backSegs_reverse (a b : Rat) (rp : ASig α) : ∀ post : ASig α,
    (backSegs a b (rp.reverse ++ post)).reverse = (backSegs a b post).reverse ++ revSegs a b rp post := by
  induction rp with
  | nil => intro post; simp [revSegs]
  | cons p rp ih =>
      intro post
      have := ih (p :: post)
      simp only [List.reverse_cons, List.append_assoc, List.singleton_append]
      rw [this, backSegs_cons]
      simp [revSegs]

/-- what the output loop appends for one segment -/
def ansOf (g : Seg α) : Option (Tm × α) :=
  if Tm.le g.lo Tm.zero && Tm.lt Tm.zero g.hi then some (Tm.zero, g.v)
  else if Tm.lt Tm.zero g.lo then some (g.lo, g.v)
  else none

theorem backTimed_eq (w : α → α → Bool) (s : ASig α) (a b : Rat) :
    backTimed w s a b = (do
      let out ← (revSegs a b s.reverse []).foldlM (pushSegB w) []
      pure (out.filterMap ansOf)) := by
  have h := backSegs_reverse a b s.reverse []
  simp only [List.reverse_reverse, List.append_nil] at h
  unfold backTimed
  rw [h]
  simp only [backSegs, List.reverse_nil, List.nil_append]
  rfl

/-! ### the segment `b` -/

theorem mkB_step (call : Call α) (fuel : Nat) (env : Env α) (l1 : List (DV α)) (p : Tm × α) (post : ASig α)
    (a b : Rat)
    (hlen : ∀ l, call "len" [.list l] = .ok (.int l.length))
    (hr : resolve env "len" = "len")
    (hIn : getLoc "input_list" env = .ok (.list (l1 ++ encSmp p :: post.map encSmp)))
    (hi : getLoc "i" env = .ok (.int l1.length))
    (hb : ∃ xb, getLoc "begin" env = .ok xb ∧ BegOK xb a) (he : getLoc "end" env = .ok (.tm (.fin b))) :
    exec call fuel mkB env = .ok (setLoc "b" (encSeg (segOf a b p post)) env, none) := by
  obtain ⟨xb, hb, hxb⟩ := hb
  have hsub : ∀ t : Tm, evalBin .sub (.tm t : DV α) xb = .ok (.tm (t.sub a)) := by
    intro t
    rcases hxb with rfl | ⟨rfl, rfl⟩
    · simp [evalBin, isCmp, arith, isTimeLike, toTm]
    · cases t <;> simp [evalBin, isCmp, arith, isTimeLike, toTm, Tm.sub]
  have h0 : ∀ l2, evalIdx (.list (l1 ++ encSmp p :: l2)) (.int (l1.length : Int)) = .ok (encSmp p) :=
    fun l2 => evalIdx_nat _ _ _ (by simp)
  cases post with
  | nil =>
      simp [mkB, exec, evalE, hIn, hi, hb, he, hr, hlen, h0, evalBin, isCmp, cmpDV, cmpInt, arith, isTimeLike, toTm,
        mkSeg, toVal, truthy, Except.map, encSeg, segOf]
  | cons q post =>
      have h1 : ∀ l2, evalIdx (.list (l1 ++ encSmp p :: encSmp q :: l2)) (.int ((l1.length : Int) + 1)) = .ok (encSmp q) :=
        fun l2 => by
          have := evalIdx_nat (l1 ++ encSmp p :: encSmp q :: l2) (l1.length + 1) (encSmp q) (by simp)
          simpa using this
      have hc : ¬ ((l1.length : Int) = (l1.length : Int) + ((post.length : Int) + 1 + 1) - 1) := by omega
      have hsubb : ∀ t : Tm, evalBin .sub (.tm t : DV α) (.tm (.fin b)) = .ok (.tm (t.sub b)) := fun t => by
        simp [evalBin, isCmp, arith, isTimeLike, toTm]
      have hieq : evalBin .eq (.int (l1.length : Int) : DV α)
          (.int ((l1.length : Int) + ((post.length : Int) + 1 + 1) - 1)) = .ok (.bool false) := by
        simp [evalBin, isCmp, cmpDV, cmpInt, hc, Except.map]
      simp [mkB, exec, evalE, hIn, hi, hb, he, hr, hlen, h0, h1, hsub, hsubb, hieq, evalBin_sub_int, evalBin_add_int,
        mkSeg, toTm, toVal, truthy, encSeg, segOf]

/-! ### the inner loop: `while (a[2] > b[2]) and (b[1] > a[1]): out.pop(0); a = out[0]` -/

section loops
variable (w : α → α → Bool) (op1 op2 : BinOp)
variable (hop1 : ∀ x y : α, evalBin op1 (.val x : DV α) (.val y) = .ok (.bool (w x y)))
variable (hop2 : ∀ x y : α, evalBin op2 (.val x : DV α) (.val y) = .ok (.bool (!w x y)))

include hop1 in
theorem innerCond_eval (call : Call α) (env : Env α) (x g : Seg α)
    (ha : getLoc "a" env = .ok (encSeg x)) (hb : getLoc "b" env = .ok (encSeg g)) :
    (do truthy (← evalE call env (innerCond op1))) = .ok (w x.v g.v && Tm.lt x.hi g.hi) := by
  cases hw : w x.v g.v <;>
    simp [innerCond, evalE, ha, hb, encSeg, hop1, hw, truthy, evalBin_gt_tm]

theorem innerBody_step (call : Call α) (fuel : Nat) (env : Env α) (x y : Seg α) (rest : List (Seg α))
    (hout : getLoc "out" env = .ok (encSegs (x :: y :: rest))) :
    exec call fuel innerBody env
      = .ok (setLoc "a" (encSeg y) (setLoc "out" (encSegs (y :: rest)) env), none) := by
  simp [innerBody, exec, evalE, hout, encSegs, delAt, pyIndex]

theorem innerBody_err (call : Call α) (fuel : Nat) (env : Env α) (x : Seg α)
    (hout : getLoc "out" env = .ok (encSegs [x])) :
    exec call fuel innerBody env = .error .index := by
  simp [innerBody, exec, evalE, hout, encSegs, delAt, pyIndex]

include hop1 in
theorem innerLoop (call : Call α) (fuel : Nat) (g : Seg α) : ∀ (rest : List (Seg α)) (x : Seg α) (env : Env α) (f : Nat),
    rest.length + 1 ≤ f → getLoc "out" env = .ok (encSegs (x :: rest)) → getLoc "a" env = .ok (encSeg x) →
    getLoc "b" env = .ok (encSeg g) →
    match popWhileB w g (x :: rest) with
    | .ok out' => ∃ env', whileLoop (fun env => do truthy (← evalE call env (innerCond op1)))
          (exec call fuel innerBody) f env = .ok (env', none) ∧
        getLoc "out" env' = .ok (encSegs out') ∧
        (∃ x' rest', out' = x' :: rest' ∧ getLoc "a" env' = .ok (encSeg x')) ∧ Frame ["a", "out"] env env'
    | .error e => whileLoop (fun env => do truthy (← evalE call env (innerCond op1)))
          (exec call fuel innerBody) f env = .error e := by
  intro rest
  induction rest with
  | nil =>
      intro x env f hf hout ha hb
      obtain ⟨f, rfl⟩ : ∃ f', f = f' + 1 := ⟨f - 1, by omega⟩
      have hc := innerCond_eval w op1 hop1 call env x g ha hb
      cases hv : (w x.v g.v && Tm.lt x.hi g.hi) with
      | false =>
          rw [hv] at hc
          simp only [popWhileB, hv]
          exact ⟨env, whileLoop_done _ _ _ _ hc, hout, ⟨x, [], rfl, ha⟩, Frame.refl _ _⟩
      | true =>
          rw [hv] at hc
          simp only [popWhileB, hv]
          exact whileLoop_raise _ _ _ _ _ hc (innerBody_err call fuel env x hout)
  | cons y rest ih =>
      intro x env f hf hout ha hb
      obtain ⟨f, rfl⟩ : ∃ f', f = f' + 1 := ⟨f - 1, by simp at hf; omega⟩
      have hc := innerCond_eval w op1 hop1 call env x g ha hb
      cases hv : (w x.v g.v && Tm.lt x.hi g.hi) with
      | false =>
          rw [hv] at hc
          rw [popWhileB]; simp only [hv]
          exact ⟨env, whileLoop_done _ _ _ _ hc, hout, ⟨x, y :: rest, rfl, ha⟩, Frame.refl _ _⟩
      | true =>
          rw [hv] at hc
          rw [popWhileB]; simp only [hv, if_true]
          rw [whileLoop_step _ _ _ _ _ hc (innerBody_step call fuel env x y rest hout)]
          have := ih y (setLoc "a" (encSeg y) (setLoc "out" (encSegs (y :: rest)) env)) f
            (by simp at hf; omega) (by simp) (by simp) (by simpa using hb)
          revert this
          cases popWhileB w g (y :: rest) with
          | error e => exact fun h => h
          | ok out' =>
              rintro ⟨env', h1, h2, h3, h4⟩
              exact ⟨env', h1, h2, h3,
                Frame.trans (Frame.set (Frame.set (Frame.refl _ _) "out" _ (by simp)) "a" _ (by simp)) h4⟩

/-! ### after the inner loop -/

/-- the list `pushSegB` builds from the head `x` the inner loop stopped at -/
def placeB (x g : Seg α) (rest : List (Seg α)) : List (Seg α) :=
  if !intersects x.lo x.hi g.lo g.hi then g :: x :: rest
  else if !w x.v g.v then ⟨g.lo, x.lo, g.v⟩ :: x :: rest
  else ⟨g.lo, g.hi, g.v⟩ :: (if Tm.lt g.hi x.hi then ⟨g.hi, x.hi, x.v⟩ :: rest else rest)

include hop2 in
theorem afterInner_step (call : Call α) (fuel : Nat) (env : Env α) (x g : Seg α) (rest : List (Seg α))
    (hint : ∀ x1 x2 y1 y2, call "intersects" [.tm x1, .tm x2, .tm y1, .tm y2] = .ok (.bool (intersects x1 x2 y1 y2)))
    (hr : resolve env "intersects" = "intersects")
    (hout : getLoc "out" env = .ok (encSegs (x :: rest))) (ha : getLoc "a" env = .ok (encSeg x))
    (hb : getLoc "b" env = .ok (encSeg g)) :
    ∃ env', exec call fuel (afterInner op2) env = .ok (env', none) ∧
      getLoc "out" env' = .ok (encSegs (placeB w x g rest)) ∧ Frame ["out"] env env' := by
  cases h1 : intersects x.lo x.hi g.lo g.hi <;> cases h2 : w x.v g.v <;> cases h3 : Tm.lt g.hi x.hi <;>
    simp [afterInner, exec, evalE, hout, ha, hb, hr, hint, hop2, h1, h2, h3, encSeg, encSegs, truthy, placeB,
      evalBin_gt_tm, mkSeg, toTm, toVal, delAt, pyIndex] <;> frame_tac

theorem pushSegB_cons (x g : Seg α) (rest : List (Seg α)) :
    pushSegB w (x :: rest) g = (do
      let out' ← popWhileB w g (x :: rest)
      match out' with
      | [] => .error .index
      | a :: r => .ok (placeB w a g r)) := by
  unfold pushSegB
  simp only
  cases popWhileB w g (x :: rest) with
  | error e => rfl
  | ok out' =>
      cases out' with
      | nil => rfl
      | cons a r =>
          simp only [ok_bind, placeB]
          by_cases h1 : (!intersects a.lo a.hi g.lo g.hi) = true <;> by_cases h2 : (!w a.v g.v) = true <;>
            simp only [h1, h2, if_true, if_false] <;> rfl

include hop1 hop2 in
theorem pushS_step (call : Call α) (fuel : Nat) (env : Env α) (out : List (Seg α)) (g : Seg α)
    (hint : ∀ x1 x2 y1 y2, call "intersects" [.tm x1, .tm x2, .tm y1, .tm y2] = .ok (.bool (intersects x1 x2 y1 y2)))
    (hr : resolve env "intersects" = "intersects") (hfuel : out.length ≤ fuel)
    (hout : getLoc "out" env = .ok (encSegs out)) (hb : getLoc "b" env = .ok (encSeg g)) :
    match pushSegB w out g with
    | .ok out' => ∃ env', exec call fuel (pushS op1 op2) env = .ok (env', none) ∧
        getLoc "out" env' = .ok (encSegs out') ∧ Frame ["a", "out"] env env'
    | .error e => exec call fuel (pushS op1 op2) env = .error e := by
  cases out with
  | nil =>
      simp only [pushSegB]
      refine ⟨setLoc "out" (encSegs [g]) env, ?_, by simp, by frame_tac⟩
      simp [pushS, exec, evalE, hout, hb, encSegs, truthy]
  | cons x rest =>
      have e0 : exec call fuel (pushS op1 op2) env = exec call fuel (elseBranch op1 op2) env := by
        simp [pushS, exec, evalE, hout, encSegs, truthy]
      have e1 : exec call fuel (.setLoc "a" (.idx (.loc "out") (.int 0))) env
          = .ok (setLoc "a" (encSeg x) env, none) := by
        simp [exec, evalE, hout, encSegs]
      rw [e0, elseBranch, exec_seq_ok _ e1, pushSegB_cons]
      have inner := innerLoop w op1 hop1 call fuel g rest x (setLoc "a" (encSeg x) env) fuel hfuel
        (by simpa using hout) (by simp) (by simpa using hb)
      revert inner
      cases popWhileB w g (x :: rest) with
      | error e =>
          intro inner
          exact exec_seq_err _ ((exec_while _ _ _ _ _).trans inner)
      | ok out' =>
          rintro ⟨env2, h1, h2, ⟨x', rest', rfl, h3⟩, h4⟩
          rw [exec_seq_ok _ ((exec_while _ _ _ _ _).trans h1)]
          have hb2 : getLoc "b" env2 = .ok (encSeg g) := by
            rw [h4.getLoc "b" (by simp)]; simpa using hb
          have hr2 : resolve env2 "intersects" = "intersects" := by
            rw [h4.resolve "intersects" (by simp)]; simpa using hr
          obtain ⟨env3, k1, k2, k3⟩ := afterInner_step w op2 hop2 call fuel env2 x' g rest' hint hr2 h2 h3 hb2
          refine ⟨env3, k1, k2, ?_⟩
          exact Frame.trans (Frame.trans (by frame_tac) h4) (k3.mono (by simp))

/-! ### the outer loop -/

/-- the locals the loops only read -/
def Stable (env : Env α) (L : List (DV α)) (a b : Rat) : Prop :=
  getLoc "input_list" env = .ok (.list L) ∧ (∃ xb, getLoc "begin" env = .ok xb ∧ BegOK xb a) ∧
    getLoc "end" env = .ok (.tm (.fin b)) ∧ resolve env "len" = "len" ∧ resolve env "intersects" = "intersects"

theorem Stable.frame {env env' : Env α} {L : List (DV α)} {a b : Rat} (h : Stable env L a b)
    (hf : Frame ["b", "a", "out", "i"] env env') : Stable env' L a b := by
  obtain ⟨h1, h2, h3, h4, h5⟩ := h
  refine ⟨?_, ?_, ?_, ?_, ?_⟩
  · rw [hf.getLoc _ (by simp)]; exact h1
  · obtain ⟨xb, h2, h2'⟩ := h2
    exact ⟨xb, by rw [hf.getLoc _ (by simp)]; exact h2, h2'⟩
  · rw [hf.getLoc _ (by simp)]; exact h3
  · rw [hf.resolve _ (by simp)]; exact h4
  · rw [hf.resolve _ (by simp)]; exact h5

theorem popWhileB_length (g : Seg α) : ∀ (l l' : List (Seg α)), popWhileB w g l = .ok l' → l'.length ≤ l.length := by
  intro l
  induction l with
  | nil => intro l' h; simp [popWhileB] at h
  | cons x rest ih =>
      intro l' h
      rw [popWhileB] at h
      by_cases hc : (w x.v g.v && Tm.lt x.hi g.hi) = true
      · simp only [hc, if_true] at h
        have := ih l' h
        simp; omega
      · simp only [hc] at h
        cases h; simp

theorem placeB_length (x g : Seg α) (rest : List (Seg α)) : (placeB w x g rest).length ≤ rest.length + 2 := by
  unfold placeB
  split
  · simp
  · split
    · simp
    · split <;> simp

theorem pushSegB_length (g : Seg α) (out out' : List (Seg α)) (h : pushSegB w out g = .ok out') :
    out'.length ≤ out.length + 1 := by
  cases out with
  | nil => simp [pushSegB] at h; subst h; simp
  | cons x rest =>
      rw [pushSegB_cons] at h
      cases hp : popWhileB w g (x :: rest) with
      | error e => rw [hp] at h; cases h
      | ok l' =>
          rw [hp] at h
          have hl := popWhileB_length w g _ _ hp
          cases l' with
          | nil => cases h
          | cons a r =>
              simp only [ok_bind] at h
              cases h
              have := placeB_length w a g r
              simp at hl ⊢; omega

include hop1 hop2 in
theorem outerBody_step (call : Call α) (fuel : Nat) (env : Env α) (l1 : List (DV α)) (p : Tm × α) (post : ASig α)
    (a b : Rat) (out : List (Seg α))
    (hlen : ∀ l, call "len" [.list l] = .ok (.int l.length))
    (hint : ∀ x1 x2 y1 y2, call "intersects" [.tm x1, .tm x2, .tm y1, .tm y2] = .ok (.bool (intersects x1 x2 y1 y2)))
    (hst : Stable env (l1 ++ encSmp p :: post.map encSmp) a b)
    (hi : getLoc "i" env = .ok (.int l1.length)) (hout : getLoc "out" env = .ok (encSegs out))
    (hfuel : out.length ≤ fuel) :
    match pushSegB w out (segOf a b p post) with
    | .ok out' => ∃ env', exec call fuel (outerBody op1 op2) env = .ok (env', none) ∧
        getLoc "out" env' = .ok (encSegs out') ∧ getLoc "i" env' = .ok (.int ((l1.length : Int) - 1)) ∧
        Frame ["b", "a", "out", "i"] env env'
    | .error e => exec call fuel (outerBody op1 op2) env = .error e := by
  obtain ⟨s1, s2, s3, s4, s5⟩ := hst
  have hB := mkB_step call fuel env l1 p post a b hlen s4 s1 hi s2 s3
  rw [outerBody, exec_seq_ok _ hB]
  have hP := pushS_step w op1 op2 hop1 hop2 call fuel (setLoc "b" (encSeg (segOf a b p post)) env) out
    (segOf a b p post) hint (by simpa using s5) hfuel (by simpa using hout) (by simp)
  revert hP
  cases pushSegB w out (segOf a b p post) with
  | error e => intro hP; exact exec_seq_err _ hP
  | ok out' =>
      rintro ⟨env2, h1, h2, h3⟩
      rw [exec_seq_ok _ h1]
      have hi2 : getLoc "i" env2 = .ok (.int l1.length) := by
        rw [h3.getLoc "i" (by simp)]; simpa using hi
      refine ⟨setLoc "i" (.int ((l1.length : Int) - 1)) env2, ?_, by simpa using h2, by simp, ?_⟩
      · simp [decI, exec, evalE, hi2, evalBin_sub_int]
      · exact Frame.set (Frame.trans (by frame_tac) (h3.mono (by simp))) _ _ (by simp)

theorem outerCond_eval (call : Call α) (env : Env α) (i : Int) (hi : getLoc "i" env = .ok (.int i)) :
    (do truthy (← evalE call env outerCond)) = .ok (decide (0 ≤ i)) := by
  simp [outerCond, evalE, hi, evalBin_ge_int, truthy]

include hop1 hop2 in
theorem outerLoop (call : Call α) (fuel : Nat) (a b : Rat)
    (hlen : ∀ l, call "len" [.list l] = .ok (.int l.length))
    (hint : ∀ x1 x2 y1 y2, call "intersects" [.tm x1, .tm x2, .tm y1, .tm y2] = .ok (.bool (intersects x1 x2 y1 y2))) :
    ∀ (rp post : ASig α) (out : List (Seg α)) (env : Env α) (f : Nat),
    rp.length + 1 ≤ f → out.length + rp.length ≤ fuel →
    Stable env ((rp.reverse ++ post).map encSmp) a b →
    getLoc "i" env = .ok (.int ((rp.length : Int) - 1)) → getLoc "out" env = .ok (encSegs out) →
    match (revSegs a b rp post).foldlM (pushSegB w) out with
    | .ok out' => ∃ env', whileLoop (fun env => do truthy (← evalE call env outerCond))
          (exec call fuel (outerBody op1 op2)) f env = .ok (env', none) ∧
        getLoc "out" env' = .ok (encSegs out') ∧ Frame ["b", "a", "out", "i"] env env'
    | .error e => whileLoop (fun env => do truthy (← evalE call env outerCond))
          (exec call fuel (outerBody op1 op2)) f env = .error e := by
  intro rp
  induction rp with
  | nil =>
      intro post out env f hf hfuel hst hi hout
      obtain ⟨f, rfl⟩ : ∃ f', f = f' + 1 := ⟨f - 1, by omega⟩
      have hc := outerCond_eval call env _ hi
      simp only [revSegs, List.foldlM_nil, pure_eq_ok]
      exact ⟨env, whileLoop_done _ _ _ _ (by simpa using hc), hout, Frame.refl _ _⟩
  | cons p rp ih =>
      intro post out env f hf hfuel hst hi hout
      obtain ⟨f, rfl⟩ : ∃ f', f = f' + 1 := ⟨f - 1, by omega⟩
      have hi' : getLoc "i" env = .ok (.int ((rp.reverse.map encSmp).length : Int)) := by
        rw [hi]; simp
      have hc := outerCond_eval call env _ hi'
      have hst' : Stable env (rp.reverse.map encSmp ++ encSmp p :: post.map encSmp) a b := by
        simpa using hst
      have hB := outerBody_step w op1 op2 hop1 hop2 call fuel env (rp.reverse.map encSmp) p post a b out hlen hint
        hst' hi' hout (by omega)
      simp only [revSegs, List.foldlM_cons]
      revert hB
      cases hp : pushSegB w out (segOf a b p post) with
      | error e =>
          intro hB
          exact whileLoop_raise _ _ _ _ _ (by simpa using hc) hB
      | ok out' =>
          rintro ⟨env2, h1, h2, h3, h4⟩
          rw [whileLoop_step _ _ _ _ _ (by simpa using hc) h1]
          have hl := pushSegB_length w _ _ _ hp
          have := ih (p :: post) out' env2 f (by simp at hf; omega) (by simp at hfuel; omega)
            (by simpa using hst.frame h4) (by simpa using h3) h2
          simp only [ok_bind]
          revert this
          cases (revSegs a b rp (p :: post)).foldlM (pushSegB w) out' with
          | error e => exact fun h => h
          | ok out'' =>
              rintro ⟨env3, k1, k2, k3⟩
              exact ⟨env3, k1, k2, Frame.trans h4 k3⟩

/-! ### the output loop -/

theorem ansBody_step (call : Call α) (fuel : Nat) (env : Env α) (g : Seg α) (acc : ASig α)
    (hb : getLoc "b" env = .ok (encSeg g)) (hans : getLoc "ans" env = .ok (encSig acc)) :
    ∃ env', exec call fuel ansBody env = .ok (env', none) ∧
      getLoc "ans" env' = .ok (encSig (acc ++ (ansOf g).toList)) := by
  cases h1 : Tm.le g.lo (Tm.fin 0) <;> cases h2 : Tm.lt (Tm.fin 0) g.hi <;> cases h3 : Tm.lt (Tm.fin 0) g.lo <;>
    simp [ansBody, exec, evalE, hb, hans, encSeg, encSig, encSmp, truthy, evalBin_le_tm0, evalBin_gt_tm0, h1, h2, h3,
      ansOf, mkList2, toPayload, Tm.zero]

theorem ansLoop (call : Call α) (fuel : Nat) : ∀ (out : List (Seg α)) (n : Nat) (env : Env α) (acc : ASig α),
    getLoc "ans" env = .ok (encSig acc) →
    ∃ env', forLoop (fun p env => setLoc "b" p.1 (setLoc "i" (.int p.2) env)) (exec call fuel ansBody)
        ((out.map encSeg).zipIdx n) env = .ok (env', none) ∧
      getLoc "ans" env' = .ok (encSig (acc ++ out.filterMap ansOf)) := by
  intro out
  induction out with
  | nil => intro n env acc h; exact ⟨env, rfl, by simpa using h⟩
  | cons g out ih =>
      intro n env acc h
      rw [List.map_cons, List.zipIdx_cons, forLoop_cons]
      obtain ⟨env1, h1, h2⟩ := ansBody_step call fuel (setLoc "b" (encSeg g) (setLoc "i" (.int n) env)) g acc
        (by simp) (by simpa using h)
      obtain ⟨env2, k1, k2⟩ := ih (n + 1) env1 _ h2
      refine ⟨env2, ?_, ?_⟩
      · simp only [h1, ok_bind]; exact k1
      · rw [k2]
        cases hg : ansOf g <;> simp [List.filterMap_cons, hg]

/-! ### the code after the initialisations -/

include hop1 hop2 in
theorem rest_run (call : Call α) (fuel : Nat) (env : Env α) (s : ASig α) (a b : Rat)
    (hlen : ∀ l, call "len" [.list l] = .ok (.int l.length))
    (hint : ∀ x1 x2 y1 y2, call "intersects" [.tm x1, .tm x2, .tm y1, .tm y2] = .ok (.bool (intersects x1 x2 y1 y2)))
    (hfuel : s.length + 1 ≤ fuel) (hst : Stable env (s.map encSmp) a b)
    (hi : getLoc "i" env = .ok (.int ((s.length : Int) - 1))) (hout : getLoc "out" env = .ok (encSegs []))
    (hans : getLoc "ans" env = .ok (encSig [])) :
    (do let (_, r) ← exec call fuel (restS op1 op2) env; pure (r.getD .none) : Except PyErr (DV α))
      = (backTimed w s a b).map encSig := by
  have hL := outerLoop w op1 op2 hop1 hop2 call fuel a b hlen hint s.reverse [] [] env fuel (by simpa using hfuel)
    (by simp; omega) (by simpa using hst) (by simpa using hi) hout
  rw [backTimed_eq]
  revert hL
  cases (revSegs a b s.reverse []).foldlM (pushSegB w) [] with
  | error e =>
      intro hL
      rw [restS, exec_seq_err _ ((exec_while _ _ _ _ _).trans hL)]
      rfl
  | ok out =>
      rintro ⟨env1, h1, h2, h3⟩
      rw [restS, exec_seq_ok _ ((exec_while _ _ _ _ _).trans h1)]
      have hans1 : getLoc "ans" env1 = .ok (encSig []) := by
        rw [h3.getLoc "ans" (by simp)]; exact hans
      obtain ⟨env2, k1, k2⟩ := ansLoop call fuel out 0 env1 [] hans1
      have hfor : exec call fuel (.forEnum "i" "b" (.loc "out") false ansBody) env1 = .ok (env2, none) := by
        simp only [exec, evalE, h2, encSegs, ok_bind]
        exact k1
      rw [exec_seq_ok _ hfor]
      simp [exec, evalE, k2, Except.map]

end loops

/-! ### the initialisations -/

theorem domEnd_step (call : Call α) (fuel : Nat) (env : Env α) (s : ASig α)
    (hlen : ∀ l, call "len" [.list l] = .ok (.int l.length))
    (hr : resolve env "len" = "len") (hIn : getLoc "input_list" env = .ok (.list (s.map encSmp))) :
    ∃ env', exec call fuel domEnd env = .ok (env', none) ∧ Frame ["domain_end"] env env' := by
  cases hs : s.reverse with
  | nil =>
      have : s = [] := by simpa using hs
      subst this
      exact ⟨env, by simp [domEnd, exec, evalE, hIn, truthy], Frame.refl _ _⟩
  | cons p rp =>
      have e : s = rp.reverse ++ [p] := by
        have := congrArg List.reverse hs
        simpa using this
      subst e
      have h0 : evalIdx (.list ((rp.map encSmp).reverse ++ [encSmp p])) (.int (rp.length : Int))
          = .ok (encSmp p) := evalIdx_nat _ _ _ (by simp)
      refine ⟨setLoc "domain_end" (.tm p.1) env, ?_, by frame_tac⟩
      simp [domEnd, exec, evalE, hIn, hr, hlen, truthy, evalBin_sub_int, h0]

def env0 (s : ASig α) (xb : DV α) (b : Rat) : Env α :=
  [("sample", encSig s), ("begin", xb), ("end", .tm (.fin b))]

/-- what the code after the initialisations relies on -/
def Init (env : Env α) (s : ASig α) (a b : Rat) : Prop :=
  Stable env (s.map encSmp) a b ∧ getLoc "i" env = .ok (.int ((s.length : Int) - 1)) ∧
    getLoc "out" env = .ok (encSegs []) ∧ getLoc "ans" env = .ok (encSig [])

theorem Init.frame {env env' : Env α} {s : ASig α} {a b : Rat} (h : Init env s a b)
    (hf : Frame ["domain_end"] env env') : Init env' s a b := by
  obtain ⟨⟨h1, h2, h3, h4, h5⟩, h6, h7, h8⟩ := h
  refine ⟨⟨?_, ?_, ?_, ?_, ?_⟩, ?_, ?_, ?_⟩
  · rw [hf.getLoc _ (by simp)]; exact h1
  · obtain ⟨xb, h2, h2'⟩ := h2
    exact ⟨xb, by rw [hf.getLoc _ (by simp)]; exact h2, h2'⟩
  · rw [hf.getLoc _ (by simp)]; exact h3
  · rw [hf.resolve _ (by simp)]; exact h4
  · rw [hf.resolve _ (by simp)]; exact h5
  · rw [hf.getLoc _ (by simp)]; exact h6
  · rw [hf.getLoc _ (by simp)]; exact h7
  · rw [hf.getLoc _ (by simp)]; exact h8

theorem alwPre_run (call : Call α) (fuel : Nat) (s : ASig α) (a b : Rat) (xb : DV α) (hxb : BegOK xb a)
    (hlen : ∀ l, call "len" [.list l] = .ok (.int l.length)) :
    ∃ env, (∀ R, exec call fuel (alwPre R) (env0 s xb b) = exec call fuel R env) ∧ Init env s a b := by
  refine ⟨setLoc "domain_end" (.uinf false) (setLoc "i" (.int ((s.length : Int) - 1)) (setLoc "ans" (.list [])
    (setLoc "input_list" (encSig s) (setLoc "out" (.list []) (setLoc "max" (.uinf false)
    (setLoc "residual_start" (.uinf false) (setLoc "prev" (.list []) (env0 s xb b)))))))), ?_, ?_⟩
  · intro R
    simp [alwPre, exec, evalE, env0, hlen, encSig, evalBin_sub_int]
  · simp [Init, Stable, env0, encSig, encSegs, hxb]

theorem evPre_run (call : Call α) (fuel : Nat) (s : ASig α) (a b : Rat) (xb : DV α) (hxb : BegOK xb a)
    (hlen : ∀ l, call "len" [.list l] = .ok (.int l.length)) :
    ∃ env, (∀ R, exec call fuel (evPre R) (env0 s xb b) = exec call fuel R env) ∧ Init env s a b := by
  refine ⟨setLoc "domain_end" (.uinf false) (setLoc "i" (.int ((s.length : Int) - 1)) (setLoc "max" (.uinf true)
    (setLoc "residual_start" (.uinf true) (setLoc "prev" (.list []) (setLoc "ans" (.list [])
    (setLoc "input_list" (encSig s) (setLoc "out" (.list []) (env0 s xb b)))))))), ?_, ?_⟩
  · intro R
    simp [evPre, exec, evalE, env0, hlen, encSig, evalBin_sub_int, evalNeg]
  · simp [Init, Stable, env0, encSig, encSegs, hxb]

/-! ### the two functions -/

theorem full_run (w : α → α → Bool) (op1 op2 : BinOp)
    (hop1 : ∀ x y : α, evalBin op1 (.val x : DV α) (.val y) = .ok (.bool (w x y)))
    (hop2 : ∀ x y : α, evalBin op2 (.val x : DV α) (.val y) = .ok (.bool (!w x y)))
    (call : Call α) (fuel : Nat) (s : ASig α) (a b : Rat) (xb : DV α)
    (hlen : ∀ l, call "len" [.list l] = .ok (.int l.length))
    (hint : ∀ x1 x2 y1 y2, call "intersects" [.tm x1, .tm x2, .tm y1, .tm y2] = .ok (.bool (intersects x1 x2 y1 y2)))
    (hfuel : s.length + 1 ≤ fuel) (pre : S → S)
    (hpre : ∃ env, (∀ R, exec call fuel (pre R) (env0 s xb b) = exec call fuel R env) ∧ Init env s a b) :
    (do let (_, r) ← exec call fuel (pre (.seq domEnd (restS op1 op2))) (env0 s xb b); pure (r.getD .none) :
        Except PyErr (DV α)) = (backTimed w s a b).map encSig := by
  obtain ⟨env, h1, h2⟩ := hpre
  obtain ⟨env', k1, k2⟩ := domEnd_step call fuel env s hlen h2.1.2.2.2.1 h2.1.1
  rw [h1, exec_seq_ok _ k1]
  obtain ⟨g1, g2, g3, g4⟩ := h2.frame k2
  exact rest_run w op1 op2 hop1 hop2 call fuel env' s a b hlen hint hfuel g1 g2 g3 g4

theorem len_builtin (fuel k : Nat) (l : List (DV α)) :
    callAt Gen.Dense.fns fuel k "len" [.list l] = .ok (.int l.length) := by
  rw [callAt_builtin _ _ _ _ _ rfl]; rfl

/-- `always_timed_operation(sample, begin, end)`, translated from the source, computes what the mirror `alwTimed`
    computes (values and `IndexError`), for every sample list, at every call depth, with fuel `len(sample) + 1`. -/
theorem gen_alw_timed_beg (fuel k : Nat) (s : ASig α) (a b : Rat) (x : DV α) (hx : BegOK x a)
    (hfuel : s.length + 1 ≤ fuel) :
    callAt Gen.Dense.fns fuel (k + 2) "always_timed_operation" [encSig s, x, .tm (.fin b)]
      = (alwTimed s a b).map encSig := by
  rw [callAt_fn _ _ _ _ Gen.Dense.fn_always_timed_operation _ rfl]
  have := full_run (α := α) gtW .gt .le
    (by intro x y; simp [evalBin, isCmp, cmpDV, isTimeLike, isValLike, toVal, cmpVal, gtW, Except.map])
    (by intro x y; simp [evalBin, isCmp, cmpDV, isTimeLike, isValLike, toVal, cmpVal, gtW, Except.map])
    (callAt Gen.Dense.fns fuel (k + 1)) fuel s a b x (len_builtin fuel (k + 1)) (gen_intersects fuel k) hfuel alwPre
    (alwPre_run _ fuel s a b x hx (len_builtin fuel (k + 1)))
  unfold runFn
  rw [alw_body_eq]
  exact this

theorem _root_.Rtamt.Py.Dn.gen_alw_timed (fuel k : Nat) (s : ASig α) (a b : Rat) (hfuel : s.length + 1 ≤ fuel) :
    callAt Gen.Dense.fns fuel (k + 2) "always_timed_operation" [encSig s, .tm (.fin a), .tm (.fin b)]
      = (alwTimed s a b).map encSig :=
  gen_alw_timed_beg fuel k s a b _ (BegOK.tm a) hfuel

/-- the same with the integer literal `0` as `begin` (the call `always_timed_operation(out2, 0, begin)` of
    `until_timed_operation`) -/
theorem _root_.Rtamt.Py.Dn.gen_alw_timed_int0 (fuel k : Nat) (s : ASig α) (b : Rat) (hfuel : s.length + 1 ≤ fuel) :
    callAt Gen.Dense.fns fuel (k + 2) "always_timed_operation" [encSig s, .int 0, .tm (.fin b)]
      = (alwTimed s 0 b).map encSig :=
  gen_alw_timed_beg fuel k s 0 b _ BegOK.int0 hfuel

/-- `eventually_timed_operation(sample, begin, end)`, translated from the source, computes what the mirror `evTimed`
    computes. -/
theorem gen_ev_timed_beg (fuel k : Nat) (s : ASig α) (a b : Rat) (x : DV α) (hx : BegOK x a)
    (hfuel : s.length + 1 ≤ fuel) :
    callAt Gen.Dense.fns fuel (k + 2) "eventually_timed_operation" [encSig s, x, .tm (.fin b)]
      = (evTimed s a b).map encSig := by
  rw [callAt_fn _ _ _ _ Gen.Dense.fn_eventually_timed_operation _ rfl]
  have := full_run (α := α) ltW .lt .ge
    (by intro x y; simp [evalBin, isCmp, cmpDV, isTimeLike, isValLike, toVal, cmpVal, ltW, Except.map])
    (by intro x y; simp [evalBin, isCmp, cmpDV, isTimeLike, isValLike, toVal, cmpVal, ltW, Except.map])
    (callAt Gen.Dense.fns fuel (k + 1)) fuel s a b x (len_builtin fuel (k + 1)) (gen_intersects fuel k) hfuel evPre
    (evPre_run _ fuel s a b x hx (len_builtin fuel (k + 1)))
  unfold runFn
  rw [ev_body_eq]
  exact this

theorem _root_.Rtamt.Py.Dn.gen_ev_timed (fuel k : Nat) (s : ASig α) (a b : Rat) (hfuel : s.length + 1 ≤ fuel) :
    callAt Gen.Dense.fns fuel (k + 2) "eventually_timed_operation" [encSig s, .tm (.fin a), .tm (.fin b)]
      = (evTimed s a b).map encSig :=
  gen_ev_timed_beg fuel k s a b _ (BegOK.tm a) hfuel

/-- the same with the integer literal `0` as `begin` (the call `eventually_timed_operation(out2, 0, begin)` of
    `until_timed_operation`) -/
theorem _root_.Rtamt.Py.Dn.gen_ev_timed_int0 (fuel k : Nat) (s : ASig α) (b : Rat) (hfuel : s.length + 1 ≤ fuel) :
    callAt Gen.Dense.fns fuel (k + 2) "eventually_timed_operation" [encSig s, .int 0, .tm (.fin b)]
      = (evTimed s 0 b).map encSig :=
  gen_ev_timed_beg fuel k s 0 b _ BegOK.int0 hfuel

end GenBack

end Rtamt.Py.Dn
