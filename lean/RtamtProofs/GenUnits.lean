/-
  `DiscreteTimeInterpreter.time_unit_transformer` and `update_sampling_violation_counter`, as translated from
  the Python source (`Rtamt/Py/GeneratedUnits.lean`, regenerated on every run), denote the hand-written
  mirrors `SIv.toSamples` (`Rtamt/Units.lean`, the function the C08 theorems are stated on) and
  `SamplingCfg.violates` (`Rtamt/Discrete/Sampling.lean`, C13).

  Numbers are exact (`Rat` for Python's `Fraction` / the numbers given to `set_sampling_period`); a negative
  bound is excluded (the parser rejects it; the Python would return a negative number of samples, the mirror
  raises).
-/
import Rtamt.Py.GeneratedUnits
import Rtamt.Units
import RtamtProofs.GenOps

namespace Rtamt.Py
open Rtamt Val

variable {α : Type} [Val α]

def unitStr : TUnit → String
  | .s => "s" | .ms => "ms" | .us => "us" | .ns => "ns"

def optUnitStr : Option TUnit → String
  | some u => unitStr u
  | none => ""

/-- The attributes of the interpreter that `time_unit_transformer` reads. -/
def cfgStore (c : UnitCfg) : Store α :=
  [("sampling_period", .rat c.period), ("sampling_period_unit", .str (unitStr c.periodUnit))]

/-! ### the arithmetic core: `x.numerator % x.denominator > 0` and `int(x)` against `ratToNat?` -/

/-- Python's `int(x)` on a `Fraction` (truncation towards zero), as in `evalUn .toInt`. -/
def pyToInt (q : Rat) : Int := if 0 ≤ q.num then q.num / q.den else -((-q.num) / q.den)

theorem den_eq_one_of_emod_eq_zero (q : Rat) (h : q.num % (q.den : Int) = 0) : q.den = 1 := by
  have hd : (q.den : Int) ∣ q.num := Int.dvd_of_emod_eq_zero h
  have hd' : q.den ∣ q.num.natAbs := by
    have := Int.natAbs_dvd_natAbs.2 hd
    simpa using this
  exact Nat.Coprime.eq_one_of_dvd q.reduced.symm hd'

/-- The test of the Python code (`numerator % denominator > 0`) says that the fraction is not an integer
    (the fraction is in lowest terms). -/
theorem numer_mod_denom_pos (q : Rat) : (0 < q.num % (q.den : Int)) ↔ q.den ≠ 1 := by
  constructor
  · intro h h1
    rw [h1] at h
    simp at h
  · intro h
    have hnn : 0 ≤ q.num % (q.den : Int) := Int.emod_nonneg _ (by have := q.den_pos; omega)
    have hne : q.num % (q.den : Int) ≠ 0 := fun h0 => h (den_eq_one_of_emod_eq_zero q h0)
    omega

/-- For a non-negative fraction: either the Python test fires and the mirror has no natural number, or it does
    not fire and `int(x)` is the natural number of the mirror. -/
theorem ratToNat_cases (q : Rat) (hq : 0 ≤ q) :
    ((0 < q.num % (q.den : Int)) ∧ ratToNat? q = none) ∨
    (¬ (0 < q.num % (q.den : Int)) ∧ ∃ n : Nat, ratToNat? q = some n ∧ pyToInt q = (n : Int)) := by
  have hn : 0 ≤ q.num := Rat.num_nonneg.2 hq
  by_cases h1 : q.den = 1
  · right
    refine ⟨by rw [numer_mod_denom_pos]; simp [h1], q.num.toNat, by simp [ratToNat?, h1, hn], ?_⟩
    simp [pyToInt, hn, h1]
    omega
  · left
    exact ⟨(numer_mod_denom_pos q).2 h1, by simp [ratToNat?, h1]⟩

/-! ### one-step equations used by the symbolic execution

  These are deliberately *not* `rfl`-lemmas for `simp` (`id rfl`): with `ok_bind := rfl` simp rewrites by
  definitional unfolding and the kernel re-evaluates the remaining program (with its string comparisons)
  at every statement — about a minute for this method instead of a fraction of a second. -/

theorem u_ok_bind' {ε σ ρ : Type} (a : σ) (f : σ → Except ε ρ) : (Except.ok a >>= f) = f a := id rfl
theorem u_error_bind' {ε σ ρ : Type} (e : ε) (f : σ → Except ε ρ) : (Except.error e >>= f) = .error e := id rfl
theorem u_exec_seq' (a b : S) (env : Env α) : exec (.seq a b) env = (exec a env >>= exec b) := id rfl
theorem u_exec_ite (c : E) (t e : S) (env : Env α) :
    exec (.ite c t e) env = (evalE env c >>= fun v => match v with
      | .bool true => exec t env
      | .bool false => exec e env
      | _ => throw .type) := id rfl
theorem u_exec_raise (k : PyErr) (env : Env α) : exec (.raise k) env = .error k := id rfl

theorem unitNs_eq (u : TUnit) : evalUn (α := α) .unitNs (.str (unitStr u)) = .ok (.int u.nanos) := by
  cases u <;> rfl

theorem unitStr_length_pos (u : TUnit) : 0 < (unitStr u).length := by
  cases u <;> decide

theorem evalUn_frac_rat (q : Rat) : evalUn (α := α) .frac (.rat q) = .ok (.rat q) := rfl
theorem evalUn_numer_rat (q : Rat) : evalUn (α := α) .numer (.rat q) = .ok (.int q.num) := rfl
theorem evalUn_denom_rat (q : Rat) : evalUn (α := α) .denom (.rat q) = .ok (.int q.den) := rfl
theorem evalUn_toInt_rat (q : Rat) : evalUn (α := α) .toInt (.rat q) = .ok (.int (pyToInt q)) := rfl

theorem evalBin_mul_rat_int (q : Rat) (n : Int) :
    evalBin (α := α) .mul (.rat q) (.int n) = .ok (.rat (q * (n : Rat))) := by
  simp [evalBin, coerce, ratOf]

theorem evalBin_div_rat_rat (a b : Rat) (hb : b ≠ 0) :
    evalBin (α := α) .div (.rat a) (.rat b) = .ok (.rat (a / b)) := by
  simp [evalBin, coerce, ratOf, hb]

theorem evalBin_mod_num_den (q : Rat) :
    evalBin (α := α) .mod (.int q.num) (.int q.den) = .ok (.int (q.num % q.den)) := by
  simp [evalBin, coerce, q.den_nz]

theorem evalBin_gt_int_zero (x : Int) : evalBin (α := α) .gt (.int x) (.int 0) = .ok (.bool (decide (0 < x))) := by
  simp [evalBin, coerce]

theorem evalBin_eq_int_zero (x : Int) : evalBin (α := α) .eq (.int x) (.int 0) = .ok (.bool (decide (x = 0))) := by
  simp [evalBin, coerce]

/-- Symbolic execution of `time_unit_transformer`. -/
macro "tut_simp" "[" ls:Lean.Parser.Tactic.simpLemma,* "]" : tactic =>
  `(tactic| simp [call, Gen.Units.time_unit_transformer, exec_skip, u_exec_seq', exec_setLoc, u_exec_ite, u_exec_raise,
      evalE, cfgStore, optUnitStr, evalUn_frac_rat, evalUn_numer_rat, evalUn_denom_rat, evalUn_toInt_rat, unitNs_eq,
      evalBin_mul_rat_int, evalBin_div_rat_rat, evalBin_mod_num_den, evalBin_gt_int_zero, evalBin_eq_int_zero,
      u_ok_bind', u_error_bind', getKey_cons_same, getKey_cons_ne, setKey, pure, Except.pure, Except.map,
      Rat.intCast_natCast, $ls,*])

/-- The translated `time_unit_transformer` computes `SIv.toSamples` (and raises RTAMTException exactly when the mirror
    does) for non-negative bounds and a positive period. -/
theorem gen_time_unit_transformer (c : UnitCfg) (i : SIv) (hb : 0 ≤ i.b) (he : 0 ≤ i.e) (hp : 0 < c.period) :
    call (α := α) Gen.Units.time_unit_transformer (cfgStore c)
        [.rat i.b, .rat i.e, .str (optUnitStr i.bu), .str (optUnitStr i.eu), .str (unitStr c.unit)]
      = (i.toSamples c).map (fun r => (cfgStore c, V.pair (.int r.1) (.int r.2))) := by
  rcases i with ⟨b, e, bu, eu⟩
  change 0 ≤ b at hb
  change 0 ≤ e at he
  -- the sampling period in nanoseconds is positive
  have hnan : ∀ u : TUnit, 0 < u.nanos := fun u => by cases u <;> decide
  have hsp0 : 0 < c.period * (c.periodUnit.nanos : Rat) := Rat.mul_pos hp (Rat.natCast_pos.2 (hnan _))
  have hsp : c.period * (c.periodUnit.nanos : Rat) ≠ 0 := Rat.ne_of_gt hsp0
  have hinv : 0 ≤ (c.period * (c.periodUnit.nanos : Rat))⁻¹ := Rat.le_of_lt (Rat.inv_pos.2 hsp0)
  have hlen2 : ∀ u, (unitStr u).length ≠ 0 := fun u => by have := unitStr_length_pos u; omega
  have hlen3 := unitStr_length_pos
  -- the units after defaulting, and the two quotients
  obtain ⟨ub, ue, hu⟩ : ∃ ub ue, SIv.units c.unit ⟨b, e, bu, eu⟩ = (ub, ue) := ⟨_, _, rfl⟩
  have hqb : 0 ≤ b * (ub.nanos : Rat) / (c.period * (c.periodUnit.nanos : Rat)) := by
    rw [Rat.div_def]; exact Rat.mul_nonneg (Rat.mul_nonneg hb Rat.natCast_nonneg) hinv
  have hqe : 0 ≤ e * (ue.nanos : Rat) / (c.period * (c.periodUnit.nanos : Rat)) := by
    rw [Rat.div_def]; exact Rat.mul_nonneg (Rat.mul_nonneg he Rat.natCast_nonneg) hinv
  have hmirror : SIv.toSamples c ⟨b, e, bu, eu⟩ =
      match ratToNat? (b * (ub.nanos : Rat) / (c.period * (c.periodUnit.nanos : Rat))),
            ratToNat? (e * (ue.nanos : Rat) / (c.period * (c.periodUnit.nanos : Rat))) with
      | some b, some e => .ok (b, e)
      | _, _ => .error .rtamt := by
    simp only [SIv.toSamples, SIv.durNs, hu, UnitCfg.periodNs]
    rfl
  rw [hmirror]
  rcases ratToNat_cases _ hqb with ⟨hb1, hb2⟩ | ⟨hb1, nb, hb2, hb3⟩
  · -- the lower bound is not a multiple of the period
    rw [hb2]
    cases bu <;> cases eu <;> simp [SIv.units] at hu <;> obtain ⟨rfl, rfl⟩ := hu <;>
      tut_simp [hsp, hlen2, hlen3, hb1]
  · rcases ratToNat_cases _ hqe with ⟨he1, he2⟩ | ⟨he1, ne, he2, he3⟩
    · -- the upper bound is not a multiple of the period
      rw [hb2, he2]
      cases bu <;> cases eu <;> simp [SIv.units] at hu <;> obtain ⟨rfl, rfl⟩ := hu <;>
        tut_simp [hsp, hlen2, hlen3, hb1, he1]
    · rw [hb2, he2]
      cases bu <;> cases eu <;> simp [SIv.units] at hu <;> obtain ⟨rfl, rfl⟩ := hu <;>
        tut_simp [hsp, hlen2, hlen3, hb1, he1, hb3, he3]

/-- The attributes that `update_sampling_violation_counter` reads and writes. -/
def samplingStore (period tol : Rat) (k : Nat) : Store α :=
  [("sampling_period", .rat period), ("sampling_tolerance", .rat tol), ("sampling_violation_counter", .int k)]

/-- The translated `update_sampling_violation_counter(duration)` increments the counter exactly when
    `SamplingCfg.violates` holds. -/
theorem gen_update_counter (c : SamplingCfg) (k : Nat) (d : Rat) :
    call (α := α) Gen.Units.update_sampling_violation_counter (samplingStore c.period c.tol k) [.rat d]
      = .ok (samplingStore c.period c.tol (if c.violates d then k + 1 else k), .none) := by
  simp only [SamplingCfg.violates]
  by_cases h1 : d < c.period - c.period * c.tol <;> by_cases h2 : d > c.period + c.period * c.tol <;>
  py_simp [Gen.Units.update_sampling_violation_counter, samplingStore, ratOf, h1, h2]

/-- Both methods lie inside the translated subset. -/
theorem gen_units_supported :
    Gen.Units.time_unit_transformer.supported = true ∧ Gen.Units.update_sampling_violation_counter.supported = true := by
  decide

end Rtamt.Py
