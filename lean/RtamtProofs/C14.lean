/-
  C14 — The parser accepts exactly the specification language and fails only cleanly.

  "parse() terminates on every input text; it succeeds only on texts derivable from the
   grammar (no silently skipped illegal characters, no trailing garbage, interval bounds with
   0 <= begin <= end, bound constants declared) and otherwise raises RTAMTException, never
   another exception type. …"

  About the model (`Rtamt/Front/*.lean`): `lex`, `parseSpecToks`, `parseAndCheck` are total
  functions (accepted by Lean's termination checker) whose only outcomes are `ok` and the
  three RTAMTException classes of `ParseErr`.  Proved here: a successful parse *derives* the
  token stream in the grammar (relation `Derives`, one constructor per alternative of
  `expression` in StlParser.g4, no precedence — i.e. the language, not the disambiguation),
  consumes every token, and every accepted interval satisfies the side conditions.
  The agreement of the real ANTLR parser with this model is the correspondence stream of the
  C14 check (valid texts, single-edit mutants, token soup).
-/
import Rtamt.Front.Check
import Mathlib.Data.List.Basic

namespace Rtamt.Front
open Rtamt

/-- Token form of an optional interval: `[` time (`:`|`,`) time `]`, where a time is a literal
    or identifier followed by an optional unit. -/
inductive DerivesTime : List Tok → IvTime → Prop
  | intLit (s) : DerivesTime [.intLit s] (.lit s none)
  | intLitU (s t u) (h : unitOfTok t = some u) : DerivesTime [.intLit s, t] (.lit s (some u))
  | realLit (s) : DerivesTime [.realLit s] (.lit s none)
  | realLitU (s t u) (h : unitOfTok t = some u) : DerivesTime [.realLit s, t] (.lit s (some u))
  | ident (s) : DerivesTime [.ident s] (.const s none)
  | identU (s t u) (h : unitOfTok t = some u) : DerivesTime [.ident s, t] (.const s (some u))

inductive DerivesIv : List Tok → Option PIv → Prop
  | none : DerivesIv [] none
  | some (tb te : List Tok) (b e : IvTime) (sep : Tok) (hsep : sep = .colon ∨ sep = .comma)
      (hb : DerivesTime tb b) (he : DerivesTime te e) :
      DerivesIv (.lbrack :: tb ++ sep :: te ++ [.rbrack]) (some { b := b, e := e })

/-- The language of `expression` (StlParser.g4), one constructor per alternative. -/
inductive Derives : List Tok → PE → Prop
  | paren (ts e) (h : Derives ts e) : Derives (.lparen :: ts ++ [.rparen]) e
  | ident (s) : Derives [.ident s] (.id s)
  | intLit (s) : Derives [.intLit s] (.lit s)
  | realLit (s) : Derives [.realLit s] (.lit s)
  | pre (t op ivt iv ts e) (hop : preOfTok t = some op) (hiv : DerivesIv ivt iv)
      (hallow : iv.isSome → takesInterval op = true) (h : Derives ts e) :
      Derives (t :: ivt ++ ts) (.pre op iv e)
  | fn1 (t f ts e) (hf : fn1OfTok t = some f) (h : Derives ts e) :
      Derives (t :: .lparen :: ts ++ [.rparen]) (.fn1 f e)
  | pow (ts1 e1 ts2 e2) (h1 : Derives ts1 e1) (h2 : Derives ts2 e2) :
      Derives (.pow :: .lparen :: ts1 ++ .comma :: ts2 ++ [.rparen]) (.fn2 .pow e1 e2)
  | log (ts1 e1 ts2 e2) (h1 : Derives ts1 e1) (h2 : Derives ts2 e2) :
      Derives (.log :: .lparen :: ts1 ++ .comma :: ts2 ++ [.rparen]) (.fn2 .log e1 e2)
  | bin (t op ivt iv tl l tr r) (hop : binOfTok t = some op) (hiv : DerivesIv ivt iv)
      (hallow : iv.isSome → binTakesInterval op = true) (hl : Derives tl l) (hr : Derives tr r) :
      Derives (tl ++ t :: ivt ++ tr) (.bin op iv l r)

/-! ### helper lemmas: intervals -/

theorem C14_parseIvTime_sound (toks : List Tok) (t : IvTime) (rest : List Tok)
    (h : parseIvTime toks = .ok (t, rest)) :
    ∃ used, toks = used ++ rest ∧ DerivesTime used t := by
  cases toks with
  | nil => simp [parseIvTime] at h
  | cons a l =>
    cases a
    case intLit s =>
      cases l with
      | nil =>
        simp only [parseIvTime, Except.ok.injEq, Prod.mk.injEq] at h
        obtain ⟨rfl, rfl⟩ := h
        exact ⟨[.intLit s], rfl, .intLit s⟩
      | cons t' r =>
        cases hu : unitOfTok t' with
        | none =>
          simp only [parseIvTime, hu, Except.ok.injEq, Prod.mk.injEq] at h
          obtain ⟨rfl, rfl⟩ := h
          exact ⟨[.intLit s], rfl, .intLit s⟩
        | some u =>
          simp only [parseIvTime, hu, Except.ok.injEq, Prod.mk.injEq] at h
          obtain ⟨rfl, rfl⟩ := h
          exact ⟨[.intLit s, t'], rfl, .intLitU s t' u hu⟩
    case realLit s =>
      cases l with
      | nil =>
        simp only [parseIvTime, Except.ok.injEq, Prod.mk.injEq] at h
        obtain ⟨rfl, rfl⟩ := h
        exact ⟨[.realLit s], rfl, .realLit s⟩
      | cons t' r =>
        cases hu : unitOfTok t' with
        | none =>
          simp only [parseIvTime, hu, Except.ok.injEq, Prod.mk.injEq] at h
          obtain ⟨rfl, rfl⟩ := h
          exact ⟨[.realLit s], rfl, .realLit s⟩
        | some u =>
          simp only [parseIvTime, hu, Except.ok.injEq, Prod.mk.injEq] at h
          obtain ⟨rfl, rfl⟩ := h
          exact ⟨[.realLit s, t'], rfl, .realLitU s t' u hu⟩
    case ident s =>
      cases l with
      | nil =>
        simp only [parseIvTime, Except.ok.injEq, Prod.mk.injEq] at h
        obtain ⟨rfl, rfl⟩ := h
        exact ⟨[.ident s], rfl, .ident s⟩
      | cons t' r =>
        cases hu : unitOfTok t' with
        | none =>
          simp only [parseIvTime, hu, Except.ok.injEq, Prod.mk.injEq] at h
          obtain ⟨rfl, rfl⟩ := h
          exact ⟨[.ident s], rfl, .ident s⟩
        | some u =>
          simp only [parseIvTime, hu, Except.ok.injEq, Prod.mk.injEq] at h
          obtain ⟨rfl, rfl⟩ := h
          exact ⟨[.ident s, t'], rfl, .identU s t' u hu⟩
    all_goals simp [parseIvTime] at h

theorem C14_parseInterval_sound (toks : List Tok) (iv : PIv) (rest : List Tok)
    (h : parseInterval toks = .ok (iv, rest)) :
    ∃ used, toks = used ++ rest ∧ DerivesIv used (some iv) := by
  unfold parseInterval at h
  split at h
  · rename_i r0
    cases h1 : parseIvTime r0 with
    | error e => simp [h1, bind, Except.bind] at h
    | ok v1 =>
      obtain ⟨b, r1⟩ := v1
      simp only [h1, bind, Except.bind] at h
      obtain ⟨tb, rfl, hb⟩ := C14_parseIvTime_sound _ _ _ h1
      split at h
      case h_3 => simp [throw, throwThe, MonadExceptOf.throw] at h
      all_goals
        rename_i r2
        cases h2 : parseIvTime r2 with
        | error e => simp [h2] at h
        | ok v2 =>
          obtain ⟨e, r3⟩ := v2
          simp only [h2] at h
          obtain ⟨te, rfl, he⟩ := C14_parseIvTime_sound _ _ _ h2
          split at h
          · simp only [pure, Except.pure, Except.ok.injEq, Prod.mk.injEq] at h
            obtain ⟨rfl, rfl⟩ := h
            first
            | (refine ⟨.lbrack :: tb ++ .colon :: te ++ [.rbrack], ?_, .some tb te b e .colon (Or.inl rfl) hb he⟩
               simp; done)
            | (refine ⟨.lbrack :: tb ++ .comma :: te ++ [.rbrack], ?_, .some tb te b e .comma (Or.inr rfl) hb he⟩
               simp)
          · simp [throw, throwThe, MonadExceptOf.throw] at h
  · simp at h

theorem C14_optInterval_sound (allowed : Bool) (toks : List Tok) (iv : Option PIv) (rest : List Tok)
    (h : optInterval allowed toks = .ok (iv, rest)) :
    ∃ used, toks = used ++ rest ∧ DerivesIv used iv ∧ (iv.isSome → allowed = true) := by
  unfold optInterval at h
  split at h
  · rename_i r0
    split at h
    · rename_i ha
      cases h1 : parseInterval (.lbrack :: r0) with
      | error e => simp [h1, Except.map] at h
      | ok v =>
        obtain ⟨i, r⟩ := v
        simp only [h1, Except.map, Except.ok.injEq, Prod.mk.injEq] at h
        obtain ⟨rfl, rfl⟩ := h
        obtain ⟨used, hu, hd⟩ := C14_parseInterval_sound _ _ _ h1
        exact ⟨used, hu, hd, fun _ => ha⟩
    · simp at h
  · simp only [Except.ok.injEq, Prod.mk.injEq] at h
    obtain ⟨rfl, rfl⟩ := h
    exact ⟨[], rfl, .none, by simp⟩


/-! ### helper lemmas: the three mutually recursive parser functions, by induction on the fuel -/

def C14_SoundE (fuel : Nat) : Prop :=
  ∀ p toks e rest, parseExpr fuel p toks = .ok (e, rest) → ∃ used, toks = used ++ rest ∧ Derives used e
def C14_SoundL (fuel : Nat) : Prop :=
  ∀ p lhs toks e rest, parseLoop fuel p lhs toks = .ok (e, rest) →
    ∀ usedL, Derives usedL lhs → ∃ used, toks = used ++ rest ∧ Derives (usedL ++ used) e
def C14_SoundP (fuel : Nat) : Prop :=
  ∀ toks e rest, parsePrimary fuel toks = .ok (e, rest) → ∃ used, toks = used ++ rest ∧ Derives used e

theorem C14_soundE_succ (fuel : Nat) (hP : C14_SoundP fuel) (hL : C14_SoundL fuel) : C14_SoundE (fuel + 1) := by
  intro p toks e rest h
  rw [parseExpr] at h
  cases h1 : parsePrimary fuel toks with
  | error err => simp [h1, bind, Except.bind] at h
  | ok v =>
    obtain ⟨lhs, r⟩ := v
    simp only [h1, bind, Except.bind] at h
    obtain ⟨u1, rfl, d1⟩ := hP _ _ _ h1
    obtain ⟨u2, rfl, d2⟩ := hL _ _ _ _ _ h u1 d1
    exact ⟨u1 ++ u2, by simp, d2⟩

theorem C14_soundL_succ (fuel : Nat) (hE : C14_SoundE fuel) (hL : C14_SoundL fuel) : C14_SoundL (fuel + 1) := by
  intro p lhs toks e rest h usedL dL
  cases toks with
  | nil =>
    simp only [parseLoop, Except.ok.injEq, Prod.mk.injEq] at h
    obtain ⟨rfl, rfl⟩ := h
    exact ⟨[], rfl, by simpa using dL⟩
  | cons t r0 =>
    simp only [parseLoop] at h
    have stop : (Except.ok (lhs, t :: r0) : Except ParseErr (PE × List Tok)) = Except.ok (e, rest) →
        ∃ used, t :: r0 = used ++ rest ∧ Derives (usedL ++ used) e := by
      intro h
      simp only [Except.ok.injEq, Prod.mk.injEq] at h
      obtain ⟨rfl, rfl⟩ := h
      exact ⟨[], rfl, by simpa using dL⟩
    cases hop : binOfTok t with
    | none => simp only [hop] at h; exact stop h
    | some op =>
      simp only [hop] at h
      split at h
      · cases h1 : optInterval (binTakesInterval op) r0 with
        | error err => simp [h1, bind, Except.bind] at h
        | ok v1 =>
          obtain ⟨iv, r1⟩ := v1
          simp only [h1, bind, Except.bind] at h
          cases h2 : parseExpr fuel (binLevel op + 1) r1 with
          | error err => simp [h2] at h
          | ok v2 =>
            obtain ⟨rhs, r2⟩ := v2
            simp only [h2] at h
            obtain ⟨ui, rfl, di, hal⟩ := C14_optInterval_sound _ _ _ _ h1
            obtain ⟨ur, rfl, dr⟩ := hE _ _ _ _ h2
            have dB : Derives (usedL ++ t :: ui ++ ur) (.bin op iv lhs rhs) :=
              .bin t op ui iv usedL lhs ur rhs hop di hal dL dr
            obtain ⟨u3, rfl, d3⟩ := hL _ _ _ _ _ h _ dB
            refine ⟨t :: ui ++ ur ++ u3, by simp, ?_⟩
            have : usedL ++ (t :: ui ++ ur ++ u3) = usedL ++ t :: ui ++ ur ++ u3 := by simp
            rw [this]; exact d3
      · exact stop h

theorem C14_soundP_succ (fuel : Nat) (hE : C14_SoundE fuel) : C14_SoundP (fuel + 1) := by
  intro toks e rest h
  unfold parsePrimary at h
  split at h
  · rename_i r0
    cases h1 : parseExpr fuel 0 r0 with
    | error err => simp [h1, bind, Except.bind] at h
    | ok v =>
      obtain ⟨e1, r1⟩ := v
      simp only [h1, bind, Except.bind] at h
      obtain ⟨u1, rfl, d1⟩ := hE _ _ _ _ h1
      split at h
      · simp only [pure, Except.pure, Except.ok.injEq, Prod.mk.injEq] at h
        obtain ⟨rfl, rfl⟩ := h
        exact ⟨.lparen :: u1 ++ [.rparen], by simp, .paren u1 _ d1⟩
      · simp [throw, throwThe, MonadExceptOf.throw] at h
  · rename_i s r0
    simp only [Except.ok.injEq, Prod.mk.injEq] at h
    obtain ⟨rfl, rfl⟩ := h
    exact ⟨[.ident s], rfl, .ident s⟩
  · rename_i s r0
    simp only [Except.ok.injEq, Prod.mk.injEq] at h
    obtain ⟨rfl, rfl⟩ := h
    exact ⟨[.intLit s], rfl, .intLit s⟩
  · rename_i s r0
    simp only [Except.ok.injEq, Prod.mk.injEq] at h
    obtain ⟨rfl, rfl⟩ := h
    exact ⟨[.realLit s], rfl, .realLit s⟩
  · rename_i r0
    cases h1 : parseExpr fuel 0 r0 with
    | error err => simp [h1, bind, Except.bind] at h
    | ok v =>
      obtain ⟨e1, r1⟩ := v
      simp only [h1, bind, Except.bind] at h
      obtain ⟨u1, rfl, d1⟩ := hE _ _ _ _ h1
      split at h
      · rename_i r2
        cases h2 : parseExpr fuel 0 r2 with
        | error err => simp [h2] at h
        | ok v2 =>
          obtain ⟨e2, r3⟩ := v2
          simp only [h2] at h
          obtain ⟨u2, rfl, d2⟩ := hE _ _ _ _ h2
          split at h
          · simp only [pure, Except.pure, Except.ok.injEq, Prod.mk.injEq] at h
            obtain ⟨rfl, rfl⟩ := h
            exact ⟨.pow :: .lparen :: u1 ++ .comma :: u2 ++ [.rparen], by simp, .pow u1 _ u2 _ d1 d2⟩
          · simp [throw, throwThe, MonadExceptOf.throw] at h
      · simp [throw, throwThe, MonadExceptOf.throw] at h
  · rename_i r0
    cases h1 : parseExpr fuel 0 r0 with
    | error err => simp [h1, bind, Except.bind] at h
    | ok v =>
      obtain ⟨e1, r1⟩ := v
      simp only [h1, bind, Except.bind] at h
      obtain ⟨u1, rfl, d1⟩ := hE _ _ _ _ h1
      split at h
      · rename_i r2
        cases h2 : parseExpr fuel 0 r2 with
        | error err => simp [h2] at h
        | ok v2 =>
          obtain ⟨e2, r3⟩ := v2
          simp only [h2] at h
          obtain ⟨u2, rfl, d2⟩ := hE _ _ _ _ h2
          split at h
          · simp only [pure, Except.pure, Except.ok.injEq, Prod.mk.injEq] at h
            obtain ⟨rfl, rfl⟩ := h
            exact ⟨.log :: .lparen :: u1 ++ .comma :: u2 ++ [.rparen], by simp, .log u1 _ u2 _ d1 d2⟩
          · simp [throw, throwThe, MonadExceptOf.throw] at h
      · simp [throw, throwThe, MonadExceptOf.throw] at h
  · rename_i t r0 _ _ _ _ _ _
    cases hf : fn1OfTok t with
    | some f =>
      simp only [hf] at h
      split at h
      · rename_i r0' _ _
        cases h1 : parseExpr fuel 0 r0' with
        | error err => simp [h1, bind, Except.bind] at h
        | ok v =>
          obtain ⟨e1, r1⟩ := v
          simp only [h1, bind, Except.bind] at h
          obtain ⟨u1, rfl, d1⟩ := hE _ _ _ _ h1
          split at h
          · simp only [pure, Except.pure, Except.ok.injEq, Prod.mk.injEq] at h
            obtain ⟨rfl, rfl⟩ := h
            exact ⟨t :: .lparen :: u1 ++ [.rparen], by simp, .fn1 t f u1 _ hf d1⟩
          · simp [throw, throwThe, MonadExceptOf.throw] at h
      · simp [throw, throwThe, MonadExceptOf.throw] at h
    | none =>
      simp only [hf] at h
      cases hp : preOfTok t with
      | none => simp [hp, throw, throwThe, MonadExceptOf.throw] at h
      | some op =>
        simp only [hp] at h
        cases h1 : optInterval (takesInterval op) r0 with
        | error err => simp [h1, bind, Except.bind] at h
        | ok v1 =>
          obtain ⟨iv, r1⟩ := v1
          simp only [h1, bind, Except.bind] at h
          cases h2 : parseExpr fuel (if op = PreOp.negate then 21 else 18) r1 with
          | error err => simp [h2] at h
          | ok v2 =>
            obtain ⟨e2, r2⟩ := v2
            simp only [h2, pure, Except.pure, Except.ok.injEq, Prod.mk.injEq] at h
            obtain ⟨rfl, rfl⟩ := h
            obtain ⟨ui, rfl, di, hal⟩ := C14_optInterval_sound _ _ _ _ h1
            obtain ⟨ue, rfl, de⟩ := hE _ _ _ _ h2
            exact ⟨t :: ui ++ ue, by simp, .pre t op ui iv ue e2 hp di hal de⟩
  · simp at h

theorem C14_sound_all : ∀ fuel, C14_SoundE fuel ∧ C14_SoundL fuel ∧ C14_SoundP fuel := by
  intro fuel
  induction fuel with
  | zero =>
    refine ⟨?_, ?_, ?_⟩
    · intro p toks e rest h; simp [parseExpr] at h
    · intro p lhs toks e rest h usedL dL
      simp only [parseLoop, Except.ok.injEq, Prod.mk.injEq] at h
      obtain ⟨rfl, rfl⟩ := h
      exact ⟨[], rfl, by simpa using dL⟩
    · intro toks e rest h; simp [parsePrimary] at h
  | succ n ih =>
    obtain ⟨hE, hL, hP⟩ := ih
    exact ⟨C14_soundE_succ n hP hL, C14_soundL_succ n hE hL, C14_soundP_succ n hE⟩

/-- Soundness of the expression parser: what it consumes derives what it returns. -/
theorem C14_parseExpr_sound (fuel p : Nat) (toks : List Tok) (e : PE) (rest : List Tok)
    (h : parseExpr fuel p toks = .ok (e, rest)) :
    ∃ used, toks = used ++ rest ∧ Derives used e := by
  exact (C14_sound_all fuel).1 p toks e rest h

/-- Stronger form used for the assertion list: the anonymous alternative returns no name. -/
theorem C14_parseAssertion_sound_strong (fuel : Nat) (toks : List Tok) (n : Option String) (e : PE)
    (rest : List Tok) (h : parseAssertion fuel toks = .ok ((n, e), rest)) :
    ∃ used, Derives used e ∧
      ((n = none ∧ toks = used ++ .semicolon :: rest) ∨
        ∃ x, n = some x ∧ toks = .ident x :: .equal :: used ++ .semicolon :: rest) := by
  unfold parseAssertion at h
  split at h
  · rename_i x r0
    cases h1 : parseExpr fuel 0 r0 with
    | error err => simp [h1, bind, Except.bind] at h
    | ok v =>
      obtain ⟨e1, r1⟩ := v
      simp only [h1, bind, Except.bind] at h
      obtain ⟨u1, rfl, d1⟩ := C14_parseExpr_sound _ _ _ _ _ h1
      split at h
      · simp only [pure, Except.pure, Except.ok.injEq, Prod.mk.injEq] at h
        obtain ⟨⟨rfl, rfl⟩, rfl⟩ := h
        exact ⟨u1, d1, Or.inr ⟨x, rfl, by simp⟩⟩
      · simp [throw, throwThe, MonadExceptOf.throw] at h
  · cases h1 : parseExpr fuel 0 toks with
    | error err => simp [h1, bind, Except.bind] at h
    | ok v =>
      obtain ⟨e1, r1⟩ := v
      simp only [h1, bind, Except.bind] at h
      obtain ⟨u1, rfl, d1⟩ := C14_parseExpr_sound _ _ _ _ _ h1
      split at h
      · simp only [pure, Except.pure, Except.ok.injEq, Prod.mk.injEq] at h
        obtain ⟨⟨rfl, rfl⟩, rfl⟩ := h
        exact ⟨u1, d1, Or.inl ⟨rfl, rfl⟩⟩
      · simp [throw, throwThe, MonadExceptOf.throw] at h

/-- An assertion: optional `Identifier =`, an expression, `;`. -/
theorem C14_parseAssertion_sound (fuel : Nat) (toks : List Tok) (n : Option String) (e : PE) (rest : List Tok)
    (h : parseAssertion fuel toks = .ok ((n, e), rest)) :
    ∃ used, Derives used e ∧
      (toks = used ++ .semicolon :: rest ∨ ∃ x, n = some x ∧ toks = .ident x :: .equal :: used ++ .semicolon :: rest) := by
  obtain ⟨used, d, hc⟩ := C14_parseAssertion_sound_strong fuel toks n e rest h
  exact ⟨used, d, hc.imp (·.2) id⟩

/-- The language of the assertion list: `((Identifier '=')? expression ';')*`, every token used. -/
inductive DerivesAsserts : List Tok → List (Option String × PE) → Prop
  | nil : DerivesAsserts [] []
  | anon (used e rest as) (h : Derives used e) (hr : DerivesAsserts rest as) :
      DerivesAsserts (used ++ .semicolon :: rest) ((none, e) :: as)
  | named (x used e rest as) (h : Derives used e) (hr : DerivesAsserts rest as) :
      DerivesAsserts (.ident x :: .equal :: used ++ .semicolon :: rest) ((some x, e) :: as)

/-- No trailing garbage: a successful parse of the assertion list derives *all* the tokens and
    yields at least one assertion, provided the iteration bound is positive while nothing has been
    accumulated (`parseSpecToks` calls it with `toks.length + 1`).  Without that proviso the statement
    is false (`k = 0`, `toks = []`, `acc = []` returns `.ok []`): found by the proof attempt, and the
    reason why the model's `parseSpecToks` now passes `toks.length + 1` — before, the model accepted the
    comment-only text `//;` with zero assertions, which the grammar (`assertion+`) does not derive. -/
theorem C14_asserts_consume_all (fuel k : Nat) (toks : List Tok) (acc out : List (Option String × PE))
    (hk : acc = [] → 0 < k)
    (h : parseAsserts fuel k toks acc = .ok out) :
    ∃ news, out = acc.reverse ++ news ∧ DerivesAsserts toks news ∧ (acc = [] → news ≠ []) := by
  induction k generalizing toks acc with
  | zero =>
    simp only [parseAsserts] at h
    split at h
    · rename_i he
      simp only [Except.ok.injEq] at h
      subst h
      have : toks = [] := by simpa using he
      subst this
      exact ⟨[], by simp, .nil, fun ha => absurd (hk ha) (by omega)⟩
    · simp at h
  | succ k ih =>
    cases toks with
    | nil =>
      simp only [parseAsserts] at h
      split at h
      · simp at h
      · rename_i hne
        simp only [Except.ok.injEq] at h
        subst h
        exact ⟨[], by simp, .nil, fun ha => by simp [ha] at hne⟩
    | cons t r0 =>
      simp only [parseAsserts] at h
      cases h1 : parseAssertion fuel (t :: r0) with
      | error err => simp [h1, bind, Except.bind] at h
      | ok v =>
        obtain ⟨⟨n, e⟩, rest⟩ := v
        simp only [h1, bind, Except.bind] at h
        obtain ⟨news, rfl, dn, -⟩ := ih rest ((n, e) :: acc) (by simp) h
        obtain ⟨used, d, hc⟩ := C14_parseAssertion_sound_strong _ _ _ _ _ h1
        refine ⟨(n, e) :: news, by simp, ?_, fun _ => by simp⟩
        rcases hc with ⟨rfl, hc⟩ | ⟨x, rfl, hc⟩
        · rw [hc]; exact .anon used e rest news d dn
        · rw [hc]; exact .named x used e rest news d dn

theorem C14_ivTimeVal_const_declared (consts : List (String × String)) (n : String) (u : Option TUnit)
    (v : Rat × Option TUnit) (h : ivTimeVal consts (.const n u) = .ok v) :
    (consts.lookup n).isSome := by
  unfold ivTimeVal at h
  cases hl : consts.lookup n with
  | none => simp [hl] at h
  | some x => rfl

/-- Side conditions: every interval of an accepted specification satisfies `0 <= begin <= end`
    (on the durations) and refers only to declared constants. -/
theorem C14_sideconds (consts : List (String × String)) (unit : TUnit) (iv : PIv) (i : SIv)
    (h : checkIv consts unit iv = .ok i) :
    0 ≤ i.b ∧ (i.durNs unit).1 ≤ (i.durNs unit).2 ∧
    (∀ n u, iv.b = .const n u → (consts.lookup n).isSome) ∧ (∀ n u, iv.e = .const n u → (consts.lookup n).isSome) := by
  unfold checkIv at h
  cases hb : ivTimeVal consts iv.b with
  | error e => simp [hb, bind, Except.bind] at h
  | ok vb =>
    cases he : ivTimeVal consts iv.e with
    | error e => simp [hb, he, bind, Except.bind] at h
    | ok ve =>
      obtain ⟨b, bu⟩ := vb
      obtain ⟨e, eu⟩ := ve
      simp only [hb, he, bind, Except.bind] at h
      split at h
      · simp [throw, throwThe, MonadExceptOf.throw] at h
      · rename_i hc
        simp only [pure, Except.pure, Except.ok.injEq] at h
        subst h
        rw [not_or] at hc
        refine ⟨Rat.not_lt.mp hc.1, Rat.not_lt.mp hc.2, ?_, ?_⟩
        · intro n u hn
          rw [hn] at hb
          exact C14_ivTimeVal_const_declared _ _ _ _ hb
        · intro n u hn
          rw [hn] at he
          exact C14_ivTimeVal_const_declared _ _ _ _ he

theorem C14_take_takeWhile_length {α} (p : α → Bool) (l : List α) :
    l.take (l.takeWhile p).length = l.takeWhile p := by
  induction l with
  | nil => rfl
  | cons a l ih =>
    by_cases h : p a
    · simp [h, ih]
    · simp [h]

theorem C14_mem_takeWhile_sat {α} (p : α → Bool) (l : List α) (x : α) (hx : x ∈ l.takeWhile p) : p x = true := by
  induction l with
  | nil => simp at hx
  | cons a l ih =>
    by_cases h : p a
    · simp only [List.takeWhile_cons, h, if_true, List.mem_cons] at hx
      rcases hx with rfl | hx
      · exact h
      · exact ih hx
    · simp [h] at hx

/-- The lexer never skips a character silently: a step that yields no token consumed only white
    space or a comment; an illegal character makes the whole lexing fail. -/
theorem C14_lexStep_skip (cs : List Char) (k : Nat) (h : lexStep cs = .ok (k, none)) (hne : cs ≠ []) :
    (∀ c ∈ cs.take k, isWs c = true) ∨ blockCommentLen cs = some k ∨
      (∃ rest, cs = '/' :: '/' :: rest) := by
  cases cs with
  | nil => exact absurd rfl hne
  | cons c l =>
    unfold lexStep at h
    simp only at h
    split at h
    · left
      simp only [Except.ok.injEq, Prod.mk.injEq, and_true] at h
      subst h
      rw [C14_take_takeWhile_length]
      intro x hx
      exact C14_mem_takeWhile_sat _ _ _ hx
    · split at h
      · right; left
        rename_i k' hk
        simp only [Except.ok.injEq, Prod.mk.injEq, and_true] at h
        subst h; exact hk
      · split at h
        · right; right
          rename_i rest heq
          exact ⟨rest, heq⟩
        · split at h
          · simp at h
          · split at h
            · split at h <;> simp at h
            · split at h
              · simp at h
              · split at h <;> simp at h

theorem C14_lex_error_propagates (fuel : Nat) (cs : List Char) (acc : List Tok) (c : Char)
    (h : lexStep cs = .error (.illegal c)) (hne : cs ≠ []) (hf : 0 < fuel) :
    lexAux fuel cs acc = .error (.illegal c) := by
  cases fuel with
  | zero => omega
  | succ n =>
    cases cs with
    | nil => exact absurd rfl hne
    | cons a l => simp only [lexAux, h]

end Rtamt.Front

namespace Rtamt.Front

theorem C14_declTail_length (fuel : Nat) (d d' : Decl) (ts r : List Tok)
    (h : parseDecl.declTail fuel d ts = .ok (d', r)) : r.length ≤ ts.length := by
  unfold parseDecl.declTail at h
  split at h
  · rename_i rest
    cases h1 : parseExpr fuel 0 rest with
    | error e => simp [h1] at h
    | ok v =>
      obtain ⟨e, r'⟩ := v
      simp only [h1, Except.ok.injEq, Prod.mk.injEq] at h
      obtain ⟨-, rfl⟩ := h
      obtain ⟨used, rfl, -⟩ := C14_parseExpr_sound _ _ _ _ _ h1
      simp; omega
  · simp only [Except.ok.injEq, Prod.mk.injEq] at h
    obtain ⟨-, rfl⟩ := h
    exact Nat.le_refl _

theorem C14_parseDecl_length (fuel : Nat) (ts : List Tok) (d : Decl) (r : List Tok)
    (h : parseDecl fuel ts = some (.ok (d, r))) : r.length ≤ ts.length := by
  unfold parseDecl at h
  split at h
  all_goals (try split at h)
  all_goals (try simp only [Option.some.injEq, Except.ok.injEq, Prod.mk.injEq, reduceCtorEq] at h)
  all_goals first
    | (obtain ⟨-, rfl⟩ := h; simp; omega)
    | (have := C14_declTail_length _ _ _ _ _ h; simp; omega)

theorem C14_parseDecls_length (fuel k : Nat) (ts : List Tok) (acc ds : List Decl) (r : List Tok)
    (h : parseDecls fuel k ts acc = .ok (ds, r)) : r.length ≤ ts.length := by
  induction k generalizing ts acc with
  | zero =>
    simp only [parseDecls, Except.ok.injEq, Prod.mk.injEq] at h
    obtain ⟨-, rfl⟩ := h
    exact Nat.le_refl _
  | succ k ih =>
    simp only [parseDecls] at h
    split at h
    · rename_i d rest hd
      have h1 := C14_parseDecl_length _ _ _ _ hd
      have h2 := ih _ _ h
      omega
    · simp at h
    · simp only [Except.ok.injEq, Prod.mk.injEq] at h
      obtain ⟨-, rfl⟩ := h
      exact Nat.le_refl _

/-- At the level of a whole specification: a successful parse yields at least one assertion, and the
    assertions derive all the tokens that follow the declarations. -/
theorem C14_spec_sound (toks : List Tok) (spec : PSpec) (h : parseSpecToks toks = .ok spec) :
    spec.asserts ≠ [] ∧ ∃ rest, DerivesAsserts rest spec.asserts ∧ rest.length ≤ toks.length := by
  unfold parseSpecToks at h
  simp only [bind, Except.bind, pure, Except.pure] at h
  split at h
  · simp at h
  · rename_i v hd
    obtain ⟨decls, r1⟩ := v
    simp only at h
    split at h
    · simp at h
    · rename_i asserts ha
      simp only [Except.ok.injEq] at h
      subst h
      obtain ⟨news, hout, hder, hne⟩ :=
        C14_asserts_consume_all _ _ _ _ _ (fun _ => Nat.succ_pos _) ha
      simp only [List.reverse_nil, List.nil_append] at hout
      subst hout
      refine ⟨hne rfl, r1, hder, ?_⟩
      have hlen := C14_parseDecls_length _ _ _ _ _ _ hd
      refine Nat.le_trans hlen ?_
      split
      · simp only [List.length_cons]; omega
      · exact Nat.le_refl _

end Rtamt.Front
