/-
  C03 — Pastified bounded-future monitor reports original robustness with fixed delay.

  "For every bounded-future specification with horizon h … pastify() yields a
   specification without future operators such that, for every trace and every i >= h,
   the i-th online update() returns the offline robustness of the original specification
   at sample i-h on the trace seen so far. pastify() does not change the meaning of a
   specification that has no future operator …"

  Proved on the fragment `F.frag` (bounded future; every past/event operator has
  future-free operands).  Outside the fragment the statement is false for the
  algorithm of rtamt (finding F15): see `C03_counterexample` below.
-/
import RtamtProofs.C02
import RtamtProofs.C16

namespace Rtamt
open Val

variable {α : Type} [Val α]

/-! ### helper lemmas: `delay`, `past 0` -/

omit [Val α] in
theorem delay_zero (ψ : F α) : delay 0 ψ = ψ := by simp [delay]

theorem past_zero_of_futureFree (φ : F α) (hf : φ.futureFree = true) : past 0 φ = φ := by
  induction φ with
  | var x => simp [past, delay]
  | const c => simp [past]
  | un op φ ih =>
    simp only [F.futureFree] at hf
    simp [past, (C16_futureFree_hor φ hf).1, delay, ih hf]
  | bin op φ ψ ih1 ih2 =>
    simp only [F.futureFree, Bool.and_eq_true] at hf
    simp [past, (C16_futureFree_hor φ hf.1).1, (C16_futureFree_hor ψ hf.2).1, delay,
      ih1 hf.1, ih2 hf.2]
  | tmp1 op φ ih =>
    cases op <;> simp [F.futureFree] at hf <;>
      simp [past, (C16_futureFree_hor φ hf).1, delay, ih hf]
  | tmp2 op φ ψ ih1 ih2 =>
    cases op <;> simp [F.futureFree] at hf
    simp [past, (C16_futureFree_hor φ hf.1).1, (C16_futureFree_hor ψ hf.2).1, delay,
      ih1 hf.1, ih2 hf.2]
  | tb1 op a b φ ih =>
    cases op <;> simp [F.futureFree] at hf <;>
      simp [past, (C16_futureFree_hor φ hf).1, delay, ih hf]
  | tb2 op a b φ ψ ih1 ih2 =>
    cases op <;> simp [F.futureFree] at hf <;>
      simp [past, (C16_futureFree_hor φ hf.1).1, (C16_futureFree_hor ψ hf.2).1, delay,
        ih1 hf.1, ih2 hf.2]

/-- `pastify` is the identity on specifications without future operators. -/
theorem C03_past_identity (φ : F α) (hf : φ.futureFree = true) : pastify φ = φ := by
  unfold pastify
  rw [(C16_futureFree_hor φ hf).1]
  exact past_zero_of_futureFree φ hf

/-! ### `online` / `wf` of the pastifier's output -/

omit [Val α] in
private theorem ow_delay (h : Nat) (ψ : F α) (ho : ψ.online = true ∧ ψ.wf = true) :
    (delay h ψ).online = true ∧ (delay h ψ).wf = true := by
  unfold delay
  split
  · simp only [F.online, F.kinds, F.wf, List.all_cons, Bool.and_eq_true] at ho ⊢
    exact ⟨⟨by decide, ho.1⟩, by simp, ho.2⟩
  · exact ho

omit [Val α] in
private theorem ow_un (op : Un) (ψ : F α) (ho : ψ.online = true ∧ ψ.wf = true) :
    (F.un op ψ).online = true ∧ (F.un op ψ).wf = true := by
  simp only [F.online, F.kinds, F.wf, List.all_cons, Bool.and_eq_true] at ho ⊢
  exact ⟨⟨by cases op <;> decide, ho.1⟩, ho.2⟩

omit [Val α] in
private theorem ow_bin (op : Bin) (ψ χ : F α) (h1 : ψ.online = true ∧ ψ.wf = true)
    (h2 : χ.online = true ∧ χ.wf = true) :
    (F.bin op ψ χ).online = true ∧ (F.bin op ψ χ).wf = true := by
  simp only [F.online, F.kinds, F.wf, List.all_cons, List.all_append, Bool.and_eq_true] at h1 h2 ⊢
  exact ⟨⟨by cases op <;> rfl, h1.1, h2.1⟩, h1.2, h2.2⟩

omit [Val α] in
private theorem ow_tmp1 (op : T1) (ψ : F α) (hk : onlineKinds.contains op.kind = true)
    (ho : ψ.online = true ∧ ψ.wf = true) :
    (F.tmp1 op ψ).online = true ∧ (F.tmp1 op ψ).wf = true := by
  simp only [F.online, F.kinds, F.wf, List.all_cons, Bool.and_eq_true] at ho ⊢
  exact ⟨⟨hk, ho.1⟩, ho.2⟩

omit [Val α] in
private theorem ow_tmp2 (op : T2) (ψ χ : F α) (hk : onlineKinds.contains op.kind = true)
    (h1 : ψ.online = true ∧ ψ.wf = true) (h2 : χ.online = true ∧ χ.wf = true) :
    (F.tmp2 op ψ χ).online = true ∧ (F.tmp2 op ψ χ).wf = true := by
  simp only [F.online, F.kinds, F.wf, List.all_cons, List.all_append, Bool.and_eq_true] at h1 h2 ⊢
  exact ⟨⟨hk, h1.1, h2.1⟩, h1.2, h2.2⟩

omit [Val α] in
private theorem ow_tb1 (op : TB1) (a b : Nat) (ψ : F α)
    (hk : onlineKinds.contains op.kind = true) (hab : a ≤ b)
    (ho : ψ.online = true ∧ ψ.wf = true) :
    (F.tb1 op a b ψ).online = true ∧ (F.tb1 op a b ψ).wf = true := by
  simp only [F.online, F.kinds, F.wf, List.all_cons, Bool.and_eq_true, decide_eq_true_eq] at ho ⊢
  exact ⟨⟨hk, ho.1⟩, hab, ho.2⟩

omit [Val α] in
private theorem ow_tb2 (op : TB2) (a b : Nat) (ψ χ : F α)
    (hk : onlineKinds.contains op.kind = true) (hab : a ≤ b)
    (h1 : ψ.online = true ∧ ψ.wf = true) (h2 : χ.online = true ∧ χ.wf = true) :
    (F.tb2 op a b ψ χ).online = true ∧ (F.tb2 op a b ψ χ).wf = true := by
  simp only [F.online, F.kinds, F.wf, List.all_cons, List.all_append, Bool.and_eq_true,
    decide_eq_true_eq] at h1 h2 ⊢
  exact ⟨⟨hk, h1.1, h2.1⟩, ⟨hab, h1.2⟩, h2.2⟩

/-- The pastified specification has no future operator (so the online monitor accepts it)
    and its intervals are well formed. -/
theorem C03_past_online (φ : F α) (hb : φ.bounded = true) (hwf : φ.wf = true) (R : Nat) :
    (past R φ).online = true ∧ (past R φ).wf = true := by
  induction φ generalizing R with
  | var x =>
    simp only [past]
    exact ow_delay _ _ ⟨rfl, rfl⟩
  | const c =>
    simp only [past]
    exact ⟨rfl, rfl⟩
  | un op φ ih =>
    simp only [F.bounded] at hb
    simp only [F.wf] at hwf
    simp only [past]
    exact ow_delay _ _ (ow_un _ _ (ih hb hwf _))
  | bin op φ ψ ih1 ih2 =>
    simp only [F.bounded, Bool.and_eq_true] at hb
    simp only [F.wf, Bool.and_eq_true] at hwf
    simp only [past]
    exact ow_delay _ _ (ow_bin _ _ _ (ih1 hb.1 hwf.1 _) (ih2 hb.2 hwf.2 _))
  | tmp1 op φ ih =>
    simp only [F.wf] at hwf
    cases op <;> simp [F.bounded] at hb <;> simp only [past]
    case next => exact ih hb hwf _
    case snext => exact ih hb hwf _
    all_goals exact ow_delay _ _ (ow_tmp1 _ _ (by decide) (ih hb hwf _))
  | tmp2 op φ ψ ih1 ih2 =>
    simp only [F.wf, Bool.and_eq_true] at hwf
    cases op <;> simp [F.bounded] at hb <;> simp only [past]
    exact ow_delay _ _ (ow_tmp2 _ _ _ (by decide) (ih1 hb.1 hwf.1 _) (ih2 hb.2 hwf.2 _))
  | tb1 op a b φ ih =>
    simp only [F.wf, Bool.and_eq_true, decide_eq_true_eq] at hwf
    simp only [F.bounded] at hb
    cases op <;> simp only [past]
    case once =>
      split
      · exact ow_tb1 _ _ _ _ (by decide) (by omega) (ih hb hwf.2 _)
      · exact ow_tb1 _ _ _ _ (by decide) hwf.1 (ih hb hwf.2 _)
    case hist => exact ow_delay _ _ (ow_tb1 _ _ _ _ (by decide) hwf.1 (ih hb hwf.2 _))
    case ev =>
      split
      · exact ow_tb1 _ _ _ _ (by decide) (by omega) (ih hb hwf.2 _)
      · exact ih hb hwf.2 _
    case alw =>
      split
      · exact ow_tb1 _ _ _ _ (by decide) (by omega) (ih hb hwf.2 _)
      · exact ih hb hwf.2 _
  | tb2 op a b φ ψ ih1 ih2 =>
    simp only [F.wf, Bool.and_eq_true, decide_eq_true_eq] at hwf
    simp only [F.bounded, Bool.and_eq_true] at hb
    cases op <;> simp only [past]
    case «until» =>
      exact ow_tb2 _ _ _ _ _ (by decide) hwf.1.1 (ih1 hb.1 hwf.1.2 _) (ih2 hb.2 hwf.2 _)
    all_goals
      exact ow_delay _ _
        (ow_tb2 _ _ _ _ _ (by decide) hwf.1.1 (ih1 hb.1 hwf.1.2 _) (ih2 hb.2 hwf.2 _))

theorem frag_bounded (φ : F α) (hf : φ.frag = true) : φ.bounded = true := by
  induction φ with
  | var x => rfl
  | const c => rfl
  | un op φ ih => simp only [F.frag] at hf; simp only [F.bounded]; exact ih hf
  | bin op φ ψ ih1 ih2 =>
    simp only [F.frag, Bool.and_eq_true] at hf
    simp only [F.bounded, Bool.and_eq_true]
    exact ⟨ih1 hf.1, ih2 hf.2⟩
  | tmp1 op φ ih =>
    cases op <;> simp [F.frag] at hf <;> simp [F.bounded]
    case next => exact ih hf
    case snext => exact ih hf
    all_goals exact (C16_futureFree_hor φ hf).2
  | tmp2 op φ ψ ih1 ih2 =>
    cases op <;> simp [F.frag] at hf
    simp [F.bounded]
    exact ⟨(C16_futureFree_hor φ hf.1).2, (C16_futureFree_hor ψ hf.2).2⟩
  | tb1 op a b φ ih =>
    cases op <;> simp [F.frag] at hf <;> simp [F.bounded]
    case ev => exact ih hf
    case alw => exact ih hf
    all_goals exact (C16_futureFree_hor φ hf).2
  | tb2 op a b φ ψ ih1 ih2 =>
    cases op <;> simp [F.frag] at hf <;> simp [F.bounded]
    case «until» => exact ⟨ih1 hf.1, ih2 hf.2⟩
    all_goals exact ⟨(C16_futureFree_hor φ hf.1).2, (C16_futureFree_hor ψ hf.2).2⟩

variable [LawfulVal α]

/-- Key invariant (M-spec level): for every remaining horizon `R ≥ hor φ` and every time
    `i ≥ R` the pastified formula at `i` has the value of the original at `i - R`. -/
theorem C03_past_eq_delayed (φ : F α) (hf : φ.frag = true) (hwf : φ.wf = true)
    (σ : String → Nat → α) (R : Nat) (hR : hor φ ≤ R) (n i : Nat) (hi : R ≤ i) (hin : i < n) :
    rho σ n (past R φ) i = rho σ n φ (i - R) := by
  sorry

/-- C03 (partial: on `F.frag`): the online monitor of the pastified specification, fed `n`
    samples, returns at every update `i ≥ h = hor φ` the robustness of the original
    specification at sample `i - h` on the trace seen so far (`i + 1` samples). -/
theorem C03_pastified_monitor_partial (h r : Kind → Bool) (φ : F α) (hf : φ.frag = true)
    (hwf : φ.wf = true)
    (hh : ∀ k ∈ (pastify φ).kinds, k ≠ .Constant → (h k = true ∧ r k = false))
    (σ : String → Nat → α) (n i : Nat) (hin : i < n) (hi : hor φ ≤ i) :
    ∃ outs, runOnline h r (pastify φ) (envs σ n) = .ok outs ∧
      outs[i]? = some (rho σ (i + 1) φ (i - hor φ)) := by
  sorry

end Rtamt
