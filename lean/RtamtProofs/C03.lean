/-
  C03 — Pastified bounded-future monitor reports original robustness with fixed delay.

  "For every bounded-future specification with horizon h … pastify() yields a
   specification without future operators such that, for every trace and every i >= h,
   the i-th online update() returns the offline robustness of the original specification
   at sample i-h on the trace seen so far. pastify() does not change the meaning of a
   specification that has no future operator …"

  Proved on the fragment `F.frag` (bounded future; every past/event operator has
  future-free operands).  Outside the fragment the statement is false for the
  algorithm of rtamt (finding F15): see `C03_counterexample` below.
-/
import RtamtProofs.C02
import RtamtProofs.C16

namespace Rtamt
open Val

variable {α : Type} [Val α]

/-! ### helper lemmas: `delay`, `past 0` -/

omit [Val α] in
theorem delay_zero (ψ : F α) : delay 0 ψ = ψ := by simp [delay]

theorem past_zero_of_futureFree (φ : F α) (hf : φ.futureFree = true) : past 0 φ = φ := by
  induction φ with
  | var x => simp [past, delay]
  | const c => simp [past]
  | un op φ ih =>
    simp only [F.futureFree] at hf
    simp [past, (C16_futureFree_hor φ hf).1, delay, ih hf]
  | bin op φ ψ ih1 ih2 =>
    simp only [F.futureFree, Bool.and_eq_true] at hf
    simp [past, (C16_futureFree_hor φ hf.1).1, (C16_futureFree_hor ψ hf.2).1, delay,
      ih1 hf.1, ih2 hf.2]
  | tmp1 op φ ih =>
    cases op <;> simp [F.futureFree] at hf <;>
      simp [past, (C16_futureFree_hor φ hf).1, delay, ih hf]
  | tmp2 op φ ψ ih1 ih2 =>
    cases op <;> simp [F.futureFree] at hf
    simp [past, (C16_futureFree_hor φ hf.1).1, (C16_futureFree_hor ψ hf.2).1, delay,
      ih1 hf.1, ih2 hf.2]
  | tb1 op a b φ ih =>
    cases op <;> simp [F.futureFree] at hf <;>
      simp [past, (C16_futureFree_hor φ hf).1, delay, ih hf]
  | tb2 op a b φ ψ ih1 ih2 =>
    cases op <;> simp [F.futureFree] at hf <;>
      simp [past, (C16_futureFree_hor φ hf.1).1, (C16_futureFree_hor ψ hf.2).1, delay,
        ih1 hf.1, ih2 hf.2]

/-- `pastify` is the identity on specifications without future operators. -/
theorem C03_past_identity (φ : F α) (hf : φ.futureFree = true) : pastify φ = φ := by
  unfold pastify
  rw [(C16_futureFree_hor φ hf).1]
  exact past_zero_of_futureFree φ hf

/-! ### `online` / `wf` of the pastifier's output -/

omit [Val α] in
private theorem ow_delay (h : Nat) (ψ : F α) (ho : ψ.online = true ∧ ψ.wf = true) :
    (delay h ψ).online = true ∧ (delay h ψ).wf = true := by
  unfold delay
  split
  · simp only [F.online, F.kinds, F.wf, List.all_cons, Bool.and_eq_true] at ho ⊢
    exact ⟨⟨by decide, ho.1⟩, by simp, ho.2⟩
  · exact ho

omit [Val α] in
private theorem ow_un (op : Un) (ψ : F α) (ho : ψ.online = true ∧ ψ.wf = true) :
    (F.un op ψ).online = true ∧ (F.un op ψ).wf = true := by
  simp only [F.online, F.kinds, F.wf, List.all_cons, Bool.and_eq_true] at ho ⊢
  exact ⟨⟨by cases op <;> decide, ho.1⟩, ho.2⟩

omit [Val α] in
private theorem ow_bin (op : Bin) (ψ χ : F α) (h1 : ψ.online = true ∧ ψ.wf = true)
    (h2 : χ.online = true ∧ χ.wf = true) :
    (F.bin op ψ χ).online = true ∧ (F.bin op ψ χ).wf = true := by
  simp only [F.online, F.kinds, F.wf, List.all_cons, List.all_append, Bool.and_eq_true] at h1 h2 ⊢
  exact ⟨⟨by cases op <;> rfl, h1.1, h2.1⟩, h1.2, h2.2⟩

omit [Val α] in
private theorem ow_tmp1 (op : T1) (ψ : F α) (hk : onlineKinds.contains op.kind = true)
    (ho : ψ.online = true ∧ ψ.wf = true) :
    (F.tmp1 op ψ).online = true ∧ (F.tmp1 op ψ).wf = true := by
  simp only [F.online, F.kinds, F.wf, List.all_cons, Bool.and_eq_true] at ho ⊢
  exact ⟨⟨hk, ho.1⟩, ho.2⟩

omit [Val α] in
private theorem ow_tmp2 (op : T2) (ψ χ : F α) (hk : onlineKinds.contains op.kind = true)
    (h1 : ψ.online = true ∧ ψ.wf = true) (h2 : χ.online = true ∧ χ.wf = true) :
    (F.tmp2 op ψ χ).online = true ∧ (F.tmp2 op ψ χ).wf = true := by
  simp only [F.online, F.kinds, F.wf, List.all_cons, List.all_append, Bool.and_eq_true] at h1 h2 ⊢
  exact ⟨⟨hk, h1.1, h2.1⟩, h1.2, h2.2⟩

omit [Val α] in
private theorem ow_tb1 (op : TB1) (a b : Nat) (ψ : F α)
    (hk : onlineKinds.contains op.kind = true) (hab : a ≤ b)
    (ho : ψ.online = true ∧ ψ.wf = true) :
    (F.tb1 op a b ψ).online = true ∧ (F.tb1 op a b ψ).wf = true := by
  simp only [F.online, F.kinds, F.wf, List.all_cons, Bool.and_eq_true, decide_eq_true_eq] at ho ⊢
  exact ⟨⟨hk, ho.1⟩, hab, ho.2⟩

omit [Val α] in
private theorem ow_tb2 (op : TB2) (a b : Nat) (ψ χ : F α)
    (hk : onlineKinds.contains op.kind = true) (hab : a ≤ b)
    (h1 : ψ.online = true ∧ ψ.wf = true) (h2 : χ.online = true ∧ χ.wf = true) :
    (F.tb2 op a b ψ χ).online = true ∧ (F.tb2 op a b ψ χ).wf = true := by
  simp only [F.online, F.kinds, F.wf, List.all_cons, List.all_append, Bool.and_eq_true,
    decide_eq_true_eq] at h1 h2 ⊢
  exact ⟨⟨hk, h1.1, h2.1⟩, ⟨hab, h1.2⟩, h2.2⟩

set_option linter.unusedSectionVars false in
/-- The pastified specification has no future operator (so the online monitor accepts it)
    and its intervals are well formed. -/
theorem C03_past_online (φ : F α) (hb : φ.bounded = true) (hwf : φ.wf = true) (R : Nat) :
    (past R φ).online = true ∧ (past R φ).wf = true := by
  induction φ generalizing R with
  | var x =>
    simp only [past]
    exact ow_delay _ _ ⟨rfl, rfl⟩
  | const c =>
    simp only [past]
    exact ⟨rfl, rfl⟩
  | un op φ ih =>
    simp only [F.bounded] at hb
    simp only [F.wf] at hwf
    simp only [past]
    exact ow_delay _ _ (ow_un _ _ (ih hb hwf _))
  | bin op φ ψ ih1 ih2 =>
    simp only [F.bounded, Bool.and_eq_true] at hb
    simp only [F.wf, Bool.and_eq_true] at hwf
    simp only [past]
    exact ow_delay _ _ (ow_bin _ _ _ (ih1 hb.1 hwf.1 _) (ih2 hb.2 hwf.2 _))
  | tmp1 op φ ih =>
    simp only [F.wf] at hwf
    cases op <;> simp [F.bounded] at hb <;> simp only [past]
    case next => exact ih hb hwf _
    case snext => exact ih hb hwf _
    all_goals exact ow_delay _ _ (ow_tmp1 _ _ (by decide) (ih hb hwf _))
  | tmp2 op φ ψ ih1 ih2 =>
    simp only [F.wf, Bool.and_eq_true] at hwf
    cases op <;> simp [F.bounded] at hb
    simp only [past]
    exact ow_delay _ _ (ow_tmp2 _ _ _ (by decide) (ih1 hb.1 hwf.1 _) (ih2 hb.2 hwf.2 _))
  | tb1 op a b φ ih =>
    simp only [F.wf, Bool.and_eq_true, decide_eq_true_eq] at hwf
    simp only [F.bounded] at hb
    cases op <;> simp only [past]
    case once =>
      split
      · exact ow_tb1 _ _ _ _ (by decide) (by omega) (ih hb hwf.2 _)
      · exact ow_tb1 _ _ _ _ (by decide) hwf.1 (ih hb hwf.2 _)
    case hist => exact ow_delay _ _ (ow_tb1 _ _ _ _ (by decide) hwf.1 (ih hb hwf.2 _))
    case ev =>
      split
      · exact ow_tb1 _ _ _ _ (by decide) (by omega) (ih hb hwf.2 _)
      · exact ih hb hwf.2 _
    case alw =>
      split
      · exact ow_tb1 _ _ _ _ (by decide) (by omega) (ih hb hwf.2 _)
      · exact ih hb hwf.2 _
  | tb2 op a b φ ψ ih1 ih2 =>
    simp only [F.wf, Bool.and_eq_true, decide_eq_true_eq] at hwf
    simp only [F.bounded, Bool.and_eq_true] at hb
    cases op <;> simp only [past]
    case «until» =>
      exact ow_tb2 _ _ _ _ _ (by decide) hwf.1.1 (ih1 hb.1 hwf.1.2 _) (ih2 hb.2 hwf.2 _)
    all_goals
      exact ow_delay _ _
        (ow_tb2 _ _ _ _ _ (by decide) hwf.1.1 (ih1 hb.1 hwf.1.2 _) (ih2 hb.2 hwf.2 _))

theorem frag_bounded (φ : F α) (hf : φ.frag = true) : φ.bounded = true := by
  induction φ with
  | var x => rfl
  | const c => rfl
  | un op φ ih => simp only [F.frag] at hf; simp only [F.bounded]; exact ih hf
  | bin op φ ψ ih1 ih2 =>
    simp only [F.frag, Bool.and_eq_true] at hf
    simp only [F.bounded, Bool.and_eq_true]
    exact ⟨ih1 hf.1, ih2 hf.2⟩
  | tmp1 op φ ih =>
    cases op <;> simp [F.frag] at hf <;> simp [F.bounded]
    case next => exact ih hf
    case snext => exact ih hf
    all_goals exact (C16_futureFree_hor φ hf).2
  | tmp2 op φ ψ ih1 ih2 =>
    cases op <;> simp [F.frag] at hf
    simp [F.bounded]
    exact ⟨(C16_futureFree_hor φ hf.1).2, (C16_futureFree_hor ψ hf.2).2⟩
  | tb1 op a b φ ih =>
    cases op <;> simp [F.frag] at hf <;> simp [F.bounded]
    case ev => exact ih hf
    case alw => exact ih hf
    all_goals exact (C16_futureFree_hor φ hf).2
  | tb2 op a b φ ψ ih1 ih2 =>
    cases op <;> simp [F.frag] at hf <;> simp [F.bounded]
    case «until» => exact ⟨ih1 hf.1, ih2 hf.2⟩
    all_goals exact ⟨(C16_futureFree_hor φ hf.1).2, (C16_futureFree_hor ψ hf.2).2⟩

variable [LawfulVal α]

/-! ### window lemmas -/

private theorem maxOver_single (k : Nat) (f : Nat → α) : maxOver k (k + 1) f = f k := by
  apply eq_of_ub
  intro c
  rw [maxOver_le_iff]
  constructor
  · intro h; exact h k le_rfl (by omega)
  · intro h t h1 h2
    have : t = k := by omega
    subst this; exact h

private theorem minOver_single (k : Nat) (f : Nat → α) : minOver k (k + 1) f = f k := by
  apply eq_of_lb
  intro c
  rw [le_minOver_iff]
  constructor
  · intro h; exact h k le_rfl (by omega)
  · intro h t h1 h2
    have : t = k := by omega
    subst this; exact h

/-- Re-indexing a window by a shift `d`. -/
private theorem maxOver_shift (lo hi lo' hi' d : Nat) (g f : Nat → α)
    (hlo : lo = lo' + d) (hhi : hi = hi' + d)
    (e : ∀ t, lo' ≤ t → t < hi' → g (t + d) = f t) : maxOver lo hi g = maxOver lo' hi' f := by
  apply eq_of_ub
  intro c
  rw [maxOver_le_iff, maxOver_le_iff]
  constructor
  · intro h t h1 h2
    have := h (t + d) (by omega) (by omega)
    rwa [e t h1 h2] at this
  · intro h t h1 h2
    have := h (t - d) (by omega) (by omega)
    rw [← e (t - d) (by omega) (by omega)] at this
    have ht : t - d + d = t := by omega
    rwa [ht] at this

private theorem minOver_shift (lo hi lo' hi' d : Nat) (g f : Nat → α)
    (hlo : lo = lo' + d) (hhi : hi = hi' + d)
    (e : ∀ t, lo' ≤ t → t < hi' → g (t + d) = f t) : minOver lo hi g = minOver lo' hi' f := by
  apply eq_of_lb
  intro c
  rw [le_minOver_iff, le_minOver_iff]
  constructor
  · intro h t h1 h2
    have := h (t + d) (by omega) (by omega)
    rwa [e t h1 h2] at this
  · intro h t h1 h2
    have := h (t - d) (by omega) (by omega)
    rw [← e (t - d) (by omega) (by omega)] at this
    have ht : t - d + d = t := by omega
    rwa [ht] at this

/-- `once[h,h]` is a pure delay by `h` samples. -/
private theorem rho_delay (σ : String → Nat → α) (n : Nat) (ψ : F α) (h i : Nat) (hi : h ≤ i) :
    rho σ n (delay h ψ) i = rho σ n ψ (i - h) := by
  unfold delay
  split
  · simp only [rho]
    have e : i + 1 - h = (i - h) + 1 := by omega
    rw [e, maxOver_single]
  · have e : i - h = i := by omega
    rw [e]

/-- Key invariant (M-spec level): for every remaining horizon `R ≥ hor φ` and every time
    `i ≥ R` the pastified formula at `i` has the value of the original at `i - R`. -/
theorem C03_past_eq_delayed (φ : F α) (hf : φ.frag = true) (hwf : φ.wf = true)
    (σ : String → Nat → α) (R : Nat) (hR : hor φ ≤ R) (n i : Nat) (hi : R ≤ i) (hin : i < n) :
    rho σ n (past R φ) i = rho σ n φ (i - R) := by
  induction φ generalizing R i with
  | var x =>
    simp only [past]
    rw [rho_delay _ _ _ _ _ hi]
  | const c => simp only [past, rho]
  | un op φ ih =>
    simp only [F.frag] at hf
    simp only [F.wf] at hwf
    simp only [hor] at hR
    simp only [past]
    rw [rho_delay _ _ _ _ _ (by omega)]
    simp only [rho]
    rw [ih hf hwf (hor φ) le_rfl (i - (R - hor φ)) (by omega) (by omega)]
    have e : i - (R - hor φ) - hor φ = i - R := by omega
    rw [e]
  | bin op φ ψ ih1 ih2 =>
    simp only [F.frag, Bool.and_eq_true] at hf
    simp only [F.wf, Bool.and_eq_true] at hwf
    simp only [hor] at hR
    simp only [past]
    rw [rho_delay _ _ _ _ _ (by omega)]
    simp only [rho]
    have hm1 : hor φ ≤ max (hor φ) (hor ψ) := le_max_left _ _
    have hm2 : hor ψ ≤ max (hor φ) (hor ψ) := le_max_right _ _
    rw [ih1 hf.1 hwf.1 _ hm1 (i - (R - max (hor φ) (hor ψ))) (by omega) (by omega),
      ih2 hf.2 hwf.2 _ hm2 (i - (R - max (hor φ) (hor ψ))) (by omega) (by omega)]
    have e : i - (R - max (hor φ) (hor ψ)) - max (hor φ) (hor ψ) = i - R := by omega
    rw [e]
  | tmp1 op φ ih =>
    simp only [F.wf] at hwf
    cases op <;> simp [F.frag] at hf <;> simp only [hor] at hR <;> simp only [past]
    case next =>
      rw [ih hf hwf (R - 1) (by omega) i (by omega) hin]
      simp only [rho]
      have e : i - R + 1 = i - (R - 1) := by omega
      rw [if_pos (by omega), e]
    case snext =>
      rw [ih hf hwf (R - 1) (by omega) i (by omega) hin]
      simp only [rho]
      have e : i - R + 1 = i - (R - 1) := by omega
      rw [if_pos (by omega), e]
    all_goals
      rw [(C16_futureFree_hor φ hf).1, past_zero_of_futureFree φ hf, rho_delay _ _ _ _ _ (by omega), Nat.sub_zero]
  | tmp2 op φ ψ ih1 ih2 =>
    cases op <;> simp [F.frag] at hf
    simp only [past]
    rw [(C16_futureFree_hor φ hf.1).1, (C16_futureFree_hor ψ hf.2).1, Nat.max_self,
      past_zero_of_futureFree φ hf.1, past_zero_of_futureFree ψ hf.2,
      rho_delay _ _ _ _ _ (by omega), Nat.sub_zero]
  | tb1 op a b φ ih =>
    simp only [F.wf, Bool.and_eq_true, decide_eq_true_eq] at hwf
    cases op <;> simp [F.frag] at hf <;> simp only [hor] at hR <;> simp only [past]
    case once =>
      rw [(C16_futureFree_hor φ hf).1, past_zero_of_futureFree φ hf]
      split
      · simp only [rho]
        have e1 : i - (b + (R - 0)) = i - R - b := by omega
        have e2 : i + 1 - (a + (R - 0)) = i - R + 1 - a := by omega
        rw [e1, e2]
      · have e : i - R = i := by omega
        rw [e]
    case hist =>
      rw [(C16_futureFree_hor φ hf).1, past_zero_of_futureFree φ hf, rho_delay _ _ _ _ _ (by omega),
        Nat.sub_zero]
    case ev =>
      have key : ∀ t, i - R + a ≤ t → t < i - R + b + 1 →
          rho σ n (past (R - b) φ) (t + (R - b)) = rho σ n φ t := by
        intro t h1 h2
        rw [ih hf hwf.2 (R - b) (by omega) (t + (R - b)) (by omega) (by omega),
          Nat.add_sub_cancel]
      have hmin : min (i - R + b + 1) n = i - R + b + 1 := Nat.min_eq_left (by omega)
      split
      · simp only [rho]
        rw [hmin]
        exact maxOver_shift _ _ _ _ (R - b) _ _ (by omega) (by omega) key
      · simp only [rho]
        rw [hmin]
        have hab : b = a := by omega
        subst hab
        rw [maxOver_single, ← key (i - R + b) (by omega) (by omega)]
        congr 1
        omega
    case alw =>
      have key : ∀ t, i - R + a ≤ t → t < i - R + b + 1 →
          rho σ n (past (R - b) φ) (t + (R - b)) = rho σ n φ t := by
        intro t h1 h2
        rw [ih hf hwf.2 (R - b) (by omega) (t + (R - b)) (by omega) (by omega),
          Nat.add_sub_cancel]
      have hmin : min (i - R + b + 1) n = i - R + b + 1 := Nat.min_eq_left (by omega)
      split
      · simp only [rho]
        rw [hmin]
        exact minOver_shift _ _ _ _ (R - b) _ _ (by omega) (by omega) key
      · simp only [rho]
        rw [hmin]
        have hab : b = a := by omega
        subst hab
        rw [minOver_single, ← key (i - R + b) (by omega) (by omega)]
        congr 1
        omega
  | tb2 op a b φ ψ ih1 ih2 =>
    simp only [F.wf, Bool.and_eq_true, decide_eq_true_eq] at hwf
    cases op <;> simp [F.frag] at hf <;> simp only [hor] at hR <;> simp only [past]
    case «until» =>
      have hm1 : hor φ ≤ max (hor φ) (hor ψ) := le_max_left _ _
      have hm2 : hor ψ ≤ max (hor φ) (hor ψ) := le_max_right _ _
      have key1 : ∀ t, i - R ≤ t → t < i - R + b + 1 →
          rho σ n (past (R - b) φ) (t + (R - b)) = rho σ n φ t := by
        intro t h1 h2
        rw [ih1 hf.1 hwf.1.2 (R - b) (by omega) (t + (R - b)) (by omega) (by omega),
          Nat.add_sub_cancel]
      have key2 : ∀ t, i - R ≤ t → t < i - R + b + 1 →
          rho σ n (past (R - b) ψ) (t + (R - b)) = rho σ n ψ t := by
        intro t h1 h2
        rw [ih2 hf.2 hwf.2 (R - b) (by omega) (t + (R - b)) (by omega) (by omega),
          Nat.add_sub_cancel]
      have hmin : min (i - R + b + 1) n = i - R + b + 1 := Nat.min_eq_left (by omega)
      simp only [rho]
      rw [hmin]
      apply maxOver_shift _ _ _ _ (R - b) _ _ (by omega) (by omega)
      intro t h1 h2
      rw [key2 t (by omega) h2]
      congr 1
      apply minOver_shift _ _ _ _ (R - b) _ _ (by omega) rfl
      intro u h3 h4
      exact key1 u h3 (by omega)
    all_goals
      rw [(C16_futureFree_hor φ hf.1).1, (C16_futureFree_hor ψ hf.2).1, Nat.max_self,
        past_zero_of_futureFree φ hf.1, past_zero_of_futureFree ψ hf.2,
        rho_delay _ _ _ _ _ (by omega), Nat.sub_zero]

/-- C03 (partial: on `F.frag`): the online monitor of the pastified specification, fed `n`
    samples, returns at every update `i ≥ h = hor φ` the robustness of the original
    specification at sample `i - h` on the trace seen so far (`i + 1` samples). -/
theorem C03_pastified_monitor_partial (h r : Kind → Bool) (φ : F α) (hf : φ.frag = true)
    (hwf : φ.wf = true)
    (hh : ∀ k ∈ (pastify φ).kinds, k ≠ .Constant → (h k = true ∧ r k = false))
    (σ : String → Nat → α) (n i : Nat) (hin : i < n) (hi : hor φ ≤ i) :
    ∃ outs, runOnline h r (pastify φ) (envs σ n) = .ok outs ∧
      outs[i]? = some (rho σ (i + 1) φ (i - hor φ)) := by
  have hb := frag_bounded φ hf
  obtain ⟨hon, hwf'⟩ := C03_past_online φ hb hwf (hor φ)
  refine ⟨_, C02_run_eq_rho h r σ n (pastify φ) hon hwf' hh, ?_⟩
  rw [tab_getElem?, if_pos hin]
  congr 1
  unfold pastify
  rw [C03_past_eq_delayed φ hf hwf σ (hor φ) le_rfl n i hi hin]
  exact C16_settled φ hb σ σ n (i + 1) (i - hor φ) (by omega) (by omega) (fun _ _ _ => rfl)

end Rtamt
