/-
  The discrete-time online monitor run through the operation classes *translated from the Python source*
  (`Rtamt/Py/Run.lean`: `initG`, `stepG`, `resetG`, `runG`) is the hand-written mirror
  (`initTree`, `stepTree`, `resetTree`, `runTree` of `Rtamt/Discrete/Online.lean`), hence — by C02 — returns
  `rho` at every update.  This assembles the per-class theorems of `RtamtProofs/GenOps.lean` over the
  syntax tree.

  Hypotheses: no future operator (`φ.online`), `a ≤ b` in every interval (`φ.wf`), standard semantics (no
  interface-aware predicate forms), no `sqrt` (`SqrtOperation.update` raises on a negative sample, which the
  mirror does not model).
-/
import RtamtProofs.GenOps
import Rtamt.Py.Run
import Rtamt.Generated
import RtamtProofs.C02

namespace Rtamt.Py
open Rtamt Val

variable {α : Type} [Val α]

/-- Standard semantics (no `predSat` / `predZero`) and no `sqrt`. -/
def plainOn : F α → Bool
  | .var _ => true
  | .const _ => true
  | .un op φ => (match op with | .sqrt => false | _ => true) && plainOn φ
  | .bin op φ ψ => (match op with | .predSat _ | .predZero => false | _ => true) && plainOn φ && plainOn ψ
  | .tmp1 _ φ => plainOn φ
  | .tmp2 _ φ ψ => plainOn φ && plainOn ψ
  | .tb1 _ _ _ φ => plainOn φ
  | .tb2 _ _ _ φ ψ => plainOn φ && plainOn ψ

/-- A fresh monitor built from the translated classes, fed `envs`. -/
def runOnlineG (φ : F α) (envs : List (String → α)) : Except PyErr (List α) := do
  let t ← initG φ
  let (_, os) ← runG φ t envs
  pure os

/-- Feed `pre`, call `reset()`, feed `post`: the outputs after the reset. -/
def runResetG (φ : F α) (pre post : List (String → α)) : Except PyErr (List α) := do
  let t0 ← initG φ
  let (t1, _) ← runG φ t0 pre
  let t2 ← resetG t1
  let (_, os) ← runG φ t2 post
  pure os

def runReset (h r : Kind → Bool) (φ : F α) (pre post : List (String → α)) : Except PyErr (List α) := do
  let st0 ← initTree h r φ
  let (st1, _) ← runTree φ st0 pre
  let (_, os) ← runTree φ (resetTree φ st1) post
  pure os

/-! ### the relation between the mirror's state tree and the tree of attribute stores -/

/-- Class and store of a point-wise binary node. -/
def NodeBin (op : Bin) (cl : Class) (s : Store α) : Prop :=
  (classBin op = some cl ∧ s = []) ∨ (∃ c, op = .pred c ∧ cl = Gen.PredicateOperation ∧ s = encPred c)

/-- State and store of a bounded binary node. -/
def NodeTB2 (op : TB2) (a b : Nat) (bl br : List α) (cl : Class) (s : Store α) : Prop :=
  (op = .since ∧ cl = Gen.SinceTimedOperation ∧ s = encBuf2 a b bl br) ∨
  (op = .precedes ∧ cl = Gen.PrecedesTimedOperation ∧ s = encPrec a b bl br)

/-- `gt` holds, position by position, the class the construction visitor instantiates and the encoding
    of the mirror's state `st`. -/
def Rel : F α → STree α → GTree α → Prop
  | .var _, st, gt => st = .leaf ∧ gt = .leaf
  | .const _, st, gt => st = .leaf ∧ gt = .leaf
  | .un op φ, st, gt => ∃ c k, st = .n1 .unit c ∧ gt = .n1 (classUn op) [] k ∧ op ≠ .sqrt ∧ Rel φ c k
  | .bin op φ ψ, st, gt => ∃ c1 c2 l r cl s, st = .n2 .unit c1 c2 ∧ gt = .n2 cl s l r ∧ NodeBin op cl s ∧
      Rel φ c1 l ∧ Rel ψ c2 r
  | .tmp1 op φ, st, gt => ∃ c k cl key p, st = .n1 (.val p) c ∧ gt = .n1 cl (encVal key p) k ∧
      classT1 op = some (cl, key) ∧ Rel φ c k
  | .tmp2 op φ ψ, st, gt => ∃ c1 c2 l r p, op = .since ∧ st = .n2 (.val p) c1 c2 ∧
      gt = .n2 Gen.SinceOperation (encVal "prev_out" p) l r ∧ Rel φ c1 l ∧ Rel ψ c2 r
  | .tb1 op a b φ, st, gt => ∃ c k cl buf, st = .n1 (.buf buf) c ∧ gt = .n1 cl (encBuf a b buf) k ∧
      classTB1 op = some cl ∧ buf.length = b + 1 ∧ a ≤ b ∧ Rel φ c k
  | .tb2 op a b φ ψ, st, gt => ∃ c1 c2 l r bl br cl s, st = .n2 (.buf2 bl br) c1 c2 ∧ gt = .n2 cl s l r ∧
      NodeTB2 op a b bl br cl s ∧ bl.length = b + 1 ∧ br.length = b + 1 ∧ a ≤ b ∧ Rel φ c1 l ∧ Rel ψ c2 r

/-! ### what the extracted construction table (`GeneratedOnCtor.lean`) gives for the online node classes -/

/-- The constructed object paired with its class. -/
def withCls (c : Class) (r : Except PyErr (Store α)) : Except PyErr (Class × Store α) :=
  do let s ← r; pure (c, s)

omit [Val α] in
theorem withCls_ok {c : Class} {r : Except PyErr (Store α)} {s : Store α} (h : r = .ok s) :
    withCls c r = .ok (c, s) := by subst h; rfl

theorem raisesFirst_un (op : Un) : raisesFirst op.kind = .ok () := by cases op <;> rfl

theorem raisesFirst_bin (op : Bin) : raisesFirst op.kind = .ok () := by cases op <;> rfl

theorem buildOp_un (op : Un) :
    buildOp (α := α) op.kind none none = withCls (classUn op) (construct (classUn op) []) := by
  cases op <;> rfl

theorem buildOp_bin (op : Bin) (cl : Class) (h : classBin op = some cl) :
    buildOp (α := α) op.kind none none = withCls cl (construct cl []) := by
  cases op <;> simp [classBin] at h <;> subst h <;> rfl

theorem buildOp_pred (c : Cmp) :
    buildOp (α := α) (Bin.pred c).kind (some c) none
      = withCls Gen.PredicateOperation (construct Gen.PredicateOperation [.cmp c]) := rfl

theorem buildOp_t1 (op : T1) (cl : Class) (key : String) (h : classT1 op = some (cl, key)) :
    raisesFirst op.kind = .ok () ∧
    buildOp (α := α) op.kind none none = withCls cl (construct cl []) := by
  cases op <;> simp [classT1] at h <;> obtain ⟨rfl, rfl⟩ := h <;> exact ⟨rfl, rfl⟩

theorem buildOp_since :
    raisesFirst T2.since.kind = .ok () ∧
    buildOp (α := α) T2.since.kind none none
      = withCls Gen.SinceOperation (construct Gen.SinceOperation []) := ⟨rfl, rfl⟩

theorem buildOp_tb1 (op : TB1) (cl : Class) (h : classTB1 op = some cl) (a b : Nat) :
    raisesFirst op.kind = .ok () ∧
    buildOp (α := α) op.kind none (some (a, b)) = withCls cl (construct cl [.int a, .int b]) := by
  cases op <;> simp [classTB1] at h <;> subst h <;> exact ⟨rfl, rfl⟩

theorem buildOp_tb2_since (a b : Nat) :
    raisesFirst TB2.since.kind = .ok () ∧
    buildOp (α := α) TB2.since.kind none (some (a, b))
      = withCls Gen.SinceTimedOperation (construct Gen.SinceTimedOperation [.int a, .int b]) := ⟨rfl, rfl⟩

theorem buildOp_tb2_precedes (a b : Nat) :
    raisesFirst TB2.precedes.kind = .ok () ∧
    buildOp (α := α) TB2.precedes.kind none (some (a, b))
      = withCls Gen.PrecedesTimedOperation (construct Gen.PrecedesTimedOperation [.int a, .int b]) := ⟨rfl, rfl⟩

/-- The point-wise binary node: the class and the store the construction visitor registers. -/
theorem initG_bin (op : Bin) (φ ψ : F α) (gt1 gt2 : GTree α) (h2 : initG φ = .ok gt1) (k2 : initG ψ = .ok gt2)
    (hpl : (match op with | .predSat _ | .predZero => false | _ => true) = true) :
    ∃ cl s, initG (.bin op φ ψ) = .ok (.n2 cl s gt1 gt2) ∧ NodeBin op cl s := by
  have hgc := gen_Bin_construct (α := α) op
  have hbo := buildOp_bin (α := α) op
  cases op
  case pred c =>
    refine ⟨_, _, ?_, .inr ⟨c, rfl, rfl, rfl⟩⟩
    simp [initG, h2, k2, raisesFirst_bin, buildOp_pred, withCls_ok (gen_Pred_construct c),
      bind, Except.bind, pure, Except.pure]
  case predSat c => simp at hpl
  case predZero => simp at hpl
  all_goals
    refine ⟨_, _, ?_, .inl ⟨rfl, rfl⟩⟩
    simp [initG, h2, k2, raisesFirst_bin, hbo _ rfl, withCls_ok (hgc _ rfl),
      bind, Except.bind, pure, Except.pure]

/-! ### `online` per constructor -/

omit [Val α] in
theorem on_un {op : Un} {φ : F α} (h : (F.un op φ).online = true) : φ.online = true := by
  simp only [F.online, F.kinds, List.all_cons, Bool.and_eq_true] at h ⊢
  exact h.2

omit [Val α] in
theorem on_bin {op : Bin} {φ ψ : F α} (h : (F.bin op φ ψ).online = true) :
    φ.online = true ∧ ψ.online = true := by
  simp only [F.online, F.kinds, List.all_cons, List.all_append, Bool.and_eq_true] at h ⊢
  exact h.2

omit [Val α] in
theorem on_tmp1 {op : T1} {φ : F α} (h : (F.tmp1 op φ).online = true) :
    onlineKinds.contains op.kind = true ∧ φ.online = true := by
  simp only [F.online, F.kinds, List.all_cons, Bool.and_eq_true] at h ⊢
  exact h

omit [Val α] in
theorem on_tmp2 {op : T2} {φ ψ : F α} (h : (F.tmp2 op φ ψ).online = true) :
    onlineKinds.contains op.kind = true ∧ φ.online = true ∧ ψ.online = true := by
  simp only [F.online, F.kinds, List.all_cons, List.all_append, Bool.and_eq_true] at h ⊢
  exact h

omit [Val α] in
theorem on_tb1 {op : TB1} {a b : Nat} {φ : F α} (h : (F.tb1 op a b φ).online = true) :
    onlineKinds.contains op.kind = true ∧ φ.online = true := by
  simp only [F.online, F.kinds, List.all_cons, Bool.and_eq_true] at h ⊢
  exact h

omit [Val α] in
theorem on_tb2 {op : TB2} {a b : Nat} {φ ψ : F α} (h : (F.tb2 op a b φ ψ).online = true) :
    onlineKinds.contains op.kind = true ∧ φ.online = true ∧ ψ.online = true := by
  simp only [F.online, F.kinds, List.all_cons, List.all_append, Bool.and_eq_true] at h ⊢
  exact h

local notation "H" => Generated.onlineDiscrete.handles
local notation "R" => Generated.onlineDiscrete.raises

/-! ### construction -/

theorem init_rel (φ : F α) (hon : φ.online = true) (hwf : φ.wf = true) (hpl : plainOn φ = true) :
    ∃ st gt, initTree H R φ = .ok st ∧ initG φ = .ok gt ∧ Rel φ st gt := by
  induction φ with
  | var x => exact ⟨.leaf, .leaf, rfl, rfl, rfl, rfl⟩
  | const c => exact ⟨.leaf, .leaf, rfl, rfl, rfl, rfl⟩
  | un op φ ih =>
    simp only [plainOn, Bool.and_eq_true] at hpl
    obtain ⟨st, gt, h1, h2, h3⟩ := ih (on_un hon) hwf hpl.2
    have hR : R op.kind = false := by cases op <;> rfl
    have hH : H op.kind = true := by cases op <;> rfl
    have hne : op ≠ .sqrt := by rintro rfl; simp at hpl
    refine ⟨.n1 .unit st, .n1 (classUn op) [] gt, ?_, ?_, st, gt, rfl, rfl, hne, h3⟩
    · simp [initTree, hR, hH, h1, bind, Except.bind, pure, Except.pure]
    · simp [initG, h2, raisesFirst_un, buildOp_un, withCls_ok (gen_Un_construct op),
        bind, Except.bind, pure, Except.pure]
  | bin op φ ψ ih1 ih2 =>
    simp only [plainOn, Bool.and_eq_true] at hpl
    simp only [F.wf, Bool.and_eq_true] at hwf
    obtain ⟨st1, gt1, h1, h2, h3⟩ := ih1 (on_bin hon).1 hwf.1 hpl.1.2
    obtain ⟨st2, gt2, k1, k2, k3⟩ := ih2 (on_bin hon).2 hwf.2 hpl.2
    have hR : R op.kind = false := by cases op <;> rfl
    have hH : H op.kind = true := by cases op <;> rfl
    obtain ⟨cl, s, hc1, hc3⟩ := initG_bin op φ ψ gt1 gt2 h2 k2 hpl.1.1
    refine ⟨.n2 .unit st1 st2, .n2 cl s gt1 gt2, ?_, hc1, st1, st2, gt1, gt2, cl, s, rfl, rfl, hc3, h3, k3⟩
    simp [initTree, hR, hH, h1, k1, bind, Except.bind, pure, Except.pure]
  | tmp1 op φ ih =>
    simp only [plainOn] at hpl
    simp only [F.wf] at hwf
    obtain ⟨hk, hon'⟩ := on_tmp1 hon
    obtain ⟨st, gt, h1, h2, h3⟩ := ih hon' hwf hpl
    have hcls : ∃ cl key, classT1 op = some (cl, key) ∧ R op.kind = false ∧ H op.kind = true := by
      cases op
      case next => exact absurd hk (by decide)
      case snext => exact absurd hk (by decide)
      case ev => exact absurd hk (by decide)
      case alw => exact absurd hk (by decide)
      all_goals exact ⟨_, _, rfl, rfl, rfl⟩
    obtain ⟨cl, key, hc, hR, hH⟩ := hcls
    obtain ⟨hrf, hbo⟩ := buildOp_t1 (α := α) op cl key hc
    obtain ⟨p, hp1, hp2⟩ := gen_T1_construct (α := α) op cl key hc
    refine ⟨.n1 (.val p) st, .n1 cl (encVal key p) gt, ?_, ?_, st, gt, cl, key, p, rfl, rfl, hc, h3⟩
    · simp [initTree, hR, hH, h1, hp1, bind, Except.bind, pure, Except.pure]
    · simp [initG, h2, hrf, hbo, withCls_ok hp2, bind, Except.bind, pure, Except.pure]
  | tmp2 op φ ψ ih1 ih2 =>
    simp only [plainOn, Bool.and_eq_true] at hpl
    simp only [F.wf, Bool.and_eq_true] at hwf
    obtain ⟨hk, hon1, hon2⟩ := on_tmp2 hon
    obtain ⟨st1, gt1, h1, h2, h3⟩ := ih1 hon1 hwf.1 hpl.1
    obtain ⟨st2, gt2, k1, k2, k3⟩ := ih2 hon2 hwf.2 hpl.2
    cases op
    case «until» => exact absurd hk (by decide)
    case since =>
    obtain ⟨p, hp1, hp2⟩ := gen_Since_construct (α := α)
    refine ⟨.n2 (.val p) st1 st2, .n2 Gen.SinceOperation (encVal "prev_out" p) gt1 gt2, ?_, ?_,
      st1, st2, gt1, gt2, p, rfl, rfl, rfl, h3, k3⟩
    · have hR : R T2.since.kind = false := rfl
      have hH : H T2.since.kind = true := rfl
      simp [initTree, hR, hH, h1, k1, hp1, bind, Except.bind, pure, Except.pure]
    · obtain ⟨hrf, hbo⟩ := buildOp_since (α := α)
      simp [initG, h2, k2, hrf, hbo, withCls_ok hp2, bind, Except.bind, pure, Except.pure]
  | tb1 op a b φ ih =>
    simp only [plainOn] at hpl
    simp only [F.wf, Bool.and_eq_true, decide_eq_true_eq] at hwf
    obtain ⟨hk, hon'⟩ := on_tb1 hon
    obtain ⟨st, gt, h1, h2, h3⟩ := ih hon' hwf.2 hpl
    have hcls : ∃ cl, classTB1 op = some cl ∧ R op.kind = false ∧ H op.kind = true := by
      cases op
      case ev => exact absurd hk (by decide)
      case alw => exact absurd hk (by decide)
      all_goals exact ⟨_, rfl, rfl, rfl⟩
    obtain ⟨cl, hc, hR, hH⟩ := hcls
    obtain ⟨hrf, hbo⟩ := buildOp_tb1 (α := α) op cl hc a b
    obtain ⟨l, hl1, hl2, hl3⟩ := gen_TB1_construct (α := α) op cl hc a b
    refine ⟨.n1 (.buf l) st, .n1 cl (encBuf a b l) gt, ?_, ?_, st, gt, cl, l, rfl, rfl, hc, hl2, hwf.1, h3⟩
    · simp [initTree, hR, hH, h1, hl1, bind, Except.bind, pure, Except.pure]
    · simp [initG, h2, hrf, hbo, withCls_ok hl3, bind, Except.bind, pure, Except.pure]
  | tb2 op a b φ ψ ih1 ih2 =>
    simp only [plainOn, Bool.and_eq_true] at hpl
    simp only [F.wf, Bool.and_eq_true, decide_eq_true_eq] at hwf
    obtain ⟨hk, hon1, hon2⟩ := on_tb2 hon
    obtain ⟨st1, gt1, h1, h2, h3⟩ := ih1 hon1 hwf.1.2 hpl.1
    obtain ⟨st2, gt2, k1, k2, k3⟩ := ih2 hon2 hwf.2 hpl.2
    have hcls : ∃ (cl : Class) (s : Store α) (bl br : List α),
        raisesFirst op.kind = .ok () ∧
        buildOp (α := α) op.kind none (some (a, b)) = withCls cl (construct cl [.int a, .int b]) ∧
        R op.kind = false ∧ H op.kind = true ∧
        initTB2 op b = .buf2 bl br ∧ bl.length = b + 1 ∧ br.length = b + 1 ∧
        construct cl [.int a, .int b] = .ok s ∧ NodeTB2 op a b bl br cl s := by
      cases op
      case «until» => exact absurd hk (by decide)
      case since =>
        obtain ⟨l, r, e1, e2, e3, e4⟩ := gen_SinceTimed_construct (α := α) a b
        exact ⟨_, _, l, r, (buildOp_tb2_since (α := α) a b).1, (buildOp_tb2_since (α := α) a b).2, rfl, rfl, e1, e2, e3, e4,
          .inl ⟨rfl, rfl, rfl⟩⟩
      case precedes =>
        obtain ⟨l, r, e1, e2, e3, e4⟩ := gen_Precedes_construct (α := α) a b
        exact ⟨_, _, l, r, (buildOp_tb2_precedes (α := α) a b).1, (buildOp_tb2_precedes (α := α) a b).2, rfl, rfl, e1, e2, e3, e4,
          .inr ⟨rfl, rfl, rfl⟩⟩
    obtain ⟨cl, s, bl, br, hrf, hbo, hR, hH, e1, e2, e3, e4, e5⟩ := hcls
    refine ⟨.n2 (.buf2 bl br) st1 st2, .n2 cl s gt1 gt2, ?_, ?_,
      st1, st2, gt1, gt2, bl, br, cl, s, rfl, rfl, e5, e2, e3, hwf.1.1, h3, k3⟩
    · simp [initTree, hR, hH, h1, k1, e1, bind, Except.bind, pure, Except.pure]
    · simp [initG, h2, k2, hrf, hbo, withCls_ok e4, bind, Except.bind, pure, Except.pure]

/-! ### one update -/

theorem step_rel (env : String → α) (φ : F α) : ∀ st gt, Rel φ st gt →
    ∃ st' gt' o, stepTree env φ st = .ok (st', o) ∧ stepG env φ gt = .ok (gt', o) ∧ Rel φ st' gt' := by
  induction φ with
  | var x =>
    rintro st gt ⟨rfl, rfl⟩
    exact ⟨.leaf, .leaf, env x, rfl, rfl, rfl, rfl⟩
  | const c =>
    rintro st gt ⟨rfl, rfl⟩
    exact ⟨.leaf, .leaf, c, rfl, rfl, rfl, rfl⟩
  | un op φ ih =>
    rintro st gt ⟨c, k, rfl, rfl, hne, hrel⟩
    obtain ⟨c', k', v, h1, h2, h3⟩ := ih c k hrel
    have hu : update (classUn op) [] [.num v] = .ok ([], .num (op.app v)) := by
      rw [gen_Un_update]; simp [hne]
    refine ⟨.n1 .unit c', .n1 (classUn op) [] k', op.app v, ?_, ?_, c', k', rfl, rfl, hne, h3⟩
    · simp [stepTree, h1, bind, Except.bind, pure, Except.pure]
    · simp [stepG, h2, hu, numOf, bind, Except.bind, pure, Except.pure]
  | bin op φ ψ ih1 ih2 =>
    rintro st gt ⟨c1, c2, l, r, cl, s, rfl, rfl, hn, hrel1, hrel2⟩
    obtain ⟨c1', l', v1, h1, h2, h3⟩ := ih1 c1 l hrel1
    obtain ⟨c2', r', v2, k1, k2, k3⟩ := ih2 c2 r hrel2
    have hu : update cl s [.num v1, .num v2] = .ok (s, .num (op.app v1 v2)) := by
      rcases hn with ⟨hc, rfl⟩ | ⟨c, rfl, rfl, rfl⟩
      · exact gen_Bin_update op cl hc v1 v2
      · exact gen_Pred_update c v1 v2
    refine ⟨.n2 .unit c1' c2', .n2 cl s l' r', op.app v1 v2, ?_, ?_,
      c1', c2', l', r', cl, s, rfl, rfl, hn, h3, k3⟩
    · simp [stepTree, h1, k1, bind, Except.bind, pure, Except.pure]
    · simp [stepG, h2, k2, hu, numOf, bind, Except.bind, pure, Except.pure]
  | tmp1 op φ ih =>
    rintro st gt ⟨c, k, cl, key, p, rfl, rfl, hc, hrel⟩
    obtain ⟨c', k', v, h1, h2, h3⟩ := ih c k hrel
    obtain ⟨p', o, e1, e2⟩ := gen_T1_update op cl key hc p v
    refine ⟨.n1 (.val p') c', .n1 cl (encVal key p') k', o, ?_, ?_, c', k', cl, key, p', rfl, rfl, hc, h3⟩
    · simp [stepTree, h1, e1, bind, Except.bind, pure, Except.pure]
    · simp [stepG, h2, e2, numOf, bind, Except.bind, pure, Except.pure]
  | tmp2 op φ ψ ih1 ih2 =>
    rintro st gt ⟨c1, c2, l, r, p, rfl, rfl, rfl, hrel1, hrel2⟩
    obtain ⟨c1', l', v1, h1, h2, h3⟩ := ih1 c1 l hrel1
    obtain ⟨c2', r', v2, k1, k2, k3⟩ := ih2 c2 r hrel2
    obtain ⟨p', o, e1, e2⟩ := gen_Since_update p v1 v2
    refine ⟨.n2 (.val p') c1' c2', .n2 Gen.SinceOperation (encVal "prev_out" p') l' r', o, ?_, ?_,
      c1', c2', l', r', p', rfl, rfl, rfl, h3, k3⟩
    · simp [stepTree, h1, k1, e1, bind, Except.bind, pure, Except.pure]
    · simp [stepG, h2, k2, e2, numOf, bind, Except.bind, pure, Except.pure]
  | tb1 op a b φ ih =>
    rintro st gt ⟨c, k, cl, buf, rfl, rfl, hc, hlen, hab, hrel⟩
    obtain ⟨c', k', v, h1, h2, h3⟩ := ih c k hrel
    obtain ⟨buf', o, e1, e2, e3⟩ := gen_TB1_update op cl hc a b hab buf hlen v
    refine ⟨.n1 (.buf buf') c', .n1 cl (encBuf a b buf') k', o, ?_, ?_,
      c', k', cl, buf', rfl, rfl, hc, e2, hab, h3⟩
    · simp [stepTree, h1, e1, bind, Except.bind, pure, Except.pure]
    · simp [stepG, h2, e3, numOf, bind, Except.bind, pure, Except.pure]
  | tb2 op a b φ ψ ih1 ih2 =>
    rintro st gt ⟨c1, c2, l, r, bl, br, cl, s, rfl, rfl, hn, hl, hr, hab, hrel1, hrel2⟩
    obtain ⟨c1', l', v1, h1, h2, h3⟩ := ih1 c1 l hrel1
    obtain ⟨c2', r', v2, k1, k2, k3⟩ := ih2 c2 r hrel2
    have hu : ∃ (bl' br' : List α) (s' : Store α) (o : α),
        stepTB2 op a b (.buf2 bl br) v1 v2 = .ok (.buf2 bl' br', o) ∧
        update cl s [.num v1, .num v2] = .ok (s', .num o) ∧ NodeTB2 op a b bl' br' cl s' ∧
        bl'.length = b + 1 ∧ br'.length = b + 1 := by
      rcases hn with ⟨rfl, rfl, rfl⟩ | ⟨rfl, rfl, rfl⟩
      · obtain ⟨bl', br', o, e1, e2, e3, e4⟩ := gen_SinceTimed_update a b hab bl br hl hr v1 v2
        exact ⟨bl', br', _, o, e1, e4, .inl ⟨rfl, rfl, rfl⟩, e2, e3⟩
      · obtain ⟨bl', br', o, e1, e2, e3, e4⟩ := gen_Precedes_update a b hab bl br hl hr v1 v2
        exact ⟨bl', br', _, o, e1, e4, .inr ⟨rfl, rfl, rfl⟩, e2, e3⟩
    obtain ⟨bl', br', s', o, e1, e2, e3, e4, e5⟩ := hu
    refine ⟨.n2 (.buf2 bl' br') c1' c2', .n2 cl s' l' r', o, ?_, ?_,
      c1', c2', l', r', bl', br', cl, s', rfl, rfl, e3, e4, e5, hab, h3, k3⟩
    · simp [stepTree, h1, k1, e1, bind, Except.bind, pure, Except.pure]
    · simp [stepG, h2, k2, e2, numOf, bind, Except.bind, pure, Except.pure]

/-! ### `reset()` -/

theorem reset_rel (φ : F α) : ∀ st gt, Rel φ st gt →
    ∃ gt', resetG gt = .ok gt' ∧ Rel φ (resetTree φ st) gt' := by
  induction φ with
  | var x =>
    rintro st gt ⟨rfl, rfl⟩
    exact ⟨.leaf, rfl, rfl, rfl⟩
  | const c =>
    rintro st gt ⟨rfl, rfl⟩
    exact ⟨.leaf, rfl, rfl, rfl⟩
  | un op φ ih =>
    rintro st gt ⟨c, k, rfl, rfl, hne, hrel⟩
    obtain ⟨k', h1, h2⟩ := ih c k hrel
    refine ⟨.n1 (classUn op) [] k', ?_, resetTree φ c, k', rfl, rfl, hne, h2⟩
    simp [resetG, h1, gen_Un_reset, bind, Except.bind, pure, Except.pure]
  | bin op φ ψ ih1 ih2 =>
    rintro st gt ⟨c1, c2, l, r, cl, s, rfl, rfl, hn, hrel1, hrel2⟩
    obtain ⟨l', h1, h2⟩ := ih1 c1 l hrel1
    obtain ⟨r', k1, k2⟩ := ih2 c2 r hrel2
    have hu : reset cl s = .ok s := by
      rcases hn with ⟨hc, rfl⟩ | ⟨c, rfl, rfl, rfl⟩
      · exact gen_Bin_reset op cl hc
      · exact gen_Pred_reset c
    refine ⟨.n2 cl s l' r', ?_, resetTree φ c1, resetTree ψ c2, l', r', cl, s, rfl, rfl, hn, h2, k2⟩
    simp [resetG, h1, k1, hu, bind, Except.bind, pure, Except.pure]
  | tmp1 op φ ih =>
    rintro st gt ⟨c, k, cl, key, p, rfl, rfl, hc, hrel⟩
    obtain ⟨k', h1, h2⟩ := ih c k hrel
    obtain ⟨p', e1, e2⟩ := gen_T1_reset op cl key hc p
    refine ⟨.n1 cl (encVal key p') k', ?_, resetTree φ c, k', cl, key, p', ?_, rfl, hc, h2⟩
    · simp [resetG, h1, e2, bind, Except.bind, pure, Except.pure]
    · simp [resetTree, e1]
  | tmp2 op φ ψ ih1 ih2 =>
    rintro st gt ⟨c1, c2, l, r, p, rfl, rfl, rfl, hrel1, hrel2⟩
    obtain ⟨l', h1, h2⟩ := ih1 c1 l hrel1
    obtain ⟨r', k1, k2⟩ := ih2 c2 r hrel2
    obtain ⟨p', e1, e2⟩ := gen_Since_reset p
    refine ⟨.n2 Gen.SinceOperation (encVal "prev_out" p') l' r', ?_,
      resetTree φ c1, resetTree ψ c2, l', r', p', rfl, ?_, rfl, h2, k2⟩
    · simp [resetG, h1, k1, e2, bind, Except.bind, pure, Except.pure]
    · simp [resetTree, e1]
  | tb1 op a b φ ih =>
    rintro st gt ⟨c, k, cl, buf, rfl, rfl, hc, hlen, hab, hrel⟩
    obtain ⟨k', h1, h2⟩ := ih c k hrel
    obtain ⟨buf', e1, e2, e3⟩ := gen_TB1_reset op cl hc a b buf hlen
    refine ⟨.n1 cl (encBuf a b buf') k', ?_, resetTree φ c, k', cl, buf', ?_, rfl, hc, e2, hab, h2⟩
    · simp [resetG, h1, e3, bind, Except.bind, pure, Except.pure]
    · simp [resetTree, e1]
  | tb2 op a b φ ψ ih1 ih2 =>
    rintro st gt ⟨c1, c2, l, r, bl, br, cl, s, rfl, rfl, hn, hl, hr, hab, hrel1, hrel2⟩
    obtain ⟨l', h1, h2⟩ := ih1 c1 l hrel1
    obtain ⟨r', k1, k2⟩ := ih2 c2 r hrel2
    have hu : ∃ (bl' br' : List α) (s' : Store α),
        resetTB2 op b (.buf2 bl br) = .buf2 bl' br' ∧
        reset cl s = .ok s' ∧ NodeTB2 op a b bl' br' cl s' ∧
        bl'.length = b + 1 ∧ br'.length = b + 1 := by
      rcases hn with ⟨rfl, rfl, rfl⟩ | ⟨rfl, rfl, rfl⟩
      · obtain ⟨bl', br', e1, e2, e3, e4⟩ := gen_SinceTimed_reset a b bl br hl hr
        exact ⟨bl', br', _, e1, e4, .inl ⟨rfl, rfl, rfl⟩, e2, e3⟩
      · obtain ⟨bl', br', e1, e2, e3, e4⟩ := gen_Precedes_reset a b bl br hl hr
        exact ⟨bl', br', _, e1, e4, .inr ⟨rfl, rfl, rfl⟩, e2, e3⟩
    obtain ⟨bl', br', s', e1, e2, e3, e4, e5⟩ := hu
    refine ⟨.n2 cl s' l' r', ?_, resetTree φ c1, resetTree ψ c2, l', r', bl', br', cl, s', ?_, rfl,
      e3, e4, e5, hab, h2, k2⟩
    · simp [resetG, h1, k1, e2, bind, Except.bind, pure, Except.pure]
    · simp [resetTree, e1]

/-! ### runs -/

theorem run_rel (φ : F α) (es : List (String → α)) : ∀ st gt, Rel φ st gt →
    ∃ st' gt' os, runTree φ st es = .ok (st', os) ∧ runG φ gt es = .ok (gt', os) ∧ Rel φ st' gt' := by
  induction es with
  | nil => intro st gt h; exact ⟨st, gt, [], rfl, rfl, h⟩
  | cons e es ih =>
    intro st gt h
    obtain ⟨st1, gt1, o, h1, h2, h3⟩ := step_rel e φ st gt h
    obtain ⟨st2, gt2, os, k1, k2, k3⟩ := ih st1 gt1 h3
    refine ⟨st2, gt2, o :: os, ?_, ?_, k3⟩
    · simp [runTree, h1, k1, bind, Except.bind, pure, Except.pure]
    · simp [runG, h2, k2, bind, Except.bind, pure, Except.pure]

/-- Every node class an online formula may contain (but `Constant`, which has no visitor override and is
    handled by the interpreter itself) is constructed by the visitor. -/
theorem online_kind_tables (k : Kind) (hk : onlineKinds.contains k = true) (hne : k ≠ .Constant) :
    Generated.onlineDiscrete.handles k = true ∧ Generated.onlineDiscrete.raises k = false := by
  revert hk hne
  cases k <;> decide

/-- The run through the translated classes equals the run of the mirror (with the regenerated tables of the
    construction visitor). -/
theorem genOn_run (φ : F α) (hon : φ.online = true) (hwf : φ.wf = true) (hpl : plainOn φ = true)
    (envs : List (String → α)) :
    runOnlineG φ envs
      = runOnline Generated.onlineDiscrete.handles Generated.onlineDiscrete.raises φ envs := by
  obtain ⟨st, gt, h1, h2, h3⟩ := init_rel φ hon hwf hpl
  obtain ⟨st', gt', os, k1, k2, _⟩ := run_rel φ envs st gt h3
  simp [runOnlineG, runOnline, h1, h2, k1, k2, bind, Except.bind, pure, Except.pure]

/-- The same with a `reset()` in the middle. -/
theorem genOn_reset (φ : F α) (hon : φ.online = true) (hwf : φ.wf = true) (hpl : plainOn φ = true)
    (pre post : List (String → α)) :
    runResetG φ pre post
      = runReset Generated.onlineDiscrete.handles Generated.onlineDiscrete.raises φ pre post := by
  obtain ⟨st, gt, h1, h2, h3⟩ := init_rel φ hon hwf hpl
  obtain ⟨st1, gt1, os1, k1, k2, k3⟩ := run_rel φ pre st gt h3
  obtain ⟨gt2, r1, r2⟩ := reset_rel φ st1 gt1 k3
  obtain ⟨st3, gt3, os3, m1, m2, _⟩ := run_rel φ post (resetTree φ st1) gt2 r2
  simp [runResetG, runReset, h1, h2, k1, k2, r1, m1, m2, bind, Except.bind, pure, Except.pure]

/-- Hence the translated monitor returns `rho` at every update. -/
theorem genOn_rho [LawfulVal α] (σ : String → Nat → α) (n : Nat) (φ : F α)
    (hon : φ.online = true) (hwf : φ.wf = true) (hpl : plainOn φ = true) :
    runOnlineG φ (envs σ n) = .ok (tab n (rho σ n φ)) := by
  rw [genOn_run φ hon hwf hpl]
  refine C02_run_eq_rho _ _ σ n φ hon hwf (fun k hk hne => ?_)
  have hk' : onlineKinds.contains k = true := by
    simp only [F.online, List.all_eq_true] at hon
    exact hon k hk
  exact online_kind_tables k hk' hne

end Rtamt.Py
