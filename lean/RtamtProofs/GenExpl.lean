/-
  The explainer as translated from the Python source denotes the exact mirror `explainU unionIvs`.

  `Rtamt/Py/GeneratedExpl.lean` is produced on every run by `harness/py2lean.py` from
  `rtamt/explanation/{ltl,stl}/discrete_time/explanations.py` (the functions, as methods of the deep embedding
  `Rtamt/Py/Sem.lean`) and `rtamt/explanation/{ltl,stl}/discrete_time/explainer.py` (the table of visit methods:
  which function for which polarity, with which polarity the operands are visited).  `Rtamt/Py/RunExpl.lean`
  (`explainG`) runs them with the dispatch of `StlAstVisitor.visit`.  A change of one of these files changes the
  generated terms and the equalities below have to be re-proved by the build.

  With `RtamtProofs/C20Union.lean` the C20 theorem is carried over to the translated code
  (`C20_sufficient_translated_partial`).
-/
import RtamtProofs.GenExplLtlA
import RtamtProofs.GenExplLtlB
import RtamtProofs.GenExplStl
import RtamtProofs.C20Union

namespace Rtamt.Py
open Rtamt Val

variable {α : Type} [Val α]

/-- The result of the mirror in the types of the run of the translated code (`RTAMTException` for the operators the
    explainer does not implement). -/
def liftEx : Except Unit (List (String × Ivs)) → Except PyErr (List (String × IvsZ))
  | .ok ex => .ok (ex.map (fun p => (p.1, castI p.2)))
  | .error _ => .error .rtamt

/-- The tables of visit methods found in the source. -/
theorem genExpl_tables :
    Gen.Expl.ltlActions.map (·.1) =
      ["visitConstant", "visitPredicate", "visitVariable", "visitAddition", "visitMultiplication", "visitSubtraction",
       "visitDivision", "visitAbs", "visitSqrt", "visitExp", "visitPow", "visitRise", "visitFall", "visitNot", "visitAnd",
       "visitOr", "visitImplies", "visitIff", "visitXor", "visitEventually", "visitAlways", "visitUntil", "visitOnce",
       "visitPrevious", "visitStrongPrevious", "visitNext", "visitStrongNext", "visitHistorically", "visitSince"] ∧
    Gen.Expl.stlActions.map (·.1) =
      ["visitTimedEventually", "visitTimedAlways", "visitTimedUntil", "visitTimedOnce", "visitTimedHistorically",
       "visitTimedSince", "visitTimedPrecedes"] :=
  ⟨rfl, rfl⟩

omit [Val α] in
theorem ivsOf_encI (J : Ivs) : ivsOf (encI J : V α) = .ok (castI J) := by
  cases J <;> rfl

theorem liftEx_both (x y : Except Unit (List (String × Ivs))) :
    (do let a ← liftEx x; let b ← liftEx y; pure (a ++ b)) =
      liftEx (do let a ← x; let b ← y; pure (a ++ b)) := by
  cases x <;> cases y <;> simp [liftEx, bind, Except.bind, pure, Except.pure]

/-! ### the interval lists stay inside the trace -/

theorem inRange_nil (n : Nat) : InRange n [] := fun _ h => by cases h

theorem inRange_single {n b e : Nat} (h : e < n) : InRange n [(b, e)] := by
  intro p hp; simp only [List.mem_singleton] at hp; subst hp; exact h

theorem inRange_runs (p : Nat → Bool) (b : Nat) {e n : Nat} (h : e < n) : InRange n (runs p b e) := by
  intro r hr
  have := (runs_struct p b e).1 r hr
  omega

theorem inRange_runsAll (p : Nat → Bool) {n : Nat} {I : Ivs} (h : InRange n I) : InRange n (runsAll p I) := by
  intro r hr
  rw [runsAll_eq, List.mem_flatMap] at hr
  obtain ⟨q, hq, hr⟩ := hr
  have := (runs_struct p q.1 q.2).1 r hr
  have := h q hq
  omega

theorem inRange_explNext {n : Nat} {I : Ivs} (h : InRange n I) : InRange n (explNext n I) := by
  intro r hr
  unfold explNext at hr
  rw [List.mem_filterMap] at hr
  obtain ⟨⟨b, e⟩, hq, hr⟩ := hr
  have := h _ hq
  dsimp only at hr this
  split at hr
  · cases hr; dsimp only; omega
  · split at hr
    · cases hr; exact this
    · cases hr

theorem inRange_explPrev {n : Nat} {I : Ivs} (h : InRange n I) : InRange n (explPrev I) := by
  intro r hr
  unfold explPrev at hr
  rw [List.mem_filterMap] at hr
  obtain ⟨⟨b, e⟩, hq, hr⟩ := hr
  have := h _ hq
  dsimp only at hr this
  split at hr
  · cases hr; dsimp only; omega
  · split at hr
    · cases hr; dsimp only; omega
    · cases hr

theorem inRange_fwdI {n : Nat} (hn : 0 < n) (a b : Nat) (I : Ivs) : InRange n (fwdI n a b I) := by
  intro r hr
  unfold fwdI at hr
  rw [List.mem_map] at hr
  obtain ⟨⟨x, y⟩, _, hr⟩ := hr
  cases hr; dsimp only; omega

theorem inRange_bwdI {n : Nat} (a b : Nat) {I : Ivs} (h : InRange n I) : InRange n (bwdI a b I) := by
  intro r hr
  unfold bwdI at hr
  rw [List.mem_map] at hr
  obtain ⟨⟨x, y⟩, hq, hr⟩ := hr
  have := h _ hq
  cases hr; dsimp only at this ⊢; omega

theorem inRange_unionStep {n : Nat} {out : Ivs} {p : Nat × Nat} (ho : InRange n out) (hp : p.2 < n) :
    InRange n (unionStep out p) := by
  unfold unionStep
  cases hq : out.getLast? with
  | none => exact inRange_single hp
  | some q =>
    have hq2 : q.2 < n := ho q (List.mem_of_getLast? hq)
    dsimp only
    split
    · intro r hr
      rw [List.mem_append] at hr
      rcases hr with hr | hr
      · exact ho r (List.dropLast_subset _ hr)
      · simp only [List.mem_singleton] at hr; subst hr; dsimp only; omega
    · intro r hr
      rw [List.mem_append] at hr
      rcases hr with hr | hr
      · exact ho r hr
      · simp only [List.mem_singleton] at hr; subst hr; exact hp

theorem inRange_foldl_unionStep {n : Nat} (L : Ivs) : ∀ (out : Ivs), InRange n out → InRange n L →
    InRange n (L.foldl unionStep out) := by
  induction L with
  | nil => intro out ho _; exact ho
  | cons p L ih =>
    intro out ho hL
    rw [List.foldl_cons]
    exact ih _ (inRange_unionStep ho (hL p (List.mem_cons_self ..))) (fun r hr => hL r (List.mem_cons_of_mem _ hr))

theorem inRange_unionIvs {n : Nat} {I : Ivs} (h : InRange n I) : InRange n (unionIvs I) := by
  unfold unionIvs
  apply inRange_foldl_unionStep _ _ (inRange_nil n)
  intro r hr
  unfold sortIvsN at hr
  exact h r ((List.mergeSort_perm _ _).mem_iff.1 hr)

/-! ### the runs only look at the signal inside the intervals -/

theorem runsLoop_congr (p q : Nat → Bool) (e : Nat) : ∀ (k i : Nat) (cur : Option Nat),
    (∀ j, i ≤ j → j < i + k → p j = q j) → runsLoop p e k i cur = runsLoop q e k i cur := by
  intro k
  induction k with
  | zero => intro i cur _; rfl
  | succ k ih =>
    intro i cur h
    have hi : p i = q i := h i (Nat.le_refl _) (by omega)
    have ih' : ∀ c, runsLoop p e k (i + 1) c = runsLoop q e k (i + 1) c :=
      fun c => ih (i + 1) c (fun j h1 h2 => h j (by omega) (by omega))
    unfold runsLoop
    rw [hi]
    simp only [ih']

theorem runs_congr {p q : Nat → Bool} {b e : Nat} (h : ∀ i, b ≤ i → i ≤ e → p i = q i) :
    runs p b e = runs q b e := by
  unfold runs
  exact runsLoop_congr p q e _ _ _ (fun j h1 h2 => h j h1 (by omega))

theorem runsAll_congr {p q : Nat → Bool} {I : Ivs} (h : ∀ r ∈ I, ∀ i, i ≤ r.2 → p i = q i) :
    runsAll p I = runsAll q I := by
  rw [runsAll_eq, runsAll_eq]
  exact List.flatMap_congr (fun r hr => runs_congr (fun i _ h2 => h r hr i h2))
theorem callFn_of {fs : List (String × Method)} {name : String} {m : Method} {args : List (V α)} {v : V α}
    (hm : fs.lookup name = some m) (hc : call m [] args = .ok ([], v)) : callFn fs name args = .ok v := by
  unfold callFn
  rw [hm]
  simp only [hc]
  rfl

theorem childIvs1_none {k : Kind} (sig : V α) (ab : Option (Nat × Nat)) (I : IvsZ) (flag : Bool)
    (hk : explAction k = none) : childIvs1 k sig ab I flag = .ok (some (I, flag)) := by
  unfold childIvs1
  rw [hk]

theorem childIvs1_un {k : Kind} {sig : V α} {ab : Option (Nat × Nat)} {I J : Ivs} {flag : Bool}
    {sat unsat : String} {neg : Bool} {fs : List (String × Method)} {m : Method}
    (hk : explAction k = some (.un sat unsat false neg, fs))
    (hm : fs.lookup (if flag then sat else unsat) = some m)
    (hc : call m [] [sig, encI I] = .ok ([], encI J)) :
    childIvs1 k sig ab (castI I) flag = .ok (some (castI J, if neg then !flag else flag)) := by
  unfold childIvs1
  rw [hk]
  have h := callFn_of hm hc
  change callFn fs (if flag then sat else unsat) ([sig, encZ (castI I)] ++ []) = _ at h
  simp only [Bool.false_eq_true, ite_false, bind, Except.bind, h, ivsOf_encI]
  rfl

theorem childIvs1_tm {k : Kind} {sig : V α} {a b : Nat} {I J : Ivs} {flag : Bool}
    {sat unsat : String} {neg : Bool} {fs : List (String × Method)} {m : Method}
    (hk : explAction k = some (.un sat unsat true neg, fs))
    (hm : fs.lookup (if flag then sat else unsat) = some m)
    (hc : call m [] [sig, encI I, .int a, .int b] = .ok ([], encI J)) :
    childIvs1 k sig (some (a, b)) (castI I) flag = .ok (some (castI J, if neg then !flag else flag)) := by
  unfold childIvs1
  rw [hk]
  have h := callFn_of hm hc
  change callFn fs (if flag then sat else unsat) ([sig, encZ (castI I)] ++ [.int a, .int b]) = _ at h
  simp only [ite_true, bind, Except.bind, h, ivsOf_encI]
  rfl

theorem childIvs2_none {k : Kind} (sig1 sig2 : V α) (I : IvsZ) (flag : Bool)
    (hk : explAction k = none) : childIvs2 k sig1 sig2 I flag = .ok (some ((I, flag), (I, flag))) := by
  unfold childIvs2
  rw [hk]

theorem childIvs2_bin {k : Kind} {sig1 sig2 : V α} {I J1 J2 : Ivs} {flag : Bool}
    {sat unsat : String} {neg1 neg2 : Bool} {fs : List (String × Method)} {m : Method}
    (hk : explAction k = some (.bin sat unsat neg1 neg2, fs))
    (hm : fs.lookup (if flag then sat else unsat) = some m)
    (hc : call m [] [sig1, sig2, encI I] = .ok ([], .pair (encI J1) (encI J2))) :
    childIvs2 k sig1 sig2 (castI I) flag =
      .ok (some ((castI J1, if neg1 then !flag else flag), (castI J2, if neg2 then !flag else flag))) := by
  unfold childIvs2
  rw [hk]
  have h := callFn_of hm hc
  change callFn fs (if flag then sat else unsat) [sig1, sig2, encZ (castI I)] = _ at h
  simp only [bind, Except.bind, h, ivsOf_encI]
  rfl

theorem childIvs_raises1 {k : Kind} (sig : V α) (ab : Option (Nat × Nat)) (I : IvsZ) (flag : Bool)
    {fs : List (String × Method)} (hk : explAction k = some (.raises, fs)) :
    childIvs1 k sig ab I flag = .error .rtamt := by
  unfold childIvs1
  rw [hk]

theorem childIvs2_raises {k : Kind} (sig1 sig2 : V α) (I : IvsZ) (flag : Bool)
    {fs : List (String × Method)} (hk : explAction k = some (.raises, fs)) :
    childIvs2 k sig1 sig2 I flag = .error .rtamt := by
  unfold childIvs2
  rw [hk]

/-! ### `self.spec.results[ψ]` -/

def sg (σ : String → Nat → α) (n : Nat) (ψ : F α) : List α := (List.range n).map (rho σ n ψ)

theorem sg_length (σ : String → Nat → α) (n : Nat) (ψ : F α) : (sg σ n ψ).length = n := by
  simp [sg]

theorem atL_sg (σ : String → Nat → α) {n i : Nat} (ψ : F α) (h : i < n) : atL (sg σ n ψ) i = rho σ n ψ i := by
  simp [atL, sg, h]

theorem runs_sg (σ : String → Nat → α) {n : Nat} (ψ : F α) (p : α → Bool) (b : Nat) {e : Nat} (h : e < n) :
    runs (fun i => p (atL (sg σ n ψ) i)) b e = runs (fun i => p (rho σ n ψ i)) b e :=
  runs_congr (fun i _ hi => by rw [atL_sg σ ψ (by omega)])

theorem runsAll_sg (σ : String → Nat → α) {n : Nat} (ψ : F α) (p : α → Bool) {I : Ivs} (h : InRange n I) :
    runsAll (fun i => p (atL (sg σ n ψ) i)) I = runsAll (fun i => p (rho σ n ψ i)) I :=
  runsAll_congr (fun r hr i hi => by have := h r hr; rw [atL_sg σ ψ (by omega)])

/-! ### the functions on the results of the operand, in the form of the mirror -/

theorem sig_next (σ : String → Nat → α) (n : Nat) (φ : F α) (I : Ivs) :
    call (α := α) Gen.Expl.ltl_explain_next [] [sigOf σ n φ, encI I] = .ok ([], encI (explNext n I)) := by
  have h := fn_next (sg σ n φ) I
  rw [sg_length] at h
  exact h

theorem sig_first_end {m : Method} (σ : String → Nat → α) (n : Nat) (φ : F α) (I : Ivs)
    (h : call (α := α) m [] [.list (sg σ n φ), encI I]
      = .ok ([], encI (match firstBegin I with | some b => [(b, (sg σ n φ).length - 1)] | none => []))) :
    call (α := α) m [] [sigOf σ n φ, encI I]
      = .ok ([], encI (match firstBegin I with | some b => [(b, n - 1)] | none => [])) := by
  rw [sg_length] at h
  exact h

theorem sig_first_runs {m : Method} (σ : String → Nat → α) (n : Nat) (hn : 0 < n) (φ : F α) (I : Ivs) (p : α → Bool)
    (h : call (α := α) m [] [.list (sg σ n φ), encI I]
      = .ok ([], encI (match firstBegin I with
          | some b => runs (fun i => p (atL (sg σ n φ) i)) b ((sg σ n φ).length - 1) | none => []))) :
    call (α := α) m [] [sigOf σ n φ, encI I]
      = .ok ([], encI (match firstBegin I with | some b => runs (fun i => p (rho σ n φ i)) b (n - 1) | none => [])) := by
  rw [sg_length] at h
  cases hb : firstBegin I with
  | none => rw [hb] at h; exact h
  | some b =>
    rw [hb] at h
    simp only [] at h ⊢
    rw [runs_sg σ φ p b (by omega)] at h
    exact h

theorem sig_last_runs {m : Method} (σ : String → Nat → α) (n : Nat) (φ : F α) (I : Ivs) (hI : InRange n I) (p : α → Bool)
    (h : InRange (sg σ n φ).length I → call (α := α) m [] [.list (sg σ n φ), encI I]
      = .ok ([], encI (match lastEnd I with
          | some e => runs (fun i => p (atL (sg σ n φ) i)) 0 e | none => []))) :
    call (α := α) m [] [sigOf σ n φ, encI I]
      = .ok ([], encI (match lastEnd I with | some e => runs (fun i => p (rho σ n φ i)) 0 e | none => [])) := by
  have h := h (by rw [sg_length]; exact hI)
  cases hb : lastEnd I with
  | none => rw [hb] at h; exact h
  | some e =>
    rw [hb] at h
    simp only [] at h ⊢
    have he : e < n := by
      unfold lastEnd at hb
      cases hl : I.getLast? with
      | none => rw [hl] at hb; cases hb
      | some q =>
        rw [hl] at hb
        cases hb
        exact hI q (List.mem_of_getLast? hl)
    rw [runs_sg σ φ p 0 he] at h
    exact h

theorem sig_runsAll2 {m : Method} (σ : String → Nat → α) (n : Nat) (φ ψ : F α) (I : Ivs) (hI : InRange n I)
    (p q : α → Bool)
    (h : InRange (sg σ n φ).length I → InRange (sg σ n ψ).length I →
      call (α := α) m [] [.list (sg σ n φ), .list (sg σ n ψ), encI I]
      = .ok ([], .pair (encI (runsAll (fun i => p (atL (sg σ n φ) i)) I)) (encI (runsAll (fun i => q (atL (sg σ n ψ) i)) I)))) :
    call (α := α) m [] [sigOf σ n φ, sigOf σ n ψ, encI I]
      = .ok ([], .pair (encI (runsAll (fun i => p (rho σ n φ i)) I)) (encI (runsAll (fun i => q (rho σ n ψ i)) I))) := by
  have h := h (by rw [sg_length]; exact hI) (by rw [sg_length]; exact hI)
  rw [runsAll_sg σ φ p hI, runsAll_sg σ ψ q hI] at h
  exact h

theorem sig_fwd {m : Method} (σ : String → Nat → α) (n : Nat) (φ : F α) (a b : Nat) (I : Ivs)
    (h : call (α := α) m [] [.list (sg σ n φ), encI I, .int a, .int b]
      = .ok ([], encI (unionIvs (fwdI (sg σ n φ).length a b I)))) :
    call (α := α) m [] [sigOf σ n φ, encI I, .int a, .int b] = .ok ([], encI (unionIvs (fwdI n a b I))) := by
  rw [sg_length] at h
  exact h

theorem sig_fwd_runs {m : Method} (σ : String → Nat → α) (n : Nat) (hn : 0 < n) (φ : F α) (a b : Nat) (I : Ivs)
    (p : α → Bool)
    (h : call (α := α) m [] [.list (sg σ n φ), encI I, .int a, .int b]
      = .ok ([], encI (unionIvs (runsAll (fun i => p (atL (sg σ n φ) i)) (fwdI (sg σ n φ).length a b I))))) :
    call (α := α) m [] [sigOf σ n φ, encI I, .int a, .int b]
      = .ok ([], encI (unionIvs (runsAll (fun i => p (rho σ n φ i)) (fwdI n a b I)))) := by
  rw [sg_length, runsAll_sg σ φ p (inRange_fwdI hn a b I)] at h
  exact h

theorem sig_bwd_runs {m : Method} (σ : String → Nat → α) (n : Nat) (φ : F α) (a b : Nat) (I : Ivs) (hI : InRange n I)
    (p : α → Bool)
    (h : InRange (sg σ n φ).length I → call (α := α) m [] [.list (sg σ n φ), encI I, .int a, .int b]
      = .ok ([], encI (unionIvs (runsAll (fun i => p (atL (sg σ n φ) i)) (bwdI a b I))))) :
    call (α := α) m [] [sigOf σ n φ, encI I, .int a, .int b]
      = .ok ([], encI (unionIvs (runsAll (fun i => p (rho σ n φ i)) (bwdI a b I)))) := by
  have h := h (by rw [sg_length]; exact hI)
  rw [runsAll_sg σ φ p (inRange_bwdI a b hI)] at h
  exact h

theorem inRange_first {n : Nat} (I : Ivs) {L : Nat → Ivs} (h : ∀ b, InRange n (L b)) :
    InRange n (match firstBegin I with | some b => L b | none => []) := by
  cases firstBegin I with
  | none => exact inRange_nil n
  | some b => exact h b

theorem inRange_last {n : Nat} {I : Ivs} (hI : InRange n I) {L : Nat → Ivs} (h : ∀ e, e < n → InRange n (L e)) :
    InRange n (match lastEnd I with | some e => L e | none => []) := by
  cases hb : lastEnd I with
  | none => exact inRange_nil n
  | some e =>
    refine h e ?_
    unfold lastEnd at hb
    cases hl : I.getLast? with
    | none => rw [hl] at hb; cases hb
    | some q =>
      rw [hl] at hb
      cases hb
      exact hI q (List.mem_of_getLast? hl)

/-! ### one node -/

theorem step1 {σ : String → Nat → α} {n : Nat} {φ : F α}
    (ih : ∀ (I : Ivs) (flag : Bool), InRange n I → explainG σ n φ (castI I) flag = liftEx (explainU unionIvs σ n φ I flag))
    {r : Except PyErr (Option (IvsZ × Bool))} {J : Ivs} {f : Bool}
    (hc : r = .ok (some (castI J, f))) (hJ : InRange n J)
    {R : Except Unit (List (String × Ivs))} (hR : explainU unionIvs σ n φ J f = R) :
    (do match (← r) with
        | some (J, f) => explainG σ n φ J f
        | none => pure []) = liftEx R := by
  subst hc hR
  exact ih J f hJ

theorem step2 {σ : String → Nat → α} {n : Nat} {φ ψ : F α}
    (ih1 : ∀ (I : Ivs) (flag : Bool), InRange n I → explainG σ n φ (castI I) flag = liftEx (explainU unionIvs σ n φ I flag))
    (ih2 : ∀ (I : Ivs) (flag : Bool), InRange n I → explainG σ n ψ (castI I) flag = liftEx (explainU unionIvs σ n ψ I flag))
    {r : Except PyErr (Option ((IvsZ × Bool) × (IvsZ × Bool)))} {J1 J2 : Ivs} {f1 f2 : Bool}
    (hc : r = .ok (some ((castI J1, f1), (castI J2, f2)))) (hJ1 : InRange n J1) (hJ2 : InRange n J2)
    {R : Except Unit (List (String × Ivs))}
    (hR : (do let a ← explainU unionIvs σ n φ J1 f1
              let b ← explainU unionIvs σ n ψ J2 f2
              pure (a ++ b)) = R) :
    (do match (← r) with
        | some ((J1, f1), (J2, f2)) => do
            let a ← explainG σ n φ J1 f1
            let b ← explainG σ n ψ J2 f2
            pure (a ++ b)
        | none => pure []) = liftEx R := by
  subst hc hR
  rw [← liftEx_both, ← ih1 J1 f1 hJ1, ← ih2 J2 f2 hJ2]
  rfl

/-- The translated explainer computes the interval lists of the exact mirror - lists and exceptions - from every
    interval list inside the trace. -/
theorem genExpl_explain (σ : String → Nat → α) (n : Nat) (hn : 0 < n) (φ : F α) (I : Ivs) (flag : Bool)
    (hI : InRange n I) :
    explainG σ n φ (castI I) flag = liftEx (explainU unionIvs σ n φ I flag) := by
  induction φ generalizing I flag with
  | var x => rfl
  | const c => rfl
  | un op φ ih =>
    rw [explainG]
    cases op <;> cases flag
    case ln.false | ln.true | negate.false | negate.true =>
      exact step1 ih (childIvs1_none _ _ _ _ rfl) hI rfl
    all_goals exact step1 ih (childIvs1_un rfl rfl (fn_unary (sg σ n φ) I)) hI rfl
  | bin op φ ψ ih1 ih2 =>
    rw [explainG]
    cases op <;> cases flag
    case log.false | log.true =>
      exact step2 ih1 ih2 (childIvs2_none _ _ _ _ rfl) hI hI rfl
    case and.false =>
      exact step2 ih1 ih2 (childIvs2_bin rfl rfl (sig_runsAll2 σ n φ ψ I hI isUnsat isUnsat (fn_unsat_and _ _ I)))
        (inRange_runsAll _ hI) (inRange_runsAll _ hI) rfl
    case or.true =>
      exact step2 ih1 ih2 (childIvs2_bin rfl rfl (sig_runsAll2 σ n φ ψ I hI isSat isSat (fn_sat_or _ _ I)))
        (inRange_runsAll _ hI) (inRange_runsAll _ hI) rfl
    case implies.true =>
      exact step2 ih1 ih2 (childIvs2_bin rfl rfl (sig_runsAll2 σ n φ ψ I hI isUnsat isSat (fn_sat_implies _ _ I)))
        (inRange_runsAll _ hI) (inRange_runsAll _ hI) rfl
    all_goals exact step2 ih1 ih2 (childIvs2_bin rfl rfl (fn_binary (sg σ n φ) (sg σ n ψ) I)) hI hI rfl
  | tmp1 op φ ih =>
    have hs : 0 < (sg σ n φ).length := by rw [sg_length]; exact hn
    have hn1 : n - 1 < n := by omega
    rw [explainG]
    cases op <;> cases flag
    case rise.false | rise.true | fall.false | fall.true =>
      exact step1 ih (childIvs1_un rfl rfl (fn_unary (sg σ n φ) I)) hI rfl
    case prev.false | prev.true | sprev.false | sprev.true =>
      exact step1 ih (childIvs1_un rfl rfl (fn_prev (sg σ n φ) I)) (inRange_explPrev hI) rfl
    case next.false | next.true | snext.false | snext.true =>
      exact step1 ih (childIvs1_un rfl rfl (sig_next σ n φ I)) (inRange_explNext hI) rfl
    case alw.true =>
      exact step1 ih (childIvs1_un rfl rfl (sig_first_end σ n φ I (fn_sat_always _ hs I)))
        (inRange_first I (fun b => inRange_single hn1)) rfl
    case ev.false =>
      exact step1 ih (childIvs1_un rfl rfl (sig_first_end σ n φ I (fn_unsat_eventually _ hs I)))
        (inRange_first I (fun b => inRange_single hn1)) rfl
    case alw.false =>
      exact step1 ih (childIvs1_un rfl rfl (sig_first_runs σ n hn φ I isUnsat (fn_unsat_always _ hs I)))
        (inRange_first I (fun b => inRange_runs _ b hn1)) rfl
    case ev.true =>
      exact step1 ih (childIvs1_un rfl rfl (sig_first_runs σ n hn φ I isSat (fn_sat_eventually _ hs I)))
        (inRange_first I (fun b => inRange_runs _ b hn1)) rfl
    case hist.true =>
      exact step1 ih (childIvs1_un rfl rfl (fn_sat_historically (sg σ n φ) I))
        (inRange_last hI (fun e he => inRange_single he)) rfl
    case once.false =>
      exact step1 ih (childIvs1_un rfl rfl (fn_unsat_once (sg σ n φ) I))
        (inRange_last hI (fun e he => inRange_single he)) rfl
    case hist.false =>
      exact step1 ih (childIvs1_un rfl rfl (sig_last_runs σ n φ I hI isUnsat (fn_unsat_historically _ I)))
        (inRange_last hI (fun e he => inRange_runs _ 0 he)) rfl
    case once.true =>
      exact step1 ih (childIvs1_un rfl rfl (sig_last_runs σ n φ I hI isSat (fn_sat_once _ I)))
        (inRange_last hI (fun e he => inRange_runs _ 0 he)) rfl
  | tmp2 op φ ψ ih1 ih2 =>
    rw [explainG]
    cases op <;> (rw [childIvs2_raises _ _ _ _ (fs := Gen.Expl.ltlFuncs) rfl]; rfl)
  | tb1 op a b φ ih =>
    have hs : 0 < (sg σ n φ).length := by rw [sg_length]; exact hn
    rw [explainG]
    cases op <;> cases flag
    case alw.true =>
      exact step1 ih (childIvs1_tm rfl rfl (sig_fwd σ n φ a b I (fn_sat_timed_always _ hs a b I)))
        (inRange_unionIvs (inRange_fwdI hn a b I)) rfl
    case ev.false =>
      exact step1 ih (childIvs1_tm rfl rfl (sig_fwd σ n φ a b I (fn_unsat_timed_eventually _ hs a b I)))
        (inRange_unionIvs (inRange_fwdI hn a b I)) rfl
    case alw.false =>
      exact step1 ih (childIvs1_tm rfl rfl (sig_fwd_runs σ n hn φ a b I isUnsat (fn_unsat_timed_always _ hs a b I)))
        (inRange_unionIvs (inRange_runsAll _ (inRange_fwdI hn a b I))) rfl
    case ev.true =>
      exact step1 ih (childIvs1_tm rfl rfl (sig_fwd_runs σ n hn φ a b I isSat (fn_sat_timed_eventually _ hs a b I)))
        (inRange_unionIvs (inRange_runsAll _ (inRange_fwdI hn a b I))) rfl
    case hist.true =>
      exact step1 ih (childIvs1_tm rfl rfl (fn_sat_timed_historically (sg σ n φ) a b I))
        (inRange_unionIvs (inRange_bwdI a b hI)) rfl
    case once.false =>
      exact step1 ih (childIvs1_tm rfl rfl (fn_unsat_timed_once (sg σ n φ) a b I))
        (inRange_unionIvs (inRange_bwdI a b hI)) rfl
    case hist.false =>
      exact step1 ih (childIvs1_tm rfl rfl (sig_bwd_runs σ n φ a b I hI isUnsat (fn_unsat_timed_historically _ a b I)))
        (inRange_unionIvs (inRange_runsAll _ (inRange_bwdI a b hI))) rfl
    case once.true =>
      exact step1 ih (childIvs1_tm rfl rfl (sig_bwd_runs σ n φ a b I hI isSat (fn_sat_timed_once _ a b I)))
        (inRange_unionIvs (inRange_runsAll _ (inRange_bwdI a b hI))) rfl
  | tb2 op a b φ ψ ih1 ih2 =>
    rw [explainG]
    cases op <;> (rw [childIvs2_raises _ _ _ _ (fs := Gen.Expl.stlFuncs) rfl]; rfl)

/-- `explain()` of one assertion. -/
theorem genExpl_spec (σ : String → Nat → α) (n : Nat) (hn : 0 < n) (φ : F α) :
    explainSpecG σ n φ = liftEx (explainSpecU σ n φ) := by
  unfold explainSpecG explainSpecU
  split
  · exact genExpl_explain σ n hn φ [(0, 0)] false (inRange_single hn)
  · rfl

/-- Position `(x, t)` is reported by a run of the translated explainer. -/
def reportedZ (ex : List (String × IvsZ)) (x : String) (t : Nat) : Bool :=
  ex.any (fun (y, I) => y == x && I.any (fun (b, e) => decide (b ≤ (t : Int)) && decide ((t : Int) ≤ e)))

theorem reportedZ_cast (ex : List (String × Ivs)) (x : String) (t : Nat) :
    reportedZ (ex.map (fun p => (p.1, castI p.2))) x t = reported ex x t := by
  unfold reportedZ reported
  rw [List.any_map]
  congr 1
  funext p
  obtain ⟨y, I⟩ := p
  simp only [Function.comp_def, castI, List.any_map, Int.ofNat_le]

/-- C20 (partial, fragment `explFrag`) for the translated code: what the explainer - the functions and the visit methods
    translated from the source - reports for a violated assertion is a sufficient cause of the violation. -/
theorem C20_sufficient_translated_partial [LawfulVal α] (hz : Val.neg (Val.zero : α) = Val.zero)
    (σ σ' : String → Nat → α) (n : Nat) (hn : 0 < n) (φ : F α) (hwf : φ.wf = true)
    (hfrag : φ.explFrag = true) (ex : List (String × IvsZ))
    (hex : explainSpecG σ n φ = .ok ex) (hviol : isUnsat (rho σ n φ 0) = true)
    (hagree : ∀ x t, reportedZ ex x t = true → t < n → σ' x t = σ x t) :
    isUnsat (rho σ' n φ 0) = true := by
  have hspec := genExpl_spec σ n hn φ
  rw [hex] at hspec
  cases hU : explainSpecU σ n φ with
  | error e => rw [hU] at hspec; cases hspec
  | ok ex' =>
    rw [hU] at hspec
    have hmap : ex = ex'.map (fun p => (p.1, castI p.2)) := by
      simp only [liftEx] at hspec
      exact Except.ok.inj hspec
    subst hmap
    refine C20_sufficient_exact_partial hz σ σ' n hn φ hwf hfrag ex' hU hviol (fun x t hr ht => ?_)
    exact hagree x t (by rw [reportedZ_cast]; exact hr) ht

/-- `interval_union` of the LTL module (the copy `Explanations.__setitem__` uses to merge the intervals recorded for a name that is
    explained more than once) is `unionIvs` too: the two modules carry the same function. -/
theorem fn_interval_union_ltl (I : Ivs) :
    call (α := α) Gen.Expl.ltl_interval_union [] [encI I] = .ok ([], encI (unionIvs I)) :=
  fn_interval_union I

/-- Every function of the two `explanations.py` modules lies inside the translated subset. -/
theorem genExpl_supported :
    (Gen.Expl.ltlFuncs ++ Gen.Expl.stlFuncs).all (fun p => p.2.supported) = true := by
  decide

end Rtamt.Py
