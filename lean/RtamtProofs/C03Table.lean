/-
  C03, obligations about the current source tree (table regenerated from /repo):
  the horizon visitor and the pastifier override `visitX` for every node class
  except the unbounded future operators, on which they raise RTAMTException; and the
  statement of C03 without the fragment hypothesis is false for the algorithm (F15).
-/
import RtamtProofs.C03
import RtamtProofs.Lemmas.Instance

namespace Rtamt
open Val

theorem C03_table_pastifier :
    ∀ k ∈ Kind.all,
      (k = .Eventually ∨ k = .Always ∨ k = .Until →
          Generated.horizon.raises k = true ∧ Generated.pastifier.raises k = true) ∧
      (¬ (k = .Eventually ∨ k = .Always ∨ k = .Until) →
          Generated.horizon.handles k = true ∧ Generated.pastifier.handles k = true) := by
  decide

/-- The full statement (no fragment hypothesis) fails: for `φ = prev (eventually[0,1] a)`,
    horizon 1, the pastified formula is `prev (once[0,1] a)`, whose value at `i = 1` is `a[0]`,
    while the original at sample `0` is `+inf` (finding F15, replayed on the real code on every run). -/
theorem C03_counterexample :
    ∃ (φ : F EReal) (σ : String → Nat → EReal), φ.bounded = true ∧ φ.wf = true ∧ hor φ = 1 ∧
      rho σ 2 (pastify φ) 1 ≠ rho σ 2 φ (1 - hor φ) := by
  refine ⟨.tmp1 .prev (.tb1 .ev 0 1 (.var "a")), fun _ _ => 1, by decide, by decide, by decide, ?_⟩
  simp [pastify, past, hor, delay, rho, maxOver, lmax, lmaxFrom, pmax, Val.lt, Val.pinf, Val.ninf]
  rw [if_pos (by exact bot_lt_iff_ne_bot.2 (by decide))]
  decide

/-- Non-vacuity of `C03_pastified_monitor_partial`: a nested bounded-future formula in the fragment. -/
example :
    let φ : F EReal := .bin .implies (.bin (.pred .ge) (.var "req") (.const 3))
        (.tb1 .ev 0 2 (.tb1 .alw 0 3 (.bin .and (.tmp1 .once (.var "gnt")) (.tmp1 .next (.var "req")))))
    φ.frag = true ∧ φ.wf = true ∧ hor φ = 6 := by
  refine ⟨by decide, by decide, by decide⟩

end Rtamt
