/-
  C18 — Temporal dualities and expansion laws hold in every monitor.

  "For all sub-formulas, bounds and traces the same monitor returns identical signals
   for: not eventually[a,b] p and always[a,b] not p; not once[a,b] p and
   historically[a,b] not p (also unbounded); p implies q and (not p) or q;
   eventually[a,b] eventually[c,d] p and eventually[a+c,b+d] p (same for once); and, in
   discrete time, p since q and q or (p and s_prev(p since q)), p until q and
   q or (p and s_next(p until q))."

  Laws as equations between `rho` (M-spec), then transferred to the offline and online
  monitors through C01 / C02.
-/
import RtamtProofs.C02

namespace Rtamt
open Val

variable {α : Type} [Val α] [LawfulVal α]

/-- Two formulas denote the same robustness signal on every trace. -/
def Equiv (φ ψ : F α) : Prop := ∀ (σ : String → Nat → α) (n t : Nat), t < n → rho σ n φ t = rho σ n ψ t


/-! ### window lemmas -/

theorem C18.neg_maxOver (lo hi : Nat) (f : Nat → α) :
    Val.neg (maxOver lo hi f) = minOver lo hi (fun t => Val.neg (f t)) := by
  apply eq_of_lb
  intro c
  have swap : ∀ x : α, c ≤ Val.neg x ↔ x ≤ Val.neg c := fun x => by
    have := neg_le_neg_iff (Val.neg c) x
    rwa [LawfulVal.neg_neg] at this
  rw [le_minOver_iff, swap, maxOver_le_iff]
  simp only [swap]

theorem C18.maxOver_congr (lo hi : Nat) (f g : Nat → α)
    (e : ∀ t, lo ≤ t → t < hi → f t = g t) : maxOver lo hi f = maxOver lo hi g := by
  apply eq_of_ub
  intro c
  rw [maxOver_le_iff, maxOver_le_iff]
  constructor
  · intro h t h1 h2; rw [← e t h1 h2]; exact h t h1 h2
  · intro h t h1 h2; rw [e t h1 h2]; exact h t h1 h2

theorem C18.maxOver_empty (lo hi : Nat) (f : Nat → α) (h : hi ≤ lo) :
    maxOver lo hi f = (Val.ninf : α) := by
  apply eq_of_ub
  intro c
  rw [maxOver_le_iff, LawfulVal.ninf_bot]
  constructor
  · intro _; exact bot_le
  · intro _ t h1 h2; omega

theorem C18.minOver_empty (lo hi : Nat) (f : Nat → α) (h : hi ≤ lo) :
    minOver lo hi f = (Val.pinf : α) := by
  apply eq_of_lb
  intro c
  rw [le_minOver_iff, LawfulVal.pinf_top]
  constructor
  · intro _; exact le_top
  · intro _ t h1 h2; omega

theorem C18.maxOver_succ_right (lo hi : Nat) (f : Nat → α) (h : lo ≤ hi) :
    maxOver lo (hi + 1) f = max (maxOver lo hi f) (f hi) := by
  apply eq_of_ub
  intro c
  rw [max_le_iff, maxOver_le_iff, maxOver_le_iff]
  constructor
  · intro H
    exact ⟨fun t h1 h2 => H t h1 (by omega), H hi h (by omega)⟩
  · rintro ⟨H1, H2⟩ t h1 h2
    by_cases e : t = hi
    · subst e; exact H2
    · exact H1 t h1 (by omega)

theorem C18.maxOver_succ_left (lo hi : Nat) (f : Nat → α) (h : lo < hi) :
    maxOver lo hi f = max (f lo) (maxOver (lo + 1) hi f) := by
  apply eq_of_ub
  intro c
  rw [max_le_iff, maxOver_le_iff, maxOver_le_iff]
  constructor
  · intro H
    exact ⟨H lo le_rfl h, fun t h1 h2 => H t (by omega) h2⟩
  · rintro ⟨H1, H2⟩ t h1 h2
    by_cases e : t = lo
    · subst e; exact H1
    · exact H2 t (by omega) h2

theorem C18.minOver_succ_right (lo hi : Nat) (f : Nat → α) (h : lo ≤ hi) :
    minOver lo (hi + 1) f = min (minOver lo hi f) (f hi) := by
  apply eq_of_lb
  intro c
  rw [le_min_iff, le_minOver_iff, le_minOver_iff]
  constructor
  · intro H
    exact ⟨fun t h1 h2 => H t h1 (by omega), H hi h (by omega)⟩
  · rintro ⟨H1, H2⟩ t h1 h2
    by_cases e : t = hi
    · subst e; exact H2
    · exact H1 t h1 (by omega)

theorem C18.minOver_succ_left (lo hi : Nat) (f : Nat → α) (h : lo < hi) :
    minOver lo hi f = min (f lo) (minOver (lo + 1) hi f) := by
  apply eq_of_lb
  intro c
  rw [le_min_iff, le_minOver_iff, le_minOver_iff]
  constructor
  · intro H
    exact ⟨H lo le_rfl h, fun t h1 h2 => H t (by omega) h2⟩
  · rintro ⟨H1, H2⟩ t h1 h2
    by_cases e : t = lo
    · subst e; exact H1
    · exact H2 t (by omega) h2

/-- `min` distributes over a window maximum (also over the empty one: both sides are `⊥`). -/
theorem C18.min_maxOver (x : α) (lo hi : Nat) (f : Nat → α) :
    min x (maxOver lo hi f) = maxOver lo hi (fun t => min x (f t)) := by
  apply eq_of_ub
  intro c
  rw [min_le_iff, maxOver_le_iff, maxOver_le_iff]
  simp only [min_le_iff]
  by_cases hx : x ≤ c
  · simp [hx]
  · simp [hx]

theorem C18_not_ev_bounded (a b : Nat) (p : F α) :
    Equiv (.un .not (.tb1 .ev a b p)) (.tb1 .alw a b (.un .not p)) := by
  intro σ n t ht
  simp only [rho, Un.app]
  exact C18.neg_maxOver _ _ _

theorem C18_not_once_bounded (a b : Nat) (p : F α) :
    Equiv (.un .not (.tb1 .once a b p)) (.tb1 .hist a b (.un .not p)) := by
  intro σ n t ht
  simp only [rho, Un.app]
  exact C18.neg_maxOver _ _ _

theorem C18_not_once (p : F α) :
    Equiv (.un .not (.tmp1 .once p)) (.tmp1 .hist (.un .not p)) := by
  intro σ n t ht
  simp only [rho, Un.app]
  exact C18.neg_maxOver _ _ _

theorem C18_not_ev (p : F α) :
    Equiv (.un .not (.tmp1 .ev p)) (.tmp1 .alw (.un .not p)) := by
  intro σ n t ht
  simp only [rho, Un.app]
  exact C18.neg_maxOver _ _ _

theorem C18_implies (p q : F α) :
    Equiv (.bin .implies p q) (.bin .or (.un .not p) q) := by
  intro σ n t ht
  simp only [rho, Un.app, Bin.app, pmax_eq]

theorem C18_ev_ev (a b c d : Nat) (hab : a ≤ b) (hcd : c ≤ d) (p : F α) :
    Equiv (.tb1 .ev a b (.tb1 .ev c d p)) (.tb1 .ev (a + c) (b + d) p) := by
  intro σ n t ht
  simp only [rho]
  apply eq_of_ub
  intro x
  simp only [maxOver_le_iff]
  constructor
  · intro H u h1 h2
    by_cases hc : t + a ≤ u - d
    · exact H (u - d) hc (by omega) u (by omega) (by omega)
    · exact H (t + a) le_rfl (by omega) u (by omega) (by omega)
  · intro H t' h1 h2 u h3 h4
    exact H u (by omega) (by omega)

theorem C18_once_once (a b c d : Nat) (hab : a ≤ b) (hcd : c ≤ d) (p : F α) :
    Equiv (.tb1 .once a b (.tb1 .once c d p)) (.tb1 .once (a + c) (b + d) p) := by
  intro σ n t ht
  simp only [rho]
  apply eq_of_ub
  intro x
  simp only [maxOver_le_iff]
  constructor
  · intro H u h1 h2
    by_cases hc : t - a ≤ u + d
    · exact H (t - a) (by omega) (by omega) u (by omega) (by omega)
    · exact H (u + d) (by omega) (by omega) u (by omega) (by omega)
  · intro H t' h1 h2 u h3 h4
    exact H u (by omega) (by omega)

theorem C18_since_expansion (p q : F α) :
    Equiv (.tmp2 .since p q) (.bin .or q (.bin .and p (.tmp1 .sprev (.tmp2 .since p q)))) := by
  intro σ n t ht
  simp only [rho, Bin.app, pmax_eq, pmin_eq]
  cases t with
  | zero =>
    simp only [if_true, LawfulVal.ninf_bot]
    rw [C18.maxOver_succ_right _ _ _ (Nat.zero_le _), C18.maxOver_empty _ _ _ le_rfl,
      C18.minOver_empty _ _ _ le_rfl, LawfulVal.ninf_bot, LawfulVal.pinf_top]
    simp
  | succ s =>
    simp only [Nat.add_sub_cancel, if_neg (Nat.succ_ne_zero s)]
    rw [C18.maxOver_succ_right _ _ _ (Nat.zero_le _), C18.minOver_empty _ _ _ le_rfl,
      LawfulVal.pinf_top, min_eq_left le_top, C18.min_maxOver, max_comm]
    congr 1
    apply C18.maxOver_congr
    intro u _ h2
    rw [C18.minOver_succ_right _ _ _ (by omega)]
    simp only [min_comm, min_left_comm, min_assoc]

theorem C18_until_expansion (p q : F α) :
    Equiv (.tmp2 .until p q) (.bin .or q (.bin .and p (.tmp1 .snext (.tmp2 .until p q)))) := by
  intro σ n t ht
  simp only [rho, Bin.app, pmax_eq, pmin_eq]
  rw [C18.maxOver_succ_left _ _ _ ht, C18.minOver_empty _ _ _ le_rfl, LawfulVal.pinf_top,
    min_eq_left le_top]
  congr 1
  have key : maxOver (t + 1) n
        (fun t' => min (rho σ n q t') (minOver t t' (rho σ n p))) =
      min (rho σ n p t) (maxOver (t + 1) n
        (fun t' => min (rho σ n q t') (minOver (t + 1) t' (rho σ n p)))) := by
    rw [C18.min_maxOver]
    apply C18.maxOver_congr
    intro u h1 _
    rw [C18.minOver_succ_left _ _ _ (by omega)]
    simp only [min_left_comm]
  rw [key]
  by_cases h : t + 1 < n
  · rw [if_pos h]
  · rw [if_neg h, C18.maxOver_empty _ _ _ (by omega)]

/-! ### transfer to the monitors -/

/-- Equivalent formulas get identical results from the discrete-time offline monitor. -/
theorem C18_offline (h : Kind → Bool) (φ ψ : F α) (heq : Equiv φ ψ) (w : Env α)
    (σ : String → Nat → α) (n : Nat) (hn : 0 < n)
    (hwfφ : φ.wf = true) (hwfψ : ψ.wf = true)
    (hhφ : ∀ k ∈ φ.kinds, h k = true) (hhψ : ∀ k ∈ ψ.kinds, h k = true)
    (hpφ : φ.noPrecedes) (hpψ : ψ.noPrecedes)
    (hwφ : w.Agrees σ n φ.vars) (hwψ : w.Agrees σ n ψ.vars) :
    evalOff h w n φ = evalOff h w n ψ := by
  rw [C01_offline_eq_rho h w σ n hn φ hwfφ hhφ hpφ hwφ,
    C01_offline_eq_rho h w σ n hn ψ hwfψ hhψ hpψ hwψ]
  congr 1
  exact tab_congr (heq σ n)

/-- Equivalent past formulas get identical update streams from the discrete-time online monitor. -/
theorem C18_online (h r : Kind → Bool) (φ ψ : F α) (heq : Equiv φ ψ)
    (σ : String → Nat → α) (n : Nat)
    (honφ : φ.online = true) (honψ : ψ.online = true) (hwfφ : φ.wf = true) (hwfψ : ψ.wf = true)
    (hhφ : ∀ k ∈ φ.kinds, k ≠ .Constant → (h k = true ∧ r k = false))
    (hhψ : ∀ k ∈ ψ.kinds, k ≠ .Constant → (h k = true ∧ r k = false)) :
    runOnline h r φ (envs σ n) = runOnline h r ψ (envs σ n) := by
  rw [C02_run_eq_rho h r σ n φ honφ hwfφ hhφ, C02_run_eq_rho h r σ n ψ honψ hwfψ hhψ]
  congr 1
  exact tab_congr (heq σ n)

end Rtamt
