/-
  C16 / C18 / C19 corollaries stated on the run of the TRANSLATED code.

  `RtamtProofs/DenseAlgCor.lean` (`C16_alg_settled`, `C18_alg_not_once_bounded`, `C18_alg_not_ev_bounded`) and
  `RtamtProofs/C19Alg.lean` (`C19_alg_sampled`, `C19_alg_dense_eq_discrete`) are proved on the hand-written mirrors
  `Dense.Alg.evalAlg` (dense-time offline) and `evalOff` (discrete-time offline).  Here they are composed with
    * `genD_eval_all` (RtamtProofs/GenDense.lean): with enough fuel for its `while` loops the dense-time offline visitor as
      translated from the Python source on this run, `Rtamt.Py.Dn.evalAlgG`, returns what `evalAlg` returns;
    * `genOff_eval` (RtamtProofs/GenOff.lean): the translated discrete-time offline visitor `Rtamt.Py.evalOffG` returns what
      `evalOff Generated.offlineDiscrete.handles` returns,
  so that the statements are about the lists the translated visitors return.  Every hypothesis of the mirror theorems is kept;
  only `∃ N, ∀ fuel, N ≤ fuel → …` is added (as in `C04_translated_eq_rhoD_partial`, RtamtProofs/GenDenseC04.lean).
-/
import RtamtProofs.GenDenseC04
import RtamtProofs.DenseAlgCor
import RtamtProofs.C19Alg
import RtamtProofs.GenOff

namespace Rtamt.Py.Dn
open Rtamt Val Rtamt.Dense Rtamt.Dense.Alg

variable {α : Type} [Val α] [LawfulVal α]

/-! ### side conditions of `genOff_eval` from those of the C19 theorems -/

omit [Val α] [LawfulVal α] in
/-- `noIA` (RtamtProofs/Dense/AlgMain.lean) and `plain` (RtamtProofs/GenOff.lean) are the same predicate. -/
theorem noIA_plain (φ : F α) (h : noIA φ = true) : Rtamt.Py.plain φ = true := by
  induction φ with
  | var _ => rfl
  | const _ => rfl
  | un _ φ ih => simpa [Rtamt.Py.plain, noIA] using ih (by simpa [noIA] using h)
  | bin op φ ψ ih1 ih2 =>
      simp only [noIA, Bool.and_eq_true] at h
      obtain ⟨⟨h0, h1⟩, h2⟩ := h
      simp only [Rtamt.Py.plain, Bool.and_eq_true]
      exact ⟨⟨h0, ih1 h1⟩, ih2 h2⟩
  | tmp1 _ φ ih => simpa [Rtamt.Py.plain, noIA] using ih (by simpa [noIA] using h)
  | tmp2 _ φ ψ ih1 ih2 =>
      simp only [noIA, Bool.and_eq_true] at h
      simp only [Rtamt.Py.plain, Bool.and_eq_true]
      exact ⟨ih1 h.1, ih2 h.2⟩
  | tb1 _ _ _ φ ih => simpa [Rtamt.Py.plain, noIA] using ih (by simpa [noIA] using h)
  | tb2 _ _ _ φ ψ ih1 ih2 =>
      simp only [noIA, Bool.and_eq_true] at h
      simp only [Rtamt.Py.plain, Bool.and_eq_true]
      exact ⟨ih1 h.1, ih2 h.2⟩

omit [Val α] [LawfulVal α] in
/-- The grid fragment of C19 has no binary bounded temporal operator, hence no `precedes` node. -/
theorem gridFrag_noPrec (φ : F α) (h : φ.gridFrag = true) : Rtamt.Py.noPrec φ = true := by
  induction φ with
  | var _ => rfl
  | const _ => rfl
  | un _ φ ih => simpa [Rtamt.Py.noPrec] using ih (by simpa [F.gridFrag] using h)
  | bin op φ ψ ih1 ih2 =>
      simp only [F.gridFrag, Bool.and_eq_true] at h
      simp only [Rtamt.Py.noPrec, Bool.and_eq_true]
      exact ⟨ih1 h.1, ih2 h.2⟩
  | tmp1 _ φ ih =>
      simp only [F.gridFrag, Bool.and_eq_true] at h
      simpa [Rtamt.Py.noPrec] using ih h.2
  | tmp2 _ φ ψ _ _ => simp [F.gridFrag] at h
  | tb1 _ _ _ φ ih =>
      simp only [F.gridFrag, Bool.and_eq_true] at h
      simpa [Rtamt.Py.noPrec] using ih h.2
  | tb2 _ _ _ φ ψ _ _ => simp [F.gridFrag] at h

omit [Val α] [LawfulVal α] in
/-- Every node class of a formula of the grid fragment is overridden by the discrete-time offline visitor
    (regenerated table `Generated.offlineDiscrete.handles`). -/
theorem gridFrag_handles (φ : F α) (h : φ.gridFrag = true) :
    ∀ k ∈ φ.kinds, Generated.offlineDiscrete.handles k = true := by
  induction φ with
  | var _ => intro k hk; simp only [F.kinds, List.mem_singleton] at hk; subst hk; rfl
  | const _ => intro k hk; simp only [F.kinds, List.mem_singleton] at hk; subst hk; rfl
  | un op φ ih =>
      intro k hk
      simp only [F.kinds, List.mem_cons] at hk
      rcases hk with rfl | hk
      · exact Rtamt.Py.handles_un op
      · exact ih (by simpa [F.gridFrag] using h) k hk
  | bin op φ ψ ih1 ih2 =>
      simp only [F.gridFrag, Bool.and_eq_true] at h
      intro k hk
      simp only [F.kinds, List.mem_cons, List.mem_append] at hk
      rcases hk with rfl | hk | hk
      · exact Rtamt.Py.handles_bin op
      · exact ih1 h.1 k hk
      · exact ih2 h.2 k hk
  | tmp1 op φ ih =>
      simp only [F.gridFrag, Bool.and_eq_true] at h
      intro k hk
      simp only [F.kinds, List.mem_cons] at hk
      rcases hk with rfl | hk
      · exact Rtamt.Py.handles_t1 op
      · exact ih h.2 k hk
  | tmp2 _ φ ψ _ _ => simp [F.gridFrag] at h
  | tb1 op _ _ φ ih =>
      simp only [F.gridFrag, Bool.and_eq_true] at h
      intro k hk
      simp only [F.kinds, List.mem_cons] at hk
      rcases hk with rfl | hk
      · exact Rtamt.Py.handles_tb1 op
      · exact ih h.2 k hk
  | tb2 _ _ _ φ ψ _ _ => simp [F.gridFrag] at h

/-! ### C16 -/

/-- **C16 on the translated source** (dense-time offline; hypotheses as in `C16_alg_settled`): with enough fuel, the lists
    the translated visitor returns for two sets of signals that agree up to `t + hor φ · scale` have the same value at `t` —
    a settled value does not depend on what the signals do later. -/
theorem C16_translated_dense_settled (cfg : DCfg) (hs : 0 ≤ cfg.scale) (w w' : DEnv α) (φ : F α)
    (hsup : supported φ = true) (hia : noIA φ = true) (hb : φ.bounded = true)
    (hw : w.WF φ.vars) (hw' : w'.WF φ.vars) (h0 : StartsAt0 w φ.vars) (h0' : StartsAt0 w' φ.vars)
    (hsub : ∀ a b : α, Val.neg (Val.sub a b) = Val.sub b a)
    (t : Rat) (ht : 0 ≤ t) (h : AgreeUpTo w w' φ.vars (t + (hor φ : Rat) * cfg.scale)) :
    ∃ N, ∀ fuel, N ≤ fuel → ∀ s s' : ASig α,
      evalAlgG fuel cfg w φ = .ok s → evalAlgG fuel cfg w' φ = .ok s' → valAtA s t = valAtA s' t := by
  obtain ⟨N1, hN1⟩ := genD_eval_all cfg w φ
  obtain ⟨N2, hN2⟩ := genD_eval_all cfg w' φ
  refine ⟨N1 + N2, fun fuel hf s s' he he' => ?_⟩
  rw [hN1 fuel (by omega)] at he
  rw [hN2 fuel (by omega)] at he'
  exact C16_alg_settled cfg hs w w' φ hsup hia hb hw hw' h0 h0' hsub t ht h he he'

/-! ### C18 -/

/-- `equivD_alg` on the translated source: two formulas that denote the same dense robustness signal are evaluated by the
    translated visitor to lists that denote the same step function. -/
theorem equivD_translated (φ ψ : F α) (heq : EquivD φ ψ) (cfg : DCfg) (hs : 0 ≤ cfg.scale) (w : DEnv α)
    (hsφ : supported φ = true) (hsψ : supported ψ = true) (hiφ : noIA φ = true) (hiψ : noIA ψ = true)
    (hw : w.WF (φ.vars ++ ψ.vars)) (h0 : StartsAt0 w (φ.vars ++ ψ.vars))
    (hsub : ∀ a b : α, Val.neg (Val.sub a b) = Val.sub b a) :
    ∃ N, ∀ fuel, N ≤ fuel → ∀ s s' : ASig α,
      evalAlgG fuel cfg w φ = .ok s → evalAlgG fuel cfg w ψ = .ok s' → ∀ t : Rat, 0 ≤ t → valAtA s t = valAtA s' t := by
  obtain ⟨N1, hN1⟩ := genD_eval_all cfg w φ
  obtain ⟨N2, hN2⟩ := genD_eval_all cfg w ψ
  refine ⟨N1 + N2, fun fuel hf s s' he he' t ht => ?_⟩
  rw [hN1 fuel (by omega)] at he
  rw [hN2 fuel (by omega)] at he'
  exact equivD_alg φ ψ heq cfg hs w hsφ hsψ hiφ hiψ hw h0 hsub he he' t ht

/-- **C18 on the translated source**, bounded duality (dense-time offline; hypotheses as in `C18_alg_not_once_bounded`):
    with enough fuel, the list the translated visitor returns for `not once[a,b] p` and the one it returns for
    `historically[a,b] not p` are the same step function. -/
theorem C18_translated_not_once_bounded (a b : Nat) (hab : a ≤ b) (p : F α) (cfg : DCfg) (hs : 0 ≤ cfg.scale)
    (w : DEnv α) (hsp : supported p = true) (hip : noIA p = true) (hw : w.WF p.vars) (h0 : StartsAt0 w p.vars)
    (hsub : ∀ a b : α, Val.neg (Val.sub a b) = Val.sub b a) :
    ∃ N, ∀ fuel, N ≤ fuel → ∀ s s' : ASig α,
      evalAlgG fuel cfg w (.un .not (.tb1 .once a b p)) = .ok s →
      evalAlgG fuel cfg w (.tb1 .hist a b (.un .not p)) = .ok s' →
      ∀ t : Rat, 0 ≤ t → valAtA s t = valAtA s' t := by
  obtain ⟨N1, hN1⟩ := genD_eval_all cfg w (.un .not (.tb1 .once a b p))
  obtain ⟨N2, hN2⟩ := genD_eval_all cfg w (.tb1 .hist a b (.un .not p))
  refine ⟨N1 + N2, fun fuel hf s s' he he' t ht => ?_⟩
  rw [hN1 fuel (by omega)] at he
  rw [hN2 fuel (by omega)] at he'
  exact C18_alg_not_once_bounded a b hab p cfg hs w hsp hip hw h0 hsub he he' t ht

/-- … and for `not eventually[a,b] p` / `always[a,b] not p` (hypotheses as in `C18_alg_not_ev_bounded`). -/
theorem C18_translated_not_ev_bounded (a b : Nat) (hab : a ≤ b) (p : F α) (cfg : DCfg) (hs : 0 ≤ cfg.scale)
    (w : DEnv α) (hsp : supported p = true) (hip : noIA p = true) (hw : w.WF p.vars) (h0 : StartsAt0 w p.vars)
    (hsub : ∀ a b : α, Val.neg (Val.sub a b) = Val.sub b a) :
    ∃ N, ∀ fuel, N ≤ fuel → ∀ s s' : ASig α,
      evalAlgG fuel cfg w (.un .not (.tb1 .ev a b p)) = .ok s →
      evalAlgG fuel cfg w (.tb1 .alw a b (.un .not p)) = .ok s' →
      ∀ t : Rat, 0 ≤ t → valAtA s t = valAtA s' t := by
  obtain ⟨N1, hN1⟩ := genD_eval_all cfg w (.un .not (.tb1 .ev a b p))
  obtain ⟨N2, hN2⟩ := genD_eval_all cfg w (.tb1 .alw a b (.un .not p))
  refine ⟨N1 + N2, fun fuel hf s s' he he' t ht => ?_⟩
  rw [hN1 fuel (by omega)] at he
  rw [hN2 fuel (by omega)] at he'
  exact C18_alg_not_ev_bounded a b hab p cfg hs w hsp hip hw h0 hsub he he' t ht

/-! ### C19 -/

/-- **C19 on the translated source**, dense side (hypotheses as in `C19_alg_sampled`): with enough fuel, the list the
    translated dense-time offline visitor returns for the sampled step signals, read at the sampling instant `k·P`, is the
    discrete-time semantics at `k`. -/
theorem C19_translated_sampled (P : Rat) (hP : 0 < P) (σ : String → Nat → α) (n : Nat) (φ : F α)
    (hfrag : φ.gridFrag = true) (hia : noIA φ = true) (xs : List String) (hxs : ∀ x ∈ φ.vars, x ∈ xs) (hnd : xs.Nodup)
    (hsub : ∀ a b : α, Val.neg (Val.sub a b) = Val.sub b a)
    (k : Nat) (hk : k + hor φ < n) :
    ∃ N, ∀ fuel, N ≤ fuel → ∀ s : ASig α,
      evalAlgG fuel { scale := P } (gridEnv P σ n xs) φ = .ok s →
      valAtA s ((k : Rat) * P) = some (rho σ n φ k) := by
  obtain ⟨N, hN⟩ := genD_eval_all { scale := P } (gridEnv P σ n xs) φ
  refine ⟨N, fun fuel hf s he => ?_⟩
  rw [hN fuel hf] at he
  exact C19_alg_sampled P hP σ n φ hfrag hia xs hxs hnd hsub k hk he

/-- **C19 on the two translated offline visitors** (hypotheses as in `C19_alg_dense_eq_discrete`, the table `h` of
    overridden node classes being the regenerated `Generated.offlineDiscrete.handles` that `genOff_eval` is about): with
    enough fuel, entry `k` of the list the translated discrete-time offline visitor `evalOffG` returns for the samples is the
    value at `k·P` of the list the translated dense-time offline visitor `evalAlgG` returns for the sampled step signals. -/
theorem C19_translated_dense_eq_discrete (w : Rtamt.Env α) (P : Rat) (hP : 0 < P) (σ : String → Nat → α) (n : Nat)
    (φ : F α) (hfrag : φ.gridFrag = true) (hia : noIA φ = true) (hwf : φ.wf = true)
    (hh : ∀ k ∈ φ.kinds, Generated.offlineDiscrete.handles k = true) (hp : φ.noPrecedes) (hw : w.Agrees σ n φ.vars)
    (xs : List String) (hxs : ∀ x ∈ φ.vars, x ∈ xs) (hnd : xs.Nodup)
    (hsub : ∀ a b : α, Val.neg (Val.sub a b) = Val.sub b a)
    (k : Nat) (hk : k + hor φ < n) :
    ∃ N, ∀ fuel, N ≤ fuel → ∀ s : ASig α,
      evalAlgG fuel { scale := P } (gridEnv P σ n xs) φ = .ok s →
      ∃ l, Rtamt.Py.evalOffG w n φ = .ok l ∧ (l[k]?) = valAtA s ((k : Rat) * P) := by
  obtain ⟨N, hN⟩ := genD_eval_all { scale := P } (gridEnv P σ n xs) φ
  refine ⟨N, fun fuel hf s he => ?_⟩
  rw [hN fuel hf] at he
  rw [Rtamt.Py.genOff_eval w n φ hwf (noIA_plain φ hia) (gridFrag_noPrec φ hfrag)]
  exact C19_alg_dense_eq_discrete Generated.offlineDiscrete.handles w P hP σ n φ hfrag hia hwf hh hp hw xs hxs hnd
    hsub k hk he

/-- The same with the two hypotheses that follow from `φ.gridFrag` (`hh`: every node class is overridden; `hp`: no
    `precedes` node) discharged. -/
theorem C19_translated_dense_eq_discrete' (w : Rtamt.Env α) (P : Rat) (hP : 0 < P) (σ : String → Nat → α) (n : Nat)
    (φ : F α) (hfrag : φ.gridFrag = true) (hia : noIA φ = true) (hwf : φ.wf = true) (hw : w.Agrees σ n φ.vars)
    (xs : List String) (hxs : ∀ x ∈ φ.vars, x ∈ xs) (hnd : xs.Nodup)
    (hsub : ∀ a b : α, Val.neg (Val.sub a b) = Val.sub b a)
    (k : Nat) (hk : k + hor φ < n) :
    ∃ N, ∀ fuel, N ≤ fuel → ∀ s : ASig α,
      evalAlgG fuel { scale := P } (gridEnv P σ n xs) φ = .ok s →
      ∃ l, Rtamt.Py.evalOffG w n φ = .ok l ∧ (l[k]?) = valAtA s ((k : Rat) * P) := by
  have hh := gridFrag_handles φ hfrag
  have hp : φ.noPrecedes := by
    intro hmem
    have := hh _ hmem
    revert this
    decide
  exact C19_translated_dense_eq_discrete w P hP σ n φ hfrag hia hwf hh hp hw xs hxs hnd hsub k hk

end Rtamt.Py.Dn
