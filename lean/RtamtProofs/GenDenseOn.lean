/-
  Assembly of the dense-time ONLINE monitor run through the operation classes translated from the source
  (`Rtamt/Py/RunDnOn.lean`: `initOnG`, `stepOnG`, `runOnG`) against the mirror `Rtamt/Dense/AlgOn.lean`
  (`initOn`, `stepOn`, `runOn`).

  (a) `SinceTimedOperation` (four nested objects built with `S.new`, updated with `S.mcall`) against the clause of `stepOn`
      for `.tb2 .since a b` (`GOn.sinceTUpdate`): relation `SinceTRel`, `gen_since_timed_build`,
      `gen_since_timed_updateObj` (values and exceptions).
  (b) the whole monitor: `StRel`, `F.onSupported`, `HistOK`, `HistOKRun`; `genOn_init`, `genOn_step`, `genOn_run`
      (success direction: whenever the mirror returns lists, the translated classes return the same lists, given enough
      fuel).  The interface-aware predicate `.bin (.predSat c)` (robustness semantics) is the translated subclass
      `IAPredicateOperation` (`RtamtProofs/GenDenseOnIA.lean`: `GOnIA.IAPredRel`, `gen_iapred_construct`,
      `gen_iapredop_updateObj`); for the operator `!=` the online `sat()` reads the verdict as `not (d == 0)` where the mirror
      has `abs(d) > 0`, hence the hypothesis `hne : φ.usesSatNe = true → GOnIA.SatNeLaw α`.  `.predZero` stays excluded.
  (c) `C05_translated_partial`, `C06_translated_online_partial` (`HistOK` along the run is discharged for both fragments,
      `GOn.histOKRun_frag`; `SatNeLaw` follows from `hcmp` of C06).

  Helper lemmas live in `Rtamt.Py.DnOn.GOn`.
-/
import RtamtProofs.GenDenseOnInter
import RtamtProofs.GenDenseOnBin
import RtamtProofs.GenDenseOnUn
import RtamtProofs.GenDenseOnTimed
import RtamtProofs.GenDenseOnIA
import RtamtProofs.Dense.OnMain
import Rtamt.Discrete.IA

namespace Rtamt.Py.DnOn
open Rtamt Val Rtamt.Dense Rtamt.Dense.Alg Rtamt.Dense.AlgOn

set_option linter.unusedSectionVars false
set_option linter.unusedVariables false
set_option linter.unusedSimpArgs false

variable {α : Type} [Val α]

namespace GOn

/-! ### statements with nested objects -/

section stmts
variable (call : Call α) (fuel : Nat)

theorem exec_seq_ok {a b : S} {env env' : Env α} (h : exec call fuel a env = .ok (env', .none)) :
    exec call fuel (.seq a b) env = exec call fuel b env' := by
  simp [exec, h]

theorem exec_seq_err {a b : S} {env : Env α} {e : PyErr} (h : exec call fuel a env = .error e) :
    exec call fuel (.seq a b) env = .error e := by
  simp [exec, h]

theorem exec_mcall1_ok (t o m : String) (a1 : E) (env : Env α) (v1 : DV α) (cls name : String) (store : Env α)
    (o' r : DV α) (h1 : evalE call env a1 = .ok v1) (ho : getLoc o env = .ok (.obj cls store))
    (hn : cls ++ "." ++ m = name) (hc : call name [.obj cls store, v1] = .ok (.list [o', r])) :
    exec call fuel (.mcall (some t) o m [a1]) env = .ok (setLoc t r (setLoc o o' env), .none) := by
  subst hn; simp [exec, h1, ho, hc]

theorem exec_mcall1_err (t o m : String) (a1 : E) (env : Env α) (v1 : DV α) (cls name : String) (store : Env α)
    (e : PyErr) (h1 : evalE call env a1 = .ok v1) (ho : getLoc o env = .ok (.obj cls store))
    (hn : cls ++ "." ++ m = name) (hc : call name [.obj cls store, v1] = .error e) :
    exec call fuel (.mcall (some t) o m [a1]) env = .error e := by
  subst hn; simp [exec, h1, ho, hc]

theorem exec_mcall2_ok (t o m : String) (a1 a2 : E) (env : Env α) (v1 v2 : DV α) (cls name : String) (store : Env α)
    (o' r : DV α) (h1 : evalE call env a1 = .ok v1) (h2 : evalE call env a2 = .ok v2)
    (ho : getLoc o env = .ok (.obj cls store)) (hn : cls ++ "." ++ m = name)
    (hc : call name [.obj cls store, v1, v2] = .ok (.list [o', r])) :
    exec call fuel (.mcall (some t) o m [a1, a2]) env = .ok (setLoc t r (setLoc o o' env), .none) := by
  subst hn; simp [exec, h1, h2, ho, hc]

theorem exec_mcall2_err (t o m : String) (a1 a2 : E) (env : Env α) (v1 v2 : DV α) (cls name : String) (store : Env α)
    (e : PyErr) (h1 : evalE call env a1 = .ok v1) (h2 : evalE call env a2 = .ok v2)
    (ho : getLoc o env = .ok (.obj cls store)) (hn : cls ++ "." ++ m = name)
    (hc : call name [.obj cls store, v1, v2] = .error e) :
    exec call fuel (.mcall (some t) o m [a1, a2]) env = .error e := by
  subst hn; simp [exec, h1, h2, ho, hc]

theorem exec_new0_ok (t cls name : String) (env : Env α) (o' r : DV α) (hn : cls ++ ".__init__" = name)
    (hc : call name [.obj cls []] = .ok (.list [o', r])) :
    exec call fuel (.new t cls []) env = .ok (setLoc t o' env, .none) := by
  subst hn; simp [exec, hc]

theorem exec_new2_ok (t cls name : String) (a1 a2 : E) (env : Env α) (v1 v2 o' r : DV α)
    (h1 : evalE call env a1 = .ok v1) (h2 : evalE call env a2 = .ok v2) (hn : cls ++ ".__init__" = name)
    (hc : call name [.obj cls [], v1, v2] = .ok (.list [o', r])) :
    exec call fuel (.new t cls [a1, a2]) env = .ok (setLoc t o' env, .none) := by
  subst hn; simp [exec, h1, h2, hc]

theorem exec_setLoc {x : String} {e : E} {env : Env α} {v : DV α} (h : evalE call env e = .ok v) :
    exec call fuel (.setLoc x e) env = .ok (setLoc x v env, .none) := by
  simp [exec, h]

end stmts

/-! ### `SinceTimedOperation`: the mirror clause and the pieces of the generated bodies -/

/-- the clause of `stepOn` for `.tb2 .since a b` on the state `(o, s, h, an)` (bounds already scaled) -/
def sinceTUpdate (a b : Rat) (o : TimedSt α) (s : SinceSt α) (h : TimedSt α) (an : BinSt α) (sl sr : ASig α) :
    Except PyErr ((TimedSt α × SinceSt α × TimedSt α × BinSt α) × ASig α) := do
  let r1 ← timedUpdate ltW Val.ninf a b o sr
  let r2 := sinceUpdate s sl sr
  let r3 ← timedUpdate gtW Val.pinf 0 a h r2.2
  let r4 ← binUpdate (fun x y => pmin x y) an r1.2 r3.2
  pure ((r1.1, r2.1, r3.1, r4.1), r4.2)

def stL : S := .setLoc "self.sample_left_buf" (.bin .add (.loc "self.sample_left_buf") (.loc "sample_left"))
def stR : S := .setLoc "self.sample_right_buf" (.bin .add (.loc "self.sample_right_buf") (.loc "sample_right"))
def stOnce : S := .mcall (some "out1") "self.once" "update" [.loc "sample_right"]
def stSince : S := .mcall (some "out2") "self.since" "update" [.loc "sample_left", .loc "sample_right"]
def stHist : S := .mcall (some "out3") "self.hist" "update" [.loc "out2"]
def stAnd : S := .mcall (some "sample_result") "self.andop" "update" [.loc "out1", .loc "out3"]
def stRet : S := .ret (.loc "sample_result")

theorem sinceT_body : Gen.DenseOn.SinceTimedOperation_update.body =
    .seq stL (.seq stR (.seq stOnce (.seq stSince (.seq stHist (.seq stAnd stRet))))) := rfl

/-- the fuel one `update` of a `SinceTimedOperation` needs: the sum of the bounds of the four nested updates (the sizes of
    the intermediate lists `out1`, `out2`, `out3` are those the mirror computes) -/
def sinceTFuel (a b : Rat) (o : TimedSt α) (s : SinceSt α) (h : TimedSt α) (an : BinSt α) (sl sr : ASig α) : Nat :=
  GOnTimed.G o sr + (s.bufA.length + sl.length + s.bufB.length + sr.length + 1) +
    GOnTimed.G h (sinceUpdate s sl sr).2 +
    (match timedUpdate ltW Val.ninf a b o sr, timedUpdate gtW Val.pinf 0 a h (sinceUpdate s sl sr).2 with
     | .ok r1, .ok r3 => GOnBin.binFuel an r1.2 r3.2
     | _, _ => 0)

theorem name_once_upd : "OnceTimedOperation" ++ "." ++ "update" = "OnceTimedOperation.update" := by decide
theorem name_since_upd : "SinceOperation" ++ "." ++ "update" = "SinceOperation.update" := by decide
theorem name_hist_upd : "HistoricallyTimedOperation" ++ "." ++ "update" = "HistoricallyTimedOperation.update" := by decide
theorem name_and_upd : "AndOperation" ++ "." ++ "update" = "AndOperation" ++ ".update" := by decide

theorem exec_stRet (call : Call α) (fuel : Nat) (env : Env α) (v : DV α) :
    exec call fuel stRet (setLoc "sample_result" v env) = .ok (setLoc "sample_result" v env, .ret v) := by
  simp [stRet, exec, evalE]

/-- the body of `SinceTimedOperation.update` on locals known through lookups -/
theorem sinceT_exec (fuel : Nat) (a b : Rat) (o : TimedSt α) (s : SinceSt α) (h : TimedSt α) (an : BinSt α)
    (once since hist andop : DV α) (lb rb : List (DV α)) (env0 : Env α) (sl sr : ASig α)
    (g_once : getLoc "self.once" env0 = .ok once) (r_once : TimedRel "OnceTimedOperation" true a b o once)
    (g_since : getLoc "self.since" env0 = .ok since) (r_since : SinceRel s since)
    (g_hist : getLoc "self.hist" env0 = .ok hist) (r_hist : TimedRel "HistoricallyTimedOperation" false 0 a h hist)
    (g_and : getLoc "self.andop" env0 = .ok andop) (r_and : GOnBin.BinRel "AndOperation" an andop)
    (g_lb : getLoc "self.sample_left_buf" env0 = .ok (.list lb))
    (g_rb : getLoc "self.sample_right_buf" env0 = .ok (.list rb))
    (g_sl : getLoc "sample_left" env0 = .ok (encSig sl)) (g_sr : getLoc "sample_right" env0 = .ok (encSig sr))
    (hI : InterOnSpec α fuel 3)
    (hs : h.rs = none → ∀ t v rest, (sinceUpdate s sl sr).2 = (t, v) :: rest → t ≠ .inf)
    (hfuel : sinceTFuel a b o s h an sl sr ≤ fuel) :
    match sinceTUpdate a b o s h an sl sr with
    | .ok (st', out) =>
        ∃ (env' : Env α) (once' since' hist' andop' : DV α) (lb' rb' : List (DV α)),
          exec (callAt Gen.DenseOn.fns fuel 6) fuel Gen.DenseOn.SinceTimedOperation_update.body env0 =
            .ok (env', .ret (encSig out)) ∧
          getLoc "self.once" env' = .ok once' ∧ TimedRel "OnceTimedOperation" true a b st'.1 once' ∧
          getLoc "self.since" env' = .ok since' ∧ SinceRel st'.2.1 since' ∧
          getLoc "self.hist" env' = .ok hist' ∧ TimedRel "HistoricallyTimedOperation" false 0 a st'.2.2.1 hist' ∧
          getLoc "self.andop" env' = .ok andop' ∧ GOnBin.BinRel "AndOperation" st'.2.2.2 andop' ∧
          getLoc "self.sample_left_buf" env' = .ok (.list lb') ∧ getLoc "self.sample_right_buf" env' = .ok (.list rb')
    | .error e =>
        exec (callAt Gen.DenseOn.fns fuel 6) fuel Gen.DenseOn.SinceTimedOperation_update.body env0 = .error e := by
  have ⟨st1, _, _, eo1, _⟩ := r_once
  have ⟨st2, eo2, _⟩ := r_since
  have ⟨st3, _, _, eo3, _⟩ := r_hist
  have ⟨st4, eo4, _⟩ := r_and
  subst eo1 eo2 eo3 eo4
  unfold sinceTFuel at hfuel
  unfold sinceTUpdate
  rw [sinceT_body]
  -- the two unused buffers
  have e1 : exec (callAt (α := α) Gen.DenseOn.fns fuel 6) fuel stL env0 =
      .ok (setLoc "self.sample_left_buf" (.list (lb ++ sl.map encSmp)) env0, .none) := by
    apply exec_setLoc
    simp [evalE, g_lb, g_sl, evalBin, isCmp, arith, encSig]
  rw [exec_seq_ok _ _ e1]
  have e2 : exec (callAt (α := α) Gen.DenseOn.fns fuel 6) fuel stR
      (setLoc "self.sample_left_buf" (.list (lb ++ sl.map encSmp)) env0) =
      .ok (setLoc "self.sample_right_buf" (.list (rb ++ sr.map encSmp))
        (setLoc "self.sample_left_buf" (.list (lb ++ sl.map encSmp)) env0), .none) := by
    apply exec_setLoc
    simp [evalE, g_rb, g_sr, evalBin, isCmp, arith, encSig]
  rw [exec_seq_ok _ _ e2]
  clear e1 e2
  have a_once : getLoc "self.once" (setLoc "self.sample_right_buf" (.list (rb ++ sr.map encSmp))
      (setLoc "self.sample_left_buf" (.list (lb ++ sl.map encSmp)) env0)) = .ok (.obj "OnceTimedOperation" st1) := by simp; exact g_once
  have a_since : getLoc "self.since" (setLoc "self.sample_right_buf" (.list (rb ++ sr.map encSmp))
      (setLoc "self.sample_left_buf" (.list (lb ++ sl.map encSmp)) env0)) = .ok (.obj "SinceOperation" st2) := by simp; exact g_since
  have a_hist : getLoc "self.hist" (setLoc "self.sample_right_buf" (.list (rb ++ sr.map encSmp))
      (setLoc "self.sample_left_buf" (.list (lb ++ sl.map encSmp)) env0)) = .ok (.obj "HistoricallyTimedOperation" st3) := by simp; exact g_hist
  have a_and : getLoc "self.andop" (setLoc "self.sample_right_buf" (.list (rb ++ sr.map encSmp))
      (setLoc "self.sample_left_buf" (.list (lb ++ sl.map encSmp)) env0)) = .ok (.obj "AndOperation" st4) := by simp; exact g_and
  have a_sl : getLoc "sample_left" (setLoc "self.sample_right_buf" (.list (rb ++ sr.map encSmp))
      (setLoc "self.sample_left_buf" (.list (lb ++ sl.map encSmp)) env0)) = .ok (encSig sl) := by simp; exact g_sl
  have a_sr : getLoc "sample_right" (setLoc "self.sample_right_buf" (.list (rb ++ sr.map encSmp))
      (setLoc "self.sample_left_buf" (.list (lb ++ sl.map encSmp)) env0)) = .ok (encSig sr) := by simp; exact g_sr
  have a_lb : getLoc "self.sample_left_buf" (setLoc "self.sample_right_buf" (.list (rb ++ sr.map encSmp))
      (setLoc "self.sample_left_buf" (.list (lb ++ sl.map encSmp)) env0)) = .ok (.list (lb ++ sl.map encSmp)) := by simp
  have a_rb : getLoc "self.sample_right_buf" (setLoc "self.sample_right_buf" (.list (rb ++ sr.map encSmp))
      (setLoc "self.sample_left_buf" (.list (lb ++ sl.map encSmp)) env0)) = .ok (.list (rb ++ sr.map encSmp)) := by simp
  generalize (setLoc "self.sample_right_buf" (DV.list (rb ++ sr.map encSmp))
      (setLoc "self.sample_left_buf" (DV.list (lb ++ sl.map encSmp)) env0)) = env2 at *
  generalize lb ++ sl.map encSmp = lb' at *
  generalize rb ++ sr.map encSmp = rb' at *
  -- once
  have hon := gen_once_timed_update fuel 4 a b o _ r_once sr (by omega)
  revert hon
  cases h1 : timedUpdate ltW Val.ninf a b o sr with
  | error e =>
      intro hon
      apply exec_seq_err
      exact exec_mcall1_err _ fuel _ _ _ _ env2 (encSig sr) _ _ st1 e (by simp [evalE, a_sr]) a_once
        name_once_upd hon
  | ok r1 =>
      obtain ⟨o', out1⟩ := r1
      rintro ⟨once', hc1, rel1⟩
      simp only [ok_bind]
      rw [h1] at hfuel
      have e3 := exec_mcall1_ok (callAt (α := α) Gen.DenseOn.fns fuel 6) fuel "out1" "self.once" "update"
        (.loc "sample_right") env2 (encSig sr) _ _ st1 once' (encSig out1)
        (by simp [evalE, a_sr]) a_once name_once_upd hc1
      rw [stOnce, exec_seq_ok _ _ e3]
      clear e3
      -- since
      obtain ⟨since', hc2, rel2⟩ := gen_SinceOperation_update fuel 5 s _ r_since sl sr (by omega)
      have e4 := exec_mcall2_ok (callAt (α := α) Gen.DenseOn.fns fuel 6) fuel "out2" "self.since" "update"
        (.loc "sample_left") (.loc "sample_right") (setLoc "out1" (encSig out1) (setLoc "self.once" once' env2))
        (encSig sl) (encSig sr) _ _ st2 since' (encSig (sinceUpdate s sl sr).2)
        (by simp [evalE, a_sl]) (by simp [evalE, a_sr]) (by simp [a_since]) name_since_upd hc2
      rw [stSince, exec_seq_ok _ _ e4]
      clear e4
      generalize hsu : sinceUpdate s sl sr = su at *
      obtain ⟨s', out2⟩ := su
      simp only at hs hfuel rel2 ⊢
      -- hist
      have hhi := gen_hist_timed_update fuel 4 0 a h _ r_hist out2 hs (by omega)
      revert hhi
      cases h3 : timedUpdate gtW Val.pinf 0 a h out2 with
      | error e =>
          intro hhi
          apply exec_seq_err
          exact exec_mcall1_err _ fuel _ _ _ _ _ (encSig out2) _ _ st3 e (by simp [evalE]) (by simp [a_hist])
            name_hist_upd hhi
      | ok r3 =>
          obtain ⟨h', out3⟩ := r3
          rintro ⟨hist', hc3, rel3⟩
          simp only [ok_bind]
          rw [h3] at hfuel
          simp only at hfuel
          have e5 := exec_mcall1_ok (callAt (α := α) Gen.DenseOn.fns fuel 6) fuel "out3" "self.hist" "update"
            (.loc "out2") (setLoc "out2" (encSig out2) (setLoc "self.since" since'
              (setLoc "out1" (encSig out1) (setLoc "self.once" once' env2))))
            (encSig out2) _ _ st3 hist' (encSig out3)
            (by simp [evalE]) (by simp [a_hist]) name_hist_upd hc3
          rw [stHist, exec_seq_ok _ _ e5]
          clear e5
          -- and
          have han := gen_bin_update_full fuel 3 "AndOperation" "conjunction" GOnBin.binClass_And
            (fun x y : α => pmin x y) hI (fun x y => GOnBin.meth_conjunction fuel 3 x y) an _ r_and out1 out3 (by omega)
          revert han
          cases h4 : binUpdate (fun x y : α => pmin x y) an out1 out3 with
          | error e =>
              intro han
              apply exec_seq_err
              exact exec_mcall2_err _ fuel _ _ _ _ _ _ (encSig out1) (encSig out3) _ _ st4 e (by simp [evalE])
                (by simp [evalE]) (by simp [a_and]) name_and_upd han
          | ok r4 =>
              obtain ⟨an', out⟩ := r4
              rintro ⟨andop', hc4, rel4⟩
              have e6 := exec_mcall2_ok (callAt (α := α) Gen.DenseOn.fns fuel 6) fuel "sample_result" "self.andop"
                "update" (.loc "out1") (.loc "out3")
                (setLoc "out3" (encSig out3) (setLoc "self.hist" hist'
                  (setLoc "out2" (encSig out2) (setLoc "self.since" since'
                    (setLoc "out1" (encSig out1) (setLoc "self.once" once' env2))))))
                (encSig out1) (encSig out3) _ _ st4 andop' (encSig out)
                (by simp [evalE]) (by simp [evalE]) (by simp [a_and]) name_and_upd hc4
              rw [stAnd, exec_seq_ok _ _ e6]
              rw [exec_stRet]
              refine ⟨_, once', since', hist', andop', lb', rb', rfl, ?_, rel1, ?_, rel2, ?_,
                rel3, ?_, rel4, ?_, ?_⟩
              · simp
              · simp
              · simp
              · simp
              · simp [a_lb]
              · simp [a_rb]

end GOn

open GOn

/-- The object of `SinceTimedOperation(a, b)` against the state `(o, s, h, an)` of the mirror's `.sinceT` node: the four nested
    objects are related to the four records; the two (unused) buffers hold lists. -/
def SinceTRel (a b : Rat) (st : TimedSt α × SinceSt α × TimedSt α × BinSt α) (obj : DV α) : Prop :=
  ∃ (store : Env α) (once since hist andop : DV α) (lb rb : List (DV α)), obj = .obj "SinceTimedOperation" store ∧
    store.lookup "self.once" = some once ∧ TimedRel "OnceTimedOperation" true a b st.1 once ∧
    store.lookup "self.since" = some since ∧ SinceRel st.2.1 since ∧
    store.lookup "self.hist" = some hist ∧ TimedRel "HistoricallyTimedOperation" false 0 a st.2.2.1 hist ∧
    store.lookup "self.andop" = some andop ∧ GOnBin.BinRel "AndOperation" st.2.2.2 andop ∧
    store.lookup "self.sample_left_buf" = some (.list lb) ∧ store.lookup "self.sample_right_buf" = some (.list rb) ∧
    (∀ p ∈ store, isSelfKey p.1 = true)


namespace GOn

def siL : S := .setLoc "self.sample_left_buf" .emptyList
def siR : S := .setLoc "self.sample_right_buf" .emptyList
def siB : S := .setLoc "self.begin" (.loc "begin")
def siE : S := .setLoc "self.end" (.loc "end")
def siSince : S := .new "self.since" "SinceOperation" []
def siHist : S := .new "self.hist" "HistoricallyTimedOperation" [.int 0, .loc "self.begin"]
def siOnce : S := .new "self.once" "OnceTimedOperation" [.loc "self.begin", .loc "self.end"]
def siAnd : S := .new "self.andop" "AndOperation" []

theorem sinceT_init_body : Gen.DenseOn.SinceTimedOperation_init.body =
    .seq siL (.seq siR (.seq siB (.seq siE (.seq siSince (.seq siHist (.seq siOnce siAnd)))))) := rfl

theorem name_since_init : "SinceOperation" ++ ".__init__" = "SinceOperation.__init__" := by decide

theorem toTm_int0 : toTm (DV.int 0 : DV α) = .ok (.fin 0) := by
  simp [toTm]

end GOn

/-- (a) `SinceTimedOperation(a, b)`: the fresh object is related to the initial state of the mirror's `.sinceT` node. -/
theorem gen_since_timed_init (fuel : Nat) (a b : Rat) :
    ∃ obj : DV α, callAt Gen.DenseOn.fns fuel 7 "SinceTimedOperation.__init__"
        [.obj "SinceTimedOperation" [], .tm (.fin a), .tm (.fin b)] = .ok (.list [obj, .none]) ∧
      SinceTRel a b ({}, { prev := Val.ninf }, {}, {}) obj := by
  obtain ⟨since, hsi, rsi⟩ := gen_SinceOperation_init (α := α) fuel 5
  obtain ⟨hist, hhi, rhi⟩ := gen_hist_timed_init (α := α) fuel 5 (.int 0) (.tm (.fin a)) 0 a toTm_int0 rfl
  obtain ⟨once, hon, ron⟩ := gen_once_timed_init (α := α) fuel 5 (.tm (.fin a)) (.tm (.fin b)) a b rfl rfl
  obtain ⟨andop, han, ran⟩ := gen_bin_init (α := α) fuel 5 "AndOperation" GOnBin.initClass_And
  rw [callAt_fn _ _ _ _ Gen.DenseOn.SinceTimedOperation_init _ rfl]
  have hx : exec (callAt (α := α) Gen.DenseOn.fns fuel 6) fuel Gen.DenseOn.SinceTimedOperation_init.body
      ([] ++ (Gen.DenseOn.SinceTimedOperation_init.params.drop 1).zip [DV.tm (.fin a), DV.tm (.fin b)]) =
      .ok (setLoc "self.andop" andop (setLoc "self.once" once (setLoc "self.hist" hist (setLoc "self.since" since
        (setLoc "self.end" (.tm (.fin b)) (setLoc "self.begin" (.tm (.fin a)) (setLoc "self.sample_right_buf" (.list [])
          (setLoc "self.sample_left_buf" (.list []) [("begin", .tm (.fin a)), ("end", .tm (.fin b))]))))))), .none) := by
    have hz : ([] ++ (Gen.DenseOn.SinceTimedOperation_init.params.drop 1).zip [DV.tm (.fin a), DV.tm (.fin b)]) =
        ([("begin", .tm (.fin a)), ("end", .tm (.fin b))] : Env α) := rfl
    rw [hz, sinceT_init_body]
    have han' : callAt (α := α) Gen.DenseOn.fns fuel 6 "AndOperation.__init__" [DV.obj "AndOperation" []] =
        .ok (.list [andop, .none]) := han
    simp [siL, siR, siB, siE, siSince, siHist, siOnce, siAnd, exec, evalE, hsi, hhi, hon, han']
  refine ⟨_, GOnBin.runFn_method_none _ fuel _ rfl "SinceTimedOperation" [] _ rfl _ hx, _, once, since, hist, andop, [], [],
    rfl, ?_, ron, ?_, rsi, ?_, rhi, ?_, ran, ?_, ?_, GOnBin.selfKeys_filter _⟩
  all_goals (rw [GOnBin.lookup_filter_self _ _ (by simp [isSelfKey])]; simp)

/-- (a) the construction visitor on a `.tb2 .since` node: `SinceTimedOperation(a, b)` -/
theorem gen_since_timed_build (fuel : Nat) (a b : Rat) :
    ∃ obj : DV α, build fuel TB2.since.kind none (some (a, b)) = .ok obj ∧
      SinceTRel a b ({}, { prev := Val.ninf }, {}, {}) obj := by
  obtain ⟨obj, ho, hrel⟩ := gen_since_timed_init (α := α) fuel a b
  refine ⟨obj, ?_, hrel⟩
  have hc : ctorOf TB2.since.kind = some (.builds "SinceTimedOperation" [.begin_, .end_]) := rfl
  have hn : ("SinceTimedOperation" ++ ".__init__" : String) = "SinceTimedOperation.__init__" := by decide
  have hd : (depth : Nat) = 7 := rfl
  simp only [build, hc, List.mapM_cons, List.mapM_nil, pure_eq_ok, ok_bind, construct, hd, hn, ho]

/-- (a) `SinceTimedOperation.update` against the clause of `stepOn` for `.tb2 .since a b` (`GOn.sinceTUpdate`), through
    `updateObj` (call depth 7): values and exceptions.  `hs`: the batch handed to the nested bounded-historically object in its
    initial state does not start at time `inf` (the divergence of `gen_hist_timed_update`). -/
theorem gen_since_timed_updateObj (fuel : Nat) (a b : Rat) (o : TimedSt α) (s : SinceSt α) (h : TimedSt α) (an : BinSt α)
    (obj : DV α) (hrel : SinceTRel a b (o, s, h, an) obj) (sl sr : ASig α)
    (hs : h.rs = none → ∀ t v rest, (sinceUpdate s sl sr).2 = (t, v) :: rest → t ≠ .inf)
    (hfuel : sinceTFuel a b o s h an sl sr ≤ fuel) :
    match sinceTUpdate a b o s h an sl sr with
    | .ok (st', out) => ∃ obj', updateObj fuel obj [sl, sr] = .ok (obj', out) ∧ SinceTRel a b st' obj'
    | .error e => updateObj fuel obj [sl, sr] = .error e := by
  obtain ⟨store, once, since, hist, andop, lb, rb, rfl, l1, r1, l2, r2, l3, r3, l4, r4, l5, l6, hk⟩ := hrel
  obtain ⟨e1, e2, -, -⟩ := GOnBin.env0_facts store hk (encSig sl) (encSig sr)
  have hx := sinceT_exec fuel a b o s h an once since hist andop lb rb
    (store ++ [("sample_left", encSig sl), ("sample_right", encSig sr)]) sl sr
    (GOnBin.getLoc_append_left l1) r1 (GOnBin.getLoc_append_left l2) r2 (GOnBin.getLoc_append_left l3) r3
    (GOnBin.getLoc_append_left l4) r4 (GOnBin.getLoc_append_left l5) (GOnBin.getLoc_append_left l6) e1 e2
    (gen_on_intersection fuel 3) hs hfuel
  have hn : ("SinceTimedOperation" ++ ".update" : String) = "SinceTimedOperation.update" := by decide
  have hd : (depth : Nat) = 6 + 1 := rfl
  have hcall : callAt (α := α) Gen.DenseOn.fns fuel (6 + 1) "SinceTimedOperation.update"
      [.obj "SinceTimedOperation" store, encSig sl, encSig sr] =
      runFn (callAt Gen.DenseOn.fns fuel 6) fuel Gen.DenseOn.SinceTimedOperation_update
        [.obj "SinceTimedOperation" store, encSig sl, encSig sr] :=
    callAt_fn _ _ _ _ Gen.DenseOn.SinceTimedOperation_update _ rfl
  revert hx
  cases hb : sinceTUpdate a b o s h an sl sr with
  | error e =>
      intro hx
      have := GOnBin.runFn_method_err _ fuel Gen.DenseOn.SinceTimedOperation_update rfl "SinceTimedOperation" store
        [encSig sl, encSig sr] rfl e hx
      simp only [updateObj, hd, hn, List.map_cons, List.map_nil, hcall, this]; rfl
  | ok r =>
      obtain ⟨st', out⟩ := r
      rintro ⟨env', once', since', hist', andop', lb', rb', hx, g1, q1, g2, q2, g3, q3, g4, q4, g5, g6⟩
      have := GOnBin.runFn_method_ret _ fuel Gen.DenseOn.SinceTimedOperation_update rfl "SinceTimedOperation" store
        [encSig sl, encSig sr] rfl env' _ hx
      refine ⟨.obj "SinceTimedOperation" (env'.filter (fun p => isSelfKey p.1)), ?_, ?_⟩
      · simp only [updateObj, hd, hn, List.map_cons, List.map_nil, hcall, this]; simp
      unfold SinceTRel
      refine ⟨_, once', since', hist', andop', lb', rb', rfl, ?_, q1, ?_, q2, ?_, q3, ?_, q4, ?_, ?_,
        GOnBin.selfKeys_filter _⟩
      all_goals (rw [GOnBin.lookup_filter_self _ _ (by simp [isSelfKey])]; exact GOnBin.getLoc_ok_iff.mp (by assumption))

/-! ## (b) the whole monitor -/

namespace GOn

def unCls : Un → String
  | .abs => "AbsOperation" | .sqrt => "SqrtOperation" | .exp => "ExpOperation" | .ln => "LnOperation"
  | .negate => "NegateOperation" | .not => "NotOperation"

/-- the object of a `.bin op` node against the record `BinSt` -/
def binObjRel (op : Bin) (st : BinSt α) (o : DV α) : Prop :=
  match op with
  | .mul => GOnBin.BinRelNL "MultiplicationOperation" st o
  | .pred c => GOnBin.PredRel c st o
  | .predSat c => GOnIA.IAPredRel c st o
  | .predZero => False
  | op => GOnBin.BinRel (GOnBin.binCls op) st o

/-- the object of a `.tmp1 op` node (`once` / `historically`) against `prev` -/
def scanObjRel (op : T1) (prev : α) (o : DV α) : Prop :=
  match op with
  | .once => ScanRel "OnceOperation" prev o
  | .hist => ScanRel "HistoricallyOperation" prev o
  | _ => False

/-- the object of a `.tb1 op a b` node (`once[a,b]` / `historically[a,b]`, bounds scaled) against `TimedSt` -/
def timedObjRel (op : TB1) (a b : Rat) (st : TimedSt α) (o : DV α) : Prop :=
  match op with
  | .once => TimedRel "OnceTimedOperation" true a b st o
  | .hist => TimedRel "HistoricallyTimedOperation" false a b st o
  | _ => False

end GOn

/-- the formulas for which `initOnG` builds an object at every node the mirror `initOn` has a state for: the vacuity form
    `.predZero` of the interface-aware predicate is excluded (`initOnG` and `initOn` return `.error .other`). -/
def _root_.Rtamt.F.onSupported : F α → Bool
  | .var _ => true
  | .const _ => true
  | .un _ φ => φ.onSupported
  | .bin op φ ψ => (match op with | .predZero => false | _ => true) && φ.onSupported && ψ.onSupported
  | .tmp1 _ φ => φ.onSupported
  | .tmp2 _ φ ψ => φ.onSupported && ψ.onSupported
  | .tb1 _ _ _ φ => φ.onSupported
  | .tb2 _ _ _ φ ψ => φ.onSupported && ψ.onSupported

/-- the formula has an interface-aware predicate with the operator `!=` (`.bin (.predSat .ne)`): the only node at which the
    translated class and the mirror read the verdict differently (`GOnIA.satOn` / `satOfDiff`), so that the law
    `GOnIA.SatNeLaw` of the value type is needed -/
def _root_.Rtamt.F.usesSatNe : F α → Bool
  | .var _ => false
  | .const _ => false
  | .un _ φ => φ.usesSatNe
  | .bin op φ ψ => (match op with | .predSat .ne => true | _ => false) || φ.usesSatNe || ψ.usesSatNe
  | .tmp1 _ φ => φ.usesSatNe
  | .tmp2 _ φ ψ => φ.usesSatNe || ψ.usesSatNe
  | .tb1 _ _ _ φ => φ.usesSatNe
  | .tb2 _ _ _ φ ψ => φ.usesSatNe || ψ.usesSatNe

/-- The mirror's state tree against the runner's tree of operation objects, node by node (following `initOn` / `initOnG`). -/
def StRel : F α → DCfg → OnSt α → GSt α → Prop
  | .var _, _, st, g => st = .leaf ∧ g = .leaf
  | .const _, _, st, g => ∃ sent, st = .cst sent ∧ g = .cst sent
  | .un op φ, cfg, st, g => ∃ c o gc, st = .un c ∧ g = .un o gc ∧ UnRel (unCls op) o ∧ StRel φ cfg c gc
  | .bin op φ ψ, cfg, st, g => ∃ bs l r o gl gr, st = .bin bs l r ∧ g = .bin o gl gr ∧ binObjRel op bs o ∧
      StRel φ cfg l gl ∧ StRel ψ cfg r gr
  | .tmp1 op φ, cfg, st, g => ∃ prev c o gc, st = .scan prev c ∧ g = .un o gc ∧ scanObjRel op prev o ∧ StRel φ cfg c gc
  | .tmp2 op φ ψ, cfg, st, g => ∃ ss l r o gl gr, st = .since ss l r ∧ g = .bin o gl gr ∧ op = .since ∧ SinceRel ss o ∧
      StRel φ cfg l gl ∧ StRel ψ cfg r gr
  | .tb1 op a b φ, cfg, st, g => ∃ ts c o gc, st = .timed ts c ∧ g = .un o gc ∧
      timedObjRel op (a * cfg.scale) (b * cfg.scale) ts o ∧ StRel φ cfg c gc
  | .tb2 op a b φ ψ, cfg, st, g => ∃ o s h an l r obj gl gr, st = .sinceT o s h an l r ∧ g = .bin obj gl gr ∧ op = .since ∧
      SinceTRel (a * cfg.scale) (b * cfg.scale) (o, s, h, an) obj ∧ StRel φ cfg l gl ∧ StRel ψ cfg r gr

/-- Wherever a bounded-historically object is in its initial state (`rs = none`) - the `.tb1 .hist` nodes and the `h` component
    of the `.tb2 .since` nodes - the batch the mirror hands to it in this step does not start at time `inf`. -/
def HistOK (cfg : DCfg) (inp : String → ASig α) : F α → OnSt α → Prop
  | .un _ φ, .un c => HistOK cfg inp φ c
  | .bin _ φ ψ, .bin _ l r => HistOK cfg inp φ l ∧ HistOK cfg inp ψ r
  | .tmp1 _ φ, .scan _ c => HistOK cfg inp φ c
  | .tmp2 _ φ ψ, .since _ l r => HistOK cfg inp φ l ∧ HistOK cfg inp ψ r
  | .tb1 op _ _ φ, .timed ts c => HistOK cfg inp φ c ∧
      (op = .hist → ts.rs = none → ∀ c' s, stepOn cfg inp φ c = .ok (c', s) → ∀ t v rest, s = (t, v) :: rest → t ≠ .inf)
  | .tb2 _ _ _ φ ψ, .sinceT _ s h _ l r => HistOK cfg inp φ l ∧ HistOK cfg inp ψ r ∧
      (h.rs = none → ∀ l' sl r' sr, stepOn cfg inp φ l = .ok (l', sl) → stepOn cfg inp ψ r = .ok (r', sr) →
        ∀ t v rest, (sinceUpdate s sl sr).2 = (t, v) :: rest → t ≠ .inf)
  | _, _ => True

/-- `HistOK` at every step of the run from the state `st` (following `runOn.go`). -/
def HistOKRun (cfg : DCfg) (φ : F α) : OnSt α → List (String → ASig α) → Prop
  | _, [] => True
  | st, b :: rest => HistOK cfg b φ st ∧ ∀ st' out, stepOn cfg b φ st = .ok (st', out) → HistOKRun cfg φ st' rest

namespace GOn

theorem bind_ok_iff {ε σ ρ : Type} (x : Except ε σ) (f : σ → Except ε ρ) (b : ρ) :
    (x >>= f) = .ok b ↔ ∃ a, x = .ok a ∧ f a = .ok b := by
  cases x with
  | error e => simp
  | ok a => simp

theorem build_un (fuel : Nat) (op : Un) : ∃ o : DV α, build fuel op.kind none none = .ok o ∧ UnRel (unCls op) o := by
  have hb : ∀ (cls : String), ctorOf op.kind = some (.builds cls []) →
      build (α := α) fuel op.kind none none = construct fuel cls [] := by
    intro cls hc
    simp only [build, hc, List.mapM_nil, pure_eq_ok, ok_bind]
  cases op
  · obtain ⟨o, h1, h2⟩ := construct_AbsOperation (α := α) fuel; exact ⟨o, by rw [hb _ rfl]; exact h1, h2⟩
  · obtain ⟨o, h1, h2⟩ := construct_SqrtOperation (α := α) fuel; exact ⟨o, by rw [hb _ rfl]; exact h1, h2⟩
  · obtain ⟨o, h1, h2⟩ := construct_ExpOperation (α := α) fuel; exact ⟨o, by rw [hb _ rfl]; exact h1, h2⟩
  · obtain ⟨o, h1, h2⟩ := construct_LnOperation (α := α) fuel; exact ⟨o, by rw [hb _ rfl]; exact h1, h2⟩
  · obtain ⟨o, h1, h2⟩ := construct_NegateOperation (α := α) fuel; exact ⟨o, by rw [hb _ rfl]; exact h1, h2⟩
  · obtain ⟨o, h1, h2⟩ := construct_NotOperation (α := α) fuel; exact ⟨o, by rw [hb _ rfl]; exact h1, h2⟩

theorem build_once (fuel : Nat) :
    ∃ o : DV α, build fuel T1.once.kind none none = .ok o ∧ ScanRel "OnceOperation" Val.ninf o := by
  obtain ⟨o, h1, h2⟩ := construct_OnceOperation (α := α) fuel
  have hc : ctorOf T1.once.kind = some (.builds "OnceOperation" []) := rfl
  exact ⟨o, by simp only [build, hc, List.mapM_nil, pure_eq_ok, ok_bind]; exact h1, h2⟩

theorem build_hist (fuel : Nat) :
    ∃ o : DV α, build fuel T1.hist.kind none none = .ok o ∧ ScanRel "HistoricallyOperation" Val.pinf o := by
  obtain ⟨o, h1, h2⟩ := construct_HistoricallyOperation (α := α) fuel
  have hc : ctorOf T1.hist.kind = some (.builds "HistoricallyOperation" []) := rfl
  exact ⟨o, by simp only [build, hc, List.mapM_nil, pure_eq_ok, ok_bind]; exact h1, h2⟩

theorem build_since (fuel : Nat) :
    ∃ o : DV α, build fuel T2.since.kind none none = .ok o ∧ SinceRel { prev := Val.ninf } o := by
  obtain ⟨o, h1, h2⟩ := construct_SinceOperation (α := α) fuel
  have hc : ctorOf T2.since.kind = some (.builds "SinceOperation" []) := rfl
  exact ⟨o, by simp only [build, hc, List.mapM_nil, pure_eq_ok, ok_bind]; exact h1, h2⟩

theorem build_onceT (fuel : Nat) (a b : Rat) :
    ∃ o : DV α, build fuel TB1.once.kind none (some (a, b)) = .ok o ∧ TimedRel "OnceTimedOperation" true a b {} o := by
  obtain ⟨o, h1, h2⟩ := gen_once_timed_init (α := α) fuel 6 (.tm (.fin a)) (.tm (.fin b)) a b rfl rfl
  have hc : ctorOf TB1.once.kind = some (.builds "OnceTimedOperation" [.begin_, .end_]) := rfl
  have hd : (depth : Nat) = 6 + 1 := rfl
  exact ⟨o, by simp only [build, hc, List.mapM_cons, List.mapM_nil, pure_eq_ok, ok_bind, construct, hd,
    once_timed_init_name, h1], h2⟩

theorem build_histT (fuel : Nat) (a b : Rat) :
    ∃ o : DV α, build fuel TB1.hist.kind none (some (a, b)) = .ok o ∧
      TimedRel "HistoricallyTimedOperation" false a b {} o := by
  obtain ⟨o, h1, h2⟩ := gen_hist_timed_init (α := α) fuel 6 (.tm (.fin a)) (.tm (.fin b)) a b rfl rfl
  have hc : ctorOf TB1.hist.kind = some (.builds "HistoricallyTimedOperation" [.begin_, .end_]) := rfl
  have hd : (depth : Nat) = 6 + 1 := rfl
  exact ⟨o, by simp only [build, hc, List.mapM_cons, List.mapM_nil, pure_eq_ok, ok_bind, construct, hd,
    hist_timed_init_name, h1], h2⟩

/-- the five sorts of binary operators -/
theorem bin_cases (op : Bin) :
    GOnBin.plainBin op = true ∨ op = .mul ∨ (∃ c, op = .pred c) ∨ (∃ c, op = .predSat c) ∨ op = .predZero := by
  cases op <;> simp [GOnBin.plainBin]

theorem binObjRel_plain {op : Bin} (hp : GOnBin.plainBin op = true) (st : BinSt α) (o : DV α) :
    binObjRel op st o ↔ GOnBin.BinRel (GOnBin.binCls op) st o := by
  cases op <;> simp [GOnBin.plainBin] at hp <;> exact Iff.rfl

theorem initOnG_bin_plain {op : Bin} (hp : GOnBin.plainBin op = true) (fuel : Nat) (cfg : DCfg) (φ ψ : F α) :
    initOnG fuel cfg (.bin op φ ψ) = (do
      let l ← initOnG fuel cfg φ
      let r ← initOnG fuel cfg ψ
      pure (.bin (← build fuel op.kind none none) l r)) := by
  cases op <;> simp [GOnBin.plainBin] at hp <;> rfl

theorem initOn_bin_ok {op : Bin} (hz : op ≠ .predZero) (φ ψ : F α) :
    initOn (.bin op φ ψ) = (do pure (.bin {} (← initOn φ) (← initOn ψ))) := by
  cases op <;> first | rfl | exact absurd rfl hz

end GOn

/-- (b) construction: whenever the mirror's construction visitor returns a state tree, the translated constructors return a
    tree of objects related to it. -/
theorem genOn_init (cfg : DCfg) (φ : F α) (hφ : φ.onSupported = true) (st : OnSt α) (h : initOn φ = .ok st) :
    ∃ N, ∀ fuel, N ≤ fuel → ∃ g, initOnG fuel cfg φ = .ok g ∧ StRel φ cfg st g := by
  refine ⟨0, fun fuel _ => ?_⟩
  induction φ generalizing st with
  | var x =>
      simp only [initOn] at h; cases h
      exact ⟨.leaf, rfl, rfl, rfl⟩
  | const c =>
      simp only [initOn] at h; cases h
      exact ⟨.cst false, rfl, false, rfl, rfl⟩
  | un op φ ih =>
      simp only [initOn, bind_ok_iff] at h
      obtain ⟨c, hc, h⟩ := h
      cases h
      obtain ⟨gc, hg, hr⟩ := ih hφ c hc
      obtain ⟨o, ho, hro⟩ := build_un (α := α) fuel op
      exact ⟨.un o gc, by simp [initOnG, hg, ho], c, o, gc, rfl, rfl, hro, hr⟩
  | bin op φ ψ ihφ ihψ =>
      simp only [F.onSupported, Bool.and_eq_true] at hφ
      obtain ⟨⟨hop, h1⟩, h2⟩ := hφ
      have hz : op ≠ .predZero := by rintro rfl; simp at hop
      rw [initOn_bin_ok hz] at h
      simp only [bind_ok_iff] at h
      obtain ⟨l, hl, r, hr, h⟩ := h
      cases h
      obtain ⟨gl, hgl, hrl⟩ := ihφ h1 l hl
      obtain ⟨gr, hgr, hrr⟩ := ihψ h2 r hr
      rcases bin_cases op with hp | rfl | ⟨c, rfl⟩ | ⟨c, rfl⟩ | rfl
      · obtain ⟨o, ho, hro⟩ := gen_binop_build (α := α) fuel op hp
        refine ⟨.bin o gl gr, ?_, {}, l, r, o, gl, gr, rfl, rfl, (binObjRel_plain hp _ _).mpr hro, hrl, hrr⟩
        rw [initOnG_bin_plain hp]; simp [hgl, hgr, ho]
      · obtain ⟨o, ho, hro⟩ := gen_mul_build (α := α) fuel
        exact ⟨.bin o gl gr, by simp [initOnG, hgl, hgr, ho], {}, l, r, o, gl, gr, rfl, rfl, hro, hrl, hrr⟩
      · obtain ⟨o, ho, hro⟩ := gen_pred_build (α := α) fuel c
        exact ⟨.bin o gl gr, by simp [initOnG, hgl, hgr, ho], {}, l, r, o, gl, gr, rfl, rfl, hro, hrl, hrr⟩
      · obtain ⟨o, ho, hro⟩ := gen_iapred_construct (α := α) fuel c [.int 0]
        exact ⟨.bin o gl gr, by simp [initOnG, hgl, hgr, ho], {}, l, r, o, gl, gr, rfl, rfl, hro, hrl, hrr⟩
      · simp at hop
  | tmp1 op φ ih =>
      cases op <;> simp only [initOn, bind_ok_iff] at h <;> try (cases h; done)
      · obtain ⟨c, hc, h⟩ := h
        cases h
        obtain ⟨gc, hg, hr⟩ := ih hφ c hc
        obtain ⟨o, ho, hro⟩ := build_once (α := α) fuel
        exact ⟨.un o gc, by simp [initOnG, hg, ho], _, c, o, gc, rfl, rfl, hro, hr⟩
      · obtain ⟨c, hc, h⟩ := h
        cases h
        obtain ⟨gc, hg, hr⟩ := ih hφ c hc
        obtain ⟨o, ho, hro⟩ := build_hist (α := α) fuel
        exact ⟨.un o gc, by simp [initOnG, hg, ho], _, c, o, gc, rfl, rfl, hro, hr⟩
  | tmp2 op φ ψ ihφ ihψ =>
      simp only [F.onSupported, Bool.and_eq_true] at hφ
      obtain ⟨h1, h2⟩ := hφ
      cases op <;> simp only [initOn, bind_ok_iff] at h <;> try (cases h; done)
      obtain ⟨l, hl, r, hr, h⟩ := h
      cases h
      obtain ⟨gl, hgl, hrl⟩ := ihφ h1 l hl
      obtain ⟨gr, hgr, hrr⟩ := ihψ h2 r hr
      obtain ⟨o, ho, hro⟩ := build_since (α := α) fuel
      exact ⟨.bin o gl gr, by simp [initOnG, hgl, hgr, ho], _, l, r, o, gl, gr, rfl, rfl, rfl, hro, hrl, hrr⟩
  | tb1 op a b φ ih =>
      cases op <;> simp only [initOn, bind_ok_iff] at h <;> try (cases h; done)
      · obtain ⟨c, hc, h⟩ := h
        cases h
        obtain ⟨gc, hg, hr⟩ := ih hφ c hc
        obtain ⟨o, ho, hro⟩ := build_onceT (α := α) fuel (a * cfg.scale) (b * cfg.scale)
        exact ⟨.un o gc, by simp [initOnG, hg, ho], _, c, o, gc, rfl, rfl, hro, hr⟩
      · obtain ⟨c, hc, h⟩ := h
        cases h
        obtain ⟨gc, hg, hr⟩ := ih hφ c hc
        obtain ⟨o, ho, hro⟩ := build_histT (α := α) fuel (a * cfg.scale) (b * cfg.scale)
        exact ⟨.un o gc, by simp [initOnG, hg, ho], _, c, o, gc, rfl, rfl, hro, hr⟩
  | tb2 op a b φ ψ ihφ ihψ =>
      simp only [F.onSupported, Bool.and_eq_true] at hφ
      obtain ⟨h1, h2⟩ := hφ
      cases op <;> simp only [initOn, bind_ok_iff] at h <;> try (cases h; done)
      obtain ⟨l, hl, r, hr, h⟩ := h
      cases h
      obtain ⟨gl, hgl, hrl⟩ := ihφ h1 l hl
      obtain ⟨gr, hgr, hrr⟩ := ihψ h2 r hr
      obtain ⟨o, ho, hro⟩ := gen_since_timed_build (α := α) fuel (a * cfg.scale) (b * cfg.scale)
      exact ⟨.bin o gl gr, by simp [initOnG, hgl, hgr, ho], _, _, _, _, l, r, o, gl, gr, rfl, rfl, rfl, hro, hrl, hrr⟩

namespace GOn

theorem updateObj_unop (fuel : Nat) (op : Un) (o : DV α) (h : UnRel (unCls op) o) (s out : ASig α)
    (hm : mapUn op s = .ok out) : updateObj fuel o [s] = .ok (o, out) := by
  cases op
  · rw [updateObj_AbsOperation fuel o h s, hm]; rfl
  · rw [updateObj_SqrtOperation fuel o h s, hm]; rfl
  · rw [updateObj_ExpOperation fuel o h s, hm]; rfl
  · have hs : ∀ p ∈ s, Val.lt p.2 Val.zero = false := by
      intro p hp
      cases hlt : Val.lt p.2 Val.zero with
      | false => rfl
      | true => rw [mapUn_ln_neg s ⟨p, hp, hlt⟩] at hm; cases hm
    rw [updateObj_LnOperation fuel o h s hs, hm]; rfl
  · rw [updateObj_NegateOperation fuel o h s, hm]; rfl
  · rw [updateObj_NotOperation fuel o h s, hm]; rfl

theorem stepOn_bin_plain {op : Bin} (hp : GOnBin.plainBin op = true) (cfg : DCfg) (inp : String → ASig α) (φ ψ : F α)
    (bs : BinSt α) (l r : OnSt α) :
    stepOn cfg inp (.bin op φ ψ) (.bin bs l r) = (do
      let (l', sl) ← stepOn cfg inp φ l
      let (r', sr) ← stepOn cfg inp ψ r
      let (st', o) ← binUpdate op.app bs sl sr
      pure (.bin st' l' r', o)) := by
  cases op <;> simp [GOnBin.plainBin] at hp <;> rfl

end GOn

/-- `OnceTimedOperation.update` through `updateObj` (call depth 7) -/
theorem gen_once_timed_updateObj (fuel : Nat) (a b : Rat) (st : TimedSt α) (o : DV α)
    (hrel : TimedRel "OnceTimedOperation" true a b st o) (s : ASig α) (hfuel : GOnTimed.G st s ≤ fuel) :
    match timedUpdate ltW Val.ninf a b st s with
    | .ok (st', out) => ∃ o', updateObj fuel o [s] = .ok (o', out) ∧ TimedRel "OnceTimedOperation" true a b st' o'
    | .error e => updateObj fuel o [s] = .error e := by
  have h := gen_once_timed_update fuel 5 a b st o hrel s hfuel
  obtain ⟨store, _, _, rfl, -⟩ := hrel
  have hd : (depth : Nat) = 5 + 2 := rfl
  revert h
  cases hb : timedUpdate ltW Val.ninf a b st s with
  | error e =>
      intro h
      simp only [updateObj, hd, once_timed_update_name, List.map_cons, List.map_nil, h]; rfl
  | ok r =>
      obtain ⟨st', out⟩ := r
      rintro ⟨o', h, hr⟩
      refine ⟨o', ?_, hr⟩
      simp only [updateObj, hd, once_timed_update_name, List.map_cons, List.map_nil, h]; simp

/-- `HistoricallyTimedOperation.update` through `updateObj` (call depth 7); `hs` as in `gen_hist_timed_update` -/
theorem gen_hist_timed_updateObj (fuel : Nat) (a b : Rat) (st : TimedSt α) (o : DV α)
    (hrel : TimedRel "HistoricallyTimedOperation" false a b st o) (s : ASig α)
    (hs : st.rs = none → ∀ t v rest, s = (t, v) :: rest → t ≠ .inf) (hfuel : GOnTimed.G st s ≤ fuel) :
    match timedUpdate gtW Val.pinf a b st s with
    | .ok (st', out) => ∃ o', updateObj fuel o [s] = .ok (o', out) ∧ TimedRel "HistoricallyTimedOperation" false a b st' o'
    | .error e => updateObj fuel o [s] = .error e := by
  have h := gen_hist_timed_update fuel 5 a b st o hrel s hs hfuel
  obtain ⟨store, _, _, rfl, -⟩ := hrel
  have hd : (depth : Nat) = 5 + 2 := rfl
  revert h
  cases hb : timedUpdate gtW Val.pinf a b st s with
  | error e =>
      intro h
      simp only [updateObj, hd, hist_timed_update_name, List.map_cons, List.map_nil, h]; rfl
  | ok r =>
      obtain ⟨st', out⟩ := r
      rintro ⟨o', h, hr⟩
      refine ⟨o', ?_, hr⟩
      simp only [updateObj, hd, hist_timed_update_name, List.map_cons, List.map_nil, h]; simp

namespace GOn

/-- `genOn_step` with a fuel bound that does not depend on the tree of objects (it is computed from the mirror's state and
    the batches the mirror hands from node to node) -/
theorem step_unif (cfg : DCfg) (φ : F α) (hφ : φ.onSupported = true)
    (hne : φ.usesSatNe = true → GOnIA.SatNeLaw α) (st : OnSt α)
    (inp : String → ASig α) (st' : OnSt α) (out : ASig α) (h : stepOn cfg inp φ st = .ok (st', out))
    (hH : HistOK cfg inp φ st) :
    ∃ N, ∀ g, StRel φ cfg st g → ∀ fuel, N ≤ fuel →
      ∃ g', stepOnG fuel inp φ g = .ok (g', out) ∧ StRel φ cfg st' g' := by
  induction φ generalizing st st' out with
  | var x =>
      refine ⟨0, fun g hrel fuel _ => ?_⟩
      obtain ⟨rfl, rfl⟩ := hrel
      simp only [stepOn] at h; cases h
      exact ⟨.leaf, rfl, rfl, rfl⟩
  | const c =>
      refine ⟨0, fun g hrel fuel _ => ?_⟩
      obtain ⟨sent, rfl, rfl⟩ := hrel
      simp only [stepOn] at h; cases h
      exact ⟨.cst true, rfl, true, rfl, rfl⟩
  | un op φ ih =>
      cases st <;> first | (simp [stepOn] at h; done) | skip
      rename_i c
      simp only [stepOn, bind_ok_iff] at h
      obtain ⟨⟨c', s⟩, hc, out', hm, h⟩ := h
      cases h
      obtain ⟨N, hN⟩ := ih hφ (fun k => hne (by simpa [F.usesSatNe] using k)) c c' s hc (by simpa [HistOK] using hH)
      refine ⟨N, fun g hrel fuel hf => ?_⟩
      obtain ⟨c0, o, gc, hst, rfl, hro, hrc⟩ := hrel
      cases hst
      obtain ⟨gc', hg, hr'⟩ := hN gc hrc fuel hf
      refine ⟨.un o gc', ?_, c', o, gc', rfl, rfl, hro, hr'⟩
      simp [stepOnG, hg, updateObj_unop fuel op o hro s out hm]
  | bin op φ ψ ihφ ihψ =>
      cases st <;> first | (simp [stepOn] at h; done) | skip
      rename_i bs l r
      simp only [F.onSupported, Bool.and_eq_true] at hφ
      obtain ⟨⟨hop, h1⟩, h2⟩ := hφ
      have hH' : HistOK cfg inp φ l ∧ HistOK cfg inp ψ r := by simpa [HistOK] using hH
      rcases bin_cases op with hp | rfl | ⟨c, rfl⟩ | ⟨c, rfl⟩ | rfl
      · rw [stepOn_bin_plain hp] at h
        simp only [bind_ok_iff] at h
        obtain ⟨⟨l', sl⟩, hl, ⟨r', sr⟩, hr, ⟨bs', o'⟩, hb, h⟩ := h
        cases h
        obtain ⟨Nl, hNl⟩ := ihφ h1 (fun k => hne (by simp [F.usesSatNe, k])) l l' sl hl hH'.1
        obtain ⟨Nr, hNr⟩ := ihψ h2 (fun k => hne (by simp [F.usesSatNe, k])) r r' sr hr hH'.2
        refine ⟨max (max Nl Nr) (GOnBin.binFuel bs sl sr), fun g hrel fuel hf => ?_⟩
        obtain ⟨bs0, l0, r0, o, gl, gr, hst, rfl, hro, hrl, hrr⟩ := hrel
        cases hst
        obtain ⟨gl', hgl, hrl'⟩ := hNl gl hrl fuel (by omega)
        obtain ⟨gr', hgr, hrr'⟩ := hNr gr hrr fuel (by omega)
        have hu := gen_binop_updateObj fuel op hp (gen_on_intersection fuel 4) bs o ((binObjRel_plain hp _ _).mp hro) sl sr
          (by omega)
        rw [hb] at hu
        obtain ⟨o2, hu, hro'⟩ := hu
        refine ⟨.bin o2 gl' gr', ?_, bs', l', r', o2, gl', gr', rfl, rfl, (binObjRel_plain hp _ _).mpr hro', hrl', hrr'⟩
        simp [stepOnG, hgl, hgr, hu]
      · simp only [stepOn, bind_ok_iff] at h
        obtain ⟨⟨l', sl⟩, hl, ⟨r', sr⟩, hr, ⟨bs', o'⟩, hb, h⟩ := h
        cases h
        obtain ⟨Nl, hNl⟩ := ihφ h1 (fun k => hne (by simp [F.usesSatNe, k])) l l' sl hl hH'.1
        obtain ⟨Nr, hNr⟩ := ihψ h2 (fun k => hne (by simp [F.usesSatNe, k])) r r' sr hr hH'.2
        refine ⟨max (max Nl Nr) (GOnBin.binFuel bs sl sr), fun g hrel fuel hf => ?_⟩
        obtain ⟨bs0, l0, r0, o, gl, gr, hst, rfl, hro, hrl, hrr⟩ := hrel
        cases hst
        obtain ⟨gl', hgl, hrl'⟩ := hNl gl hrl fuel (by omega)
        obtain ⟨gr', hgr, hrr'⟩ := hNr gr hrr fuel (by omega)
        have hu := gen_mulop_updateObj fuel (gen_on_intersection fuel 4) bs o hro sl sr (by omega)
        rw [hb] at hu
        obtain ⟨o2, hu, hro'⟩ := hu
        refine ⟨.bin o2 gl' gr', ?_, bs', l', r', o2, gl', gr', rfl, rfl, hro'.toNL, hrl', hrr'⟩
        simp [stepOnG, hgl, hgr, hu]
      · simp only [stepOn, bind_ok_iff] at h
        obtain ⟨⟨l', sl⟩, hl, ⟨r', sr⟩, hr, ⟨bs', d⟩, hb, h⟩ := h
        cases h
        obtain ⟨Nl, hNl⟩ := ihφ h1 (fun k => hne (by simp [F.usesSatNe, k])) l l' sl hl hH'.1
        obtain ⟨Nr, hNr⟩ := ihψ h2 (fun k => hne (by simp [F.usesSatNe, k])) r r' sr hr hH'.2
        refine ⟨max (max Nl Nr) (GOnBin.binFuel bs sl sr), fun g hrel fuel hf => ?_⟩
        obtain ⟨bs0, l0, r0, o, gl, gr, hst, rfl, hro, hrl, hrr⟩ := hrel
        cases hst
        obtain ⟨gl', hgl, hrl'⟩ := hNl gl hrl fuel (by omega)
        obtain ⟨gr', hgr, hrr'⟩ := hNr gr hrr fuel (by omega)
        have hu := gen_predop_updateObj fuel c (gen_on_intersection fuel 3) bs o hro sl sr (by omega)
        rw [hb] at hu
        obtain ⟨o2, hu, hro'⟩ := hu
        refine ⟨.bin o2 gl' gr', ?_, bs', l', r', o2, gl', gr', rfl, rfl, hro', hrl', hrr'⟩
        simp [stepOnG, hgl, hgr, hu]
      · rw [stepOn_predSat] at h
        simp only [bind_ok_iff] at h
        obtain ⟨⟨l', sl⟩, hl, ⟨r', sr⟩, hr, ⟨bs', o'⟩, hb, h⟩ := h
        cases h
        obtain ⟨Nl, hNl⟩ := ihφ h1 (fun k => hne (by simp [F.usesSatNe, k])) l l' sl hl hH'.1
        obtain ⟨Nr, hNr⟩ := ihψ h2 (fun k => hne (by simp [F.usesSatNe, k])) r r' sr hr hH'.2
        refine ⟨max (max Nl Nr) (GOnBin.binFuel bs sl sr), fun g hrel fuel hf => ?_⟩
        obtain ⟨bs0, l0, r0, o, gl, gr, hst, rfl, hro, hrl, hrr⟩ := hrel
        cases hst
        obtain ⟨gl', hgl, hrl'⟩ := hNl gl hrl fuel (by omega)
        obtain ⟨gr', hgr, hrr'⟩ := hNr gr hrr fuel (by omega)
        have hu := gen_iapredop_updateObj fuel c (fun hc => hne (by subst hc; simp [F.usesSatNe])) bs o hro sl sr
          (by omega) (gen_on_intersection fuel 3)
        rw [hb] at hu
        obtain ⟨o2, hu, hro'⟩ := hu
        refine ⟨.bin o2 gl' gr', ?_, bs', l', r', o2, gl', gr', rfl, rfl, hro', hrl', hrr'⟩
        simp [stepOnG, hgl, hgr, hu]
      · simp at hop
  | tmp1 op φ ih =>
      cases st <;> first | (simp [stepOn] at h; done) | skip
      rename_i prev c
      have hH' : HistOK cfg inp φ c := by simpa [HistOK] using hH
      simp only [stepOn, bind_ok_iff] at h
      obtain ⟨⟨c', s⟩, hc, h⟩ := h
      obtain ⟨N, hN⟩ := ih hφ (fun k => hne (by simpa [F.usesSatNe] using k)) c c' s hc hH'
      refine ⟨N, fun g hrel fuel hf => ?_⟩
      obtain ⟨prev0, c0, o, gc, hst, rfl, hro, hrc⟩ := hrel
      cases hst
      obtain ⟨gc', hg, hr'⟩ := hN gc hrc fuel hf
      cases op <;> simp only [scanObjRel] at hro <;> try (exact hro.elim)
      · cases h
        obtain ⟨o2, hu, hro'⟩ := updateObj_OnceOperation fuel prev o hro s
        refine ⟨.un o2 gc', ?_, _, c', o2, gc', rfl, rfl, hro', hr'⟩
        simp [stepOnG, hg, hu]
      · cases h
        obtain ⟨o2, hu, hro'⟩ := updateObj_HistoricallyOperation fuel prev o hro s
        refine ⟨.un o2 gc', ?_, _, c', o2, gc', rfl, rfl, hro', hr'⟩
        simp [stepOnG, hg, hu]
  | tmp2 op φ ψ ihφ ihψ =>
      cases st <;> first | (simp [stepOn] at h; done) | skip
      rename_i ss l r
      simp only [F.onSupported, Bool.and_eq_true] at hφ
      obtain ⟨h1, h2⟩ := hφ
      have hH' : HistOK cfg inp φ l ∧ HistOK cfg inp ψ r := by simpa [HistOK] using hH
      simp only [stepOn, bind_ok_iff] at h
      obtain ⟨⟨l', sl⟩, hl, ⟨r', sr⟩, hr, h⟩ := h
      cases h
      obtain ⟨Nl, hNl⟩ := ihφ h1 (fun k => hne (by simp [F.usesSatNe, k])) l l' sl hl hH'.1
      obtain ⟨Nr, hNr⟩ := ihψ h2 (fun k => hne (by simp [F.usesSatNe, k])) r r' sr hr hH'.2
      refine ⟨max (max Nl Nr) (ss.bufA.length + sl.length + ss.bufB.length + sr.length + 1), fun g hrel fuel hf => ?_⟩
      obtain ⟨ss0, l0, r0, o, gl, gr, hst, rfl, rfl, hro, hrl, hrr⟩ := hrel
      cases hst
      obtain ⟨gl', hgl, hrl'⟩ := hNl gl hrl fuel (by omega)
      obtain ⟨gr', hgr, hrr'⟩ := hNr gr hrr fuel (by omega)
      obtain ⟨o2, hu, hro'⟩ := updateObj_SinceOperation fuel ss o hro sl sr (by omega)
      refine ⟨.bin o2 gl' gr', ?_, _, l', r', o2, gl', gr', rfl, rfl, rfl, hro', hrl', hrr'⟩
      simp [stepOnG, hgl, hgr, hu]
  | tb1 op a b φ ih =>
      cases st <;> first | (simp [stepOn] at h; done) | skip
      rename_i ts c
      have hH' : HistOK cfg inp φ c ∧ (op = .hist → ts.rs = none → ∀ c' s, stepOn cfg inp φ c = .ok (c', s) →
          ∀ t v rest, s = (t, v) :: rest → t ≠ .inf) := by simpa [HistOK] using hH
      cases op
      · simp only [stepOn, bind_ok_iff] at h
        obtain ⟨⟨c', s⟩, hc, ⟨ts', out'⟩, hb, h⟩ := h
        cases h
        obtain ⟨N, hN⟩ := ih hφ (fun k => hne (by simpa [F.usesSatNe] using k)) c c' s hc hH'.1
        refine ⟨max N (GOnTimed.G ts s), fun g hrel fuel hf => ?_⟩
        obtain ⟨ts0, c0, o, gc, hst, rfl, hro, hrc⟩ := hrel
        cases hst
        obtain ⟨gc', hg, hr'⟩ := hN gc hrc fuel (by omega)
        have hu := gen_once_timed_updateObj fuel (a * cfg.scale) (b * cfg.scale) ts o hro s (by omega)
        rw [hb] at hu
        obtain ⟨o2, hu, hro'⟩ := hu
        refine ⟨.un o2 gc', ?_, _, c', o2, gc', rfl, rfl, hro', hr'⟩
        simp [stepOnG, hg, hu]
      · simp only [stepOn, bind_ok_iff] at h
        obtain ⟨⟨c', s⟩, hc, ⟨ts', out'⟩, hb, h⟩ := h
        cases h
        obtain ⟨N, hN⟩ := ih hφ (fun k => hne (by simpa [F.usesSatNe] using k)) c c' s hc hH'.1
        refine ⟨max N (GOnTimed.G ts s), fun g hrel fuel hf => ?_⟩
        obtain ⟨ts0, c0, o, gc, hst, rfl, hro, hrc⟩ := hrel
        cases hst
        obtain ⟨gc', hg, hr'⟩ := hN gc hrc fuel (by omega)
        have hu := gen_hist_timed_updateObj fuel (a * cfg.scale) (b * cfg.scale) ts o hro s
          (fun hn => hH'.2 rfl hn c' s hc) (by omega)
        rw [hb] at hu
        obtain ⟨o2, hu, hro'⟩ := hu
        refine ⟨.un o2 gc', ?_, _, c', o2, gc', rfl, rfl, hro', hr'⟩
        simp [stepOnG, hg, hu]
      · exact ⟨0, fun g hrel _ _ => by obtain ⟨_, _, _, _, _, _, hro, _⟩ := hrel; exact hro.elim⟩
      · exact ⟨0, fun g hrel _ _ => by obtain ⟨_, _, _, _, _, _, hro, _⟩ := hrel; exact hro.elim⟩
  | tb2 op a b φ ψ ihφ ihψ =>
      cases st <;> first | (simp [stepOn] at h; done) | skip
      rename_i o s hh an l r
      simp only [F.onSupported, Bool.and_eq_true] at hφ
      obtain ⟨h1, h2⟩ := hφ
      have hH' : HistOK cfg inp φ l ∧ HistOK cfg inp ψ r ∧
          (hh.rs = none → ∀ l' sl r' sr, stepOn cfg inp φ l = .ok (l', sl) → stepOn cfg inp ψ r = .ok (r', sr) →
            ∀ t v rest, (sinceUpdate s sl sr).2 = (t, v) :: rest → t ≠ .inf) := by simpa [HistOK] using hH
      simp only [stepOn, bind_ok_iff] at h
      obtain ⟨⟨l', sl⟩, hl, ⟨r', sr⟩, hr, ⟨o', out1⟩, hb1, ⟨h', out3⟩, hb3, ⟨an', out'⟩, hb4, h⟩ := h
      cases h
      obtain ⟨Nl, hNl⟩ := ihφ h1 (fun k => hne (by simp [F.usesSatNe, k])) l l' sl hl hH'.1
      obtain ⟨Nr, hNr⟩ := ihψ h2 (fun k => hne (by simp [F.usesSatNe, k])) r r' sr hr hH'.2.1
      refine ⟨max (max Nl Nr) (sinceTFuel (a * cfg.scale) (b * cfg.scale) o s hh an sl sr), fun g hrel fuel hf => ?_⟩
      obtain ⟨o0, s0, h0, an0, l0, r0, obj, gl, gr, hst, rfl, rfl, hro, hrl, hrr⟩ := hrel
      cases hst
      obtain ⟨gl', hgl, hrl'⟩ := hNl gl hrl fuel (by omega)
      obtain ⟨gr', hgr, hrr'⟩ := hNr gr hrr fuel (by omega)
      have hu := gen_since_timed_updateObj fuel (a * cfg.scale) (b * cfg.scale) o s hh an obj hro sl sr
        (fun hn => hH'.2.2 hn l' sl r' sr hl hr) (by omega)
      have hst : sinceTUpdate (a * cfg.scale) (b * cfg.scale) o s hh an sl sr =
          .ok ((o', (sinceUpdate s sl sr).1, h', an'), out') := by
        simp [sinceTUpdate, hb1, hb3, hb4]
      rw [hst] at hu
      obtain ⟨o2, hu, hro'⟩ := hu
      refine ⟨.bin o2 gl' gr', ?_, _, _, _, _, l', r', o2, gl', gr', rfl, rfl, rfl, hro', hrl', hrr'⟩
      simp [stepOnG, hgl, hgr, hu]

end GOn

/-- (b) one `update()`: whenever the mirror returns a list, the translated classes return the same list and the new trees
    are related again. -/
theorem genOn_step (cfg : DCfg) (φ : F α) (hφ : φ.onSupported = true) (hne : φ.usesSatNe = true → GOnIA.SatNeLaw α)
    (st : OnSt α) (g : GSt α) (hrel : StRel φ cfg st g)
    (inp : String → ASig α) (st' : OnSt α) (out : ASig α) (h : stepOn cfg inp φ st = .ok (st', out))
    (hH : HistOK cfg inp φ st) :
    ∃ N, ∀ fuel, N ≤ fuel → ∃ g', stepOnG fuel inp φ g = .ok (g', out) ∧ StRel φ cfg st' g' := by
  obtain ⟨N, hN⟩ := step_unif cfg φ hφ hne st inp st' out h hH
  exact ⟨N, hN g hrel⟩

namespace GOn

theorem go_run (cfg : DCfg) (φ : F α) (hφ : φ.onSupported = true) (hne : φ.usesSatNe = true → GOnIA.SatNeLaw α) :
    ∀ (batches : List (String → ASig α)) (st : OnSt α) (outs : List (ASig α)),
      runOn.go cfg φ st batches = .ok outs → HistOKRun cfg φ st batches →
      ∃ N, ∀ g, StRel φ cfg st g → ∀ fuel, N ≤ fuel → runOnG.go fuel φ g batches = .ok outs := by
  intro batches
  induction batches with
  | nil =>
      intro st outs h _
      simp only [runOn.go] at h; cases h
      exact ⟨0, fun g _ fuel _ => rfl⟩
  | cons b rest ih =>
      intro st outs h hH
      simp only [runOn.go, bind_ok_iff] at h
      obtain ⟨⟨st', out⟩, hst, outs', hrest, h⟩ := h
      cases h
      obtain ⟨hH1, hH2⟩ := hH
      obtain ⟨N1, hN1⟩ := step_unif cfg φ hφ hne st b st' out hst hH1
      obtain ⟨N2, hN2⟩ := ih st' outs' hrest (hH2 st' out hst)
      refine ⟨max N1 N2, fun g hrel fuel hf => ?_⟩
      obtain ⟨g', hg, hrel'⟩ := hN1 g hrel fuel (by omega)
      have hr := hN2 g' hrel' fuel (by omega)
      simp [runOnG.go, hg, hr]

end GOn

/-- (b) a sequence of `update()` calls on a fresh monitor: whenever the mirror returns the lists `outs`, the translated
    classes return the same lists, for every `fuel` above a bound (the maximum of the bounds of the steps). -/
theorem genOn_run (cfg : DCfg) (φ : F α) (hφ : φ.onSupported = true) (hne : φ.usesSatNe = true → GOnIA.SatNeLaw α)
    (batches : List (String → ASig α))
    (outs : List (ASig α)) (h : runOn cfg φ batches = .ok outs)
    (hH : ∀ st0, initOn φ = .ok st0 → HistOKRun cfg φ st0 batches) :
    ∃ N, ∀ fuel, N ≤ fuel → runOnG fuel cfg φ batches = .ok outs := by
  simp only [runOn, bind_ok_iff] at h
  obtain ⟨st0, h0, hgo⟩ := h
  obtain ⟨N0, hN0⟩ := genOn_init cfg φ hφ st0 h0
  obtain ⟨N1, hN1⟩ := go_run cfg φ hφ hne batches st0 outs hgo (hH st0 h0)
  refine ⟨max N0 N1, fun fuel hf => ?_⟩
  obtain ⟨g, hg, hrel⟩ := hN0 fuel (by omega)
  have := hN1 g hrel fuel (by omega)
  simp [runOnG, hg, this]

/-! ## (c) `HistOK` along the run on the fragment of C05, and C05 for the translated classes -/

section c05
open Rtamt.Dense.Alg.MainAux Rtamt.Dense.AlgOn.MainAux
variable [LawfulVal α]

namespace GOn

/-- every list the node `φ` returns in the run from `st` has finite time stamps only -/
def FinRun (cfg : DCfg) (φ : F α) : OnSt α → List (String → ASig α) → Prop
  | _, [] => True
  | st, b :: rest => ∀ st' out, stepOn cfg b φ st = .ok (st', out) →
      (∀ p ∈ out, p.1 ≠ Tm.inf) ∧ FinRun cfg φ st' rest

theorem runG_snoc {ι σ : Type} (step : σ → ι → Except PyErr (σ × ASig α)) (b : ι) :
    ∀ (xs : List ι) (st st1 st2 : σ) (os : List (ASig α)) (o : ASig α),
      runG step st xs = .ok (st1, os) → step st1 b = .ok (st2, o) → runG step st (xs ++ [b]) = .ok (st2, os ++ [o]) := by
  intro xs
  induction xs with
  | nil =>
      intro st st1 st2 os o h1 h2
      obtain ⟨rfl, rfl⟩ := (runG_nil_ok step st st1 os).1 h1
      exact (runG_cons_ok step _ _ b [] _).2 ⟨st2, o, [], h2, (runG_nil_ok step _ _ _).2 ⟨rfl, rfl⟩, rfl⟩
  | cons x xs ih =>
      intro st st1 st2 os o h1 h2
      obtain ⟨sta, oa, osa, e1, e2, rfl⟩ := (runG_cons_ok step st st1 x xs os).1 h1
      exact (runG_cons_ok step st st2 x (xs ++ [b]) _).2 ⟨sta, oa, osa ++ [o], e1, ih sta st1 st2 osa o e2 h2, rfl⟩

theorem validChunks_prefix {w : DEnv α} {xs : List String} {pre post : List (String → ASig α)}
    (h : ValidChunks w xs (pre ++ post)) : ValidChunks w xs pre := by
  intro x hx
  obtain ⟨rest, hr⟩ := h x hx
  refine ⟨(post.map (fun b => b x)).flatten ++ rest, ?_⟩
  rw [← hr]
  simp [List.map_append, List.flatten_append, List.append_assoc]

/-- on the fragment, every list a node returns has finite stamps (from `mirror_aux`, applied to every prefix of the run) -/
theorem finRun_frag (cfg : DCfg) (hs : 0 ≤ cfg.scale) (w : DEnv α)
    (hsub : ∀ a b : α, Val.neg (Val.sub a b) = Val.sub b a) (ia : Bool)
    (hia : ia = true →
      ((∀ (c : Cmp) (d d' : α), cmpOfDiff c d = cmpOfDiff c d' → satOfDiff c d = satOfDiff c d') ∧
        (∀ (c : Cmp) (a b : α), satOfDiff c (Val.sub a b) = c.holds a b)))
    (φ : F α) (hfrag : onFragG ia φ = true) (hw : w.WF φ.vars)
    (h0 : StartsAt0 w φ.vars) (st0 : OnSt α) (hi : initOn φ = .ok st0) :
    ∀ (bs pre : List (String → ASig α)) (st : OnSt α) (outsPre : List (ASig α)),
      streamOf cfg φ st0 pre = .ok (st, outsPre) → ValidChunks w φ.vars (pre ++ bs) → FinRun cfg φ st bs := by
  intro bs
  induction bs with
  | nil => intro _ _ _ _ _; trivial
  | cons b rest ih =>
      intro pre st outsPre hpre hch st' out hstep
      have hpre' : streamOf cfg φ st0 (pre ++ [b]) = .ok (st', outsPre ++ [out]) :=
        runG_snoc _ b pre st0 st st' outsPre out hpre hstep
      have hch' : ValidChunks w φ.vars ((pre ++ [b]) ++ rest) := by
        rw [List.append_assoc]; exact hch
      refine ⟨?_, ih (pre ++ [b]) st' (outsPre ++ [out]) hpre' hch'⟩
      have hok := mirror_auxG cfg hs w hsub ia hia (pre ++ [b]) φ hfrag hw h0 (validChunks_prefix hch') st0 st' _ hi hpre'
      exact hok.1.finite out (by simp)

theorem histOKRun_leaf (cfg : DCfg) (φ : F α) (hφ : (∃ x, φ = .var x) ∨ ∃ c, φ = .const c) :
    ∀ (bs : List (String → ASig α)) (st : OnSt α), HistOKRun cfg φ st bs := by
  intro bs
  induction bs with
  | nil => intro _; trivial
  | cons b rest ih =>
      intro st
      refine ⟨?_, fun st' out _ => ih st'⟩
      rcases hφ with ⟨x, rfl⟩ | ⟨c, rfl⟩ <;> cases st <;> simp [HistOK]

theorem histOKRun_un (cfg : DCfg) (op : Un) (φ : F α) :
    ∀ (bs : List (String → ASig α)) (c : OnSt α), HistOKRun cfg φ c bs → HistOKRun cfg (.un op φ) (.un c) bs := by
  intro bs
  induction bs with
  | nil => intro _ _; trivial
  | cons b rest ih =>
      rintro c ⟨h1, h2⟩
      refine ⟨by simpa [HistOK] using h1, fun st' out hst => ?_⟩
      obtain ⟨c', x, s', e1, _, rfl⟩ := (stepOn_un cfg op φ b () c st' out).1 hst
      exact ih c' (h2 c' x e1)

theorem histOKRun_bin (cfg : DCfg) (op : Bin) (φ ψ : F α) :
    ∀ (bs : List (String → ASig α)) (st : BinSt α) (l r : OnSt α), HistOKRun cfg φ l bs → HistOKRun cfg ψ r bs →
      HistOKRun cfg (.bin op φ ψ) (.bin st l r) bs := by
  intro bs
  induction bs with
  | nil => intro _ _ _ _ _; trivial
  | cons b rest ih =>
      rintro st l r ⟨h1, h2⟩ ⟨k1, k2⟩
      refine ⟨by simp only [HistOK]; exact ⟨h1, k1⟩, fun st' out hst => ?_⟩
      obtain ⟨l', x, r', y, s', e1, e2, _, rfl⟩ := (stepOn_bin cfg op φ ψ b st l r st' out).1 hst
      exact ih s' l' r' (h2 l' x e1) (k2 r' y e2)

theorem histOKRun_scan (cfg : DCfg) (op : T1) (φ : F α) :
    ∀ (bs : List (String → ASig α)) (p : α) (c : OnSt α), HistOKRun cfg φ c bs →
      HistOKRun cfg (.tmp1 op φ) (.scan p c) bs := by
  intro bs
  induction bs with
  | nil => intro _ _ _; trivial
  | cons b rest ih =>
      rintro p c ⟨h1, h2⟩
      refine ⟨by simpa [HistOK] using h1, fun st' out hst => ?_⟩
      simp only [stepOn, bind_ok_iff] at hst
      obtain ⟨⟨c', s⟩, hc, hst⟩ := hst
      cases hst
      exact ih _ c' (h2 c' s hc)

theorem histOKRun_since (cfg : DCfg) (op : T2) (φ ψ : F α) :
    ∀ (bs : List (String → ASig α)) (st : SinceSt α) (l r : OnSt α), HistOKRun cfg φ l bs → HistOKRun cfg ψ r bs →
      HistOKRun cfg (.tmp2 op φ ψ) (.since st l r) bs := by
  intro bs
  induction bs with
  | nil => intro _ _ _ _ _; trivial
  | cons b rest ih =>
      rintro st l r ⟨h1, h2⟩ ⟨k1, k2⟩
      refine ⟨by simp only [HistOK]; exact ⟨h1, k1⟩, fun st' out hst => ?_⟩
      obtain ⟨l', x, r', y, s', e1, e2, _, rfl⟩ := (stepOn_since cfg op φ ψ b st l r st' out).1 hst
      exact ih s' l' r' (h2 l' x e1) (k2 r' y e2)

theorem histOKRun_timed (cfg : DCfg) (op : TB1) (a b' : Nat) (φ : F α) :
    ∀ (bs : List (String → ASig α)) (ts : TimedSt α) (c : OnSt α), HistOKRun cfg φ c bs → FinRun cfg φ c bs →
      HistOKRun cfg (.tb1 op a b' φ) (.timed ts c) bs := by
  intro bs
  induction bs with
  | nil => intro _ _ _ _; trivial
  | cons b rest ih =>
      rintro ts c ⟨h1, h2⟩ hf
      refine ⟨?_, fun st' out hst => ?_⟩
      · simp only [HistOK]
        refine ⟨h1, fun _ _ c' s hc t v rest' hs => ?_⟩
        exact (hf c' s hc).1 (t, v) (by rw [hs]; simp)
      · cases op <;> simp only [stepOn, bind_ok_iff] at hst <;>
          (obtain ⟨⟨c', s⟩, hc, ⟨ts', out'⟩, _, hst⟩ := hst
           cases hst
           exact ih ts' c' (h2 c' s hc) (hf c' s hc).2)

theorem histOKRun_sinceT (cfg : DCfg) (op : TB2) (a b' : Nat) (φ ψ : F α) :
    ∀ (bs : List (String → ASig α)) (o : TimedSt α) (s : SinceSt α) (h : TimedSt α) (an : BinSt α) (l r : OnSt α),
      HistOKRun cfg φ l bs → HistOKRun cfg ψ r bs → FinRun cfg (.tmp2 .since φ ψ) (.since s l r) bs →
      HistOKRun cfg (.tb2 op a b' φ ψ) (.sinceT o s h an l r) bs := by
  intro bs
  induction bs with
  | nil => intro _ _ _ _ _ _ _ _ _; trivial
  | cons b rest ih =>
      rintro o s h an l r ⟨h1, h2⟩ ⟨k1, k2⟩ hf
      have hsin : ∀ l' sl r' sr, stepOn cfg b φ l = .ok (l', sl) → stepOn cfg b ψ r = .ok (r', sr) →
          stepOn cfg b (.tmp2 .since φ ψ) (.since s l r) =
            .ok (.since (sinceUpdate s sl sr).1 l' r', (sinceUpdate s sl sr).2) := by
        intro l' sl r' sr e1 e2
        exact (stepOn_since cfg .since φ ψ b s l r _ _).2 ⟨l', sl, r', sr, _, e1, e2, rfl, rfl⟩
      refine ⟨?_, fun st' out hst => ?_⟩
      · simp only [HistOK]
        refine ⟨h1, k1, fun _ l' sl r' sr e1 e2 t v rest' hs => ?_⟩
        exact (hf _ _ (hsin l' sl r' sr e1 e2)).1 (t, v) (by rw [hs]; simp)
      · obtain ⟨l', x, r', y, s', e1, e2, e3, rfl⟩ :=
          (stepOn_sinceT cfg op a b' φ ψ b (o, s, h, an) l r st' out).1 hst
        obtain ⟨o', out1, h', out3, an', _, _, _, rfl⟩ := (sinceTStep_ok _ _ o s h an x y s' out).1 e3
        exact ih o' _ h' an' l' r' (h2 l' x e1) (k2 r' y e2) (hf _ _ (hsin l' x r' y e1 e2)).2

/-- `HistOK` holds along every run of the fragments of C05 (`ia = false`) and C06 (`ia = true`, with `hkey` and `hcmp`) -/
theorem histOKRun_frag (cfg : DCfg) (hs : 0 ≤ cfg.scale) (w : DEnv α)
    (hsub : ∀ a b : α, Val.neg (Val.sub a b) = Val.sub b a) (ia : Bool)
    (hia : ia = true →
      ((∀ (c : Cmp) (d d' : α), cmpOfDiff c d = cmpOfDiff c d' → satOfDiff c d = satOfDiff c d') ∧
        (∀ (c : Cmp) (a b : α), satOfDiff c (Val.sub a b) = c.holds a b)))
    (batches : List (String → ASig α)) :
    ∀ (φ : F α), (onFragG ia φ = true ∨ isConst φ = true) → w.WF φ.vars → StartsAt0 w φ.vars →
      ValidChunks w φ.vars batches → ∀ st0, initOn φ = .ok st0 → HistOKRun cfg φ st0 batches := by
  intro φ
  induction φ with
  | var x => intro _ _ _ _ st0 _; exact histOKRun_leaf cfg _ (.inl ⟨x, rfl⟩) batches st0
  | const c => intro _ _ _ _ st0 _; exact histOKRun_leaf cfg _ (.inr ⟨c, rfl⟩) batches st0
  | un op φ ih =>
      intro hfrag hw h0 hch st0 hi
      have hfrag : onFragG ia φ = true := by
        rcases hfrag with h | h
        · simpa [onFragG] using h
        · simp [isConst] at h
      simp only [F.vars] at hw h0 hch
      simp only [initOn] at hi
      obtain ⟨c0, e0, hi⟩ := bind_ok hi
      cases hi
      exact histOKRun_un cfg op φ batches c0 (ih (.inl hfrag) hw h0 hch c0 e0)
  | bin op φ ψ ih1 ih2 =>
      intro hfrag hw h0 hch st0 hi
      have hfrag : onFragG ia (.bin op φ ψ) = true := by
        rcases hfrag with h | h
        · exact h
        · simp [isConst] at h
      simp only [onFragG, Bool.and_eq_true, Bool.or_eq_true] at hfrag
      simp only [F.vars] at hw h0 hch
      have hz := (frag_opG hfrag.1).1
      obtain ⟨l0, r0, e1, e2, rfl⟩ := (initOn_bin op hz φ ψ st0).1 hi
      have hl : onFragG ia φ = true ∨ isConst φ = true := by
        rcases hfrag.2 with (⟨a, _⟩ | ⟨a, _⟩) | ⟨a, _⟩
        · exact .inl a
        · exact .inr a
        · exact .inl a
      have hr : onFragG ia ψ = true ∨ isConst ψ = true := by
        rcases hfrag.2 with (⟨_, b⟩ | ⟨_, b⟩) | ⟨_, b⟩
        · exact .inl b
        · exact .inl b
        · exact .inr b
      exact histOKRun_bin cfg op φ ψ batches _ l0 r0
        (ih1 hl (wf_left hw) (startsAt0_left h0) (validChunks_left hch) l0 e1)
        (ih2 hr (wf_right hw) (startsAt0_right h0) (validChunks_right hch) r0 e2)
  | tmp1 op φ ih =>
      intro hfrag hw h0 hch st0 hi
      have hfrag : onFragG ia (.tmp1 op φ) = true := by
        rcases hfrag with h | h
        · exact h
        · simp [isConst] at h
      simp only [onFragG, Bool.and_eq_true] at hfrag
      simp only [F.vars] at hw h0 hch
      cases op <;> simp only [initOn] at hi <;> try (cases hi)
      all_goals
        obtain ⟨c0, e0, hi⟩ := bind_ok hi
        cases hi
        exact histOKRun_scan cfg _ φ batches _ c0 (ih (.inl hfrag.2) hw h0 hch c0 e0)
  | tmp2 op φ ψ ih1 ih2 =>
      intro hfrag hw h0 hch st0 hi
      have hfrag : onFragG ia (.tmp2 op φ ψ) = true := by
        rcases hfrag with h | h
        · exact h
        · simp [isConst] at h
      simp only [onFragG, Bool.and_eq_true] at hfrag
      simp only [F.vars] at hw h0 hch
      cases op <;> simp only [initOn] at hi <;> try (cases hi)
      obtain ⟨l0, e1, hi⟩ := bind_ok hi
      obtain ⟨r0, e2, hi⟩ := bind_ok hi
      cases hi
      exact histOKRun_since cfg _ φ ψ batches _ l0 r0
        (ih1 (.inl hfrag.1.2) (wf_left hw) (startsAt0_left h0) (validChunks_left hch) l0 e1)
        (ih2 (.inl hfrag.2) (wf_right hw) (startsAt0_right h0) (validChunks_right hch) r0 e2)
  | tb1 op a b φ ih =>
      intro hfrag hw h0 hch st0 hi
      have hfrag : onFragG ia (.tb1 op a b φ) = true := by
        rcases hfrag with h | h
        · exact h
        · simp [isConst] at h
      simp only [onFragG, Bool.and_eq_true, decide_eq_true_eq] at hfrag
      simp only [F.vars] at hw h0 hch
      cases op <;> simp only [initOn] at hi <;> try (cases hi)
      all_goals
        obtain ⟨c0, e0, hi⟩ := bind_ok hi
        cases hi
        exact histOKRun_timed cfg _ a b φ batches _ c0 (ih (.inl hfrag.2) hw h0 hch c0 e0)
          (finRun_frag cfg hs w hsub ia hia φ hfrag.2 hw h0 c0 e0 batches [] c0 []
            ((runG_nil_ok _ _ _ _).2 ⟨rfl, rfl⟩) hch)
  | tb2 op a b φ ψ ih1 ih2 =>
      intro hfrag hw h0 hch st0 hi
      have hfrag : onFragG ia (.tb2 op a b φ ψ) = true := by
        rcases hfrag with h | h
        · exact h
        · simp [isConst] at h
      simp only [onFragG, Bool.and_eq_true, decide_eq_true_eq] at hfrag
      have hw' := hw
      have h0' := h0
      have hch' := hch
      simp only [F.vars] at hw h0 hch
      cases op <;> simp only [initOn] at hi <;> try (cases hi)
      obtain ⟨l0, e1, hi⟩ := bind_ok hi
      obtain ⟨r0, e2, hi⟩ := bind_ok hi
      cases hi
      have hfs : onFragG ia (.tmp2 .since φ ψ) = true := by
        simp only [onFragG, Bool.and_eq_true]; exact ⟨⟨trivial, hfrag.1.2⟩, hfrag.2⟩
      have his : initOn (.tmp2 .since φ ψ) = .ok (.since { prev := Val.ninf } l0 r0) := by
        simp only [initOn]
        rw [bind_ok_eq e1, bind_ok_eq e2]; rfl
      exact histOKRun_sinceT cfg _ a b φ ψ batches _ _ _ _ l0 r0
        (ih1 (.inl hfrag.1.2) (wf_left hw) (startsAt0_left h0) (validChunks_left hch) l0 e1)
        (ih2 (.inl hfrag.2) (wf_right hw) (startsAt0_right h0) (validChunks_right hch) r0 e2)
        (finRun_frag cfg hs w hsub ia hia (.tmp2 .since φ ψ) hfs hw h0 _ his batches [] _ []
          ((runG_nil_ok _ _ _ _).2 ⟨rfl, rfl⟩) hch)

theorem onSupported_of_frag (ia : Bool) :
    ∀ (φ : F α), (onFragG ia φ = true ∨ isConst φ = true) → φ.onSupported = true := by
  intro φ
  induction φ with
  | var x => intro _; rfl
  | const c => intro _; rfl
  | un op φ ih =>
      rintro (h | h)
      · exact ih (.inl (by simpa [onFragG] using h))
      · simp [isConst] at h
  | bin op φ ψ ih1 ih2 =>
      rintro (h | h)
      · simp only [onFragG, Bool.and_eq_true, Bool.or_eq_true] at h
        simp only [F.onSupported, Bool.and_eq_true]
        refine ⟨⟨(by have := (frag_opG h.1).1; cases op <;> simp at this ⊢), ih1 ?_⟩, ih2 ?_⟩
        · rcases h.2 with (⟨a, _⟩ | ⟨a, _⟩) | ⟨a, _⟩
          · exact .inl a
          · exact .inr a
          · exact .inl a
        · rcases h.2 with (⟨_, b⟩ | ⟨_, b⟩) | ⟨_, b⟩
          · exact .inl b
          · exact .inl b
          · exact .inr b
      · simp [isConst] at h
  | tmp1 op φ ih =>
      rintro (h | h)
      · simp only [onFragG, Bool.and_eq_true] at h; exact ih (.inl h.2)
      · simp [isConst] at h
  | tmp2 op φ ψ ih1 ih2 =>
      rintro (h | h)
      · simp only [onFragG, Bool.and_eq_true] at h
        simp only [F.onSupported, Bool.and_eq_true]
        exact ⟨ih1 (.inl h.1.2), ih2 (.inl h.2)⟩
      · simp [isConst] at h
  | tb1 op a b φ ih =>
      rintro (h | h)
      · simp only [onFragG, Bool.and_eq_true] at h; exact ih (.inl h.2)
      · simp [isConst] at h
  | tb2 op a b φ ψ ih1 ih2 =>
      rintro (h | h)
      · simp only [onFragG, Bool.and_eq_true] at h
        simp only [F.onSupported, Bool.and_eq_true]
        exact ⟨ih1 (.inl h.1.2), ih2 (.inl h.2)⟩
      · simp [isConst] at h

/-- the fragment of C05 has no interface-aware predicate -/
theorem usesSatNe_of_frag : ∀ (φ : F α), (onFragG false φ = true ∨ isConst φ = true) → φ.usesSatNe = false := by
  intro φ
  induction φ with
  | var x => intro _; rfl
  | const c => intro _; rfl
  | un op φ ih =>
      rintro (h | h)
      · exact ih (.inl (by simpa [onFragG] using h))
      · simp [isConst] at h
  | bin op φ ψ ih1 ih2 =>
      rintro (h | h)
      · simp only [onFragG, Bool.and_eq_true, Bool.or_eq_true] at h
        have hl : onFragG false φ = true ∨ isConst φ = true := by
          rcases h.2 with (⟨a, _⟩ | ⟨a, _⟩) | ⟨a, _⟩
          · exact .inl a
          · exact .inr a
          · exact .inl a
        have hr : onFragG false ψ = true ∨ isConst ψ = true := by
          rcases h.2 with (⟨_, b⟩ | ⟨_, b⟩) | ⟨_, b⟩
          · exact .inl b
          · exact .inl b
          · exact .inr b
        have hop := h.1
        cases op <;> simp at hop <;> simp [F.usesSatNe, ih1 hl, ih2 hr]
      · simp [isConst] at h
  | tmp1 op φ ih =>
      rintro (h | h)
      · simp only [onFragG, Bool.and_eq_true] at h; exact ih (.inl h.2)
      · simp [isConst] at h
  | tmp2 op φ ψ ih1 ih2 =>
      rintro (h | h)
      · simp only [onFragG, Bool.and_eq_true] at h
        simp [F.usesSatNe, ih1 (.inl h.1.2), ih2 (.inl h.2)]
      · simp [isConst] at h
  | tb1 op a b φ ih =>
      rintro (h | h)
      · simp only [onFragG, Bool.and_eq_true] at h; exact ih (.inl h.2)
      · simp [isConst] at h
  | tb2 op a b φ ψ ih1 ih2 =>
      rintro (h | h)
      · simp only [onFragG, Bool.and_eq_true] at h
        simp [F.usesSatNe, ih1 (.inl h.1.2), ih2 (.inl h.2)]
      · simp [isConst] at h

end GOn

/-- (c) C05 for the translated classes: on the fragment `onFrag`, for well-formed signals that start at 0 and every valid
    chunking, whenever the mirror returns `outs`, the monitor run through the classes translated from the Python source returns
    the same lists for every `fuel` above a bound, and they are the dense-time semantics (`StreamOK`). -/
theorem C05_translated_partial (cfg : DCfg) (hs : 0 ≤ cfg.scale) (w : DEnv α) (φ : F α)
    (hfrag : onFrag φ = true) (hw : w.WF φ.vars) (h0 : StartsAt0 w φ.vars)
    (hsub : ∀ a b : α, Val.neg (Val.sub a b) = Val.sub b a)
    (batches : List (String → ASig α)) (hch : ValidChunks w φ.vars batches)
    {outs : List (ASig α)} (he : runOn cfg φ batches = .ok outs) :
    ∃ N, ∀ fuel, N ≤ fuel → runOnG fuel cfg φ batches = .ok outs ∧ StreamOK outs 0 (rhoD cfg w φ) := by
  have hfrag' : onFragG false φ = true := by rw [← onFrag_eq]; exact hfrag
  obtain ⟨N, hN⟩ := genOn_run cfg φ (onSupported_of_frag false φ (.inl hfrag'))
    (fun k => by rw [usesSatNe_of_frag φ (.inl hfrag')] at k; cases k) batches outs he
    (fun st0 hi => histOKRun_frag cfg hs w hsub false (fun k => absurd k (by simp)) batches φ (.inl hfrag') hw h0 hch
      st0 hi)
  exact ⟨N, fun fuel hf => ⟨hN fuel hf, C05_online_mirror_partial cfg hs w φ hfrag hw h0 hsub batches hch he⟩⟩

/-- (c) without `sqrt` / `ln` the run raises nothing: there are such lists. -/
theorem C05_translated_total_partial (cfg : DCfg) (hs : 0 ≤ cfg.scale) (w : DEnv α) (φ : F α)
    (hfrag : onFrag φ = true) (hnp : noPartialOps φ = true) (hw : w.WF φ.vars) (h0 : StartsAt0 w φ.vars)
    (hsub : ∀ a b : α, Val.neg (Val.sub a b) = Val.sub b a)
    (batches : List (String → ASig α)) (hch : ValidChunks w φ.vars batches) :
    ∃ N, ∀ fuel, N ≤ fuel → ∃ outs, runOnG fuel cfg φ batches = .ok outs ∧ StreamOK outs 0 (rhoD cfg w φ) := by
  obtain ⟨outs, he⟩ := C05_online_total_partial cfg hs w φ hfrag hnp hw h0 batches hch
  obtain ⟨N, hN⟩ := C05_translated_partial cfg hs w φ hfrag hw h0 hsub batches hch he
  exact ⟨N, fun fuel hf => ⟨outs, hN fuel hf⟩⟩

/-- (c) C06 for the translated classes (interface-aware robustness semantics, dense online): on the fragment `onFragIA` - with
    the interface-aware predicate `.bin (.predSat c) φ ψ`, run through the translated subclass `PredicateOperation` of
    `rtamt/semantics/iastl/dense_time/online` - under the hypotheses of `C06_online_ia_partial`, whenever the mirror returns
    `outs`, the monitor run through the classes translated from the Python source returns the same lists for every `fuel`
    above a bound, and they are the dense-time semantics.  `HistOK` is discharged as for C05 (`histOKRun_frag` with
    `ia = true`); the law `GOnIA.SatNeLaw` the predicate `!=` needs follows from `hcmp`. -/
theorem C06_translated_online_partial (cfg : DCfg) (hs : 0 ≤ cfg.scale) (w : DEnv α) (φ : F α)
    (hfrag : onFragIA φ = true) (hw : w.WF φ.vars) (h0 : StartsAt0 w φ.vars)
    (hsub : ∀ a b : α, Val.neg (Val.sub a b) = Val.sub b a)
    (hkey : ∀ (c : Cmp) (d d' : α), cmpOfDiff c d = cmpOfDiff c d' → satOfDiff c d = satOfDiff c d')
    (hcmp : ∀ (c : Cmp) (a b : α), satOfDiff c (Val.sub a b) = c.holds a b)
    (batches : List (String → ASig α)) (hch : ValidChunks w φ.vars batches)
    {outs : List (ASig α)} (he : runOn cfg φ batches = .ok outs) :
    ∃ N, ∀ fuel, N ≤ fuel → runOnG fuel cfg φ batches = .ok outs ∧ StreamOK outs 0 (rhoD cfg w φ) := by
  have hfrag' : onFragG true φ = true := by rw [← onFragIA_eq]; exact hfrag
  obtain ⟨N, hN⟩ := genOn_run cfg φ (onSupported_of_frag true φ (.inl hfrag'))
    (fun _ => GOnIA.satNeLaw_of_hcmp hcmp) batches outs he
    (fun st0 hi => histOKRun_frag cfg hs w hsub true (fun _ => ⟨hkey, hcmp⟩) batches φ (.inl hfrag') hw h0 hch st0 hi)
  exact ⟨N, fun fuel hf => ⟨hN fuel hf, C06_online_ia_partial cfg hs w φ hfrag hw h0 hsub hkey hcmp batches hch he⟩⟩

/-- (c) without `sqrt` / `ln` the run raises nothing: there are such lists. -/
theorem C06_translated_online_total_partial (cfg : DCfg) (hs : 0 ≤ cfg.scale) (w : DEnv α) (φ : F α)
    (hfrag : onFragIA φ = true) (hnp : noPartialOps φ = true) (hw : w.WF φ.vars) (h0 : StartsAt0 w φ.vars)
    (hsub : ∀ a b : α, Val.neg (Val.sub a b) = Val.sub b a)
    (hkey : ∀ (c : Cmp) (d d' : α), cmpOfDiff c d = cmpOfDiff c d' → satOfDiff c d = satOfDiff c d')
    (hcmp : ∀ (c : Cmp) (a b : α), satOfDiff c (Val.sub a b) = c.holds a b)
    (batches : List (String → ASig α)) (hch : ValidChunks w φ.vars batches) :
    ∃ N, ∀ fuel, N ≤ fuel → ∃ outs, runOnG fuel cfg φ batches = .ok outs ∧ StreamOK outs 0 (rhoD cfg w φ) := by
  obtain ⟨outs, he⟩ := C06_online_ia_total_partial cfg hs w φ hfrag hnp hw h0 batches hch
  obtain ⟨N, hN⟩ := C06_translated_online_partial cfg hs w φ hfrag hw h0 hsub hkey hcmp batches hch he
  exact ⟨N, fun fuel hf => ⟨outs, hN fuel hf⟩⟩

/-- (c) the instance for the formula the interface-aware robustness semantics monitors: `iaT sem inputs φ` (the insensitive
    predicates of `φ` replaced by `.predSat`; `sem` one of the two robustness semantics or the standard one - under a vacuity
    semantics `iaT` produces `.predZero`, which `onFragIA` excludes) -/
theorem C06_translated_online_iaT_partial (cfg : DCfg) (hs : 0 ≤ cfg.scale) (w : DEnv α) (sem : Sem)
    (inputs : List String) (φ : F α)
    (hfrag : onFragIA (iaT sem inputs φ) = true) (hw : w.WF (iaT sem inputs φ).vars)
    (h0 : StartsAt0 w (iaT sem inputs φ).vars)
    (hsub : ∀ a b : α, Val.neg (Val.sub a b) = Val.sub b a)
    (hkey : ∀ (c : Cmp) (d d' : α), cmpOfDiff c d = cmpOfDiff c d' → satOfDiff c d = satOfDiff c d')
    (hcmp : ∀ (c : Cmp) (a b : α), satOfDiff c (Val.sub a b) = c.holds a b)
    (batches : List (String → ASig α)) (hch : ValidChunks w (iaT sem inputs φ).vars batches)
    {outs : List (ASig α)} (he : runOn cfg (iaT sem inputs φ) batches = .ok outs) :
    ∃ N, ∀ fuel, N ≤ fuel →
      runOnG fuel cfg (iaT sem inputs φ) batches = .ok outs ∧ StreamOK outs 0 (rhoD cfg w (iaT sem inputs φ)) :=
  C06_translated_online_partial cfg hs w (iaT sem inputs φ) hfrag hw h0 hsub hkey hcmp batches hch he

end c05

end Rtamt.Py.DnOn
