/-
  The translated visit methods of the dense-time offline monitor (`Rtamt/Py/GeneratedDense.lean`) run through `callD`
  (`Rtamt/Py/RunDn.lean`) against the mirror `Rtamt/Dense/Alg.lean`:
  (1) the unary point-wise visitors = `mapUn`, (2) the leaves, (3) the methods that only raise,
  (4) `visitPredicate` = `predicate` (given the contract of `subtraction_operation`),
  (5) the binary / bounded visit methods that forward to `intersection` or to a wrapper (given the callee's contract).
-/
import RtamtProofs.GenDenseBase

namespace Rtamt.Py.Dn
open Rtamt Val Rtamt.Dense Rtamt.Dense.Alg

set_option linter.unusedSectionVars false
set_option linter.unusedVariables false
set_option linter.unusedSimpArgs false

variable {α : Type} [Val α]

/- auxiliary definitions and lemmas live in `Rtamt.Py.Dn.GenUn`; the theorems about the visit methods are
   `Rtamt.Py.Dn.gen_visitX` -/
namespace GenUn

/-! ### (1) unary point-wise visitors -/

/-- the generic loop `for i in sample: BODY` where one iteration appends one sample (or raises) -/
theorem unLoopG (call : Call α) (fuel : Nat) (B : S) (F : Tm × α → Except PyErr (Tm × α)) (P : Env α → Prop)
    (hstep : ∀ (env : Env α) (acc : List (DV α)) (t : Tm) (x : α),
      getLoc "sample_return" env = .ok (.list acc) → P env →
      match F (t, x) with
      | .ok q => ∃ env', exec call fuel B (setLoc "i" (.smp t (.val x)) env) = .ok (env', none) ∧
          getLoc "sample_return" env' = .ok (.list (acc ++ [encSmp q])) ∧ P env'
      | .error e => exec call fuel B (setLoc "i" (.smp t (.val x)) env) = .error e)
    (s : ASig α) : ∀ (env : Env α) (acc : ASig α),
    getLoc "sample_return" env = .ok (encSig acc) → P env →
    match s.mapM F with
    | .ok o => ∃ env', forLoop (fun p env => setLoc "i" p.1 env) (exec call fuel B)
          (s.map (fun v => (encSmp v, 0))) env = .ok (env', none) ∧
        getLoc "sample_return" env' = .ok (encSig (acc ++ o))
    | .error e => forLoop (fun p env => setLoc "i" p.1 env) (exec call fuel B)
          (s.map (fun v => (encSmp v, 0))) env = .error e := by
  induction s with
  | nil =>
      intro env acc h _
      show ∃ env', _ ∧ _
      exact ⟨env, rfl, by simpa using h⟩
  | cons p s ih =>
      intro env acc h hP
      obtain ⟨t, x⟩ := p
      rw [List.map_cons, forLoop_cons, List.mapM_cons]
      have hs := hstep env (acc.map encSmp) t x h hP
      dsimp only
      cases hF : F (t, x) with
      | error e =>
          rw [hF] at hs
          have hs' : exec call fuel B (setLoc "i" (encSmp (t, x)) env) = .error e := hs
          simp [hs']
      | ok q =>
          rw [hF] at hs
          obtain ⟨env1, h1, h2, h3⟩ := hs
          have h1' : exec call fuel B (setLoc "i" (encSmp (t, x)) env) = .ok (env1, none) := h1
          have ih' := ih env1 (acc ++ [q]) (by simpa [encSig] using h2) h3
          simp only [h1', ok_bind]
          cases hM : s.mapM F with
          | error e => rw [hM] at ih'; simpa using ih'
          | ok o =>
              rw [hM] at ih'
              obtain ⟨env', h4, h5⟩ := ih'
              exact ⟨env', by simpa using h4, by simpa using h5⟩

/-- `out_time = i[0]; out_value = -i[1]; sample_return.append([out_time, out_value])` -/
def negBody : S := (.seq (.setLoc "out_time" (.idx (.loc "i") (.int 0))) (.seq (.setLoc "out_value" (.neg (.idx (.loc "i") (.int 1)))) (.appendLoc "sample_return" (.list2 (.loc "out_time") (.loc "out_value")))))

/-- `out_time = i[0]; out_value = f(i[1]); sample_return.append([out_time, out_value])` -/
def callBody (f : String) : S := (.seq (.setLoc "out_time" (.idx (.loc "i") (.int 0))) (.seq (.setLoc "out_value" (.call1 f (.idx (.loc "i") (.int 1)))) (.appendLoc "sample_return" (.list2 (.loc "out_time") (.loc "out_value")))))

/-- `if i[1] < 0: raise Exception(…)` followed by `callBody` -/
def guardBody (f : String) : S := (.seq (.ite (.bin .lt (.idx (.loc "i") (.int 1)) (.int 0)) (.raise .other) .skip) (callBody f))

theorem negBody_step (call : Call α) (fuel : Nat) (env : Env α) (acc : List (DV α)) (t : Tm) (x : α)
    (h : getLoc "sample_return" env = .ok (.list acc)) :
    exec call fuel negBody (setLoc "i" (.smp t (.val x)) env) =
      .ok (setLoc "sample_return" (.list (acc ++ [.smp t (.val (Val.neg x))]))
            (setLoc "out_value" (.val (Val.neg x)) (setLoc "out_time" (.tm t) (setLoc "i" (.smp t (.val x)) env))), none) := by
  simp [negBody, exec, evalE, h, evalIdx, pyIndex, evalNeg, mkList2, toPayload]

theorem callBody_step (call : Call α) (fuel : Nat) (f : String) (g : α → α) (env : Env α) (acc : List (DV α)) (t : Tm)
    (x : α) (hf1 : f ≠ "i") (hf2 : f ≠ "out_time")
    (hcall : call f [.val x] = .ok (.val (g x)))
    (h : getLoc "sample_return" env = .ok (.list acc)) (hr : resolve env f = f) :
    exec call fuel (callBody f) (setLoc "i" (.smp t (.val x)) env) =
      .ok (setLoc "sample_return" (.list (acc ++ [.smp t (.val (g x))]))
            (setLoc "out_value" (.val (g x)) (setLoc "out_time" (.tm t) (setLoc "i" (.smp t (.val x)) env))), none) := by
  simp [callBody, exec, evalE, h, evalIdx, pyIndex, mkList2, toPayload, hf1, hf2, hr, hcall]

@[simp] theorem exMap_ok {ε σ ρ : Type} (a : σ) (f : σ → ρ) : Except.map f (Except.ok a : Except ε σ) = .ok (f a) := rfl
@[simp] theorem exMap_error {ε σ ρ : Type} (e : ε) (f : σ → ρ) : Except.map f (Except.error e : Except ε σ) = .error e := rfl

theorem guard_step (call : Call α) (fuel : Nat) (env : Env α) (t : Tm) (x : α)
    (h : getLoc "i" env = .ok (.smp t (.val x))) :
    exec call fuel (.ite (.bin .lt (.idx (.loc "i") (.int 1)) (.int 0)) (.raise .other) .skip) env =
      if Val.lt x Val.zero then .error .other else .ok (env, none) := by
  by_cases hx : Val.lt x Val.zero = true
  · simp [exec, evalE, h, evalIdx, pyIndex, evalBin, isCmp, cmpDV, isTimeLike, isValLike, toVal, cmpVal, truthy, hx]
  · have hx' : Val.lt x Val.zero = false := by simpa using hx
    simp [exec, evalE, h, evalIdx, pyIndex, evalBin, isCmp, cmpDV, isTimeLike, isValLike, toVal, cmpVal, truthy, hx']

theorem guardBody_step (call : Call α) (fuel : Nat) (f : String) (g : α → α) (env : Env α) (acc : List (DV α)) (t : Tm)
    (x : α) (hf1 : f ≠ "i") (hf2 : f ≠ "out_time")
    (hcall : call f [.val x] = .ok (.val (g x)))
    (h : getLoc "sample_return" env = .ok (.list acc)) (hr : resolve env f = f) :
    exec call fuel (guardBody f) (setLoc "i" (.smp t (.val x)) env) =
      if Val.lt x Val.zero then .error .other else
      .ok (setLoc "sample_return" (.list (acc ++ [.smp t (.val (g x))]))
            (setLoc "out_value" (.val (g x)) (setLoc "out_time" (.tm t) (setLoc "i" (.smp t (.val x)) env))), none) := by
  unfold guardBody
  rw [exec, guard_step call fuel _ t x (by simp)]
  by_cases hx : Val.lt x Val.zero = true
  · simp [hx]
  · have hx' : Val.lt x Val.zero = false := by simpa using hx
    simp [hx', callBody_step call fuel f g env acc t x hf1 hf2 hcall h hr]

/-- the body of the six unary point-wise visit methods around the loop body `B` -/
def unWrap (B : S) : S := (.seq (.setLoc "sample_return" .emptyList) (.seq (.forIn "i" (.loc "sample") B) (.ret (.loc "sample_return"))))

theorem unMethodG (fuel : Nat) (m : DMethod) (B : S) (F : Tm × α → Except PyErr (Tm × α)) (P : Env α → Prop)
    (hk : m.kids = ["sample"]) (hb : m.body = unWrap B)
    (hP : ∀ v : DV α, P (setLoc "sample_return" (.list []) [("sample", v)]))
    (hstep : ∀ (env : Env α) (acc : List (DV α)) (t : Tm) (x : α),
      getLoc "sample_return" env = .ok (.list acc) → P env →
      match F (t, x) with
      | .ok q => ∃ env', exec (callAt Gen.Dense.fns fuel depth) fuel B (setLoc "i" (.smp t (.val x)) env) = .ok (env', none) ∧
          getLoc "sample_return" env' = .ok (.list (acc ++ [encSmp q])) ∧ P env'
      | .error e => exec (callAt Gen.Dense.fns fuel depth) fuel B (setLoc "i" (.smp t (.val x)) env) = .error e)
    (s : ASig α) : callD fuel m [s] none [] = s.mapM F := by
  have hl := unLoopG (callAt Gen.Dense.fns fuel depth) fuel B F P hstep s
    (setLoc "sample_return" (.list []) [("sample", encSig s)]) [] (by simp [encSig]) (hP _)
  unfold callD
  rw [hk, hb]
  simp only [unWrap, List.length_cons, List.length_nil, Nat.lt_irrefl, if_false]
  simp only [exec, evalE, ok_bind, pure_eq_ok]
  rw [show (["sample"].zip (List.map encSig (List.take (0 + 1) [s])) ++ [] ++ [] : Env α) = [("sample", encSig s)] from rfl]
  have hg : getLoc "sample" (setLoc "sample_return" (DV.list []) [("sample", encSig s)]) = .ok (encSig s) := by simp
  rw [hg]
  simp only [ok_bind, encSig, List.map_map]
  rw [show ((fun v => (v, 0)) ∘ encSmp : Tm × α → DV α × Nat) = (fun v => (encSmp v, 0)) from rfl]
  rw [show encSig s = DV.list (s.map encSmp) from rfl] at hl
  cases hM : s.mapM F with
  | error e => rw [hM] at hl; simp [hl]
  | ok o =>
      rw [hM] at hl
      obtain ⟨env', h1, h2⟩ := hl
      simp [h1, h2]

theorem resolve_init (f : String) (v : DV α) (h1 : f ≠ "sample_return") (h2 : f ≠ "sample") :
    resolve (setLoc "sample_return" (.list []) [("sample", v)]) f = f := by
  have h2' : (f == "sample") = false := by rw [beq_eq_false_iff_ne]; exact h2
  rw [resolve_setLoc_ne _ _ _ _ h1]
  simp [resolve, List.lookup, h2']

/-- `visitAbs`, `visitExp`: `out_value = f(i[1])` with a function `f` of the standard library -/
theorem gen_unCall (fuel : Nat) (m : DMethod) (f : String) (g : α → α)
    (hk : m.kids = ["sample"]) (hb : m.body = unWrap (callBody f))
    (hf1 : f ≠ "i") (hf2 : f ≠ "out_time") (hf3 : f ≠ "out_value") (hf4 : f ≠ "sample_return") (hf5 : f ≠ "sample")
    (hlook : Gen.Dense.fns.lookup f = none) (hbi : ∀ x : α, builtin f [.val x] = .ok (.val (g x))) (s : ASig α) :
    callD fuel m [s] none [] = s.mapM (fun p => (.ok (p.1, g p.2) : Except PyErr (Tm × α))) := by
  refine unMethodG fuel m (callBody f) _ (fun env => resolve env f = f) hk hb
    (fun v => resolve_init f v hf4 hf5) ?_ s
  intro env acc t x h hr
  refine ⟨_, callBody_step _ fuel f g env acc t x hf1 hf2 ?_ h hr, by simp [encSmp], ?_⟩
  · rw [callAt_builtin _ _ _ _ _ hlook]; exact hbi x
  · simp [hf1, hf2, hf3, hf4, hr]

/-- `visitSqrt`, `visitLn`: the same after `if i[1] < 0: raise Exception` -/
theorem gen_unGuard (fuel : Nat) (m : DMethod) (f : String) (g : α → α)
    (hk : m.kids = ["sample"]) (hb : m.body = unWrap (guardBody f))
    (hf1 : f ≠ "i") (hf2 : f ≠ "out_time") (hf3 : f ≠ "out_value") (hf4 : f ≠ "sample_return") (hf5 : f ≠ "sample")
    (hlook : Gen.Dense.fns.lookup f = none) (hbi : ∀ x : α, builtin f [.val x] = .ok (.val (g x))) (s : ASig α) :
    callD fuel m [s] none [] =
      s.mapM (fun p => if Val.lt p.2 Val.zero then (.error .other : Except PyErr (Tm × α)) else .ok (p.1, g p.2)) := by
  refine unMethodG fuel m (guardBody f) _ (fun env => resolve env f = f) hk hb
    (fun v => resolve_init f v hf4 hf5) ?_ s
  intro env acc t x h hr
  have hc : callAt Gen.Dense.fns fuel depth f [.val x] = .ok (.val (g x)) := by
    rw [callAt_builtin _ _ _ _ _ hlook]; exact hbi x
  have hs := guardBody_step _ fuel f g env acc t x hf1 hf2 hc h hr
  by_cases hx : Val.lt x Val.zero = true
  · simp only [hx, if_true] at hs ⊢
    exact hs
  · simp only [hx] at hs ⊢
    exact ⟨_, hs, by simp [encSmp], by simp [hf1, hf2, hf3, hf4, hr]⟩

/-- `visitNot`, `visitNegate` -/
theorem gen_unNeg (fuel : Nat) (m : DMethod) (hk : m.kids = ["sample"]) (hb : m.body = unWrap negBody) (s : ASig α) :
    callD fuel m [s] none [] = s.mapM (fun p => (.ok (p.1, Val.neg p.2) : Except PyErr (Tm × α))) := by
  refine unMethodG fuel m negBody _ (fun _ => True) hk hb (fun _ => trivial) ?_ s
  intro env acc t x h _
  exact ⟨_, negBody_step _ fuel env acc t x h, by simp [encSmp], trivial⟩

theorem _root_.Rtamt.Py.Dn.gen_visitAbs (fuel : Nat) (s : ASig α) : callD fuel Gen.Dense.visitAbs [s] none [] = mapUn .abs s :=
  gen_unCall fuel Gen.Dense.visitAbs "abs" Val.abs rfl rfl (by decide) (by decide) (by decide) (by decide) (by decide)
    rfl (fun x => by simp [builtin, toVal]) s

theorem _root_.Rtamt.Py.Dn.gen_visitExp (fuel : Nat) (s : ASig α) : callD fuel Gen.Dense.visitExp [s] none [] = mapUn .exp s :=
  gen_unCall fuel Gen.Dense.visitExp "math.exp" Val.exp rfl rfl (by decide) (by decide) (by decide) (by decide)
    (by decide) rfl (fun x => by simp [builtin, toVal]) s

theorem _root_.Rtamt.Py.Dn.gen_visitSqrt (fuel : Nat) (s : ASig α) : callD fuel Gen.Dense.visitSqrt [s] none [] = mapUn .sqrt s :=
  gen_unGuard fuel Gen.Dense.visitSqrt "math.sqrt" Val.sqrt rfl rfl (by decide) (by decide) (by decide) (by decide)
    (by decide) rfl (fun x => by simp [builtin, toVal]) s

theorem _root_.Rtamt.Py.Dn.gen_visitLn (fuel : Nat) (s : ASig α) : callD fuel Gen.Dense.visitLn [s] none [] = mapUn .ln s :=
  gen_unGuard fuel Gen.Dense.visitLn "math.log" Val.ln rfl rfl (by decide) (by decide) (by decide) (by decide)
    (by decide) rfl (fun x => by simp [builtin, toVal]) s

theorem _root_.Rtamt.Py.Dn.gen_visitNot (fuel : Nat) (s : ASig α) : callD fuel Gen.Dense.visitNot [s] none [] = mapUn .not s :=
  gen_unNeg fuel Gen.Dense.visitNot rfl rfl s

theorem _root_.Rtamt.Py.Dn.gen_visitNegate (fuel : Nat) (s : ASig α) : callD fuel Gen.Dense.visitNegate [s] none [] = mapUn .negate s :=
  gen_unNeg fuel Gen.Dense.visitNegate rfl rfl s

/-! ### (2) leaves -/

theorem _root_.Rtamt.Py.Dn.gen_visitConstant (fuel : Nat) (c : α) :
    callD fuel Gen.Dense.visitConstant [] none [("$val", .val c)] = .ok [(Tm.zero, c), (.inf, c)] := by
  simp [callD, Gen.Dense.visitConstant, exec, evalE, mkList2, toPayload, decSig, Tm.zero]

theorem _root_.Rtamt.Py.Dn.gen_visitVariable (fuel : Nat) (s : ASig α) :
    callD fuel Gen.Dense.visitVariable [] none [("$var", encSig s), ("$field", .none)] = .ok s := by
  simp [callD, Gen.Dense.visitVariable, exec, evalE, truthy]

/-! ### (3) the methods that only raise -/

theorem raiseG (fuel : Nat) (m : DMethod) (hk : m.kids = []) (hb : m.body = .raise .rtamt) (kids : List (ASig α))
    (iv : Option (Rat × Rat)) (extra : Env α) : callD fuel m kids iv extra = .error .rtamt := by
  unfold callD
  rw [hk, hb]
  simp [exec]

theorem _root_.Rtamt.Py.Dn.gen_visitRise (fuel : Nat) (kids : List (ASig α)) (iv : Option (Rat × Rat)) (extra : Env α) :
    callD fuel Gen.Dense.visitRise kids iv extra = .error .rtamt := raiseG fuel _ rfl rfl kids iv extra

theorem _root_.Rtamt.Py.Dn.gen_visitFall (fuel : Nat) (kids : List (ASig α)) (iv : Option (Rat × Rat)) (extra : Env α) :
    callD fuel Gen.Dense.visitFall kids iv extra = .error .rtamt := raiseG fuel _ rfl rfl kids iv extra

theorem _root_.Rtamt.Py.Dn.gen_visitPrevious (fuel : Nat) (kids : List (ASig α)) (iv : Option (Rat × Rat)) (extra : Env α) :
    callD fuel Gen.Dense.visitPrevious kids iv extra = .error .rtamt := raiseG fuel _ rfl rfl kids iv extra

theorem _root_.Rtamt.Py.Dn.gen_visitNext (fuel : Nat) (kids : List (ASig α)) (iv : Option (Rat × Rat)) (extra : Env α) :
    callD fuel Gen.Dense.visitNext kids iv extra = .error .rtamt := raiseG fuel _ rfl rfl kids iv extra

theorem _root_.Rtamt.Py.Dn.gen_visitStrongPrevious (fuel : Nat) (kids : List (ASig α)) (iv : Option (Rat × Rat)) (extra : Env α) :
    callD fuel Gen.Dense.visitStrongPrevious kids iv extra = .error .rtamt := raiseG fuel _ rfl rfl kids iv extra

theorem _root_.Rtamt.Py.Dn.gen_visitStrongNext (fuel : Nat) (kids : List (ASig α)) (iv : Option (Rat × Rat)) (extra : Env α) :
    callD fuel Gen.Dense.visitStrongNext kids iv extra = .error .rtamt := raiseG fuel _ rfl rfl kids iv extra

theorem _root_.Rtamt.Py.Dn.gen_visitTimedPrecedes (fuel : Nat) (kids : List (ASig α)) (iv : Option (Rat × Rat)) (extra : Env α) :
    callD fuel Gen.Dense.visitTimedPrecedes kids iv extra = .error .rtamt := raiseG fuel _ rfl rfl kids iv extra

/-! ### (4) `visitPredicate` -/

/-- the `if / elif` chain on `node.operator.value` -/
def predOutVal : S := (.ite (.bin .eq (.loc "$operator") (.cmpc .eq)) (.setLoc "out_val" (.neg (.call1 "abs" (.idx (.loc "in_sample") (.int 1))))) (.ite (.bin .eq (.loc "$operator") (.cmpc .ne)) (.setLoc "out_val" (.call1 "abs" (.idx (.loc "in_sample") (.int 1)))) (.ite (.or_ (.bin .eq (.loc "$operator") (.cmpc .le)) (.bin .eq (.loc "$operator") (.cmpc .lt))) (.setLoc "out_val" (.neg (.idx (.loc "in_sample") (.int 1)))) (.ite (.or_ (.bin .eq (.loc "$operator") (.cmpc .ge)) (.bin .eq (.loc "$operator") (.cmpc .gt))) (.setLoc "out_val" (.idx (.loc "in_sample") (.int 1))) (.setLoc "out_val" .nan)))))

/-- `if out_val != prev or i == len(input_list) - 1: sample_return.append([in_sample[0], out_val])` and `prev = out_val` -/
def predKeep : S := (.seq (.ite (.or_ (.bin .ne (.loc "out_val") (.loc "prev")) (.bin .eq (.loc "i") (.bin .sub (.call1 "len" (.loc "input_list")) (.int 1)))) (.appendLoc "sample_return" (.list2 (.idx (.loc "in_sample") (.int 0)) (.loc "out_val"))) .skip) (.setLoc "prev" (.loc "out_val")))

def predBody : S := .seq predOutVal predKeep

theorem visitPredicate_body : Gen.Dense.visitPredicate.body =
    (.seq (.setLoc "sample_return" .emptyList) (.seq (.setLoc "input_list" (.call2 "subtraction_operation" (.loc "sample_left") (.loc "sample_right"))) (.seq (.setLoc "prev" .nan) (.seq (.forEnum "i" "in_sample" (.loc "input_list") false predBody) (.ret (.loc "sample_return")))))) := rfl

theorem predOutVal_step (call : Call α) (fuel : Nat) (env : Env α) (c : Cmp) (t : Tm) (d : α)
    (hop : getLoc "$operator" env = .ok (.cmp c)) (hin : getLoc "in_sample" env = .ok (.smp t (.val d)))
    (hr : resolve env "abs" = "abs") (hc : call "abs" [.val d] = .ok (.val (Val.abs d))) :
    exec call fuel predOutVal env = .ok (setLoc "out_val" (.val (cmpOfDiff c d)) env, none) := by
  cases c <;>
    simp [predOutVal, exec, evalE, hop, hin, hr, hc, evalBin, isCmp, cmpDV, truthy, evalIdx, pyIndex, evalNeg, cmpOfDiff]

/-- the value of `prev`: `nan` before the first sample -/
def encPrev : Option α → DV α
  | none => .nan
  | some x => .val x

def keepTest (prev : Option α) (v : α) : Bool :=
  match prev with
  | none => true
  | some x => vne v x

theorem cmpNe_prev (v : α) (prev : Option α) : cmpDV .ne (.val v) (encPrev prev) = .ok (keepTest prev v) := by
  cases prev <;> simp [encPrev, keepTest, cmpDV, isCmp, isTimeLike, isValLike, toVal, cmpVal]

theorem cmpEq_int (a b : Int) : cmpDV .eq (.int a : DV α) (.int b) = .ok (decide (a = b)) := by
  simp [cmpDV, cmpInt]

theorem predKeep_step (call : Call α) (fuel : Nat) (env : Env α) (t : Tm) (d v : α) (prev : Option α) (k : Nat)
    (L acc : List (DV α))
    (hov : getLoc "out_val" env = .ok (.val v)) (hpv : getLoc "prev" env = .ok (encPrev prev))
    (hi : getLoc "i" env = .ok (.int k)) (hL : getLoc "input_list" env = .ok (.list L))
    (hin : getLoc "in_sample" env = .ok (.smp t (.val d)))
    (hsr : getLoc "sample_return" env = .ok (.list acc))
    (hr : resolve env "len" = "len") (hc : call "len" [.list L] = .ok (.int L.length)) :
    exec call fuel predKeep env =
      .ok (setLoc "prev" (.val v)
        (if keepTest prev v || decide (k + 1 = L.length)
          then setLoc "sample_return" (.list (acc ++ [.smp t (.val v)])) env else env), none) := by
  have hne := cmpNe_prev v prev
  have hdec : decide ((k : Int) = (L.length : Int) - 1) = decide (k + 1 = L.length) := by
    apply decide_eq_decide.mpr; omega
  cases hk : keepTest prev v with
  | true =>
      rw [hk] at hne
      simp [predKeep, exec, evalE, hov, hpv, hin, hsr, evalBin, isCmp, hne, truthy, evalIdx, pyIndex, mkList2, toPayload]
  | false =>
      rw [hk] at hne
      by_cases hlast : k + 1 = L.length
      · simp [predKeep, exec, evalE, hov, hpv, hi, hL, hin, hsr, hr, hc, evalBin, isCmp, hne, truthy, evalIdx, pyIndex,
          mkList2, toPayload, arith, cmpEq_int, hdec, hlast]
      · simp [predKeep, exec, evalE, hov, hpv, hi, hL, hin, hsr, hr, hc, evalBin, isCmp, hne, truthy, evalIdx, pyIndex,
          mkList2, toPayload, arith, cmpEq_int, hdec, hlast]

/-- what the loop of `visitPredicate` keeps in its locals -/
structure PredInv (env : Env α) (c : Cmp) (L acc : List (DV α)) (prev : Option α) : Prop where
  op : getLoc "$operator" env = .ok (.cmp c)
  il : getLoc "input_list" env = .ok (.list L)
  sr : getLoc "sample_return" env = .ok (.list acc)
  pv : getLoc "prev" env = .ok (encPrev prev)
  rabs : resolve env "abs" = "abs"
  rlen : resolve env "len" = "len"

theorem predBody_step (call : Call α) (fuel : Nat) (env : Env α) (c : Cmp) (L acc : List (DV α)) (prev : Option α)
    (t : Tm) (d : α) (k : Nat) (inv : PredInv env c L acc prev)
    (hcAbs : ∀ d : α, call "abs" [.val d] = .ok (.val (Val.abs d)))
    (hcLen : ∀ L : List (DV α), call "len" [.list L] = .ok (.int L.length)) :
    ∃ env', exec call fuel predBody (setLoc "in_sample" (.smp t (.val d)) (setLoc "i" (.int k) env)) = .ok (env', none) ∧
      PredInv env' c L (acc ++ if keepTest prev (cmpOfDiff c d) || decide (k + 1 = L.length)
        then [.smp t (.val (cmpOfDiff c d))] else []) (some (cmpOfDiff c d)) := by
  obtain ⟨h1, h2, h3, h4, h5, h6⟩ := inv
  have e1 := predOutVal_step call fuel (setLoc "in_sample" (.smp t (.val d)) (setLoc "i" (.int k) env)) c t d
    (by simp [h1]) (by simp) (by simp [h5]) (hcAbs d)
  have e2 := predKeep_step call fuel
    (setLoc "out_val" (.val (cmpOfDiff c d)) (setLoc "in_sample" (.smp t (.val d)) (setLoc "i" (.int k) env)))
    t d (cmpOfDiff c d) prev k L acc (by simp) (by simp [h4]) (by simp) (by simp [h2]) (by simp) (by simp [h3])
    (by simp [h6]) (hcLen L)
  refine ⟨_, by rw [predBody, exec, e1]; simp only [ok_bind]; exact e2, ?_⟩
  cases hk : (keepTest prev (cmpOfDiff c d) || decide (k + 1 = L.length)) with
  | true => constructor <;> simp [h1, h2, h5, h6, encPrev]
  | false => constructor <;> simp [h1, h2, h3, h5, h6, encPrev]

theorem predLoop (call : Call α) (fuel : Nat) (c : Cmp) (L : List (DV α))
    (hcAbs : ∀ d : α, call "abs" [.val d] = .ok (.val (Val.abs d)))
    (hcLen : ∀ L : List (DV α), call "len" [.list L] = .ok (.int L.length)) (rest : ASig α) :
    ∀ (k : Nat) (env : Env α) (acc : ASig α) (prev : Option α),
    PredInv env c L (acc.map encSmp) prev → k + rest.length = L.length →
    ∃ env', forLoop (fun p env => setLoc "in_sample" p.1 (setLoc "i" (.int p.2) env)) (exec call fuel predBody)
        ((rest.map encSmp).zipIdx k) env = .ok (env', none) ∧
      getLoc "sample_return" env' =
        .ok (encSig (acc ++ dedupGo prev (rest.map (fun p => (p.1, cmpOfDiff c p.2))))) := by
  induction rest with
  | nil => intro k env acc prev inv _; exact ⟨env, rfl, by simpa [dedupGo, encSig] using inv.sr⟩
  | cons p rest ih =>
      intro k env acc prev inv hk
      obtain ⟨t, d⟩ := p
      obtain ⟨env1, h1, inv1⟩ := predBody_step call fuel env c L (acc.map encSmp) prev t d k inv hcAbs hcLen
      rw [List.map_cons, List.zipIdx_cons, forLoop_cons]
      dsimp only
      have h1' : exec call fuel predBody (setLoc "in_sample" (encSmp (t, d)) (setLoc "i" (.int k) env)) = .ok (env1, none) := h1
      simp only [h1', ok_bind]
      cases rest with
      | nil =>
          have hlast : k + 1 = L.length := by simpa using hk
          refine ⟨env1, rfl, ?_⟩
          have := inv1.sr
          simpa [hlast, dedupGo, encSig, encSmp] using this
      | cons q rest' =>
          have hnl : ¬ (k + 1 = L.length) := by simp only [List.length_cons] at hk; omega
          have inv1' : PredInv env1 c L ((acc ++ if keepTest prev (cmpOfDiff c d) then [(t, cmpOfDiff c d)] else []).map encSmp)
              (some (cmpOfDiff c d)) := by
            cases hkt : keepTest prev (cmpOfDiff c d) <;> simpa [hkt, hnl, encSmp] using inv1
          obtain ⟨env', h2, h3⟩ := ih (k + 1) env1 _ _ inv1' (by simp only [List.length_cons] at hk ⊢; omega)
          refine ⟨env', h2, ?_⟩
          rw [h3]
          have hd : dedupGo prev (List.map (fun p => (p.1, cmpOfDiff c p.2)) ((t, d) :: q :: rest')) =
              (if keepTest prev (cmpOfDiff c d) then [(t, cmpOfDiff c d)] else []) ++
                dedupGo (some (cmpOfDiff c d)) (List.map (fun p => (p.1, cmpOfDiff c p.2)) (q :: rest')) := by
            cases prev <;> rfl
          rw [hd, List.append_assoc]

theorem _root_.Rtamt.Py.Dn.gen_visitPredicate (fuel : Nat)
    (hsub : ∀ l r : ASig α, l.length + r.length + 4 ≤ fuel →
      callAt Gen.Dense.fns fuel depth "subtraction_operation" [encSig l, encSig r] =
        (inter (fun a b => Val.sub a b) vne l r).map encSig)
    (c : Cmp) (l r : ASig α) (h : l.length + r.length + 4 ≤ fuel) :
    callD fuel Gen.Dense.visitPredicate [l, r] none [("$operator", .cmp c)] = predicate c l r := by
  have hs := hsub l r h
  unfold callD predicate
  rw [visitPredicate_body]
  simp only [Gen.Dense.visitPredicate, List.length_cons, List.length_nil, Nat.lt_irrefl, if_false]
  rw [show (["sample_left", "sample_right"].zip (List.map encSig (List.take (0 + 1 + 1) [l, r])) ++
      (match (none : Option (Rat × Rat)), false with
        | some (a, b), true => [("begin", DV.tm (Tm.fin a)), ("end", DV.tm (Tm.fin b))]
        | x, x_1 => []) ++ [("$operator", DV.cmp c)] : Env α) =
      [("sample_left", encSig l), ("sample_right", encSig r), ("$operator", DV.cmp c)] from rfl]
  have hres : resolve (setLoc "sample_return" (DV.list [])
      [("sample_left", encSig l), ("sample_right", encSig r), ("$operator", DV.cmp c)]) "subtraction_operation" =
      "subtraction_operation" := by
    rw [resolve_setLoc_ne _ _ _ _ (by decide)]; rfl
  cases hI : inter (fun a b => Val.sub a b) vne l r with
  | error e =>
      rw [hI] at hs
      simp [exec, evalE, hres, hs]
  | ok d =>
      rw [hI] at hs
      have hcAbs : ∀ d : α, callAt Gen.Dense.fns fuel depth "abs" [.val d] = .ok (.val (Val.abs d)) := by
        intro d; rw [callAt_builtin _ _ _ _ _ rfl]; simp [builtin, toVal]
      have hcLen : ∀ L : List (DV α), callAt Gen.Dense.fns fuel depth "len" [.list L] = .ok (.int L.length) := by
        intro L; rw [callAt_builtin _ _ _ _ _ rfl]; simp [builtin]
      obtain ⟨env', h1, h2⟩ := predLoop (callAt Gen.Dense.fns fuel depth) fuel c (d.map encSmp) hcAbs hcLen d 0
        (setLoc "prev" .nan (setLoc "input_list" (encSig d) (setLoc "sample_return" (.list [])
          [("sample_left", encSig l), ("sample_right", encSig r), ("$operator", DV.cmp c)]))) [] none
        (by constructor <;> simp [encSig, encPrev, resolve, List.lookup, setLoc]) (by simp)
      have he : encSig d = DV.list (d.map encSmp) := rfl
      rw [he] at h1
      simp [exec, evalE, hres, hs, he, h1, h2, dedup]

/-! ### (5) visit methods that forward to `intersection` or to a wrapper -/

/-- the tail of `callD`: the returned value read back as a sample list -/
def retSig (x : Except PyErr (Res α)) : Except PyErr (ASig α) := do
  let (_, r) ← x
  match r with
  | some v =>
      match decSig v with
      | some s => pure s
      | none => throw .type
  | none => throw .type

theorem callD_eq (fuel : Nat) (m : DMethod) (kids : List (ASig α)) (iv : Option (Rat × Rat)) (extra : Env α) :
    callD fuel m kids iv extra =
      if kids.length < m.kids.length then .error .type else
        retSig (exec (callAt Gen.Dense.fns fuel depth) fuel m.body
          (m.kids.zip ((kids.take m.kids.length).map encSig) ++
            (match iv, m.interval with
             | some (a, b), true => [("begin", .tm (.fin a)), ("end", .tm (.fin b))]
             | _, _ => []) ++ extra)) := by
  unfold callD retSig
  by_cases h : kids.length < m.kids.length
  · simp [h]
  · simp only [h, if_false]; rfl

/-- `sample_return, last, left, right = intersect.intersection(sample_left, sample_right, intersect.M); return sample_return` -/
def interBody (M : String) : S := (.seq (.unpack ["sample_return", "last", "left", "right"] (.call3 "intersection" (.loc "sample_left") (.loc "sample_right") (.fnRef M))) (.ret (.loc "sample_return")))

theorem interBody_ret (call : Call α) (fuel : Nat) (M : String) (f : α → α → α) (env : Env α) (l r : ASig α)
    (hl : getLoc "sample_left" env = .ok (encSig l)) (hr : getLoc "sample_right" env = .ok (encSig r))
    (hres : resolve env "intersection" = "intersection")
    (hcall : match inter f vne l r with
      | .ok o => ∃ a b c, call "intersection" [encSig l, encSig r, .fn M] = .ok (.list [encSigP (fun x : α => DV.val x) o, a, b, c])
      | .error e => call "intersection" [encSig l, encSig r, .fn M] = .error e) :
    retSig (exec call fuel (interBody M) env) = inter f vne l r := by
  cases hI : inter f vne l r with
  | error e =>
      rw [hI] at hcall
      simp [retSig, interBody, exec, evalE, hl, hr, hres, hcall]
  | ok o =>
      rw [hI] at hcall
      obtain ⟨a, b, c, hc⟩ := hcall
      simp [retSig, interBody, exec, evalE, hl, hr, hres, hc, encSigP_val]

/-- the contract of `intersection` for a method that computes `f` on values -/
theorem interSpec_val (fuel : Nat) (hI : InterSpec α fuel (depth - 2)) (M : String) (f : α → α → α)
    (hM : ∀ a b : α, callAt Gen.Dense.fns fuel (depth - 1) M [.val a, .val b] = .ok (.val (f a b)))
    (l r : ASig α) (h : l.length + r.length + 4 ≤ fuel) :
    match inter f vne l r with
    | .ok o => ∃ a b c, callAt Gen.Dense.fns fuel depth "intersection" [encSig l, encSig r, .fn M] =
        .ok (.list [encSigP (fun x : α => DV.val x) o, a, b, c])
    | .error e => callAt Gen.Dense.fns fuel depth "intersection" [encSig l, encSig r, .fn M] = .error e :=
  hI α (fun x => DV.val x) f vne M hM (fun _ => rfl)
    (fun x y => by simp [cmpDV, isTimeLike, isValLike, toVal, cmpVal]) l r h

/-- the binary point-wise visit methods: `m.body` is `interBody M`, possibly after `sample_return = []` -/
theorem interMethodG (fuel : Nat) (m : DMethod) (M : String) (f : α → α → α)
    (hk : m.kids = ["sample_left", "sample_right"]) (hiv : m.interval = false)
    (hb : m.body = interBody M ∨ m.body = .seq (.setLoc "sample_return" .emptyList) (interBody M))
    (hI : InterSpec α fuel (depth - 2))
    (hM : ∀ a b : α, callAt Gen.Dense.fns fuel (depth - 1) M [.val a, .val b] = .ok (.val (f a b)))
    (l r : ASig α) (h : l.length + r.length + 4 ≤ fuel) :
    callD fuel m [l, r] none [] = inter f vne l r := by
  have hc := interSpec_val fuel hI M f hM l r h
  rw [callD_eq, hk, hiv]
  simp only [List.length_cons, List.length_nil, Nat.lt_irrefl, if_false]
  show retSig (exec (callAt Gen.Dense.fns fuel depth) fuel m.body
    [("sample_left", encSig l), ("sample_right", encSig r)]) = _
  rcases hb with hb | hb
  · rw [hb]
    exact interBody_ret _ fuel M f _ l r (by simp) (by simp) rfl hc
  · rw [hb]
    have : exec (callAt Gen.Dense.fns fuel depth) fuel (.seq (.setLoc "sample_return" .emptyList) (interBody M))
        [("sample_left", encSig l), ("sample_right", encSig r)] =
        exec (callAt Gen.Dense.fns fuel depth) fuel (interBody M)
          (setLoc "sample_return" (.list []) [("sample_left", encSig l), ("sample_right", encSig r)]) := by
      rw [exec]; simp [exec, evalE]
    rw [this]
    exact interBody_ret _ fuel M f _ l r (by simp) (by simp)
      (by rw [resolve_setLoc_ne _ _ _ _ (by decide)]; rfl) hc

/-! the methods handed to `intersection`, at every call depth -/

theorem m_addition (fuel k : Nat) (a b : α) :
    callAt Gen.Dense.fns fuel (k + 1) "addition" [.val a, .val b] = .ok (.val (Val.add a b) : DV α) := by
  rw [callAt_fn _ _ _ _ Gen.Dense.fn_addition _ rfl]
  simp [runFn, Gen.Dense.fn_addition, exec, evalE, getLoc, resolve, List.lookup,
    evalBin, isCmp, arith, isTimeLike, isValLike, toVal, evalNeg]

theorem m_multiplication (fuel k : Nat) (a b : α) :
    callAt Gen.Dense.fns fuel (k + 1) "multiplication" [.val a, .val b] = .ok (.val (Val.mul a b) : DV α) := by
  rw [callAt_fn _ _ _ _ Gen.Dense.fn_multiplication _ rfl]
  simp [runFn, Gen.Dense.fn_multiplication, exec, evalE, getLoc, resolve, List.lookup,
    evalBin, isCmp, arith, isTimeLike, isValLike, toVal, evalNeg]

theorem m_division (fuel k : Nat) (a b : α) :
    callAt Gen.Dense.fns fuel (k + 1) "division" [.val a, .val b] = .ok (.val (Val.div a b) : DV α) := by
  rw [callAt_fn _ _ _ _ Gen.Dense.fn_division _ rfl]
  simp [runFn, Gen.Dense.fn_division, exec, evalE, getLoc, resolve, List.lookup,
    callAt_builtin Gen.Dense.fns fuel k "float" _ rfl, builtin, toVal,
    evalBin, isCmp, arith, isTimeLike, isValLike, toVal, evalNeg]

theorem m_power (fuel k : Nat) (a b : α) :
    callAt Gen.Dense.fns fuel (k + 1) "power" [.val a, .val b] = .ok (.val (Val.pow a b) : DV α) := by
  rw [callAt_fn _ _ _ _ Gen.Dense.fn_power _ rfl]
  simp [runFn, Gen.Dense.fn_power, exec, evalE, getLoc, resolve, List.lookup,
    callAt_builtin Gen.Dense.fns fuel k "math.pow" _ rfl, builtin, toVal,
    evalBin, isCmp, arith, isTimeLike, isValLike, toVal, evalNeg]

theorem m_log (fuel k : Nat) (a b : α) :
    callAt Gen.Dense.fns fuel (k + 1) "log" [.val a, .val b] = .ok (.val (Val.log a b) : DV α) := by
  rw [callAt_fn _ _ _ _ Gen.Dense.fn_log _ rfl]
  simp [runFn, Gen.Dense.fn_log, exec, evalE, getLoc, resolve, List.lookup,
    callAt_builtin Gen.Dense.fns fuel k "math.log" _ rfl, builtin, toVal,
    evalBin, isCmp, arith, isTimeLike, isValLike, toVal, evalNeg]

theorem m_disjunction (fuel k : Nat) (a b : α) :
    callAt Gen.Dense.fns fuel (k + 1) "disjunction" [.val a, .val b] = .ok (.val (pmax a b) : DV α) := by
  rw [callAt_fn _ _ _ _ Gen.Dense.fn_disjunction _ rfl]
  simp [runFn, Gen.Dense.fn_disjunction, exec, evalE, getLoc, resolve, List.lookup,
    callAt_builtin Gen.Dense.fns fuel k "max" _ rfl, builtin, toVal,
    evalBin, isCmp, arith, isTimeLike, isValLike, toVal, evalNeg]

theorem m_implication (fuel k : Nat) (a b : α) :
    callAt Gen.Dense.fns fuel (k + 1) "implication" [.val a, .val b] = .ok (.val (pmax (Val.neg a) b) : DV α) := by
  rw [callAt_fn _ _ _ _ Gen.Dense.fn_implication _ rfl]
  simp [runFn, Gen.Dense.fn_implication, exec, evalE, getLoc, resolve, List.lookup,
    callAt_builtin Gen.Dense.fns fuel k "max" _ rfl, builtin, toVal,
    evalBin, isCmp, arith, isTimeLike, isValLike, toVal, evalNeg]

theorem m_iff (fuel k : Nat) (a b : α) :
    callAt Gen.Dense.fns fuel (k + 1) "iff" [.val a, .val b] = .ok (.val (Val.neg (Val.abs (Val.sub a b))) : DV α) := by
  rw [callAt_fn _ _ _ _ Gen.Dense.fn_iff _ rfl]
  simp [runFn, Gen.Dense.fn_iff, exec, evalE, getLoc, resolve, List.lookup,
    callAt_builtin Gen.Dense.fns fuel k "abs" _ rfl, builtin, toVal,
    evalBin, isCmp, arith, isTimeLike, isValLike, toVal, evalNeg]

theorem m_xor (fuel k : Nat) (a b : α) :
    callAt Gen.Dense.fns fuel (k + 1) "xor" [.val a, .val b] = .ok (.val (Val.abs (Val.sub a b)) : DV α) := by
  rw [callAt_fn _ _ _ _ Gen.Dense.fn_xor _ rfl]
  simp [runFn, Gen.Dense.fn_xor, exec, evalE, getLoc, resolve, List.lookup,
    callAt_builtin Gen.Dense.fns fuel k "abs" _ rfl, builtin, toVal,
    evalBin, isCmp, arith, isTimeLike, isValLike, toVal, evalNeg]

theorem m_subtraction (fuel k : Nat) (a b : α) :
    callAt Gen.Dense.fns fuel (k + 1) "subtraction" [.val a, .val b] = .ok (.val (Val.sub a b) : DV α) := by
  rw [callAt_fn _ _ _ _ Gen.Dense.fn_subtraction _ rfl]
  simp [runFn, Gen.Dense.fn_subtraction, exec, evalE, getLoc, resolve, List.lookup,
    evalBin, isCmp, arith, isTimeLike, isValLike, toVal, evalNeg]

theorem m_conjunction (fuel k : Nat) (a b : α) :
    callAt Gen.Dense.fns fuel (k + 1) "conjunction" [.val a, .val b] = .ok (.val (pmin a b) : DV α) := by
  rw [callAt_fn _ _ _ _ Gen.Dense.fn_conjunction _ rfl]
  simp [runFn, Gen.Dense.fn_conjunction, exec, evalE, getLoc, resolve, List.lookup,
    callAt_builtin Gen.Dense.fns fuel k "min" _ rfl, builtin, toVal,
    evalBin, isCmp, arith, isTimeLike, isValLike, toVal, evalNeg]

/-! the binary point-wise visit methods; `binMethod op` is the function `evalAlg` hands to `inter` -/

theorem _root_.Rtamt.Py.Dn.gen_visitAddition (fuel : Nat) (hI : InterSpec α fuel (depth - 2)) (l r : ASig α)
    (h : l.length + r.length + 4 ≤ fuel) :
    callD fuel Gen.Dense.visitAddition [l, r] none [] = inter (binMethod .add) vne l r :=
  interMethodG fuel Gen.Dense.visitAddition "addition" (binMethod .add) rfl rfl (.inr rfl) hI
    (fun a b => m_addition fuel (depth - 2) a b) l r h

theorem _root_.Rtamt.Py.Dn.gen_visitMultiplication (fuel : Nat) (hI : InterSpec α fuel (depth - 2)) (l r : ASig α)
    (h : l.length + r.length + 4 ≤ fuel) :
    callD fuel Gen.Dense.visitMultiplication [l, r] none [] = inter (binMethod .mul) vne l r :=
  interMethodG fuel Gen.Dense.visitMultiplication "multiplication" (binMethod .mul) rfl rfl (.inl rfl) hI
    (fun a b => m_multiplication fuel (depth - 2) a b) l r h

theorem _root_.Rtamt.Py.Dn.gen_visitDivision (fuel : Nat) (hI : InterSpec α fuel (depth - 2)) (l r : ASig α)
    (h : l.length + r.length + 4 ≤ fuel) :
    callD fuel Gen.Dense.visitDivision [l, r] none [] = inter (binMethod .div) vne l r :=
  interMethodG fuel Gen.Dense.visitDivision "division" (binMethod .div) rfl rfl (.inl rfl) hI
    (fun a b => m_division fuel (depth - 2) a b) l r h

theorem _root_.Rtamt.Py.Dn.gen_visitPow (fuel : Nat) (hI : InterSpec α fuel (depth - 2)) (l r : ASig α)
    (h : l.length + r.length + 4 ≤ fuel) :
    callD fuel Gen.Dense.visitPow [l, r] none [] = inter (binMethod .pow) vne l r :=
  interMethodG fuel Gen.Dense.visitPow "power" (binMethod .pow) rfl rfl (.inl rfl) hI
    (fun a b => m_power fuel (depth - 2) a b) l r h

theorem _root_.Rtamt.Py.Dn.gen_visitLog (fuel : Nat) (hI : InterSpec α fuel (depth - 2)) (l r : ASig α)
    (h : l.length + r.length + 4 ≤ fuel) :
    callD fuel Gen.Dense.visitLog [l, r] none [] = inter (binMethod .log) vne l r :=
  interMethodG fuel Gen.Dense.visitLog "log" (binMethod .log) rfl rfl (.inl rfl) hI
    (fun a b => m_log fuel (depth - 2) a b) l r h

theorem _root_.Rtamt.Py.Dn.gen_visitOr (fuel : Nat) (hI : InterSpec α fuel (depth - 2)) (l r : ASig α)
    (h : l.length + r.length + 4 ≤ fuel) :
    callD fuel Gen.Dense.visitOr [l, r] none [] = inter (binMethod .or) vne l r :=
  interMethodG fuel Gen.Dense.visitOr "disjunction" (binMethod .or) rfl rfl (.inl rfl) hI
    (fun a b => m_disjunction fuel (depth - 2) a b) l r h

theorem _root_.Rtamt.Py.Dn.gen_visitImplies (fuel : Nat) (hI : InterSpec α fuel (depth - 2)) (l r : ASig α)
    (h : l.length + r.length + 4 ≤ fuel) :
    callD fuel Gen.Dense.visitImplies [l, r] none [] = inter (binMethod .implies) vne l r :=
  interMethodG fuel Gen.Dense.visitImplies "implication" (binMethod .implies) rfl rfl (.inl rfl) hI
    (fun a b => m_implication fuel (depth - 2) a b) l r h

theorem _root_.Rtamt.Py.Dn.gen_visitIff (fuel : Nat) (hI : InterSpec α fuel (depth - 2)) (l r : ASig α)
    (h : l.length + r.length + 4 ≤ fuel) :
    callD fuel Gen.Dense.visitIff [l, r] none [] = inter (binMethod .iff) vne l r :=
  interMethodG fuel Gen.Dense.visitIff "iff" (binMethod .iff) rfl rfl (.inl rfl) hI
    (fun a b => m_iff fuel (depth - 2) a b) l r h

theorem _root_.Rtamt.Py.Dn.gen_visitXor (fuel : Nat) (hI : InterSpec α fuel (depth - 2)) (l r : ASig α)
    (h : l.length + r.length + 4 ≤ fuel) :
    callD fuel Gen.Dense.visitXor [l, r] none [] = inter (binMethod .xor) vne l r :=
  interMethodG fuel Gen.Dense.visitXor "xor" (binMethod .xor) rfl rfl (.inl rfl) hI
    (fun a b => m_xor fuel (depth - 2) a b) l r h

/-! the visit methods that forward to a module-level function: given what the callee returns on these arguments
    (`R.map encSig`: its value or its exception), the method returns `R` -/

/-- `sample_return = w(sample_left, sample_right); return sample_return` -/
def wrapBody2 (w : String) : S := (.seq (.setLoc "sample_return" (.call2 w (.loc "sample_left") (.loc "sample_right"))) (.ret (.loc "sample_return")))

/-- `sample_return = w(sample, begin, end); return sample_return` -/
def wrapBody3 (w : String) : S := (.seq (.setLoc "sample_return" (.call3 w (.loc "sample") (.loc "begin") (.loc "end"))) (.ret (.loc "sample_return")))

/-- `sample_return = w(sample_left, sample_right, begin, end); return sample_return` -/
def wrapBody4 (w : String) : S := (.seq (.setLoc "sample_return" (.call4 w (.loc "sample_left") (.loc "sample_right") (.loc "begin") (.loc "end"))) (.ret (.loc "sample_return")))

theorem wrap_ret (call : Call α) (fuel : Nat) (e : E) (env : Env α) (R : Except PyErr (ASig α))
    (he : evalE call env e = R.map encSig) :
    retSig (exec call fuel (.seq (.setLoc "sample_return" e) (.ret (.loc "sample_return"))) env) = R := by
  cases R with
  | error x => simp [retSig, exec, evalE, he]
  | ok o => simp [retSig, exec, evalE, he]

theorem resolve2 (w : String) (x y : DV α) (hw1 : w ≠ "sample_left") (hw2 : w ≠ "sample_right") (rest : Env α)
    (hrest : resolve rest w = w) :
    resolve (("sample_left", x) :: ("sample_right", y) :: rest) w = w := by
  have h1 : (w == "sample_left") = false := by rw [beq_eq_false_iff_ne]; exact hw1
  have h2 : (w == "sample_right") = false := by rw [beq_eq_false_iff_ne]; exact hw2
  unfold resolve at hrest ⊢
  simp only [List.lookup, h1, h2]
  exact hrest

theorem wrapMethod2 (fuel : Nat) (m : DMethod) (w : String) (hk : m.kids = ["sample_left", "sample_right"])
    (hiv : m.interval = false) (hb : m.body = wrapBody2 w) (hw1 : w ≠ "sample_left") (hw2 : w ≠ "sample_right")
    (l r : ASig α) (R : Except PyErr (ASig α))
    (hc : callAt Gen.Dense.fns fuel depth w [encSig l, encSig r] = R.map encSig) :
    callD fuel m [l, r] none [] = R := by
  rw [callD_eq, hk, hiv, hb]
  simp only [List.length_cons, List.length_nil, Nat.lt_irrefl, if_false]
  show retSig (exec (callAt Gen.Dense.fns fuel depth) fuel (wrapBody2 w)
    [("sample_left", encSig l), ("sample_right", encSig r)]) = _
  have hres := resolve2 w (encSig l) (encSig r) hw1 hw2 [] rfl
  exact wrap_ret _ fuel _ _ R (by simp [evalE, hres, hc])

theorem wrapMethod3 (fuel : Nat) (m : DMethod) (w : String) (hk : m.kids = ["sample"])
    (hiv : m.interval = true) (hb : m.body = wrapBody3 w) (hw1 : w ≠ "sample") (hw2 : w ≠ "begin") (hw3 : w ≠ "end")
    (s : ASig α) (a b : Rat) (R : Except PyErr (ASig α))
    (hc : callAt Gen.Dense.fns fuel depth w [encSig s, .tm (.fin a), .tm (.fin b)] = R.map encSig) :
    callD fuel m [s] (some (a, b)) [] = R := by
  rw [callD_eq, hk, hiv, hb]
  simp only [List.length_cons, List.length_nil, Nat.lt_irrefl, if_false]
  show retSig (exec (callAt Gen.Dense.fns fuel depth) fuel (wrapBody3 w)
    [("sample", encSig s), ("begin", .tm (.fin a)), ("end", .tm (.fin b))]) = _
  have hres : resolve ([("sample", encSig s), ("begin", .tm (.fin a)), ("end", .tm (.fin b))] : Env α) w = w := by
    have h1 : (w == "sample") = false := by rw [beq_eq_false_iff_ne]; exact hw1
    have h2 : (w == "begin") = false := by rw [beq_eq_false_iff_ne]; exact hw2
    have h3 : (w == "end") = false := by rw [beq_eq_false_iff_ne]; exact hw3
    simp [resolve, List.lookup, h1, h2, h3]
  exact wrap_ret _ fuel _ _ R (by simp [evalE, hres, hc])

theorem wrapMethod4 (fuel : Nat) (m : DMethod) (w : String) (hk : m.kids = ["sample_left", "sample_right"])
    (hiv : m.interval = true) (hb : m.body = wrapBody4 w) (hw1 : w ≠ "sample_left") (hw2 : w ≠ "sample_right")
    (hw3 : w ≠ "begin") (hw4 : w ≠ "end")
    (l r : ASig α) (a b : Rat) (R : Except PyErr (ASig α))
    (hc : callAt Gen.Dense.fns fuel depth w [encSig l, encSig r, .tm (.fin a), .tm (.fin b)] = R.map encSig) :
    callD fuel m [l, r] (some (a, b)) [] = R := by
  rw [callD_eq, hk, hiv, hb]
  simp only [List.length_cons, List.length_nil, Nat.lt_irrefl, if_false]
  show retSig (exec (callAt Gen.Dense.fns fuel depth) fuel (wrapBody4 w)
    [("sample_left", encSig l), ("sample_right", encSig r), ("begin", .tm (.fin a)), ("end", .tm (.fin b))]) = _
  have hres := resolve2 w (encSig l) (encSig r) hw1 hw2 [("begin", .tm (.fin a)), ("end", .tm (.fin b))] (by
    have h3 : (w == "begin") = false := by rw [beq_eq_false_iff_ne]; exact hw3
    have h4 : (w == "end") = false := by rw [beq_eq_false_iff_ne]; exact hw4
    simp [resolve, List.lookup, h3, h4])
  exact wrap_ret _ fuel _ _ R (by simp [evalE, hres, hc])

/-! per method: `gen_visitX_of` takes what the callee returns on these very arguments, `gen_visitX` takes the callee's
    contract under a side condition `P` (the fuel bound) -/

theorem _root_.Rtamt.Py.Dn.gen_visitAnd_of (fuel : Nat) (l r : ASig α)
    (hc : callAt Gen.Dense.fns fuel depth "and_operation" [encSig l, encSig r] = (andOp l r).map encSig) :
    callD fuel Gen.Dense.visitAnd [l, r] none [] = inter (binMethod .and) vne l r :=
  wrapMethod2 fuel Gen.Dense.visitAnd "and_operation" rfl rfl rfl (by decide) (by decide) l r _ hc

theorem _root_.Rtamt.Py.Dn.gen_visitAnd (fuel : Nat) (P : ASig α → ASig α → Prop)
    (hc : ∀ l r : ASig α, P l r →
      callAt Gen.Dense.fns fuel depth "and_operation" [encSig l, encSig r] = (andOp l r).map encSig)
    (l r : ASig α) (hP : P l r) :
    callD fuel Gen.Dense.visitAnd [l, r] none [] = inter (binMethod .and) vne l r :=
  gen_visitAnd_of fuel l r (hc l r hP)

theorem _root_.Rtamt.Py.Dn.gen_visitSubtraction_of (fuel : Nat) (l r : ASig α)
    (hc : callAt Gen.Dense.fns fuel depth "subtraction_operation" [encSig l, encSig r] = (inter (fun a b => Val.sub a b) vne l r).map encSig) :
    callD fuel Gen.Dense.visitSubtraction [l, r] none [] = inter (binMethod .sub) vne l r :=
  wrapMethod2 fuel Gen.Dense.visitSubtraction "subtraction_operation" rfl rfl rfl (by decide) (by decide) l r _ hc

theorem _root_.Rtamt.Py.Dn.gen_visitSubtraction (fuel : Nat) (P : ASig α → ASig α → Prop)
    (hc : ∀ l r : ASig α, P l r →
      callAt Gen.Dense.fns fuel depth "subtraction_operation" [encSig l, encSig r] = (inter (fun a b => Val.sub a b) vne l r).map encSig)
    (l r : ASig α) (hP : P l r) :
    callD fuel Gen.Dense.visitSubtraction [l, r] none [] = inter (binMethod .sub) vne l r :=
  gen_visitSubtraction_of fuel l r (hc l r hP)

theorem _root_.Rtamt.Py.Dn.gen_visitSince_of (fuel : Nat) (l r : ASig α)
    (hc : callAt Gen.Dense.fns fuel depth "since_operation" [encSig l, encSig r] = (sinceOp l r).map encSig) :
    callD fuel Gen.Dense.visitSince [l, r] none [] = sinceOp l r :=
  wrapMethod2 fuel Gen.Dense.visitSince "since_operation" rfl rfl rfl (by decide) (by decide) l r _ hc

theorem _root_.Rtamt.Py.Dn.gen_visitSince (fuel : Nat) (P : ASig α → ASig α → Prop)
    (hc : ∀ l r : ASig α, P l r →
      callAt Gen.Dense.fns fuel depth "since_operation" [encSig l, encSig r] = (sinceOp l r).map encSig)
    (l r : ASig α) (hP : P l r) :
    callD fuel Gen.Dense.visitSince [l, r] none [] = sinceOp l r :=
  gen_visitSince_of fuel l r (hc l r hP)

theorem _root_.Rtamt.Py.Dn.gen_visitUntil_of (fuel : Nat) (l r : ASig α)
    (hc : callAt Gen.Dense.fns fuel depth "until_operation" [encSig l, encSig r] = (untilOp l r).map encSig) :
    callD fuel Gen.Dense.visitUntil [l, r] none [] = untilOp l r :=
  wrapMethod2 fuel Gen.Dense.visitUntil "until_operation" rfl rfl rfl (by decide) (by decide) l r _ hc

theorem _root_.Rtamt.Py.Dn.gen_visitUntil (fuel : Nat) (P : ASig α → ASig α → Prop)
    (hc : ∀ l r : ASig α, P l r →
      callAt Gen.Dense.fns fuel depth "until_operation" [encSig l, encSig r] = (untilOp l r).map encSig)
    (l r : ASig α) (hP : P l r) :
    callD fuel Gen.Dense.visitUntil [l, r] none [] = untilOp l r :=
  gen_visitUntil_of fuel l r (hc l r hP)

theorem _root_.Rtamt.Py.Dn.gen_visitTimedOnce_of (fuel : Nat) (s : ASig α) (a b : Rat)
    (hc : callAt Gen.Dense.fns fuel depth "once_timed_operation" [encSig s, .tm (.fin a), .tm (.fin b)] = (onceTimed s a b).map encSig) :
    callD fuel Gen.Dense.visitTimedOnce [s] (some (a, b)) [] = onceTimed s a b :=
  wrapMethod3 fuel Gen.Dense.visitTimedOnce "once_timed_operation" rfl rfl rfl (by decide) (by decide) (by decide) s a b _ hc

theorem _root_.Rtamt.Py.Dn.gen_visitTimedOnce (fuel : Nat) (P : ASig α → Prop)
    (hc : ∀ (s : ASig α) (a b : Rat), P s →
      callAt Gen.Dense.fns fuel depth "once_timed_operation" [encSig s, .tm (.fin a), .tm (.fin b)] = (onceTimed s a b).map encSig)
    (s : ASig α) (a b : Rat) (hP : P s) :
    callD fuel Gen.Dense.visitTimedOnce [s] (some (a, b)) [] = onceTimed s a b :=
  gen_visitTimedOnce_of fuel s a b (hc s a b hP)

theorem _root_.Rtamt.Py.Dn.gen_visitTimedHistorically_of (fuel : Nat) (s : ASig α) (a b : Rat)
    (hc : callAt Gen.Dense.fns fuel depth "historically_timed_operation" [encSig s, .tm (.fin a), .tm (.fin b)] = (histTimed s a b).map encSig) :
    callD fuel Gen.Dense.visitTimedHistorically [s] (some (a, b)) [] = histTimed s a b :=
  wrapMethod3 fuel Gen.Dense.visitTimedHistorically "historically_timed_operation" rfl rfl rfl (by decide) (by decide) (by decide) s a b _ hc

theorem _root_.Rtamt.Py.Dn.gen_visitTimedHistorically (fuel : Nat) (P : ASig α → Prop)
    (hc : ∀ (s : ASig α) (a b : Rat), P s →
      callAt Gen.Dense.fns fuel depth "historically_timed_operation" [encSig s, .tm (.fin a), .tm (.fin b)] = (histTimed s a b).map encSig)
    (s : ASig α) (a b : Rat) (hP : P s) :
    callD fuel Gen.Dense.visitTimedHistorically [s] (some (a, b)) [] = histTimed s a b :=
  gen_visitTimedHistorically_of fuel s a b (hc s a b hP)

theorem _root_.Rtamt.Py.Dn.gen_visitTimedEventually_of (fuel : Nat) (s : ASig α) (a b : Rat)
    (hc : callAt Gen.Dense.fns fuel depth "eventually_timed_operation" [encSig s, .tm (.fin a), .tm (.fin b)] = (evTimed s a b).map encSig) :
    callD fuel Gen.Dense.visitTimedEventually [s] (some (a, b)) [] = evTimed s a b :=
  wrapMethod3 fuel Gen.Dense.visitTimedEventually "eventually_timed_operation" rfl rfl rfl (by decide) (by decide) (by decide) s a b _ hc

theorem _root_.Rtamt.Py.Dn.gen_visitTimedEventually (fuel : Nat) (P : ASig α → Prop)
    (hc : ∀ (s : ASig α) (a b : Rat), P s →
      callAt Gen.Dense.fns fuel depth "eventually_timed_operation" [encSig s, .tm (.fin a), .tm (.fin b)] = (evTimed s a b).map encSig)
    (s : ASig α) (a b : Rat) (hP : P s) :
    callD fuel Gen.Dense.visitTimedEventually [s] (some (a, b)) [] = evTimed s a b :=
  gen_visitTimedEventually_of fuel s a b (hc s a b hP)

theorem _root_.Rtamt.Py.Dn.gen_visitTimedAlways_of (fuel : Nat) (s : ASig α) (a b : Rat)
    (hc : callAt Gen.Dense.fns fuel depth "always_timed_operation" [encSig s, .tm (.fin a), .tm (.fin b)] = (alwTimed s a b).map encSig) :
    callD fuel Gen.Dense.visitTimedAlways [s] (some (a, b)) [] = alwTimed s a b :=
  wrapMethod3 fuel Gen.Dense.visitTimedAlways "always_timed_operation" rfl rfl rfl (by decide) (by decide) (by decide) s a b _ hc

theorem _root_.Rtamt.Py.Dn.gen_visitTimedAlways (fuel : Nat) (P : ASig α → Prop)
    (hc : ∀ (s : ASig α) (a b : Rat), P s →
      callAt Gen.Dense.fns fuel depth "always_timed_operation" [encSig s, .tm (.fin a), .tm (.fin b)] = (alwTimed s a b).map encSig)
    (s : ASig α) (a b : Rat) (hP : P s) :
    callD fuel Gen.Dense.visitTimedAlways [s] (some (a, b)) [] = alwTimed s a b :=
  gen_visitTimedAlways_of fuel s a b (hc s a b hP)

theorem _root_.Rtamt.Py.Dn.gen_visitTimedSince_of (fuel : Nat) (l r : ASig α) (a b : Rat)
    (hc : callAt Gen.Dense.fns fuel depth "since_timed_operation" [encSig l, encSig r, .tm (.fin a), .tm (.fin b)] =
      (sinceTimed l r a b).map encSig) :
    callD fuel Gen.Dense.visitTimedSince [l, r] (some (a, b)) [] = sinceTimed l r a b :=
  wrapMethod4 fuel Gen.Dense.visitTimedSince "since_timed_operation" rfl rfl rfl (by decide) (by decide) (by decide) (by decide) l r a b _ hc

theorem _root_.Rtamt.Py.Dn.gen_visitTimedSince (fuel : Nat) (P : ASig α → ASig α → Prop)
    (hc : ∀ (l r : ASig α) (a b : Rat), P l r →
      callAt Gen.Dense.fns fuel depth "since_timed_operation" [encSig l, encSig r, .tm (.fin a), .tm (.fin b)] =
        (sinceTimed l r a b).map encSig)
    (l r : ASig α) (a b : Rat) (hP : P l r) :
    callD fuel Gen.Dense.visitTimedSince [l, r] (some (a, b)) [] = sinceTimed l r a b :=
  gen_visitTimedSince_of fuel l r a b (hc l r a b hP)

theorem _root_.Rtamt.Py.Dn.gen_visitTimedUntil_of (fuel : Nat) (l r : ASig α) (a b : Rat)
    (hc : callAt Gen.Dense.fns fuel depth "until_timed_operation" [encSig l, encSig r, .tm (.fin a), .tm (.fin b)] =
      (untilTimed l r a b).map encSig) :
    callD fuel Gen.Dense.visitTimedUntil [l, r] (some (a, b)) [] = untilTimed l r a b :=
  wrapMethod4 fuel Gen.Dense.visitTimedUntil "until_timed_operation" rfl rfl rfl (by decide) (by decide) (by decide) (by decide) l r a b _ hc

theorem _root_.Rtamt.Py.Dn.gen_visitTimedUntil (fuel : Nat) (P : ASig α → ASig α → Prop)
    (hc : ∀ (l r : ASig α) (a b : Rat), P l r →
      callAt Gen.Dense.fns fuel depth "until_timed_operation" [encSig l, encSig r, .tm (.fin a), .tm (.fin b)] =
        (untilTimed l r a b).map encSig)
    (l r : ASig α) (a b : Rat) (hP : P l r) :
    callD fuel Gen.Dense.visitTimedUntil [l, r] (some (a, b)) [] = untilTimed l r a b :=
  gen_visitTimedUntil_of fuel l r a b (hc l r a b hP)

/-! bonus: `subtraction_operation` has the body `interBody "subtraction"`, so its contract - the hypothesis of
    `gen_visitPredicate` and `gen_visitSubtraction` - follows from the contract of `intersection` one layer down -/

theorem interBody_exec (call : Call α) (fuel : Nat) (M : String) (f : α → α → α) (env : Env α) (l r : ASig α)
    (hl : getLoc "sample_left" env = .ok (encSig l)) (hr : getLoc "sample_right" env = .ok (encSig r))
    (hres : resolve env "intersection" = "intersection")
    (hcall : match inter f vne l r with
      | .ok o => ∃ a b c, call "intersection" [encSig l, encSig r, .fn M] = .ok (.list [encSigP (fun x : α => DV.val x) o, a, b, c])
      | .error e => call "intersection" [encSig l, encSig r, .fn M] = .error e) :
    (do let (x : Res α) ← exec call fuel (interBody M) env; pure (x.2.getD .none)) = (inter f vne l r).map encSig := by
  cases hI : inter f vne l r with
  | error e =>
      rw [hI] at hcall
      simp [interBody, exec, evalE, hl, hr, hres, hcall]
  | ok o =>
      rw [hI] at hcall
      obtain ⟨a, b, c, hc⟩ := hcall
      simp [interBody, exec, evalE, hl, hr, hres, hc, encSigP_val]

theorem subtraction_operation_spec (fuel k : Nat) (hI : InterSpec α fuel k) (l r : ASig α)
    (h : l.length + r.length + 4 ≤ fuel) :
    callAt Gen.Dense.fns fuel (k + 3) "subtraction_operation" [encSig l, encSig r] =
      (inter (fun a b => Val.sub a b) vne l r).map encSig := by
  rw [callAt_fn _ _ _ _ Gen.Dense.fn_subtraction_operation _ rfl]
  have hc := hI α (fun x => DV.val x) (fun a b => Val.sub a b) vne "subtraction" (fun a b => m_subtraction fuel k a b)
    (fun _ => rfl) (fun x y => by simp [cmpDV, isTimeLike, isValLike, toVal, cmpVal]) l r h
  have := interBody_exec (callAt Gen.Dense.fns fuel (k + 2)) fuel "subtraction" (fun a b => Val.sub a b)
    [("sample_left", encSig l), ("sample_right", encSig r)] l r (by simp) (by simp) rfl hc
  rw [← this]
  rfl

/-- `visitPredicate` from the contract of `intersection` alone (`depth - 3 = 3`) -/
theorem _root_.Rtamt.Py.Dn.gen_visitPredicate_inter (fuel : Nat) (hI : InterSpec α fuel (depth - 3)) (c : Cmp)
    (l r : ASig α) (h : l.length + r.length + 4 ≤ fuel) :
    callD fuel Gen.Dense.visitPredicate [l, r] none [("$operator", .cmp c)] = predicate c l r :=
  gen_visitPredicate fuel (fun l r h => subtraction_operation_spec fuel (depth - 3) hI l r h) c l r h

theorem _root_.Rtamt.Py.Dn.gen_visitSubtraction_inter (fuel : Nat) (hI : InterSpec α fuel (depth - 3))
    (l r : ASig α) (h : l.length + r.length + 4 ≤ fuel) :
    callD fuel Gen.Dense.visitSubtraction [l, r] none [] = inter (binMethod .sub) vne l r :=
  gen_visitSubtraction_of fuel l r (subtraction_operation_spec fuel (depth - 3) hI l r h)

end GenUn

end Rtamt.Py.Dn
