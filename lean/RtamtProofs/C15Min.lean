/-
  C15 (minimal parentheses) — binary operators group according to the precedence order of the
  grammar: a rendering that leaves out every redundant pair of parentheses parses back to the
  same tree.

  `renderPrec p F e` renders `e` for a context in which
    * the expression is read by `parseExpr _ p'` with `p' ≤ p` (binary operators of level `< p`
      at the top of `e` need parentheses), and
    * the token that follows is a closing token or a binary operator of level `< F`
      (`F = 0`: nothing binary follows).
  The second parameter is needed because of the prefix operators of the model: `parsePrimary`
  reads the operand of `not`, `always[a,b]`, ... with `parseExpr _ 18` (unary minus: 21), whatever
  the level of the enclosing call, so a prefix operator at the right end of an operand swallows
  a following operator of level `≥ 18` (`a * not b < c` is `a * (not (b < c))`).  A prefix form is
  therefore put in parentheses exactly when the following binary operator has level ≥ the
  operand level of the prefix operator.
-/
import RtamtProofs.C15

namespace Rtamt.Front
open Rtamt

/-- The level at which `parsePrimary` reads the operand of a prefix operator. -/
@[reducible] def preLevel (op : PreOp) : Nat := if op = .negate then 21 else 18

/-- Rendering of `e` for minimal level `p` and follow bound `F` (see the header). -/
def renderPrec : Nat → Nat → PE → List Tok
  | _, _, .id s => [.ident s]
  | _, _, .lit s => [.intLit s]
  | _, F, .pre op iv e =>
      if F ≤ preLevel op then tokOfPre op :: ivToks iv ++ renderPrec (preLevel op) F e
      else .lparen :: tokOfPre op :: ivToks iv ++ renderPrec (preLevel op) 0 e ++ [.rparen]
  | _, _, .fn1 f e => tokOfFn1 f :: .lparen :: renderPrec 0 0 e ++ [.rparen]
  | _, _, .fn2 .pow a b => .pow :: .lparen :: renderPrec 0 0 a ++ .comma :: renderPrec 0 0 b ++ [.rparen]
  | _, _, .fn2 .log a b => .log :: .lparen :: renderPrec 0 0 a ++ .comma :: renderPrec 0 0 b ++ [.rparen]
  | p, F, .bin op iv l r =>
      if p ≤ binLevel op then
        renderPrec (binLevel op) (binLevel op + 1) l ++ tokOfBin op :: ivToks iv ++
          renderPrec (binLevel op + 1) F r
      else
        .lparen :: renderPrec (binLevel op) (binLevel op + 1) l ++ tokOfBin op :: ivToks iv ++
          renderPrec (binLevel op + 1) 0 r ++ [.rparen]

/-- Minimally parenthesised rendering of a whole expression. -/
def renderMin (e : PE) : List Tok := renderPrec 0 0 e

/-- The token after an expression is not a binary operator of level `≥ F`. -/
def Follow (F : Nat) (rest : List Tok) : Prop :=
  ∀ t r op, rest = t :: r → binOfTok t = some op → binLevel op < F

theorem closing_follow (F : Nat) (rest : List Tok) (h : Closing rest) : Follow F rest := by
  intro t r op hr hb
  rcases h with rfl | ⟨t', r', rfl, rfl | rfl | rfl⟩
  · cases hr
  all_goals (injection hr with h1 _; subst h1; simp [binOfTok] at hb)

theorem binOfTok_tokOfBin (op : BinOp) : binOfTok (tokOfBin op) = some op := by
  rcases op with _ | _ | _ | _ | c | _ | _ | _ | _ | _ | _ | _ | _ <;> first | rfl | (cases c <;> rfl)

theorem follow_bin (op : BinOp) (r : List Tok) : Follow (binLevel op + 1) (tokOfBin op :: r) := by
  intro t r' op' hr hb
  injection hr with h1 _
  subst h1
  rw [binOfTok_tokOfBin] at hb
  injection hb with hb
  subst hb
  omega

/-- The loop at level `q` stops in front of an operator of level `< F ≤ q`. -/
theorem parseLoop_follow_stop (f q F : Nat) (lhs : PE) (rest : List Tok) (h : Follow F rest)
    (hq : F ≤ q) : parseLoop f q lhs rest = .ok (lhs, rest) := by
  cases f with
  | zero => simp [parseLoop]
  | succ f =>
    cases rest with
    | nil => simp [parseLoop]
    | cons t r =>
      cases hb : binOfTok t with
      | none => simp [parseLoop, hb]
      | some op =>
        have := h t r op rfl hb
        have hlt : ¬ (binLevel op ≥ q) := by omega
        simp [parseLoop, hb, hlt]

/-- A rendering is not empty and does not start with `[`. -/
theorem render_starts (e : PE) : ∀ (p F : Nat), ∃ t r, renderPrec p F e = t :: r ∧ t ≠ .lbrack := by
  induction e with
  | id s => intro p F; exact ⟨_, _, rfl, by simp⟩
  | lit s => intro p F; exact ⟨_, _, rfl, by simp⟩
  | pre op iv e _ =>
    intro p F
    by_cases h : F ≤ preLevel op
    · refine ⟨tokOfPre op, _, by simp only [renderPrec, if_pos h]; rfl, by cases op <;> simp [tokOfPre]⟩
    · exact ⟨.lparen, _, by simp only [renderPrec, if_neg h]; rfl, by simp⟩
  | fn1 f e _ =>
    intro p F
    exact ⟨tokOfFn1 f, _, by simp only [renderPrec]; rfl, by cases f <;> simp [tokOfFn1]⟩
  | fn2 f a b _ _ =>
    intro p F
    cases f with
    | pow => exact ⟨.pow, _, by simp only [renderPrec]; rfl, by simp⟩
    | log => exact ⟨.log, _, by simp only [renderPrec]; rfl, by simp⟩
  | bin op iv l r ihl _ =>
    intro p F
    by_cases h : p ≤ binLevel op
    · obtain ⟨t, r', hl, ht⟩ := ihl (binLevel op) (binLevel op + 1)
      exact ⟨t, _, by simp only [renderPrec, if_pos h, hl]; rfl, ht⟩
    · exact ⟨.lparen, _, by simp only [renderPrec, if_neg h]; rfl, by simp⟩

/-- `optInterval` in front of any token other than `[`. -/
theorem optInterval_ivToks' (allowed : Bool) (iv : Option PIv) (t : Tok) (r : List Tok)
    (ht : t ≠ .lbrack) (h : (iv.isNone || allowed) = true) :
    optInterval allowed (ivToks iv ++ t :: r) = .ok (iv, t :: r) := by
  cases iv with
  | none => cases t <;> first | exact absurd rfl ht | simp [ivToks, optInterval]
  | some i =>
    have ha : allowed = true := by simpa using h
    subst ha
    have := parseInterval_ok (timeToks i.b) (timeToks i.e) (t :: r) i.b i.e .comma (Or.inr rfl)
      (parseIvTime_timeToks _ _ _ rfl) (parseIvTime_timeToks _ _ _ rfl)
    simp only [ivToks, List.cons_append, List.append_assoc, List.nil_append, optInterval]
    simp [this, Except.map]

theorem optInterval_render (allowed : Bool) (iv : Option PIv) (p F : Nat) (e : PE) (rest : List Tok)
    (h : (iv.isNone || allowed) = true) :
    optInterval allowed (ivToks iv ++ (renderPrec p F e ++ rest)) = .ok (iv, renderPrec p F e ++ rest) := by
  obtain ⟨t, r, hr, ht⟩ := render_starts e p F
  rw [hr]
  exact optInterval_ivToks' allowed iv t (r ++ rest) ht h

/-- Wrapping in parentheses, then continuing the loop of the caller. -/
theorem parseExpr_wrap (f p' : Nat) (ts rest : List Tok) (e : PE) (res : PE × List Tok)
    (h : parseExpr f 0 (ts ++ .rparen :: rest) = .ok (e, .rparen :: rest))
    (h2 : parseLoop (f + 1) p' e rest = .ok res) :
    parseExpr (f + 2) p' (.lparen :: (ts ++ .rparen :: rest)) = .ok res :=
  parseExpr_of (f + 1) p' _ rest e _ (C15_parens f _ rest e h) h2

/-- Main lemma: reading `renderPrec p F e ++ rest` at any level `p' ≤ p` amounts to running the
    loop of level `p'` on `e` and `rest`, when the first token of `rest` satisfies `Follow F`. -/
theorem prec_aux (e : PE) : ∀ (p F p' N : Nat) (rest : List Tok) (res : PE × List Tok),
    e.ivOk = true → F ≤ p + 1 → p' ≤ p → Follow F rest →
    (∀ f, N ≤ f → parseLoop f p' e rest = .ok res) →
    ∀ fuel, N + 4 * e.size ≤ fuel → parseExpr fuel p' (renderPrec p F e ++ rest) = .ok res := by
  induction e with
  | id s =>
    intro p F p' N rest res _ _ _ _ hcont fuel hf
    obtain ⟨f, rfl⟩ : ∃ f, fuel = f + 2 := ⟨fuel - 2, by simp [PE.size] at hf; omega⟩
    exact parseExpr_of (f + 1) p' _ rest (.id s) _ (by simp [renderPrec, parsePrimary])
      (hcont _ (by simp [PE.size] at hf; omega))
  | lit s =>
    intro p F p' N rest res _ _ _ _ hcont fuel hf
    obtain ⟨f, rfl⟩ : ∃ f, fuel = f + 2 := ⟨fuel - 2, by simp [PE.size] at hf; omega⟩
    exact parseExpr_of (f + 1) p' _ rest (.lit s) _ (by simp [renderPrec, parsePrimary])
      (hcont _ (by simp [PE.size] at hf; omega))
  | pre op iv e ih =>
    intro p F p' N rest res hiv _ _ hfol hcont fuel hf
    simp only [PE.ivOk, Bool.and_eq_true] at hiv
    simp only [PE.size] at hf
    -- the prefix form without parentheses, as a primary
    have core : ∀ (F : Nat) (rest : List Tok), F ≤ preLevel op → Follow F rest →
        ∀ f, 4 * e.size ≤ f →
        parsePrimary (f + 1) (tokOfPre op :: (ivToks iv ++ (renderPrec (preLevel op) F e ++ rest)))
          = .ok (.pre op iv e, rest) := by
      intro F rest hF hfol f hf
      have h1 := optInterval_render (takesInterval op) iv (preLevel op) F e rest hiv.1
      have h2 := ih (preLevel op) F (preLevel op) 0 rest (e, rest) hiv.2 (by omega) (Nat.le_refl _) hfol
        (fun f _ => parseLoop_follow_stop f _ F e rest hfol hF) f (by omega)
      exact parsePrimary_pre f op iv _ _ _ e h1 h2
    by_cases hF : F ≤ preLevel op
    · obtain ⟨f, rfl⟩ : ∃ f, fuel = f + 2 := ⟨fuel - 2, by omega⟩
      have hp := core F rest hF hfol f (by omega)
      have := parseExpr_of (f + 1) p' _ rest _ _ hp (hcont _ (by omega))
      simpa only [renderPrec, if_pos hF, List.append_assoc, List.cons_append] using this
    · obtain ⟨f, rfl⟩ : ∃ f, fuel = f + 4 := ⟨fuel - 4, by omega⟩
      have hp := core 0 (.rparen :: rest) (Nat.zero_le _) (closing_follow _ _ (closing_rparen _)) f (by omega)
      have hin := parseExpr_of (f + 1) 0 _ _ _ _ hp (parseLoop_stop _ _ _ _ (closing_rparen rest))
      have := parseExpr_wrap (f + 2) p' (tokOfPre op :: (ivToks iv ++ renderPrec (preLevel op) 0 e)) rest _ res
        (by simpa only [List.append_assoc, List.cons_append] using hin) (hcont _ (by omega))
      simpa only [renderPrec, if_neg hF, List.append_assoc, List.cons_append, List.nil_append] using this
  | fn1 fn e ih =>
    intro p F p' N rest res hiv _ _ _ hcont fuel hf
    simp only [PE.ivOk] at hiv
    simp only [PE.size] at hf
    obtain ⟨f, rfl⟩ : ∃ f, fuel = f + 2 := ⟨fuel - 2, by omega⟩
    have he := ih 0 0 0 0 (.rparen :: rest) (e, .rparen :: rest) hiv (by omega) (Nat.le_refl _)
      (closing_follow _ _ (closing_rparen _)) (fun f _ => parseLoop_stop f _ _ _ (closing_rparen rest))
      f (by omega)
    have hp := parsePrimary_fn1 f fn _ rest e he
    have := parseExpr_of (f + 1) p' _ rest _ _ hp (hcont _ (by omega))
    simpa only [renderPrec, List.append_assoc, List.cons_append, List.nil_append] using this
  | fn2 fn a b iha ihb =>
    intro p F p' N rest res hiv _ _ _ hcont fuel hf
    simp only [PE.ivOk, Bool.and_eq_true] at hiv
    simp only [PE.size] at hf
    obtain ⟨f, rfl⟩ : ∃ f, fuel = f + 2 := ⟨fuel - 2, by omega⟩
    have hb := ihb 0 0 0 0 (.rparen :: rest) (b, .rparen :: rest) hiv.2 (by omega) (Nat.le_refl _)
      (closing_follow _ _ (closing_rparen _)) (fun f _ => parseLoop_stop f _ _ _ (closing_rparen rest))
      f (by omega)
    have ha := iha 0 0 0 0 (.comma :: (renderPrec 0 0 b ++ .rparen :: rest))
      (a, .comma :: (renderPrec 0 0 b ++ .rparen :: rest)) hiv.1 (by omega) (Nat.le_refl _)
      (closing_follow _ _ (closing_comma _)) (fun f _ => parseLoop_stop f _ _ _ (closing_comma _))
      f (by omega)
    cases fn with
    | pow =>
      have hp := parsePrimary_pow f _ _ rest a b ha hb
      have := parseExpr_of (f + 1) p' _ rest _ _ hp (hcont _ (by omega))
      simpa only [renderPrec, List.append_assoc, List.cons_append, List.nil_append] using this
    | log =>
      have hp := parsePrimary_log f _ _ rest a b ha hb
      have := parseExpr_of (f + 1) p' _ rest _ _ hp (hcont _ (by omega))
      simpa only [renderPrec, List.append_assoc, List.cons_append, List.nil_append] using this
  | bin op iv l r ihl ihr =>
    intro p F p' N rest res hiv hFp hp' hfol hcont fuel hf
    simp only [PE.ivOk, Bool.and_eq_true] at hiv
    simp only [PE.size] at hf
    -- the binary form without parentheses
    have core : ∀ (F p' N : Nat) (rest : List Tok) (res : PE × List Tok),
        F ≤ binLevel op + 1 → p' ≤ binLevel op → Follow F rest →
        (∀ f, N ≤ f → parseLoop f p' (.bin op iv l r) rest = .ok res) →
        ∀ fuel, N + 4 * l.size + 4 * r.size + 1 ≤ fuel →
        parseExpr fuel p' (renderPrec (binLevel op) (binLevel op + 1) l ++
          tokOfBin op :: (ivToks iv ++ (renderPrec (binLevel op + 1) F r ++ rest))) = .ok res := by
      intro F p' N rest res hF hp' hfol hcont fuel hf
      refine ihl (binLevel op) (binLevel op + 1) p' (N + 4 * r.size + 1) _ res hiv.1.2 (Nat.le_refl _) hp'
        (follow_bin op _) ?_ fuel (by omega)
      intro f hf
      obtain ⟨f0, rfl⟩ : ∃ f0, f = f0 + 1 := ⟨f - 1, by omega⟩
      have h1 := optInterval_render (binTakesInterval op) iv (binLevel op + 1) F r rest hiv.1.1
      have h2 := ihr (binLevel op + 1) F (binLevel op + 1) 0 rest (r, rest) hiv.2 (by omega) (Nat.le_refl _)
        hfol (fun f _ => parseLoop_follow_stop f _ F r rest hfol hF) f0 (by omega)
      exact parseLoop_bin f0 p' op iv l r _ _ _ res hp' h1 h2 (hcont f0 (by omega))
    by_cases hk : p ≤ binLevel op
    · have := core F p' N rest res (by omega) (by omega) hfol hcont fuel (by omega)
      simpa only [renderPrec, if_pos hk, List.append_assoc, List.cons_append] using this
    · obtain ⟨f, rfl⟩ : ∃ f, fuel = f + 2 := ⟨fuel - 2, by omega⟩
      have hin := core 0 0 0 (.rparen :: rest) (.bin op iv l r, .rparen :: rest) (Nat.zero_le _) (Nat.zero_le _)
        (closing_follow _ _ (closing_rparen _)) (fun f _ => parseLoop_stop f _ _ _ (closing_rparen rest))
        f (by omega)
      have := parseExpr_wrap f p'
        (renderPrec (binLevel op) (binLevel op + 1) l ++ tokOfBin op :: (ivToks iv ++ renderPrec (binLevel op + 1) 0 r))
        rest _ res (by simpa only [List.append_assoc, List.cons_append] using hin) (hcont _ (by omega))
      simpa only [renderPrec, if_neg hk, List.append_assoc, List.cons_append, List.nil_append] using this

/-- Round trip at any level: `renderPrec p F e` followed by a token that is not a binary operator
    of level `≥ F` (with `F ≤ p`) is read back as `e` by `parseExpr _ p`, which stops at `rest`. -/
theorem C15_roundtrip_prec (e : PE) (hiv : e.ivOk = true) (p F : Nat) (hF : F ≤ p) (rest : List Tok)
    (hfol : Follow F rest) (fuel : Nat) (hf : 4 * e.size ≤ fuel) :
    parseExpr fuel p (renderPrec p F e ++ rest) = .ok (e, rest) :=
  prec_aux e p F p 0 rest (e, rest) hiv (by omega) (Nat.le_refl _) hfol
    (fun f _ => parseLoop_follow_stop f p F e rest hfol hF) fuel (by omega)

/-- Round trip on minimally parenthesised renderings (same hypotheses and fuel as
    `C15_roundtrip_full`). -/
theorem C15_roundtrip_minimal (e : PE) (hiv : e.ivOk = true) (rest : List Tok)
    (hrest : rest = [] ∨ ∃ t r, rest = t :: r ∧ (t = .rparen ∨ t = .semicolon ∨ t = .comma))
    (fuel : Nat) (hf : 4 * e.size + 4 ≤ fuel) :
    parseExpr fuel 0 (renderMin e ++ rest) = .ok (e, rest) :=
  C15_roundtrip_prec e hiv 0 0 (Nat.le_refl _) rest (closing_follow 0 rest hrest) fuel (by omega)

/-- The statement in the `∃ fuel0` form. -/
theorem C15_roundtrip_minimal' (e : PE) (hiv : e.ivOk = true) (rest : List Tok) (hc : Closing rest) :
    ∃ fuel0, ∀ fuel ≥ fuel0, parseExpr fuel 0 (renderMin e ++ rest) = .ok (e, rest) :=
  ⟨4 * e.size + 4, fun fuel hf => C15_roundtrip_minimal e hiv rest hc fuel hf⟩

/-! ### the minimal rendering is never longer than the full one -/

theorem renderPrec_length_le (e : PE) : ∀ p F, (renderPrec p F e).length ≤ (renderFull e).length := by
  induction e with
  | id s => intro p F; simp [renderPrec, renderFull]
  | lit s => intro p F; simp [renderPrec, renderFull]
  | pre op iv e ih =>
    intro p F
    have h1 := ih (preLevel op) F
    have h2 := ih (preLevel op) 0
    by_cases hF : F ≤ preLevel op
    · simp only [renderPrec, if_pos hF, renderFull, List.length_cons, List.length_append, List.length_nil]
      omega
    · simp only [renderPrec, if_neg hF, renderFull, List.length_cons, List.length_append, List.length_nil]
      omega
  | fn1 fn e ih =>
    intro p F
    have := ih 0 0
    simp only [renderPrec, renderFull, List.length_cons, List.length_append, List.length_nil]
    omega
  | fn2 fn a b iha ihb =>
    intro p F
    have := iha 0 0
    have := ihb 0 0
    cases fn <;>
      simp only [renderPrec, renderFull, List.length_cons, List.length_append, List.length_nil] <;> omega
  | bin op iv l r ihl ihr =>
    intro p F
    have h1 := ihl (binLevel op) (binLevel op + 1)
    have h2 := ihr (binLevel op + 1) F
    have h3 := ihr (binLevel op + 1) 0
    by_cases hk : p ≤ binLevel op
    · simp only [renderPrec, if_pos hk, renderFull, List.length_cons, List.length_append, List.length_nil]
      omega
    · simp only [renderPrec, if_neg hk, renderFull, List.length_cons, List.length_append, List.length_nil]
      omega

theorem renderMin_length_le (e : PE) : (renderMin e).length ≤ (renderFull e).length :=
  renderPrec_length_le e 0 0

/-! ### instances -/

/-- `a and b or c -> d`, i.e. `((a and b) or c) -> d`. -/
def exTree : PE :=
  .bin .implies none (.bin .or none (.bin .and none (.id "a") (.id "b")) (.id "c")) (.id "d")

/-- No parentheses in the minimal rendering ... -/
example : renderMin exTree =
    [.ident "a", .and, .ident "b", .or, .ident "c", .implies, .ident "d"] := by decide

/-- ... six pairs in the full one. -/
example : renderFull exTree =
    [.lparen, .lparen, .lparen, .ident "a", .rparen, .and, .lparen, .ident "b", .rparen, .rparen, .or,
     .lparen, .ident "c", .rparen, .rparen, .implies, .lparen, .ident "d", .rparen] := by decide

example : parseExpr 32 0 (renderMin exTree ++ [.semicolon]) = .ok (exTree, [.semicolon]) :=
  C15_roundtrip_minimal exTree (by decide) _ (Or.inr ⟨_, _, rfl, Or.inr (Or.inl rfl)⟩) 32 (by decide)

/-- Parentheses that remain: a looser operand, a right operand of the same level (the loop is
    left-associative), and a prefix operator in front of a tighter operator. -/
example : renderMin (.bin .and none (.id "a") (.bin .or none (.id "b") (.id "c"))) =
    [.ident "a", .and, .lparen, .ident "b", .or, .ident "c", .rparen] := by decide

example : renderMin (.bin .sub none (.id "a") (.bin .sub none (.id "b") (.id "c"))) =
    [.ident "a", .minus, .lparen, .ident "b", .minus, .ident "c", .rparen] := by decide

example : renderMin (.bin .sub none (.bin .sub none (.id "a") (.id "b")) (.id "c")) =
    [.ident "a", .minus, .ident "b", .minus, .ident "c"] := by decide

/-- `(a * not b) < c` keeps a pair of parentheses around `not b` ... -/
example : renderMin (.bin (.cmp .lt) none (.bin .mul none (.id "a") (.pre .not none (.id "b"))) (.id "c")) =
    [.ident "a", .times, .lparen, .not, .ident "b", .rparen, .lt, .ident "c"] := by decide

/-- ... because without them the prefix operator of the model takes the comparison as its operand,
    although `*` (level 20) binds tighter than `<` (level 18). -/
example : parseExpr 20 0 [.ident "a", .times, .not, .ident "b", .lt, .ident "c", .semicolon] =
    .ok (.bin .mul none (.id "a") (.pre .not none (.bin (.cmp .lt) none (.id "b") (.id "c"))), [.semicolon]) := by
  rfl

/-- `always[1,2] a and b` is `(always[1,2] a) and b`; `always[1,2] (a and b)` keeps its parentheses. -/
example : renderMin (.bin .and none
      (.pre .always (some ⟨.lit "1" none, .lit "2" none⟩) (.id "a")) (.id "b")) =
    [.always, .lbrack, .intLit "1", .comma, .intLit "2", .rbrack, .ident "a", .and, .ident "b"] := by decide

example : renderMin (.pre .always (some ⟨.lit "1" none, .lit "2" none⟩) (.bin .and none (.id "a") (.id "b"))) =
    [.always, .lbrack, .intLit "1", .comma, .intLit "2", .rbrack, .lparen, .ident "a", .and, .ident "b", .rparen] := by
  decide

end Rtamt.Front
