/-
  `DenseTimeInterpreter.time_unit_transformer`, as translated from the Python source
  (`Gen.Units.dense_time_unit_transformer` of `Rtamt/Py/GeneratedUnits.lean`, regenerated on every run), denotes
  the hand-written mirror `SIv.toDefault` (`Rtamt/Units.lean`, the function `C08_dense` is stated on).

  Numbers are exact (`Rat` for the numbers of the parser; `float(x)` of an exact number is the number itself:
  rounding is not modelled).  The method reads no attribute: the statement holds for every attribute store.
-/
import RtamtProofs.GenUnits
import RtamtProofs.C08

namespace Rtamt.Py
open Rtamt Val

variable {α : Type} [Val α]

theorem evalBin_div_rat_int (a : Rat) (n : Int) (hn : (n : Rat) ≠ 0) :
    evalBin (α := α) .div (.rat a) (.int n) = .ok (.rat (a / (n : Rat))) := by
  simp [evalBin, coerce, ratOf, hn]

theorem nanos_pos (u : TUnit) : 0 < u.nanos := by cases u <;> decide

theorem nanos_rat_ne_zero (u : TUnit) : ((u.nanos : Int) : Rat) ≠ 0 := by
  have h := nanos_pos u
  have h' : (u.nanos : Int) ≠ 0 := by omega
  exact_mod_cast h'

/-- Symbolic execution of the dense `time_unit_transformer`. -/
macro "dtut_simp" "[" ls:Lean.Parser.Tactic.simpLemma,* "]" : tactic =>
  `(tactic| simp [call, Gen.Units.dense_time_unit_transformer, exec_skip, u_exec_seq', exec_setLoc, u_exec_ite,
      u_exec_raise, evalE, optUnitStr, evalUn_frac_rat, unitNs_eq, evalBin_mul_rat_int, evalBin_div_rat_int,
      evalBin_gt_int_zero, evalBin_eq_int_zero, u_ok_bind', u_error_bind', getKey_cons_same, getKey_cons_ne, setKey,
      pure, Except.pure, Except.map, Rat.intCast_natCast, $ls,*])

/-- The translated dense `time_unit_transformer` computes `SIv.toDefault`, for every attribute store, every default
    unit and every interval. -/
theorem gen_dense_time_unit_transformer (store : Store α) (dflt : TUnit) (i : SIv) :
    call (α := α) Gen.Units.dense_time_unit_transformer store
        [.rat i.b, .rat i.e, .str (optUnitStr i.bu), .str (optUnitStr i.eu), .str (unitStr dflt)]
      = .ok (store, V.pair (.rat (i.toDefault dflt).1) (.rat (i.toDefault dflt).2)) := by
  rcases i with ⟨b, e, bu, eu⟩
  have hlen2 : ∀ u, (unitStr u).length ≠ 0 := fun u => by have := unitStr_length_pos u; omega
  have hlen3 := unitStr_length_pos
  have hnz := nanos_rat_ne_zero
  have hnz' : ∀ u : TUnit, ((u.nanos : Nat) : Rat) ≠ 0 := fun u => by
    have := nanos_rat_ne_zero u; simpa [Rat.intCast_natCast] using this
  obtain ⟨ub, ue, hu⟩ : ∃ ub ue, SIv.units dflt ⟨b, e, bu, eu⟩ = (ub, ue) := ⟨_, _, rfl⟩
  have hmirror : SIv.toDefault dflt ⟨b, e, bu, eu⟩ =
      (b * (ub.nanos : Rat) / (dflt.nanos : Rat), e * (ue.nanos : Rat) / (dflt.nanos : Rat)) := by
    simp only [SIv.toDefault, SIv.durNs, hu]
  rw [hmirror]
  cases bu <;> cases eu <;> simp [SIv.units] at hu <;> obtain ⟨rfl, rfl⟩ := hu <;>
    dtut_simp [hlen2, hlen3, hnz, hnz']

/-- The method lies inside the translated subset. -/
theorem gen_dense_units_supported : Gen.Units.dense_time_unit_transformer.supported = true := by
  decide

/-- C08 (dense) on the translated source: two intervals with the same durations under one default unit are
    translated to the same pair. -/
theorem gen_dense_units_same_durations (store : Store α) (d : TUnit) (i i' : SIv) (h : i.durNs d = i'.durNs d) :
    call (α := α) Gen.Units.dense_time_unit_transformer store
        [.rat i.b, .rat i.e, .str (optUnitStr i.bu), .str (optUnitStr i.eu), .str (unitStr d)]
      = call (α := α) Gen.Units.dense_time_unit_transformer store
        [.rat i'.b, .rat i'.e, .str (optUnitStr i'.bu), .str (optUnitStr i'.eu), .str (unitStr d)] := by
  rw [gen_dense_time_unit_transformer, gen_dense_time_unit_transformer, (C08_dense d d i i' h).2.2 rfl]

/-- C08 (dense), two default units: the translated results denote the same durations in nanoseconds. -/
theorem gen_dense_units_same_durations_ns (store : Store α) (d d' : TUnit) (i i' : SIv)
    (h : i.durNs d = i'.durNs d') :
    ∃ r r' : Rat × Rat,
      call (α := α) Gen.Units.dense_time_unit_transformer store
        [.rat i.b, .rat i.e, .str (optUnitStr i.bu), .str (optUnitStr i.eu), .str (unitStr d)]
        = .ok (store, V.pair (.rat r.1) (.rat r.2)) ∧
      call (α := α) Gen.Units.dense_time_unit_transformer store
        [.rat i'.b, .rat i'.e, .str (optUnitStr i'.bu), .str (optUnitStr i'.eu), .str (unitStr d')]
        = .ok (store, V.pair (.rat r'.1) (.rat r'.2)) ∧
      r.1 * (d.nanos : Rat) = r'.1 * (d'.nanos : Rat) ∧ r.2 * (d.nanos : Rat) = r'.2 * (d'.nanos : Rat) :=
  ⟨i.toDefault d, i'.toDefault d', gen_dense_time_unit_transformer store d i,
    gen_dense_time_unit_transformer store d' i', (C08_dense d d' i i' h).1, (C08_dense d d' i i' h).2.1⟩

end Rtamt.Py
