/-
  C07 — Robustness sign and magnitude are sound with respect to Boolean satisfaction.

  "For every specification without iff/xor, whenever a monitor reports a strictly
   positive (negative) value at time t the specification is satisfied (violated) at t
   under the Boolean semantics of STL. Moreover, if every predicate compares one
   variable with a constant, any trace whose samples all differ from the original by
   less than |rho| receives the same verdict at t."

  Stated on the M-spec `rho` instantiated at the extended reals (`EReal`, a `LawfulVal`
  instance) with real-valued signals and real constants; the monitors are tied to `rho`
  by C01 (offline), C02 (online) and C03 (pastified).
-/
import RtamtProofs.Lemmas.Instance
import Rtamt.Discrete.Sat

namespace Rtamt
open Val

/-- Real-valued signals seen as `EReal`-valued ones. -/
def sigOf (w : String → Nat → ℝ) : String → Nat → EReal := fun x t => ((w x t : ℝ) : EReal)

/-- All constants of the formula are real numbers. -/
def F.finConsts (φ : F EReal) : Prop := ∀ c ∈ φ.consts, c ≠ ⊤ ∧ c ≠ ⊥

/-! ### strict window bounds (any `LawfulVal`) -/
section Generic
variable {α : Type} [Val α] [LawfulVal α]

private theorem lmaxFrom_lt_iff (init : α) (l : List α) (c : α) :
    lmaxFrom init l < c ↔ init < c ∧ ∀ x ∈ l, x < c := by
  unfold lmaxFrom
  induction l generalizing init with
  | nil => simp
  | cons x xs ih =>
    simp only [List.foldl_cons, ih, pmax_eq, max_lt_iff, List.mem_cons, forall_eq_or_imp]
    tauto

private theorem lt_lminFrom_iff (init : α) (l : List α) (c : α) :
    c < lminFrom init l ↔ c < init ∧ ∀ x ∈ l, c < x := by
  unfold lminFrom
  induction l generalizing init with
  | nil => simp
  | cons x xs ih =>
    simp only [List.foldl_cons, ih, pmin_eq, lt_min_iff, List.mem_cons, forall_eq_or_imp]
    tauto

private theorem maxOver_lt_iff (lo hi : Nat) (f : Nat → α) (c : α) :
    maxOver lo hi f < c ↔ ⊥ < c ∧ ∀ t, lo ≤ t → t < hi → f t < c := by
  unfold maxOver lmax
  rw [lmaxFrom_lt_iff, LawfulVal.ninf_bot]
  simp only [List.mem_map, List.mem_range'_1, forall_exists_index, and_imp]
  constructor
  · rintro ⟨h0, h⟩
    exact ⟨h0, fun t h1 h2 => h (f t) t h1 (by omega) rfl⟩
  · rintro ⟨h0, h⟩
    refine ⟨h0, ?_⟩
    rintro x t h1 h2 rfl
    exact h t h1 (by omega)

private theorem lt_minOver_iff (lo hi : Nat) (f : Nat → α) (c : α) :
    c < minOver lo hi f ↔ c < ⊤ ∧ ∀ t, lo ≤ t → t < hi → c < f t := by
  unfold minOver lmin
  rw [lt_lminFrom_iff, LawfulVal.pinf_top]
  simp only [List.mem_map, List.mem_range'_1, forall_exists_index, and_imp]
  constructor
  · rintro ⟨h0, h⟩
    exact ⟨h0, fun t h1 h2 => h (f t) t h1 (by omega) rfl⟩
  · rintro ⟨h0, h⟩
    refine ⟨h0, ?_⟩
    rintro x t h1 h2 rfl
    exact h t h1 (by omega)

/-- A lower bound above `⊥` of a window maximum is attained by some element. -/
private theorem le_maxOver_exists (lo hi : Nat) (f : Nat → α) (c : α) (hc : ⊥ < c)
    (h : c ≤ maxOver lo hi f) : ∃ t, lo ≤ t ∧ t < hi ∧ c ≤ f t := by
  by_contra hne
  push Not at hne
  exact absurd ((maxOver_lt_iff lo hi f c).2 ⟨hc, hne⟩) (not_lt.2 h)

private theorem minOver_le_exists (lo hi : Nat) (f : Nat → α) (c : α) (hc : c < ⊤)
    (h : minOver lo hi f ≤ c) : ∃ t, lo ≤ t ∧ t < hi ∧ f t ≤ c := by
  by_contra hne
  push Not at hne
  exact absurd ((lt_minOver_iff lo hi f c).2 ⟨hc, hne⟩) (not_lt.2 h)

end Generic

private theorem anyOver_eq_true (lo hi : Nat) (p : Nat → Bool) :
    anyOver lo hi p = true ↔ ∃ t, lo ≤ t ∧ t < hi ∧ p t = true := by
  unfold anyOver
  simp only [List.any_eq_true, List.mem_range'_1]
  constructor
  · rintro ⟨t, ⟨h1, h2⟩, h3⟩
    exact ⟨t, h1, by omega, h3⟩
  · rintro ⟨t, h1, h2, h3⟩
    exact ⟨t, ⟨h1, by omega⟩, h3⟩

private theorem allOver_eq_true (lo hi : Nat) (p : Nat → Bool) :
    allOver lo hi p = true ↔ ∀ t, lo ≤ t → t < hi → p t = true := by
  unfold allOver
  simp only [List.all_eq_true, List.mem_range'_1]
  constructor
  · intro h t h1 h2
    exact h t ⟨h1, by omega⟩
  · rintro h t ⟨h1, h2⟩
    exact h t h1 (by omega)

private theorem anyOver_eq_false (lo hi : Nat) (p : Nat → Bool) :
    anyOver lo hi p = false ↔ ∀ t, lo ≤ t → t < hi → p t = false := by
  rw [← Bool.not_eq_true, anyOver_eq_true]
  push Not
  simp only [Bool.not_eq_true]

private theorem allOver_eq_false (lo hi : Nat) (p : Nat → Bool) :
    allOver lo hi p = false ↔ ∃ t, lo ≤ t ∧ t < hi ∧ p t = false := by
  rw [← Bool.not_eq_true, allOver_eq_true]
  push Not
  simp only [Bool.not_eq_true]

/-! ### `B`-margin soundness of a robustness value for a Boolean verdict -/

/-- `r ≥ B` forces the verdict `true`, `r ≤ -B` forces the verdict `false`. -/
def Snd (B r : EReal) (b : Bool) : Prop := (B ≤ r → b = true) ∧ (r ≤ -B → b = false)

theorem Snd.neg {B r : EReal} {b : Bool} (h : Snd B r b) : Snd B (-r) (!b) := by
  constructor
  · intro h1
    rw [EReal.le_neg] at h1
    simp [h.2 h1]
  · intro h1
    rw [EReal.neg_le_neg_iff] at h1
    simp [h.1 h1]

theorem Snd.min {B r1 r2 : EReal} {b1 b2 : Bool} (h1 : Snd B r1 b1) (h2 : Snd B r2 b2) :
    Snd B (min r1 r2) (b1 && b2) := by
  constructor
  · intro h
    rw [le_min_iff] at h
    simp [h1.1 h.1, h2.1 h.2]
  · intro h
    rw [min_le_iff] at h
    rcases h with h | h
    · simp [h1.2 h]
    · simp [h2.2 h]

theorem Snd.max {B r1 r2 : EReal} {b1 b2 : Bool} (h1 : Snd B r1 b1) (h2 : Snd B r2 b2) :
    Snd B (max r1 r2) (b1 || b2) := by
  constructor
  · intro h
    rw [le_max_iff] at h
    rcases h with h | h
    · simp [h1.1 h]
    · simp [h2.1 h]
  · intro h
    rw [max_le_iff] at h
    simp [h1.2 h.1, h2.2 h.2]

theorem Snd.top {B : EReal} (hB : 0 < B) : Snd B ⊤ true := by
  refine ⟨fun _ => rfl, fun h => ?_⟩
  exfalso
  rw [top_le_iff, EReal.neg_eq_top_iff] at h
  rw [h] at hB
  exact not_lt_bot hB

theorem Snd.bot {B : EReal} (hB : 0 < B) : Snd B ⊥ false := by
  refine ⟨fun h => ?_, fun _ => rfl⟩
  exfalso
  rw [le_bot_iff] at h
  rw [h] at hB
  exact not_lt_bot hB

theorem Snd.maxOver {B : EReal} (hB : 0 < B) (lo hi : Nat) (f : Nat → EReal) (p : Nat → Bool)
    (h : ∀ t, lo ≤ t → t < hi → Snd B (f t) (p t)) :
    Snd B (maxOver lo hi f) (anyOver lo hi p) := by
  constructor
  · intro h1
    obtain ⟨t, h2, h3, h4⟩ := le_maxOver_exists lo hi f B (lt_trans EReal.bot_lt_zero hB) h1
    exact (anyOver_eq_true lo hi p).2 ⟨t, h2, h3, (h t h2 h3).1 h4⟩
  · intro h1
    rw [maxOver_le_iff] at h1
    exact (anyOver_eq_false lo hi p).2 (fun t h2 h3 => (h t h2 h3).2 (h1 t h2 h3))

theorem Snd.minOver {B : EReal} (hB : 0 < B) (lo hi : Nat) (f : Nat → EReal) (p : Nat → Bool)
    (h : ∀ t, lo ≤ t → t < hi → Snd B (f t) (p t)) :
    Snd B (minOver lo hi f) (allOver lo hi p) := by
  constructor
  · intro h1
    rw [le_minOver_iff] at h1
    exact (allOver_eq_true lo hi p).2 (fun t h2 h3 => (h t h2 h3).1 (h1 t h2 h3))
  · intro h1
    have hlt : -B < ⊤ := by
      rw [lt_top_iff_ne_top, Ne, EReal.neg_eq_top_iff]
      rintro rfl
      exact not_lt_bot hB
    obtain ⟨t, h2, h3, h4⟩ := minOver_le_exists lo hi f (-B) hlt h1
    exact (allOver_eq_false lo hi p).2 ⟨t, h2, h3, (h t h2 h3).2 h4⟩

/-! ### terms evaluate to real numbers -/

private theorem abs_coe (x : ℝ) : Val.abs ((x : ℝ) : EReal) = ((|x| : ℝ) : EReal) := by
  show Max.max ((x : ℝ) : EReal) (-((x : ℝ) : EReal)) = _
  rw [abs_eq_max_neg, ← EReal.coe_neg]
  exact (EReal.coe_strictMono.monotone.map_max).symm

theorem C07_term_real (τ : F EReal) (hterm : τ.isTerm = true) (har : τ.simpleArith = true)
    (hc : τ.finConsts) (w : String → Nat → ℝ) (n t : Nat) :
    ∃ r : ℝ, rho (sigOf w) n τ t = (r : EReal) := by
  induction τ with
  | var x => exact ⟨w x t, rfl⟩
  | const c =>
    have := hc c (by simp [F.consts])
    exact ⟨c.toReal, (EReal.coe_toReal this.1 this.2).symm⟩
  | un op τ ih =>
    have hc' : τ.finConsts := fun c h => hc c (by simpa [F.consts] using h)
    cases op <;> simp [F.isTerm, F.simpleArith] at hterm har
    · obtain ⟨r, hr⟩ := ih hterm har hc'
      exact ⟨|r|, by simp only [rho, Un.app, hr, abs_coe]⟩
    · obtain ⟨r, hr⟩ := ih hterm har hc'
      refine ⟨-r, ?_⟩
      simp only [rho, Un.app, hr]
      rfl
  | bin op τ₁ τ₂ ih1 ih2 =>
    have hc1 : τ₁.finConsts := fun c h => hc c (by simp [F.consts, h])
    have hc2 : τ₂.finConsts := fun c h => hc c (by simp [F.consts, h])
    cases op <;> simp [F.isTerm, F.simpleArith] at hterm har
    all_goals
      obtain ⟨r1, hr1⟩ := ih1 hterm.1 har.1 hc1
      obtain ⟨r2, hr2⟩ := ih2 hterm.2 har.2 hc2
    · exact ⟨r1 + r2, by simp only [rho, Bin.app, hr1, hr2]; rfl⟩
    · exact ⟨r1 - r2, by simp only [rho, Bin.app, hr1, hr2]; rfl⟩
    · exact ⟨r1 * r2, by simp only [rho, Bin.app, hr1, hr2]; rfl⟩
  | tmp1 op τ ih => simp [F.isTerm] at hterm
  | tmp2 op τ₁ τ₂ ih1 ih2 => simp [F.isTerm] at hterm
  | tb1 op a b τ ih => simp [F.isTerm] at hterm
  | tb2 op a b τ₁ τ₂ ih1 ih2 => simp [F.isTerm] at hterm

/-! ### comparisons of real numbers -/

/-- Robustness of a comparison of two reals. -/
noncomputable def Cmp.appR : Cmp → ℝ → ℝ → ℝ
  | .eq, l, r => -|l - r|
  | .ne, l, r => |l - r|
  | .le, l, r => r - l
  | .lt, l, r => r - l
  | .ge, l, r => l - r
  | .gt, l, r => l - r

/-- Truth of a comparison of two reals. -/
def Cmp.holdsP : Cmp → ℝ → ℝ → Prop
  | .lt, l, r => l < r
  | .le, l, r => l ≤ r
  | .gt, l, r => r < l
  | .ge, l, r => r ≤ l
  | .eq, l, r => l = r
  | .ne, l, r => l ≠ r

theorem Cmp.app_coe (c : Cmp) (a b : ℝ) :
    c.app ((a : ℝ) : EReal) ((b : ℝ) : EReal) = ((c.appR a b : ℝ) : EReal) := by
  have hsub : ∀ x y : ℝ, Val.sub ((x : ℝ) : EReal) ((y : ℝ) : EReal) = ((x - y : ℝ) : EReal) :=
    fun x y => rfl
  have hneg : ∀ x : ℝ, Val.neg ((x : ℝ) : EReal) = ((-x : ℝ) : EReal) := fun x => rfl
  cases c <;> simp only [Cmp.app, Cmp.appR, hsub, abs_coe, hneg]

theorem Cmp.holds_coe (c : Cmp) (a b : ℝ) :
    c.holds ((a : ℝ) : EReal) ((b : ℝ) : EReal) = true ↔ c.holdsP a b := by
  have hlt : ∀ x y : ℝ, Val.lt ((x : ℝ) : EReal) ((y : ℝ) : EReal) = decide (x < y) := by
    intro x y
    show decide (_ < _) = _
    simp only [EReal.coe_lt_coe_iff]
  cases c <;> simp only [Cmp.holds, Cmp.holdsP, hlt] <;> simp
  · exact ⟨fun h => le_antisymm h.2 h.1, fun h => ⟨h.ge, h.le⟩⟩

/-- A comparison whose robustness is at least `e` in absolute value keeps its truth value
    when the operands move by less than `e` in total. -/
theorem Cmp.pert (c : Cmp) (a b a' b' e : ℝ) (h : |a' - a| + |b' - b| < e) :
    (e ≤ c.appR a b → c.holdsP a' b') ∧ (c.appR a b ≤ -e → ¬ c.holdsP a' b') := by
  have h1 := le_abs_self (a' - a)
  have h2 := neg_abs_le (a' - a)
  have h3 := le_abs_self (b' - b)
  have h4 := neg_abs_le (b' - b)
  have h5 := abs_nonneg (a - b)
  cases c <;> simp only [Cmp.appR, Cmp.holdsP]
  · exact ⟨fun h6 => by linarith, fun h6 h7 => by linarith⟩
  · exact ⟨fun h6 => by linarith, fun h6 h7 => by linarith⟩
  · exact ⟨fun h6 => by linarith, fun h6 h7 => by linarith⟩
  · exact ⟨fun h6 => by linarith, fun h6 h7 => by linarith⟩
  · refine ⟨fun h6 => by exfalso; linarith, fun h6 h7 => ?_⟩
    rcases abs_cases (a - b) with ⟨h8, _⟩ | ⟨h8, _⟩ <;> linarith
  · refine ⟨fun h6 h7 => ?_, fun h6 => by exfalso; linarith⟩
    rcases abs_cases (a - b) with ⟨h8, _⟩ | ⟨h8, _⟩ <;> linarith

theorem Snd_cmp (c : Cmp) (a b a' b' : ℝ) (B : EReal)
    (h : ((|a' - a| + |b' - b| : ℝ) : EReal) < B) :
    Snd B (c.app ((a : ℝ) : EReal) ((b : ℝ) : EReal)) (c.holds ((a' : ℝ) : EReal) ((b' : ℝ) : EReal)) := by
  rw [Cmp.app_coe]
  constructor
  · intro h1
    have h2 := lt_of_lt_of_le h h1
    rw [EReal.coe_lt_coe_iff] at h2
    exact (Cmp.holds_coe c a' b').2 ((Cmp.pert c a b a' b' _ h2).1 le_rfl)
  · intro h1
    rw [EReal.le_neg, ← EReal.coe_neg] at h1
    have h2 := lt_of_lt_of_le h h1
    rw [EReal.coe_lt_coe_iff] at h2
    have h3 := (Cmp.pert c a b a' b' _ h2).2 (by rw [neg_neg])
    rw [← Cmp.holds_coe] at h3
    simpa using h3

/-! ### the structural induction, with the predicate case abstracted -/

/-- `Q` holds at every predicate node. -/
def F.predsAll {α : Type} (Q : Cmp → F α → F α → Prop) : F α → Prop
  | .var _ => True
  | .const _ => True
  | .un _ φ => φ.predsAll Q
  | .bin (.pred c) φ ψ => Q c φ ψ
  | .bin _ φ ψ => φ.predsAll Q ∧ ψ.predsAll Q
  | .tmp1 _ φ => φ.predsAll Q
  | .tmp2 _ φ ψ => φ.predsAll Q ∧ ψ.predsAll Q
  | .tb1 _ _ _ φ => φ.predsAll Q
  | .tb2 _ _ _ φ ψ => φ.predsAll Q ∧ ψ.predsAll Q

/-- At every valid time, the predicate's robustness on `σ` is `B`-sound for its truth on `σ'`. -/
def PredOK (σ σ' : String → Nat → EReal) (n : Nat) (B : EReal) (V : Nat → Prop)
    (c : Cmp) (l r : F EReal) : Prop :=
  ∀ t, V t → Snd B (c.app (rho σ n l t) (rho σ n r t)) (c.holds (rho σ' n l t) (rho σ' n r t))

theorem snd_main (σ σ' : String → Nat → EReal) (n : Nat) (B : EReal) (hB : 0 < B)
    (V : Nat → Prop) (hVle : ∀ t t', V t → t' ≤ t → V t') (hVlt : ∀ t', t' < n → V t')
    (φ : F EReal) (hform : φ.isFormula = true) (hnx : φ.noIffXor = true)
    (hp : φ.predsAll (PredOK σ σ' n B V)) :
    ∀ t, V t → Snd B (rho σ n φ t) (sat σ' n φ t) := by
  induction φ with
  | var x => simp [F.isFormula] at hform
  | const c => simp [F.isFormula] at hform
  | un op φ ih =>
    cases op <;> simp [F.isFormula] at hform
    simp only [F.noIffXor] at hnx
    simp only [F.predsAll] at hp
    intro t hV
    simp only [rho, sat, Un.app]
    exact (ih hform hnx hp t hV).neg
  | bin op φ ψ ih1 ih2 =>
    cases op <;> simp [F.isFormula] at hform <;> simp [F.noIffXor] at hnx
    · -- predicate
      intro t hV
      simp only [F.predsAll] at hp
      simp only [rho, sat, Bin.app]
      exact hp t hV
    · intro t hV
      simp only [F.predsAll] at hp
      simp only [rho, sat, Bin.app, pmin_eq]
      exact (ih1 hform.1 hnx.1 hp.1 t hV).min (ih2 hform.2 hnx.2 hp.2 t hV)
    · intro t hV
      simp only [F.predsAll] at hp
      simp only [rho, sat, Bin.app, pmax_eq]
      exact (ih1 hform.1 hnx.1 hp.1 t hV).max (ih2 hform.2 hnx.2 hp.2 t hV)
    · intro t hV
      simp only [F.predsAll] at hp
      simp only [rho, sat, Bin.app, pmax_eq]
      exact (ih1 hform.1 hnx.1 hp.1 t hV).neg.max (ih2 hform.2 hnx.2 hp.2 t hV)
  | tmp1 op φ ih =>
    simp only [F.isFormula] at hform
    simp only [F.noIffXor] at hnx
    simp only [F.predsAll] at hp
    have ih := ih hform hnx hp
    intro t hV
    cases op with
    | rise =>
      simp only [rho, sat]
      by_cases h0 : t = 0
      · subst h0
        simpa using ih 0 hV
      · have : (t == 0) = false := by simpa using h0
        rw [if_neg h0, pmin_eq, this, Bool.false_or, Bool.and_comm]
        exact (ih (t - 1) (hVle t _ hV (by omega))).neg.min (ih t hV)
    | fall =>
      simp only [rho, sat]
      by_cases h0 : t = 0
      · subst h0
        simp only [↓reduceIte, BEq.rfl, zero_tsub, Bool.true_or, Bool.and_true]
        exact (ih 0 hV).neg
      · have : (t == 0) = false := by simpa using h0
        rw [if_neg h0, pmin_eq, this, Bool.false_or, Bool.and_comm]
        exact (ih (t - 1) (hVle t _ hV (by omega))).min (ih t hV).neg
    | prev =>
      simp only [rho, sat]
      by_cases h0 : t = 0
      · subst h0
        simp only [↓reduceIte, BEq.rfl, zero_tsub, Bool.true_or]
        exact Snd.top hB
      · have : (t == 0) = false := by simpa using h0
        rw [if_neg h0, this, Bool.false_or]
        exact ih (t - 1) (hVle t _ hV (by omega))
    | sprev =>
      simp only [rho, sat]
      by_cases h0 : t = 0
      · subst h0
        simp only [↓reduceIte, bne_self_eq_false, zero_tsub, Bool.false_and]
        exact Snd.bot hB
      · have : (t != 0) = true := by simpa using h0
        rw [if_neg h0, this, Bool.true_and]
        exact ih (t - 1) (hVle t _ hV (by omega))
    | next =>
      simp only [rho, sat]
      by_cases h1 : t + 1 < n
      · rw [if_pos h1]
        simpa [h1] using ih (t + 1) (hVlt _ h1)
      · rw [if_neg h1]
        simp only [h1, decide_false, Bool.not_false, Bool.true_or]
        exact Snd.top hB
    | snext =>
      simp only [rho, sat]
      by_cases h1 : t + 1 < n
      · rw [if_pos h1]
        simpa [h1] using ih (t + 1) (hVlt _ h1)
      · rw [if_neg h1]
        simp only [h1, decide_false, Bool.false_and]
        exact Snd.bot hB
    | once =>
      simp only [rho, sat]
      exact Snd.maxOver hB _ _ _ _ (fun s _ h2 => ih s (hVle t s hV (by omega)))
    | hist =>
      simp only [rho, sat]
      exact Snd.minOver hB _ _ _ _ (fun s _ h2 => ih s (hVle t s hV (by omega)))
    | ev =>
      simp only [rho, sat]
      exact Snd.maxOver hB _ _ _ _ (fun s _ h2 => ih s (hVlt s h2))
    | alw =>
      simp only [rho, sat]
      exact Snd.minOver hB _ _ _ _ (fun s _ h2 => ih s (hVlt s h2))
  | tmp2 op φ ψ ih1 ih2 =>
    simp only [F.isFormula, Bool.and_eq_true] at hform
    simp only [F.noIffXor, Bool.and_eq_true] at hnx
    simp only [F.predsAll] at hp
    have ih1 := ih1 hform.1 hnx.1 hp.1
    have ih2 := ih2 hform.2 hnx.2 hp.2
    intro t hV
    cases op with
    | since =>
      simp only [rho, sat, pmin_eq]
      exact Snd.maxOver hB _ _ _ _ (fun s _ h2 =>
        (ih2 s (hVle t s hV (by omega))).min
          (Snd.minOver hB _ _ _ _ (fun u _ h4 => ih1 u (hVle t u hV (by omega)))))
    | «until» =>
      simp only [rho, sat, pmin_eq]
      exact Snd.maxOver hB _ _ _ _ (fun s _ h2 =>
        (ih2 s (hVlt s h2)).min
          (Snd.minOver hB _ _ _ _ (fun u _ h4 => ih1 u (hVlt u (by omega)))))
  | tb1 op a b φ ih =>
    simp only [F.isFormula] at hform
    simp only [F.noIffXor] at hnx
    simp only [F.predsAll] at hp
    have ih := ih hform hnx hp
    intro t hV
    cases op with
    | once =>
      simp only [rho, sat]
      exact Snd.maxOver hB _ _ _ _ (fun s _ h2 => ih s (hVle t s hV (by omega)))
    | hist =>
      simp only [rho, sat]
      exact Snd.minOver hB _ _ _ _ (fun s _ h2 => ih s (hVle t s hV (by omega)))
    | ev =>
      simp only [rho, sat]
      exact Snd.maxOver hB _ _ _ _ (fun s _ h2 => ih s (hVlt s (by omega)))
    | alw =>
      simp only [rho, sat]
      exact Snd.minOver hB _ _ _ _ (fun s _ h2 => ih s (hVlt s (by omega)))
  | tb2 op a b φ ψ ih1 ih2 =>
    simp only [F.isFormula, Bool.and_eq_true] at hform
    simp only [F.noIffXor, Bool.and_eq_true] at hnx
    simp only [F.predsAll] at hp
    have ih1 := ih1 hform.1 hnx.1 hp.1
    have ih2 := ih2 hform.2 hnx.2 hp.2
    intro t hV
    cases op with
    | since =>
      simp only [rho, sat, pmin_eq]
      exact Snd.maxOver hB _ _ _ _ (fun s _ h2 =>
        (ih2 s (hVle t s hV (by omega))).min
          (Snd.minOver hB _ _ _ _ (fun u _ h4 => ih1 u (hVle t u hV (by omega)))))
    | «until» =>
      simp only [rho, sat, pmin_eq]
      exact Snd.maxOver hB _ _ _ _ (fun s _ h2 =>
        (ih2 s (hVlt s (by omega))).min
          (Snd.minOver hB _ _ _ _ (fun u _ h4 => ih1 u (hVlt u (by omega)))))
    | precedes =>
      simp only [rho, sat, pmin_eq]
      exact Snd.maxOver hB _ _ _ _ (fun s _ h2 =>
        (ih2 s (hVle t s hV (by omega))).min
          (Snd.minOver hB _ _ _ _ (fun u _ h4 => ih1 u (hVle t u hV (by omega)))))

/-! ### the predicate case, under the two sets of side conditions -/

theorem predsAll_arith (φ : F EReal) (hform : φ.isFormula = true) (har : φ.simpleArith = true)
    (hc : φ.finConsts) (w : String → Nat → ℝ) (n : Nat) (B : EReal) (hB : 0 < B) :
    φ.predsAll (PredOK (sigOf w) (sigOf w) n B (fun _ => True)) := by
  induction φ with
  | var x => trivial
  | const c => trivial
  | un op φ ih =>
    have hc' : φ.finConsts := fun c h => hc c (by simpa [F.consts] using h)
    cases op <;> simp [F.isFormula] at hform
    simp only [F.simpleArith, Bool.true_and] at har
    exact ih hform har hc'
  | bin op φ ψ ih1 ih2 =>
    have hc1 : φ.finConsts := fun c h => hc c (by simp [F.consts, h])
    have hc2 : ψ.finConsts := fun c h => hc c (by simp [F.consts, h])
    cases op <;> simp [F.isFormula] at hform <;> simp [F.simpleArith] at har
    · intro t _
      obtain ⟨a, ha⟩ := C07_term_real φ hform.1 har.1 hc1 w n t
      obtain ⟨b, hb⟩ := C07_term_real ψ hform.2 har.2 hc2 w n t
      rw [ha, hb]
      exact Snd_cmp _ a b a b B (by simpa using hB)
    all_goals exact ⟨ih1 hform.1 har.1 hc1, ih2 hform.2 har.2 hc2⟩
  | tmp1 op φ ih =>
    exact ih hform har (fun c h => hc c (by simpa [F.consts] using h))
  | tmp2 op φ ψ ih1 ih2 =>
    simp only [F.isFormula, Bool.and_eq_true] at hform
    simp only [F.simpleArith, Bool.and_eq_true] at har
    exact ⟨ih1 hform.1 har.1 (fun c h => hc c (by simp [F.consts, h])),
      ih2 hform.2 har.2 (fun c h => hc c (by simp [F.consts, h]))⟩
  | tb1 op a b φ ih =>
    exact ih hform har (fun c h => hc c (by simpa [F.consts] using h))
  | tb2 op a b φ ψ ih1 ih2 =>
    simp only [F.isFormula, Bool.and_eq_true] at hform
    simp only [F.simpleArith, Bool.and_eq_true] at har
    exact ⟨ih1 hform.1 har.1 (fun c h => hc c (by simp [F.consts, h])),
      ih2 hform.2 har.2 (fun c h => hc c (by simp [F.consts, h]))⟩

theorem predsAll_simple (φ : F EReal) (hform : φ.isFormula = true) (hsp : φ.simplePreds = true)
    (hc : φ.finConsts) (w w' : String → Nat → ℝ) (n : Nat) (B : EReal)
    (hclose : ∀ x s, s < n → (((|w' x s - w x s| : ℝ)) : EReal) < B) :
    φ.predsAll (PredOK (sigOf w) (sigOf w') n B (fun t => t < n)) := by
  induction φ with
  | var x => trivial
  | const c => trivial
  | un op φ ih =>
    have hc' : φ.finConsts := fun c h => hc c (by simpa [F.consts] using h)
    cases op <;> simp [F.isFormula] at hform
    simp only [F.simplePreds] at hsp
    exact ih hform hsp hc'
  | bin op φ ψ ih1 ih2 =>
    have hc1 : φ.finConsts := fun c h => hc c (by simp [F.consts, h])
    have hc2 : ψ.finConsts := fun c h => hc c (by simp [F.consts, h])
    cases op <;> simp [F.isFormula] at hform
    · cases φ <;> cases ψ <;> simp [F.simplePreds] at hsp
      · rename_i x k
        have hk := hc2 k (by simp [F.consts])
        obtain ⟨kr, rfl⟩ : ∃ kr : ℝ, k = (kr : EReal) :=
          ⟨k.toReal, (EReal.coe_toReal hk.1 hk.2).symm⟩
        intro t ht
        simp only [rho]
        exact Snd_cmp _ (w x t) kr (w' x t) kr B (by simpa using hclose x t ht)
      · rename_i k x
        have hk := hc1 k (by simp [F.consts])
        obtain ⟨kr, rfl⟩ : ∃ kr : ℝ, k = (kr : EReal) :=
          ⟨k.toReal, (EReal.coe_toReal hk.1 hk.2).symm⟩
        intro t ht
        simp only [rho]
        exact Snd_cmp _ kr (w x t) kr (w' x t) B (by simpa using hclose x t ht)
    all_goals
      simp [F.simplePreds] at hsp
      exact ⟨ih1 hform.1 hsp.1 hc1, ih2 hform.2 hsp.2 hc2⟩
  | tmp1 op φ ih =>
    exact ih hform hsp (fun c h => hc c (by simpa [F.consts] using h))
  | tmp2 op φ ψ ih1 ih2 =>
    simp only [F.isFormula, Bool.and_eq_true] at hform
    simp only [F.simplePreds, Bool.and_eq_true] at hsp
    exact ⟨ih1 hform.1 hsp.1 (fun c h => hc c (by simp [F.consts, h])),
      ih2 hform.2 hsp.2 (fun c h => hc c (by simp [F.consts, h]))⟩
  | tb1 op a b φ ih =>
    exact ih hform hsp (fun c h => hc c (by simpa [F.consts] using h))
  | tb2 op a b φ ψ ih1 ih2 =>
    simp only [F.isFormula, Bool.and_eq_true] at hform
    simp only [F.simplePreds, Bool.and_eq_true] at hsp
    exact ⟨ih1 hform.1 hsp.1 (fun c h => hc c (by simp [F.consts, h])),
      ih2 hform.2 hsp.2 (fun c h => hc c (by simp [F.consts, h]))⟩

/-! ### the theorems -/

theorem C07_pos_sat (φ : F EReal) (hform : φ.isFormula = true) (hnx : φ.noIffXor = true)
    (har : φ.simpleArith = true) (hc : φ.finConsts) (w : String → Nat → ℝ) (n t : Nat)
    (h : 0 < rho (sigOf w) n φ t) : sat (sigOf w) n φ t = true := by
  exact (snd_main (sigOf w) (sigOf w) n _ h (fun _ => True) (fun _ _ _ _ => trivial)
    (fun _ _ => trivial) φ hform hnx (predsAll_arith φ hform har hc w n _ h) t trivial).1 le_rfl

theorem C07_neg_unsat (φ : F EReal) (hform : φ.isFormula = true) (hnx : φ.noIffXor = true)
    (har : φ.simpleArith = true) (hc : φ.finConsts) (w : String → Nat → ℝ) (n t : Nat)
    (h : rho (sigOf w) n φ t < 0) : sat (sigOf w) n φ t = false := by
  have hB : 0 < -rho (sigOf w) n φ t := EReal.neg_pos.2 h
  exact (snd_main (sigOf w) (sigOf w) n _ hB (fun _ => True) (fun _ _ _ _ => trivial)
    (fun _ _ => trivial) φ hform hnx (predsAll_arith φ hform har hc w n _ hB) t trivial).2
    (by rw [neg_neg])

/-- Every trace whose samples all differ from the original by less than `|rho|` gets the
    same verdict at `t`. -/
theorem C07_perturb (φ : F EReal) (hform : φ.isFormula = true) (hnx : φ.noIffXor = true)
    (hsp : φ.simplePreds = true) (hc : φ.finConsts) (w w' : String → Nat → ℝ) (n t : Nat)
    (ht : t < n)
    (hclose : ∀ x s, s < n →
        (((|w' x s - w x s| : ℝ)) : EReal) < Val.abs (rho (sigOf w) n φ t)) :
    sat (sigOf w') n φ t = sat (sigOf w) n φ t := by
  have hB : (0 : EReal) < Val.abs (rho (sigOf w) n φ t) :=
    lt_of_le_of_lt (by exact_mod_cast abs_nonneg (w' "" t - w "" t)) (hclose "" t ht)
  have hV1 : ∀ s s', s < n → s' ≤ s → s' < n := fun s s' h1 h2 => lt_of_le_of_lt h2 h1
  have hV2 : ∀ s', s' < n → s' < n := fun _ h => h
  have h1 := snd_main (sigOf w) (sigOf w') n _ hB (fun s => s < n) hV1 hV2 φ hform hnx
    (predsAll_simple φ hform hsp hc w w' n _ hclose) t ht
  have h2 := snd_main (sigOf w) (sigOf w) n _ hB (fun s => s < n) hV1 hV2 φ hform hnx
    (predsAll_simple φ hform hsp hc w w n _ (fun x s _ => by simpa using hB)) t ht
  have habs : Val.abs (rho (sigOf w) n φ t)
      = max (rho (sigOf w) n φ t) (-rho (sigOf w) n φ t) := rfl
  rcases le_total 0 (rho (sigOf w) n φ t) with h0 | h0
  · have hle : Val.abs (rho (sigOf w) n φ t) ≤ rho (sigOf w) n φ t := by
      rw [habs]
      exact max_le le_rfl (le_trans (EReal.neg_le.1 (by simpa using h0)) h0)
    rw [h1.1 hle, h2.1 hle]
  · have hle : rho (sigOf w) n φ t ≤ -Val.abs (rho (sigOf w) n φ t) := by
      rw [habs, EReal.le_neg]
      exact max_le (le_trans h0 (EReal.le_neg.1 (by simpa using h0))) le_rfl
    rw [h1.2 hle, h2.2 hle]

end Rtamt
