/-
  Infrastructure for `RtamtProofs/GenDenseOn*.lean`: symbolic execution of the sub-language `Rtamt/Py/DnOn.lean` (locals,
  loops with fuel, the layered function table) against the mirror `Rtamt/Dense/AlgOn.lean`.
-/
import Rtamt.Py.RunDnOn

namespace Rtamt.Py.DnOn
open Rtamt Val Rtamt.Dense Rtamt.Dense.Alg

set_option linter.unusedSectionVars false

variable {α : Type} [Val α]

/-! ### the exception monad -/

@[simp] theorem ok_bind {ε σ ρ : Type} (a : σ) (f : σ → Except ε ρ) : (Except.ok a >>= f) = f a := rfl
@[simp] theorem error_bind {ε σ ρ : Type} (e : ε) (f : σ → Except ε ρ) : (Except.error e >>= f) = .error e := rfl
@[simp] theorem pure_eq_ok {ε σ : Type} (a : σ) : (pure a : Except ε σ) = .ok a := rfl
@[simp] theorem ok_map {ε σ ρ : Type} (a : σ) (f : σ → ρ) : f <$> (Except.ok a : Except ε σ) = .ok (f a) := rfl
@[simp] theorem error_map {ε σ ρ : Type} (e : ε) (f : σ → ρ) : f <$> (Except.error e : Except ε σ) = .error e := rfl
@[simp] theorem throw_eq_error {ε σ : Type} (e : ε) : (throw e : Except ε σ) = .error e := rfl

/-! ### the function table -/

theorem callAt_succ (fns : List (String × Fn)) (fuel k : Nat) (f : String) (args : List (DV α)) :
    callAt fns fuel (k + 1) f args =
      (match fns.lookup f with
       | some fn => runFn (callAt fns fuel k) fuel fn args
       | none => builtin f args) := rfl

theorem callAt_builtin (fns : List (String × Fn)) (fuel k : Nat) (f : String) (args : List (DV α))
    (h : fns.lookup f = none) : callAt fns fuel k f args = builtin f args := by
  cases k with
  | zero => rfl
  | succ k => rw [callAt_succ, h]

theorem callAt_fn (fns : List (String × Fn)) (fuel k : Nat) (f : String) (fn : Fn) (args : List (DV α))
    (h : fns.lookup f = some fn) : callAt fns fuel (k + 1) f args = runFn (callAt fns fuel k) fuel fn args := by
  rw [callAt_succ, h]

/-! ### locals -/

theorem lookup_setLoc_same {β : Type} (k : String) (v : β) (env : List (String × β)) :
    (setLoc k v env).lookup k = some v := by
  induction env with
  | nil => simp [setLoc, List.lookup_cons]
  | cons p env ih =>
      obtain ⟨k', v'⟩ := p
      unfold setLoc
      cases h : (k' == k) with
      | true => simp [List.lookup_cons]
      | false =>
          have h' : (k == k') = false := by
            rw [beq_eq_false_iff_ne] at h ⊢
            exact fun e => h e.symm
          simp [List.lookup_cons, h', ih]

theorem lookup_setLoc_ne {β : Type} (k k' : String) (v : β) (env : List (String × β)) (hne : k ≠ k') :
    (setLoc k' v env).lookup k = env.lookup k := by
  have hkk : (k == k') = false := by rw [beq_eq_false_iff_ne]; exact hne
  induction env with
  | nil => simp [setLoc, List.lookup_cons, hkk]
  | cons p env ih =>
      obtain ⟨k'', v''⟩ := p
      unfold setLoc
      cases h : (k'' == k') with
      | true =>
          have e : k'' = k' := by simpa using h
          subst e
          simp [List.lookup_cons, hkk]
      | false =>
          cases h2 : (k == k'') with
          | true => simp [List.lookup_cons, h2]
          | false => simp [List.lookup_cons, h2, ih]

@[simp] theorem getLoc_setLoc_same (k : String) (v : DV α) (env : Env α) : getLoc k (setLoc k v env) = .ok v := by
  unfold getLoc; rw [lookup_setLoc_same]

theorem getLoc_setLoc_ne (k k' : String) (v : DV α) (env : Env α) (hne : k ≠ k') :
    getLoc k (setLoc k' v env) = getLoc k env := by
  unfold getLoc; rw [lookup_setLoc_ne _ _ _ _ hne]

/-- the form `simp` uses: the comparison of two string literals is decided by the simproc `String.reduceEq` -/
@[simp] theorem getLoc_setLoc (k k' : String) (v : DV α) (env : Env α) :
    getLoc k (setLoc k' v env) = if k = k' then .ok v else getLoc k env := by
  by_cases h : k = k'
  · subst h; simp
  · simp [h, getLoc_setLoc_ne _ _ _ _ h]

@[simp] theorem getLoc_cons (k k' : String) (v : DV α) (env : Env α) :
    getLoc k ((k', v) :: env) = if k = k' then .ok v else getLoc k env := by
  unfold getLoc
  by_cases h : k = k'
  · subst h; simp [List.lookup_cons]
  · have : (k == k') = false := by rw [beq_eq_false_iff_ne]; exact h
    simp [List.lookup_cons, this, h]

@[simp] theorem getLoc_nil (k : String) : getLoc k ([] : Env α) = .error .key := rfl

@[simp] theorem resolve_setLoc (f k' : String) (v : DV α) (env : Env α) :
    resolve (setLoc k' v env) f = if f = k' then (match v with | .fn g => g | _ => f) else resolve env f := by
  unfold resolve
  by_cases h : f = k'
  · subst h; rw [lookup_setLoc_same]; cases v <;> simp
  · rw [lookup_setLoc_ne _ _ _ _ h]; simp [h]

theorem resolve_setLoc_ne (f k' : String) (v : DV α) (env : Env α) (hne : f ≠ k') :
    resolve (setLoc k' v env) f = resolve env f := by
  unfold resolve; rw [lookup_setLoc_ne _ _ _ _ hne]

/-! ### loops -/

/-! (loops) -/
theorem whileLoop_succ (cond : Env α → Except PyErr Bool) (body : Env α → Except PyErr (Res α)) (fuel : Nat)
    (env : Env α) :
    whileLoop cond body (fuel + 1) env = (do
      if (← cond env) then
        let (env', r) ← body env
        match r with
        | .ret v => pure (env', .ret v)
        | .brk => pure (env', .none)
        | .none => whileLoop cond body fuel env'
      else pure (env, .none)) := rfl

/-- One iteration that neither returns, breaks nor raises. -/
theorem whileLoop_step (cond : Env α → Except PyErr Bool) (body : Env α → Except PyErr (Res α)) (fuel : Nat)
    (env env' : Env α) (hc : cond env = .ok true) (hb : body env = .ok (env', .none)) :
    whileLoop cond body (fuel + 1) env = whileLoop cond body fuel env' := by
  rw [whileLoop_succ, hc]; simp [hb]

/-- An iteration that ends with `break`. -/
theorem whileLoop_break (cond : Env α → Except PyErr Bool) (body : Env α → Except PyErr (Res α)) (fuel : Nat)
    (env env' : Env α) (hc : cond env = .ok true) (hb : body env = .ok (env', .brk)) :
    whileLoop cond body (fuel + 1) env = .ok (env', .none) := by
  rw [whileLoop_succ, hc]; simp [hb]

theorem whileLoop_done (cond : Env α → Except PyErr Bool) (body : Env α → Except PyErr (Res α)) (fuel : Nat)
    (env : Env α) (hc : cond env = .ok false) :
    whileLoop cond body (fuel + 1) env = .ok (env, .none) := by
  rw [whileLoop_succ, hc]; simp

theorem whileLoop_raise (cond : Env α → Except PyErr Bool) (body : Env α → Except PyErr (Res α)) (fuel : Nat)
    (env : Env α) (e : PyErr) (hc : cond env = .ok true) (hb : body env = .error e) :
    whileLoop cond body (fuel + 1) env = .error e := by
  rw [whileLoop_succ, hc]; simp [hb]

@[simp] theorem forLoop_nil (bind : DV α × Nat → Env α → Env α) (body : Env α → Except PyErr (Res α)) (env : Env α) :
    forLoop bind body [] env = .ok (env, .none) := rfl

theorem forLoop_cons (bind : DV α × Nat → Env α → Env α) (body : Env α → Except PyErr (Res α))
    (it : DV α × Nat) (rest : List (DV α × Nat)) (env : Env α) :
    forLoop bind body (it :: rest) env = (do
      let (env', r) ← body (bind it env)
      match r with
      | .ret v => pure (env', .ret v)
      | .brk => pure (env', .none)
      | .none => forLoop bind body rest env') := rfl

/-! ### encodings -/

@[simp] theorem decSig_encSig (s : ASig α) : decSig (encSig s) = some s := by
  unfold decSig encSig
  simp only
  induction s with
  | nil => rfl
  | cons p s ih =>
      simp only [List.map_cons, List.mapM_cons, encSmp] at ih ⊢
      simp [ih]

/-- a sample list with payloads of any type (`intersection` is used with values, with the pairs of `split`, …) -/
def encSigP {β : Type} (encP : β → DV α) (o : List (Tm × β)) : DV α := .list (o.map (fun p => .smp p.1 (encP p.2)))

theorem encSigP_val (s : ASig α) : encSigP (fun x : α => DV.val x) s = encSig s := rfl

/-- the pairs `intersect.split` builds -/
def encPair (p : α × α) : DV α := .pair (.val p.1) (.val p.2)

open Rtamt.Dense.AlgOn in
/-- the pending sample `last` of the online intersection: `[]` or `[t, v]` -/
def encLast {β : Type} (encP : β → DV α) : Rtamt.Dense.AlgOn.Last β → DV α
  | .nil => .list []
  | .item t v => .smp t (encP v)

/-- `self.last_output` / `self.last` of the operation classes: `[]` or a sample -/
def encOptSmp : Option (Tm × α) → DV α
  | none => .list []
  | some p => encSmp p

/-- What `RtamtProofs/GenDenseOnInter.lean` proves about the translated online `intersection` (stated here so that the files
    about the operation classes do not depend on that proof): the call returns the 4-tuple `(out_samples, last, remainder_1,
    remainder_2)` the mirror `interOn f ne` computes - or raises what the mirror raises. -/
def InterOnSpec (α : Type) [Val α] (fuel k : Nat) : Prop :=
  ∀ (β : Type) (encP : β → DV α) (f : α → α → β) (ne : β → β → Bool) (m : String),
    (∀ a b, callAt Gen.DenseOn.fns fuel (k + 1) m [.val a, .val b] = .ok (encP (f a b))) →
    (∀ x, toPayload (encP x) = .ok (encP x)) →
    (∀ x y, cmpDV .ne (encP x) (encP y) = .ok (ne x y)) →
    ∀ (s1 s2 : ASig α), 2 * (s1.length + s2.length) + 4 ≤ fuel →
      match Rtamt.Dense.AlgOn.interOn f ne s1 s2 with
      | .ok (out, last, r1, r2) =>
          callAt Gen.DenseOn.fns fuel (k + 2) "intersection" [encSig s1, encSig s2, .fn m]
            = .ok (.list [encSigP encP out, encLast encP last, encSig r1, encSig r2])
      | .error e => callAt Gen.DenseOn.fns fuel (k + 2) "intersection" [encSig s1, encSig s2, .fn m] = .error e

end Rtamt.Py.DnOn
