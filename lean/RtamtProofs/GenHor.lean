/-
  The horizon visitor as translated from the Python source denotes `hor?`: it returns the horizon of a
  specification without unbounded future operator and raises RTAMTException otherwise.
-/
import Rtamt.Py.RunHor
import Rtamt.Generated
import RtamtProofs.GenOps

namespace Rtamt.Py
open Rtamt Val

variable {α : Type} [Val α]

/-- The methods found in the two horizon classes are exactly the node classes the regenerated table marks as overridden. -/
theorem genHor_table (k : Kind) :
    (lookupH k).isSome = (Generated.horizon.handles k || Generated.horizon.raises k) := by
  cases k <;> rfl

/-! ### the shapes of the translated methods, run on arbitrary horizons of the children -/

macro "hor_simp" : tactic =>
  `(tactic| simp [callHor, exec, evalE, evalBin, coerce, getKey, setKey, List.lookup, bind, Except.bind,
      pure, Except.pure, throw, throwThe, MonadExceptOf.throw, lookup_setKey_same])

/-- `return 0` (variables and constants). -/
theorem callHor_zero (nm : String) :
    callHor (α := α) ⟨nm, [], false, .setLoc "out" (.int 0), some (.loc "out")⟩ [] [] = .ok 0 := by
  hor_simp

/-- `return self.visit(child)`. -/
theorem callHor_id (nm : String) (a : Int) (ex : Store α) :
    callHor (α := α) ⟨nm, ["op_horizon"], false, .skip, some (.loc "op_horizon")⟩ [a] ex = .ok a := by
  hor_simp

/-- `return self.visit(child) + 1`. -/
theorem callHor_succ (nm : String) (a : Int) (ex : Store α) :
    callHor (α := α) ⟨nm, ["op_horizon"], false, .skip, some (.bin .add (.loc "op_horizon") (.int 1))⟩ [a] ex
      = .ok (a + 1) := by
  hor_simp

/-- `return max(self.visit(child 0), self.visit(child 1))`. -/
theorem callHor_max (nm : String) (a b : Int) (ex : Store α) :
    callHor (α := α) ⟨nm, ["op1_horizon", "op2_horizon"], false,
      .setLoc "out" (.bin .max (.loc "op1_horizon") (.loc "op2_horizon")), some (.loc "out")⟩ [a, b] ex
      = .ok (if a < b then b else a) := by
  hor_simp

/-- `return self.visit(child) + end`. -/
theorem callHor_addEnd (nm : String) (a : Int) (x e : Int) :
    callHor (α := α) ⟨nm, ["op_horizon"], false, .skip, some (.bin .add (.loc "op_horizon") (.loc "$end"))⟩ [a]
      [("$begin", .int x), ("$end", .int e)] = .ok (a + e) := by
  hor_simp

/-- `return max(..) + end`. -/
theorem callHor_maxAddEnd (nm : String) (a b : Int) (x e : Int) :
    callHor (α := α) ⟨nm, ["op1_horizon", "op2_horizon"], false,
      .setLoc "out" (.bin .add (.bin .max (.loc "op1_horizon") (.loc "op2_horizon")) (.loc "$end")),
      some (.loc "out")⟩ [a, b] [("$begin", .int x), ("$end", .int e)]
      = .ok ((if a < b then b else a) + e) := by
  hor_simp

/-- `raise RTAMTException(..)`. -/
theorem callHor_raise (nm : String) (ex : Store α) :
    callHor (α := α) ⟨nm, [], false, .raise .rtamt, none⟩ [] ex = .error .rtamt := by
  hor_simp

/-! ### the dispatch -/

theorem lookupH_un (op : Un) : ∃ nm, lookupH op.kind =
    some ⟨nm, ["op_horizon"], false, .skip, some (.loc "op_horizon")⟩ := by
  cases op <;> exact ⟨_, rfl⟩

theorem lookupH_bin (op : Bin) : ∃ nm, lookupH op.kind =
    some ⟨nm, ["op1_horizon", "op2_horizon"], false,
      .setLoc "out" (.bin .max (.loc "op1_horizon") (.loc "op2_horizon")), some (.loc "out")⟩ := by
  cases op <;> exact ⟨_, rfl⟩

theorem ite_natCast_max (a b : Nat) : (if a < b then (b : Int) else (a : Int)) = ((max a b : Nat) : Int) := by
  split <;> omega

/-- One operand: dispatch (`lookupH k = some m` by evaluation of the table), the child's result, the method. -/
local macro "hor_case1" k:term "," m:ident "," ih:ident : tactic =>
  `(tactic| (simp only [horG, hor?, $ih:ident, show lookupH $k = some $m from rfl, $m:ident]
             cases hor? _ <;> simp [callHor_id, callHor_succ, callHor_addEnd, bind, Except.bind]))

/-- Two operands. -/
local macro "hor_case2" k:term "," m:ident "," ih1:ident "," ih2:ident : tactic =>
  `(tactic| (simp only [horG, hor?, $ih1:ident, $ih2:ident, show lookupH $k = some $m from rfl, $m:ident]
             cases hor? _ <;> cases hor? _ <;>
               simp [callHor_max, callHor_maxAddEnd, ite_natCast_max, bind, Except.bind]))

/-- The translated horizon visitor computes `hor?`; RTAMTException exactly when `hor?` is undefined. -/
theorem genHor_eval (φ : F α) :
    horG φ = (match hor? φ with | some h => .ok (h : Int) | none => .error .rtamt) := by
  induction φ with
  | var x => exact callHor_zero _
  | const c => exact callHor_zero _
  | un op φ ih =>
    obtain ⟨nm, h⟩ := lookupH_un op
    simp only [horG, h, hor?, ih]
    cases hor? φ <;> simp [callHor_id, bind, Except.bind]
  | bin op φ ψ ih1 ih2 =>
    obtain ⟨nm, h⟩ := lookupH_bin op
    simp only [horG, h, hor?, ih1, ih2]
    cases hor? φ <;> cases hor? ψ <;> simp [callHor_max, ite_natCast_max, bind, Except.bind]
  | tmp1 op φ ih =>
    cases op with
    | ev => exact callHor_raise _ _
    | alw => exact callHor_raise _ _
    | next => hor_case1 T1.next.kind, Gen.Hor.visitNext, ih
    | snext => hor_case1 T1.snext.kind, Gen.Hor.visitStrongNext, ih
    | rise => hor_case1 T1.rise.kind, Gen.Hor.visitRise, ih
    | fall => hor_case1 T1.fall.kind, Gen.Hor.visitFall, ih
    | prev => hor_case1 T1.prev.kind, Gen.Hor.visitPrevious, ih
    | sprev => hor_case1 T1.sprev.kind, Gen.Hor.visitStrongPrevious, ih
    | once => hor_case1 T1.once.kind, Gen.Hor.visitOnce, ih
    | hist => hor_case1 T1.hist.kind, Gen.Hor.visitHistorically, ih
  | tmp2 op φ ψ ih1 ih2 =>
    cases op with
    | «until» => exact callHor_raise _ _
    | since => hor_case2 T2.since.kind, Gen.Hor.visitSince, ih1, ih2
  | tb1 op a b φ ih =>
    cases op with
    | once => hor_case1 TB1.once.kind, Gen.Hor.visitTimedOnce, ih
    | hist => hor_case1 TB1.hist.kind, Gen.Hor.visitTimedHistorically, ih
    | ev => hor_case1 TB1.ev.kind, Gen.Hor.visitTimedEventually, ih
    | alw => hor_case1 TB1.alw.kind, Gen.Hor.visitTimedAlways, ih
  | tb2 op a b φ ψ ih1 ih2 =>
    cases op with
    | since => hor_case2 TB2.since.kind, Gen.Hor.visitTimedSince, ih1, ih2
    | «until» => hor_case2 TB2.until.kind, Gen.Hor.visitTimedUntil, ih1, ih2
    | precedes => hor_case2 TB2.precedes.kind, Gen.Hor.visitTimedPrecedes, ih1, ih2

end Rtamt.Py
